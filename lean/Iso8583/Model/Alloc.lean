/-
Ghost allocation log of a whole nested unpack (C04, "allocation proportional to the input").

`Field.unpackAllocs f data` lists every size requested while `Field.unpack f data` runs, in
execution order: the field's own length-prefix decode, every tag decode and unknown-tag
length decode of the TLV loop, a bitmapped composite's bitmap unpack, and — recursively, on
the sub-slice it was given — every subfield unpack. It stops where the unpack stops (what
was requested before an error is in the log). `MsgSpec.unpackAllocs` is the same for
`Message.Unpack` (MTI, bitmap, the `scan` loop).

The functions mirror the control flow of `Field.unpack` / `MsgSpec.unpack` (Model/Field.lean,
Model/Message.lean) branch by branch: the same mutual structural recursion over the spec
tree, the same fuel-indexed loops with the same fuel, the real unpack functions deciding
every branch. They are ghost: nothing in the model depends on them.

The per-call logs `Enc.decodeAllocs`, `Pref.decodeAllocs`, `PrimSpec.unpackAllocs` live in
Lemmas/NoPanic.lean (that is why this model file imports a lemma file; it is not part of the
driver executable).

Bitmap chain. `Bitmap.loopAllocs` of Lemmas/NoPanic.lean charges every
`f.data = append(f.data, decoded...)` as a fresh allocation of the whole new length. That is
right for a per-request bound and wrong for a sum: it is quadratic in the number of blocks of
an auto-expanding chain (`C04Alloc.bitmap_perAppend_log_quadratic_witness`), whereas Go's
`append` reallocates only when the capacity is exceeded. `Bitmap.loopAllocsA` is the
amortised log: it tracks the capacity and logs a request only when `append` has to grow the
slice, of the size the runtime's growth rule asks for — `growCap`: the new length if that is
more than twice the old capacity, else twice the old capacity. MODELLING ASSUMPTION: that is
Go's `growslice` rule for capacities below 256 elements (every bitmap of up to 32 eight-byte
blocks); above, the runtime grows by 1.25× + 192, also geometric; the rounding of the
request up to a malloc size class is ignored (as in every other ghost log: a log entry is
the size asked for).
-/
import Iso8583.Lemmas.NoPanic

namespace Iso8583

/-! ### bitmap chain, amortised -/

namespace Bitmap

/-- capacity of a slice of capacity `cap` after an `append` that makes its length `newLen` -/
def growCap (cap newLen : Nat) : Nat :=
  if newLen ≤ cap then cap else if newLen > 2 * cap then newLen else 2 * cap

/-- what that `append` requests: nothing while the capacity suffices -/
def growAllocs (cap newLen : Nat) : List Nat :=
  if newLen ≤ cap then [] else [growCap cap newLen]

/-- sizes requested by the bitmap chain (`Bitmap.unpackLoop`): per iteration the decoder's,
then the growth of `f.data` (capacity `cap`, initially 0: `f.data = make([]byte, 0)`) -/
def loopAllocsA (enc : Enc) (minLen : Nat) (auto : Bool) : Nat → Bytes → Bytes → Nat → List Nat
  | 0, _, _, _ => []
  | fuel + 1, rest, acc, cap =>
    Enc.decodeAllocs enc rest minLen ++
    match Enc.decode enc rest minLen with
    | .ok (decoded, r) =>
      growAllocs cap (acc.length + decoded.length) ++
        (match decoded with
         | [] => []
         | first :: _ =>
           if !auto || first.toNat < 128 then []
           else loopAllocsA enc minLen auto fuel (rest.drop r) (acc ++ decoded)
                  (growCap cap (acc.length + decoded.length)))
    | _ => []

/-- sizes requested by `Bitmap.unpack enc pref bm data` -/
def unpackAllocsA (enc : Enc) (pref : Pref) (bm : Bitmap) (data : Bytes) : List Nat :=
  pref.decodeAllocs data ++
  match Pref.decodeLength pref bm.blockLen data with
  | .ok (minLen, _) => loopAllocsA enc minLen bm.auto (data.length + 1) data [] 0
  | _ => []

end Bitmap

/-! ### the composite loops, generic in the dispatcher and its log -/

/-- sizes requested by `tlvLoop` (same arguments, same fuel; the accumulator does not
influence the control flow): per element the tag decode, then either the unknown-tag
length decode or the dispatched subfield's log -/
def tlvLoopAllocs (t : TagSpec) (enc : Enc) (isBer : Bool)
    (known : Tag → Bool) (dispatch : Tag → Bytes → UR (Value × Nat))
    (dispatchAllocs : Tag → Bytes → List Nat) :
    Nat → Bytes → Nat → List Nat
  | 0, _, _ => []
  | fuel + 1, data, offset =>
    if offset ≥ data.length then []
    else
      Enc.decodeAllocs enc (data.drop offset) t.len ++
      match Enc.decode enc (data.drop offset) t.len with
      | .err => []
      | .panic => []
      | .ok (tagBytes, read) =>
        let offset := offset + read
        let tag := t.pad.unpad tagBytes
        if !(known tag) then
          if t.skipUnknown && (isBer || t.prefUnknown.isSome) then
            let (pref, maxLen) := match t.prefUnknown with
              | some p => (p, maxInt)
              | none => (Pref.berTLV, 0)
            if offset > data.length then []
            else
            pref.decodeAllocs (data.drop offset) ++
            match pref.decodeLength maxLen (data.drop offset) with
            | .err => []
            | .panic => []
            | .ok (fieldLength, read) =>
              if fieldLength > data.length - offset - read ∨ offset + read > data.length then []
              else tlvLoopAllocs t enc isBer known dispatch dispatchAllocs fuel data (offset + fieldLength + read)
          else []
        else
          if offset > data.length then []
          else
          dispatchAllocs tag (data.drop offset) ++
          match dispatch tag (data.drop offset) with
          | .err _ => []
          | .panic => []
          | .ok (_, read') =>
            if read = 0 ∧ read' = 0 then []
            else tlvLoopAllocs t enc isBer known dispatch dispatchAllocs fuel data (offset + read')

/-- sizes requested by `bitmapScan`: the log of every subfield whose bit is set -/
def bitmapScanAllocs (bm : Bitmap) (dispatch : Tag → Bytes → Option (UR (Value × Nat)))
    (dispatchAllocs : Tag → Bytes → List Nat) :
    Nat → Nat → Bytes → Nat → List Nat
  | 0, _, _, _ => []
  | remaining + 1, i, data, off =>
    if bm.isSet i then
      let iStr := natToDec i
      if off > data.length then []
      else
      dispatchAllocs iStr (data.drop off) ++
      match dispatch iStr (data.drop off) with
      | some (.ok (_, read)) => bitmapScanAllocs bm dispatch dispatchAllocs remaining (i + 1) data (off + read)
      | _ => []
    else bitmapScanAllocs bm dispatch dispatchAllocs remaining (i + 1) data off

/-! ### fields -/

mutual

/-- **the allocation log of `Field.unpack f data`** -/
def Field.unpackAllocs : Field → Bytes → List Nat
  | .prim s, data => s.unpackAllocs data
  | .comp s subs, data =>
    s.pref.decodeAllocs data ++
    match s.pref.decodeLength s.len data with
    | .err => []
    | .panic => []
    | .ok (dataLen, offset) =>
      let isVar := offset != 0
      if offset > data.length then []
      else if dataLen > data.length - offset then []
      else
        let body := (data.drop offset).take dataLen
        match s.mode with
        | .bitmapped b =>
          Bitmap.unpackAllocsA b.enc b.pref (Bitmap.reset b.specLen b.auto) body ++
          match Bitmap.unpack b.enc b.pref (Bitmap.reset b.specLen b.auto) body with
          | .err => []
          | .panic => []
          | .ok (bm, read) =>
            bitmapScanAllocs bm (fun tag d => unpackTaggedOpt subs tag d)
              (fun tag d => unpackTaggedAllocs subs tag d) bm.len 1 body read
        | .tagged t =>
          match t.enc with
          | some enc =>
            tlvLoopAllocs t enc (enc == Enc.berTag) (lookupField subs) (fun tag d => unpackTagged subs tag d)
              (fun tag d => unpackTaggedAllocs subs tag d) (body.length + 1) body 0
          | none => unpackPositionalAllocs subs body isVar 0

/-- the log of `unpackTagged subs tag data` / `unpackTaggedOpt subs tag data`: the log of
the subfield spec of `tag` (nothing if there is none) -/
def unpackTaggedAllocs : List (Tag × Field) → Tag → Bytes → List Nat
  | [], _, _ => []
  | (k, f) :: rest, tag, data => if k = tag then f.unpackAllocs data else unpackTaggedAllocs rest tag data

/-- the log of `unpackPositional subs data isVar offset _` -/
def unpackPositionalAllocs : List (Tag × Field) → Bytes → Bool → Nat → List Nat
  | [], _, _, _ => []
  | (_, f) :: rest, data, isVar, offset =>
    if offset > data.length then []
    else
    f.unpackAllocs (data.drop offset) ++
    match f.unpack (data.drop offset) with
    | .err _ => []
    | .panic => []
    | .ok (_, read) =>
      if isVar && offset + read ≥ data.length then []
      else unpackPositionalAllocs rest data isVar (offset + read)

end

/-- the log of `compBody mode subs body isVar` (Model/SetBytes.lean): what a composite
requests on its length-delimited body, in its mode — the expression `Field.unpackAllocs`
runs after the composite's own length prefix (`Field.unpackAllocs_comp` in Lemmas/Alloc.lean) -/
def compBodyAllocs (mode : Mode) (subs : List (Tag × Field)) (body : Bytes) (isVar : Bool) : List Nat :=
  match mode with
  | .bitmapped b =>
    Bitmap.unpackAllocsA b.enc b.pref (Bitmap.reset b.specLen b.auto) body ++
    match Bitmap.unpack b.enc b.pref (Bitmap.reset b.specLen b.auto) body with
    | .err => []
    | .panic => []
    | .ok (bm, read) =>
      bitmapScanAllocs bm (fun tag d => unpackTaggedOpt subs tag d)
        (fun tag d => unpackTaggedAllocs subs tag d) bm.len 1 body read
  | .tagged t =>
    match t.enc with
    | some enc =>
      tlvLoopAllocs t enc (enc == Enc.berTag) (lookupField subs) (fun tag d => unpackTagged subs tag d)
        (fun tag d => unpackTaggedAllocs subs tag d) (body.length + 1) body 0
    | none => unpackPositionalAllocs subs body isVar 0

/-! ### spec size and the side condition on prefixers -/

mutual

/-- number of nodes of the spec tree -/
def Field.size : Field → Nat
  | .prim _ => 1
  | .comp _ subs => 1 + Field.sizeList subs

def Field.sizeList : List (Tag × Field) → Nat
  | [] => 0
  | (_, f) :: rest => f.size + Field.sizeList rest

end

namespace Pref

/-- not the binary prefixer with digit count 0. In the model `Pref.var .binary 0` reads no
byte, announces length 0 and still requests its 8-byte conversion buffer: the only request
in the whole library model that is paid for by no input byte. It is not a prefixer of
package `prefix` (digit counts 1..6, `C06.exported_var_digits`). -/
def posBinary : Pref → Bool
  | .var .binary 0 => false
  | _ => true

/-- a variable prefixer has at most 42 digits (the exported ones: at most 6), so that one
prefix decode requests at most 127 bytes — what the BER length prefix may request -/
def shortDigits : Pref → Bool
  | .var _ d => decide (d ≤ 42)
  | _ => true

end Pref

mutual

/-- the side condition of the linear bound, over the whole spec tree: no field prefixer and
no unknown-tag prefixer is `Pref.var .binary 0`; a *bitmap* prefixer (its bytes are read
again as bitmap data) is not a variable prefixer of more than 42 digits -/
def Field.allocOK : Field → Bool
  | .prim s => s.pref.posBinary
  | .comp s subs =>
    s.pref.posBinary &&
    (match s.mode with
     | .bitmapped b => b.pref.shortDigits
     | .tagged t => match t.prefUnknown with
       | some p => p.posBinary
       | none => true) &&
    Field.allocOKList subs

def Field.allocOKList : List (Tag × Field) → Bool
  | [] => true
  | (_, f) :: rest => f.allocOK && Field.allocOKList rest

end

/-! ### messages -/

namespace MsgSpec

/-- the log of `scan`: only SET bits decode a field -/
def scanAllocs (spec : MsgSpec) (bm : Bitmap) : Nat → Nat → Bytes → Nat → List Nat
  | 0, _, _, _ => []
  | remaining + 1, i, src, off =>
    if bm.isPresenceBit i then scanAllocs spec bm remaining (i + 1) src off
    else if bm.isSet i then
      match lookupId i spec.fields with
      | none => []
      | some f =>
        if off > src.length then []
        else
        f.unpackAllocs (src.drop off) ++
        match f.unpack (src.drop off) with
        | .err _ => []
        | .panic => []
        | .ok (_, read) => scanAllocs spec bm remaining (i + 1) src (off + read)
    else scanAllocs spec bm remaining (i + 1) src off

/-- **the allocation log of `MsgSpec.unpack spec src`** -/
def unpackAllocs (spec : MsgSpec) (src : Bytes) : List Nat :=
  spec.mti.unpackAllocs src ++
  match spec.mti.unpack src with
  | .err => []
  | .panic => []
  | .ok (_, read) =>
    if read > src.length then []
    else
    Bitmap.unpackAllocsA spec.bitmap.enc spec.bitmap.pref
      (Bitmap.reset spec.bitmap.specLen spec.bitmap.auto) (src.drop read) ++
    match Bitmap.unpack spec.bitmap.enc spec.bitmap.pref
        (Bitmap.reset spec.bitmap.specLen spec.bitmap.auto) (src.drop read) with
    | .err => []
    | .panic => []
    | .ok (bm, bread) => scanAllocs spec bm (bm.len - 1) 2 src (read + bread)

/-- number of nodes of the message spec: MTI, bitmap, and the data elements' trees -/
def size (spec : MsgSpec) : Nat := 2 + (spec.fields.map (fun p => p.2.size)).sum

def allocOK (spec : MsgSpec) : Bool :=
  spec.mti.pref.posBinary && spec.bitmap.pref.shortDigits && spec.fields.all (fun p => p.2.allocOK)

end MsgSpec

end Iso8583
