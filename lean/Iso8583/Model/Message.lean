/-
Model of /repo/message.go: Message.pack / Message.unpack (after the `fix:` commits).
-/
import Iso8583.Model.Sort

namespace Iso8583

structure MsgSpec where
  mti : PrimSpec
  bitmap : BitmapSpec
  /-- data elements, ids ≥ 2 -/
  fields : List (Nat × Field)
deriving Repr, Inhabited

/-- logical content of a message: the MTI (if set) and the set data elements -/
structure Msg where
  mti : Option Value
  fields : List (Nat × Value)
deriving Repr, Inhabited

def lookupId {α : Type} (i : Nat) : List (Nat × α) → Option α
  | [] => none
  | (k, v) :: rest => if k = i then some v else lookupId i rest

namespace MsgSpec

/-- first loop of `pack`: one bit per populated id ≥ 2 that is not a continuation bit;
an id the bitmap can not represent is an error -/
def setBits : List Nat → Bitmap → Res Bitmap
  | [], bm => .ok bm
  | id :: rest, bm =>
    if id < 2 || bm.isPresenceBit id then setBits rest bm
    else
      let bm' := bm.set id
      if !(bm'.isSet id) then .err else setBits rest bm'

/-- second loop of `pack` over the ids ≥ 2 in ascending order -/
def packFields (spec : MsgSpec) (bm : Bitmap) : List (Nat × Value) → Res Bytes
  | [] => .ok []
  | (i, v) :: rest =>
    if bm.isPresenceBit i then packFields spec bm rest
    else
      match lookupId i spec.fields with
      | none => .err
      | some f =>
        match f.pack v with
        | .ok b =>
          match packFields spec bm rest with
          | .ok more => .ok (b ++ more)
          | .err => .err
          | .panic => .panic
        | .err => .err
        | .panic => .panic

/-- `Message.Pack` on a message whose logical content is `m` -/
def pack (spec : MsgSpec) (m : Msg) : Res Bytes :=
  let sorted := sortBy (fun a b => decide (a.1 < b.1)) m.fields
  match setBits (sorted.map (·.1)) (Bitmap.reset spec.bitmap.specLen spec.bitmap.auto) with
  | .err => .err
  | .panic => .panic
  | .ok bm =>
    let mtiBytes : Res Bytes := match m.mti with
      | some v => spec.mti.pack v
      | none => .ok []
    match mtiBytes with
    | .err => .err
    | .panic => .panic
    | .ok mb =>
      match bm.pack spec.bitmap.enc with
      | .err => .err
      | .panic => .panic
      | .ok bb =>
        match packFields spec bm sorted with
        | .ok fb => .ok (mb ++ bb ++ fb)
        | .err => .err
        | .panic => .panic

/-- the `for i := 2; i <= Len; i++` scan of `unpack` -/
def scan (spec : MsgSpec) (bm : Bitmap) :
    Nat → Nat → Bytes → Nat → List (Nat × Value) → UR (List (Nat × Value) × Nat)
  | 0, _, _, off, acc => .ok (acc, off)
  | remaining + 1, i, src, off, acc =>
    if bm.isPresenceBit i then scan spec bm remaining (i + 1) src off acc
    else if bm.isSet i then
      match lookupId i spec.fields with
      | none => .err [natToDec i]
      | some f =>
        if off > src.length then .panic
        else
        match f.unpack (src.drop off) with
        | .err p => .err (natToDec i :: p)
        | .panic => .panic
        | .ok (v, read) => scan spec bm remaining (i + 1) src (off + read) (acc ++ [(i, v)])
    else scan spec bm remaining (i + 1) src off acc

/-- `Message.Unpack`: the content and the number of bytes consumed; an error carries
`UnpackError.FieldIDs()` -/
def unpack (spec : MsgSpec) (src : Bytes) : UR (Msg × Nat) :=
  match spec.mti.unpack src with
  | .err => .err [natToDec 0]
  | .panic => .panic
  | .ok (mtiV, read) =>
    if read > src.length then .panic
    else
    match Bitmap.unpack spec.bitmap.enc spec.bitmap.pref
        (Bitmap.reset spec.bitmap.specLen spec.bitmap.auto) (src.drop read) with
    | .err => .err [natToDec 1]
    | .panic => .panic
    | .ok (bm, bread) =>
      match scan spec bm (bm.len - 1) 2 src (read + bread) [] with
      | .err p => .err p
      | .panic => .panic
      | .ok (fields, off) => .ok ({ mti := some mtiV, fields := fields }, off)

end MsgSpec
end Iso8583
