/-
Model of /repo/encoding/*.go (after the `fix:` commits for BCD/LBCD/hex decode).
Each function mirrors one Go method; see DESIGN.md §4 C07.
-/
import Iso8583.Basic
import Iso8583.Gen.EbcdicTables
import Iso8583.Gen.Cp1047

namespace Iso8583

inductive Enc where
  | ascii | ebcdic | ebcdic1047 | binary | bcd | lbcd
  | bytesToHex   -- encoding.BytesToASCIIHex
  | hexToBytes   -- encoding.ASCIIHexToBytes
  | berTag       -- encoding.BerTLVTag
deriving Repr, DecidableEq, Inhabited

namespace Enc

def tbl (t : List Nat) (x : Byte) : Byte := UInt8.ofNat (t.getD x.toNat 0)

/-! #### ASCII -/
def asciiOK (bs : Bytes) : Bool := bs.all (fun x => x.toNat ≤ 127)

/-! #### BCD (yerden/go-util/bcd, Standard table, filler 0xF) -/

/-- nibble of an ASCII digit; `none` = `ErrBadInput` -/
def nib? (c : Byte) : Option Nat := decVal? c

/-- pack an even-length digit string two digits per byte, high nibble first -/
def bcdPack : Bytes → Option Bytes
  | [] => some []
  | [_] => none   -- unreachable for even input; the callers make the length even first
  | c1 :: c2 :: rest =>
    match nib? c1, nib? c2, bcdPack rest with
    | some h, some l, some bs => some (UInt8.ofNat (h * 16 + l) :: bs)
    | _, _, _ => none

/-- unpack bytes into ASCII digits; any nibble > 9 is an error. (A filler low nibble
`0xF` is accepted by the library for the *last* byte only and yields one digit; the
fixed decoders reject that outcome, so every non-decimal nibble is an error here.) -/
def bcdUnpack : Bytes → Option Bytes
  | [] => some []
  | x :: rest =>
    let h := x.toNat / 16
    let l := x.toNat % 16
    if h ≤ 9 ∧ l ≤ 9 then
      (bcdUnpack rest).map (fun ds => asciiDigit h :: asciiDigit l :: ds)
    else none

/-! #### hex -/
def hexEncodeUpper (bs : Bytes) : Bytes :=
  bs.flatMap (fun x => [hexDigitUpper (x.toNat / 16), hexDigitUpper (x.toNat % 16)])

/-- `hex.Decode`: pairs of hex digits, either case; odd length or a bad digit is an error -/
def hexDecode : Bytes → Option Bytes
  | [] => some []
  | [_] => none
  | c1 :: c2 :: rest =>
    match hexVal? c1, hexVal? c2, hexDecode rest with
    | some h, some l, some bs => some (UInt8.ofNat (h * 16 + l) :: bs)
    | _, _, _ => none

/-! #### EBCDIC 1047 through x/text: input/output text is UTF-8 -/

/-- UTF-8 of a rune < 0x800 (all code-page runes are < 0x100) -/
def utf8OfRune (r : Nat) : Bytes :=
  if r < 128 then [UInt8.ofNat r]
  else [UInt8.ofNat (192 + r / 64), UInt8.ofNat (128 + r % 64)]

def cp1047DecodeBytes (bs : Bytes) : Bytes :=
  bs.flatMap (fun x => utf8OfRune (Gen.cp1047Decode.getD x.toNat 65533))

/-- Parse UTF-8 restricted to runes `0..255` (everything else is not encodable in the
code page, and invalid UTF-8 becomes U+FFFD which is not encodable either) and map each
rune through the encode table. -/
def cp1047EncodeBytes : Bytes → Option Bytes
  | [] => some []
  | x :: rest =>
    if x.toNat < 128 then
      let y := Gen.cp1047Encode.getD x.toNat 256
      if y < 256 then (cp1047EncodeBytes rest).map (fun t => UInt8.ofNat y :: t) else none
    else if x.toNat = 194 ∨ x.toNat = 195 then
      match rest with
      | c :: rest' =>
        if 128 ≤ c.toNat ∧ c.toNat ≤ 191 then
          let r := (x.toNat - 192) * 64 + (c.toNat - 128)
          let y := Gen.cp1047Encode.getD r 256
          if y < 256 then (cp1047EncodeBytes rest').map (fun t => UInt8.ofNat y :: t) else none
        else none
      | [] => none
    else none

/-! #### BER-TLV tag -/

/-- number of further tag bytes to read after the first, scanning `rest`:
continue while the byte has its top bit set; `none` if the input ends first -/
def berTagMore : Bytes → Option Nat
  | [] => none
  | x :: rest => if x.toNat < 128 then some 1 else (berTagMore rest).map (· + 1)

def berTagLen (data : Bytes) : Option Nat :=
  match data with
  | [] => none
  | x :: rest =>
    if x.toNat % 32 = 31 then (berTagMore rest).map (· + 1) else some 1

/-! #### the encoders -/

def encode (e : Enc) (data : Bytes) : Res Bytes :=
  match e with
  | ascii => if asciiOK data then .ok data else .err
  | ebcdic => .ok (data.map (tbl Gen.asciiToEbcdic))
  | ebcdic1047 => Res.ofOption (cp1047EncodeBytes data)
  | binary => .ok data
  | bcd => Res.ofOption (bcdPack (if data.length % 2 = 1 then 48 :: data else data))
  | lbcd => Res.ofOption (bcdPack (if data.length % 2 = 1 then data ++ [48] else data))
  | bytesToHex => .ok (hexEncodeUpper data)
  | hexToBytes => Res.ofOption (hexDecode data)
  | berTag => Res.ofOption (hexDecode data)

/-- `Decode(data, n)` for a non-negative unit count `n`. -/
def decodeNat (e : Enc) (data : Bytes) (n : Nat) : Res (Bytes × Nat) :=
  match e with
  | berTag =>
    match berTagLen data with
    | none => .err
    | some k => .ok (hexEncodeUpper (data.take k), k)
  | ascii =>
    if data.length < n then .err
    else if asciiOK (data.take n) then .ok (data.take n, n) else .err
  | ebcdic =>
    if data.length < n then .err
    else .ok ((data.take n).map (tbl Gen.ebcdicToAscii), n)
  | ebcdic1047 =>
    if data.length < n then .err
    else .ok (cp1047DecodeBytes (data.take n), n)
  | binary =>
    if n > data.length then .err else .ok (data.take n, n)
  | bcd =>
    let read := n / 2 + n % 2
    if data.length < read then .err
    else match bcdUnpack (data.take read) with
      | none => .err
      | some ds => .ok (ds.drop (2 * read - n), read)
  | lbcd =>
    let read := n / 2 + n % 2
    if data.length < read then .err
    else match bcdUnpack (data.take read) with
      | none => .err
      | some ds => .ok (ds.take n, read)
  | bytesToHex =>
    if n > data.length / 2 then .err
    else match hexDecode (data.take (2 * n)) with
      | none => .err
      | some bs => .ok (bs, 2 * n)
  | hexToBytes =>
    if n > data.length then .err
    else .ok (hexEncodeUpper (data.take n), n)

/-- `Decode(data, length)`: returns the decoded value and the number of bytes read.
Every encoder except the BER tag decoder (which ignores the length) rejects a negative
length first. -/
def decode (e : Enc) (data : Bytes) (length : Int) : Res (Bytes × Nat) :=
  match length with
  | Int.ofNat n => decodeNat e data n
  | Int.negSucc _ => if e = berTag then decodeNat e data 0 else .err

@[simp] theorem decode_natCast (e : Enc) (data : Bytes) (n : Nat) :
    decode e data (n : Int) = decodeNat e data n := rfl

def name : Enc → String
  | ascii => "ascii" | ebcdic => "ebcdic" | ebcdic1047 => "ebcdic1047" | binary => "binary"
  | bcd => "bcd" | lbcd => "lbcd" | bytesToHex => "bytesToHex" | hexToBytes => "hexToBytes"
  | berTag => "berTag"

def ofName? : String → Option Enc
  | "ascii" => some ascii | "ebcdic" => some ebcdic | "ebcdic1047" => some ebcdic1047
  | "binary" => some binary | "bcd" => some bcd | "lbcd" => some lbcd
  | "bytesToHex" => some bytesToHex | "hexToBytes" => some hexToBytes | "berTag" => some berTag
  | _ => none

end Enc
end Iso8583
