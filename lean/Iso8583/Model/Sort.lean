/-
Model of /repo/sort/strings.go: the comparators handed to `sort.Slice`, and a sort.
`sort.Slice` is only assumed to return *a* permutation sorted w.r.t. the comparator; on tag
sets where the comparator is a strict total order (DESIGN §2.2 K6) that permutation is
unique, and insertion sort computes it.
-/
import Iso8583.Model.Field

namespace Iso8583

/-- lexicographic `<` on byte strings (Go string comparison) -/
def bytesLt : Bytes → Bytes → Bool
  | [], [] => false
  | [], _ :: _ => true
  | _ :: _, [] => false
  | a :: as, b :: bs => if a.toNat < b.toNat then true else if a.toNat > b.toNat then false else bytesLt as bs

/-- value `big.Int.SetBytes(b).Int64()` for at most 7 bytes (no wrap-around) -/
def beInt (b : Bytes) : Nat := ofDigits 256 (b.map (·.toNat))

def SortKind.less (k : SortKind) (x y : Tag) : Bool :=
  match k with
  | .strings => bytesLt x y
  | .byInt =>
    match atoi? x with
    | none => bytesLt x y
    | some vx =>
      match atoi? y with
      | none => bytesLt x y
      | some vy => decide (vx < vy)
  | .byHex =>
    match Enc.hexDecode x with
    | none => bytesLt x y
    | some bx =>
      match Enc.hexDecode y with
      | none => bytesLt x y
      | some by_ => decide (beInt bx < beInt by_)

def insertSorted {α : Type} (less : α → α → Bool) (x : α) : List α → List α
  | [] => [x]
  | y :: ys => if less x y then x :: y :: ys else y :: insertSorted less x ys

def sortBy {α : Type} (less : α → α → Bool) : List α → List α
  | [] => []
  | x :: xs => insertSorted less x (sortBy less xs)

/-- `orderedKeys`: the subfield list in the composite's sort order -/
def orderSubs {α : Type} (k : SortKind) (subs : List (Tag × α)) : List (Tag × α) :=
  sortBy (fun a b => k.less a.1 b.1) subs

end Iso8583
