/-
Model of struct Marshal / Unmarshal: /repo/message.go (Message.Marshal, Message.Unmarshal),
/repo/field/composite.go (Composite.Marshal, Composite.Unmarshal), /repo/field/index_tag.go
(NewIndexTag) and the per-kind Marshal / Unmarshal type switches of field/string.go,
numeric.go, binary.go, hex.go.  Core-only.

A Go struct is a list of `(FieldHdr × GoVal)`: the Go field name, the raw texts of its
`index:"…"` / `iso8583:"…"` struct tags (empty = tag absent) and the field's value.  A Go
value carries its *type* even when it is nil: `ptr true v`, `structPtr true fields`,
`bytes true []` … are nil pointers / a nil slice whose payload is the zero value of the
pointee (the harness builds a nil pointer from the type alone; the model only ever looks at
`payload.zero` of a nil value, so it does not depend on that convention).  This is needed
because the Go code branches on the *type* of a nil value (`String.Marshal` looks for the
substring "int" in the type name; `Unmarshal` allocates `reflect.New(type.Elem())`).

Not modelled: struct fields of other Go types (uint, bool, named string types, interfaces,
non-pointer structs, unexported fields — reflect panics on those), struct field id 1 (the
bitmap field: Marshal of anything but a *field.Bitmap is an error, which is what the model
returns; Unmarshal of id 1 is skipped because the model's message state never marks it).
-/
import Iso8583.Model.Message

namespace Iso8583

structure FieldHdr where
  goName : Bytes
  /-- raw value of the `index:"…"` struct tag (`[]` = absent or empty) -/
  indexTag : Bytes
  /-- raw value of the `iso8583:"…"` struct tag -/
  isoTag : Bytes
deriving Repr, DecidableEq, Inhabited

inductive GoVal where
  | str (s : Bytes)                         -- string
  | int (i : Int)                           -- int
  | int64 (i : Int)                         -- int64
  | bytes (isNil : Bool) (b : Bytes)        -- []byte
  | ptr (isNil : Bool) (v : GoVal)          -- *T
  | libString (isNil : Bool) (s : Bytes)    -- *field.String
  | libNumeric (isNil : Bool) (i : Int)     -- *field.Numeric
  | libBinary (isNil : Bool) (b : Bytes)    -- *field.Binary
  | libHex (isNil : Bool) (s : Bytes)       -- *field.Hex
  | structPtr (isNil : Bool) (fields : List (FieldHdr × GoVal))   -- *struct{…}
deriving Repr, Inhabited

abbrev GoStruct := List (FieldHdr × GoVal)

/-! ### index tags (field/index_tag.go) -/

structure IndexTag where
  id : Int
  tag : Bytes
  keepZero : Bool
deriving Repr, DecidableEq, Inhabited

/-- `strings.Split(s, ",")` -/
def splitComma : Bytes → List Bytes
  | [] => [[]]
  | c :: rest =>
    if c = 44 then [] :: splitComma rest
    else match splitComma rest with
      | [] => [[c]]
      | p :: ps => (c :: p) :: ps

/-- `parseTag`: `strings.Cut(value, ",")`, then the options split on commas -/
def parseTagValue (value : Bytes) : Bytes × List Bytes :=
  match splitComma value with
  | [] => ([], [[]])
  | [t] => (t, [[]])
  | t :: opts => (t, opts)

def keepzeroB : Bytes := [107, 101, 101, 112, 122, 101, 114, 111]

/-- `strconv.Atoi` with the `-1` default of index_tag.go -/
def atoiOrMinus1 (s : Bytes) : Int :=
  match parseInt64? s with
  | some i => i
  | none => -1

/-- `extractTagInfo`: `index` wins over `iso8583` -/
def extractTagInfo (h : FieldHdr) : IndexTag :=
  let value := if h.indexTag ≠ [] then h.indexTag else h.isoTag
  if value = [] then { id := -1, tag := [], keepZero := false }
  else
    let (tag, opts) := parseTagValue value
    { id := atoiOrMinus1 tag, tag := tag, keepZero := opts.contains keepzeroB }

/-- `extractIdAndTagFromName`: the regular expression `^F.+$` on an identifier -/
def extractFromName (name : Bytes) : Int × Bytes :=
  match name with
  | 70 :: c :: rest => (atoiOrMinus1 (c :: rest), c :: rest)
  | _ => (-1, [])

/-- `NewIndexTag` -/
def FieldHdr.indexTagOf (h : FieldHdr) : IndexTag :=
  let it := extractTagInfo h
  if it.tag = [] then
    let (id, tag) := extractFromName h.goName
    { it with id := id, tag := tag }
  else it

/-! ### Go values: zero value, `reflect.Value.IsZero`, type name contains "int" -/

mutual
/-- the zero value of the value's type -/
def GoVal.zero : GoVal → GoVal
  | .str _ => .str []
  | .int _ => .int 0
  | .int64 _ => .int64 0
  | .bytes _ _ => .bytes true []
  | .ptr _ v => .ptr true v.zero
  | .libString _ _ => .libString true []
  | .libNumeric _ _ => .libNumeric true 0
  | .libBinary _ _ => .libBinary true []
  | .libHex _ _ => .libHex true []
  | .structPtr _ fields => .structPtr true (GoVal.zeroFields fields)

def GoVal.zeroFields : List (FieldHdr × GoVal) → List (FieldHdr × GoVal)
  | [] => []
  | (h, v) :: rest => (h, v.zero) :: GoVal.zeroFields rest
end

/-- `reflect.Value.IsZero` -/
def GoVal.isZero : GoVal → Bool
  | .str s => s.isEmpty
  | .int i => i == 0
  | .int64 i => i == 0
  | .bytes n _ => n
  | .ptr n _ => n
  | .libString n _ => n
  | .libNumeric n _ => n
  | .libBinary n _ => n
  | .libHex n _ => n
  | .structPtr n _ => n

/-- the value as the code sees it when the enclosing struct was freshly allocated -/
def GoVal.eff (z : Bool) (v : GoVal) : GoVal := if z then v.zero else v

/-- does `"int"` occur in the byte string -/
def containsInt : Bytes → Bool
  | [] => false
  | c :: rest =>
    (match c, rest with
     | 105, 110 :: 116 :: _ => true
     | _, _ => false) || containsInt rest

mutual
/-- `strings.Contains(reflect.TypeOf(v).String(), "int")`: "int", "int64", "[]uint8" and
every pointer to them; for a struct type the field names, field types and tag texts are
part of the type's name -/
def GoVal.typeHasInt : GoVal → Bool
  | .str _ => false
  | .int _ => true
  | .int64 _ => true
  | .bytes _ _ => true
  | .ptr _ v => v.typeHasInt
  | .libString _ _ => false
  | .libNumeric _ _ => false
  | .libBinary _ _ => false
  | .libHex _ _ => false
  | .structPtr _ fields => GoVal.fieldsHaveInt fields

def GoVal.fieldsHaveInt : List (FieldHdr × GoVal) → Bool
  | [] => false
  | (h, v) :: rest =>
    containsInt h.goName || containsInt h.indexTag || containsInt h.isoTag || v.typeHasInt ||
      GoVal.fieldsHaveInt rest
end

/-! ### hex text (encoding/hex) -/

def hexDigitLower (d : Nat) : Byte :=
  if d < 10 then UInt8.ofNat (48 + d) else UInt8.ofNat (87 + d)

/-- `hex.EncodeToString` -/
def hexEncodeLower (bs : Bytes) : Bytes :=
  bs.flatMap (fun x => [hexDigitLower (x.toNat / 16), hexDigitLower (x.toNat % 16)])

/-- what `hex.DecodeString` returns *next to* its error: the bytes of the leading run of
complete valid digit pairs (`Hex.Unmarshal` into a `*[]byte` ignores the error) -/
def hexDecodePrefix : Bytes → Bytes
  | c1 :: c2 :: rest =>
    match hexVal? c1, hexVal? c2 with
    | some h, some l => UInt8.ofNat (h * 16 + l) :: hexDecodePrefix rest
    | _, _ => []
  | _ => []

/-! ### per-kind `Marshal` (field/string.go:158, numeric.go:143, binary.go:128, hex.go:139) -/

def marshalString (v : GoVal) : Res Bytes :=
  if v.isZero && !v.typeHasInt then .ok []
  else
    match v with
    | .libString false s => .ok s
    | .str s => .ok s
    | .ptr false (.str s) => .ok s
    | .int i => .ok (formatInt i)
    | .int64 i => .ok (formatInt i)
    | .ptr isNil (.int i) => if isNil then .ok (formatInt 0) else .ok (formatInt i)
    | .ptr isNil (.int64 i) => if isNil then .ok (formatInt 0) else .ok (formatInt i)
    | _ => .err

def marshalNumeric (v : GoVal) : Res Int :=
  if v.isZero then .ok 0
  else
    match v with
    | .libNumeric false i => .ok i
    | .int64 i => .ok i
    | .ptr false (.int64 i) => .ok i
    | .str s => Res.ofOption (parseInt64? s)
    | .ptr false (.str s) => Res.ofOption (parseInt64? s)
    | _ => .err

def marshalBinary (v : GoVal) : Res Bytes :=
  if v.isZero then .ok []
  else
    match v with
    | .libBinary false b => .ok b
    | .str s => Res.ofOption (Enc.hexDecode s)
    | .ptr false (.str s) => Res.ofOption (Enc.hexDecode s)
    | .bytes false b => .ok b
    | .ptr false (.bytes _ b) => .ok b
    | _ => .err

def marshalHex (v : GoVal) : Res Bytes :=
  if v.isZero then .ok []
  else
    match v with
    | .libHex false s => .ok s
    | .str s => .ok s
    | .ptr false (.str s) => .ok s
    | .bytes false b => .ok (Enc.hexEncodeUpper b)
    | .ptr false (.bytes _ b) => .ok (Enc.hexEncodeUpper b)
    | _ => .err

/-- `messageField.Marshal(dataField.Interface())` for a primitive field -/
def marshalPrim (k : Kind) (v : GoVal) : Res Value :=
  match k with
  | .string => match marshalString v with | .ok s => .ok (.str s) | .err => .err | .panic => .panic
  | .numeric => match marshalNumeric v with | .ok i => .ok (.num i) | .err => .err | .panic => .panic
  | .binary => match marshalBinary v with | .ok b => .ok (.bin b) | .err => .err | .panic => .panic
  | .hex => match marshalHex v with | .ok t => .ok (.hexv t) | .err => .err | .panic => .panic

/-! ### per-kind `Unmarshal` (field/string.go:102, numeric.go:115, binary.go:102, hex.go:113) -/

/-- the `reflect.Value` branch (struct fields of a native kind are handed over as
`reflect.Value`) and the pointer branch (`dataField.Interface()`), for a String field
holding `s` -/
def unmarshalString (s : Bytes) (v : GoVal) : Res GoVal :=
  match v with
  | .str _ => .ok (.str s)
  | .int _ => match parseInt64? s with | some i => .ok (.int i) | none => .err
  | .int64 _ => match parseInt64? s with | some i => .ok (.int64 i) | none => .err
  | .ptr _ (.str _) => .ok (.ptr false (.str s))
  | .ptr _ (.int _) => match parseInt64? s with | some i => .ok (.ptr false (.int i)) | none => .err
  | .ptr _ (.int64 _) => match parseInt64? s with | some i => .ok (.ptr false (.int64 i)) | none => .err
  | .libString _ _ => .ok (.libString false s)
  | _ => .err

def unmarshalNumeric (i : Int) (v : GoVal) : Res GoVal :=
  match v with
  | .str _ => .ok (.str (formatInt i))
  | .int64 _ => .ok (.int64 i)
  | .ptr _ (.str _) => .ok (.ptr false (.str (formatInt i)))
  | .ptr _ (.int64 _) => .ok (.ptr false (.int64 i))
  | .libNumeric _ _ => .ok (.libNumeric false i)
  | _ => .err

def unmarshalBinary (b : Bytes) (v : GoVal) : Res GoVal :=
  match v with
  | .str _ => .ok (.str (hexEncodeLower b))
  | .ptr _ (.str _) => .ok (.ptr false (.str (hexEncodeLower b)))
  | .ptr _ (.bytes _ _) => .ok (.ptr false (.bytes false b))
  | .libBinary _ _ => .ok (.libBinary false b)
  | _ => .err      -- includes `[]byte` by value: the slice reaches the type switch as `[]uint8` (KF4)

def unmarshalHex (t : Bytes) (v : GoVal) : Res GoVal :=
  match v with
  | .str _ => .ok (.str t)
  | .ptr _ (.str _) => .ok (.ptr false (.str t))
  | .ptr _ (.bytes _ _) => .ok (.ptr false (.bytes false (hexDecodePrefix t)))
  | .libHex _ _ => .ok (.libHex false t)
  | _ => .err      -- includes `[]byte` by value (KF4)

/-- the `switch dataField.Kind()` of Message.Unmarshal / Composite.Unmarshal followed by the
field's `Unmarshal`, for a primitive field holding `val`; a nil pointer has been replaced
by a pointer to a zero value first (the functions above never read the old pointee) -/
def unmarshalPrim (k : Kind) (val : Value) (v : GoVal) : Res GoVal :=
  match k, val with
  | .string, .str s => unmarshalString s v
  | .numeric, .num i => unmarshalNumeric i v
  | .binary, .bin b => unmarshalBinary b v
  | .hex, .hexv t => unmarshalHex t v
  | _, _ => .err      -- a value of the wrong kind: not expressible in Go

/-! ### Composite.Marshal / Composite.Unmarshal, Message.Marshal / Message.Unmarshal -/

def curVals : Option Value → List (Tag × Value)
  | some (.comp vals) => vals
  | _ => []

mutual
/-- `messageField.Marshal(dataField.Interface())`: `cur` is what the field holds already
(for a composite: its set subfields, which are kept), `z` = the enclosing struct was
allocated by `Composite.Marshal` because the pointer to it was nil (every field is zero) -/
def marshalField : Field → Option Value → Bool → GoVal → Res Value
  | .prim s, _, z, v => marshalPrim s.kind (v.eff z)
  | .comp _ subs, cur, z, .structPtr isNil fields =>
    match marshalSubs subs (curVals cur) (z || isNil) fields with
    | .ok vals => .ok (.comp vals)
    | .err => .err
    | .panic => .panic
  -- the library's own field types are pointers to structs without tagged fields:
  -- Composite.Marshal accepts them and sets nothing
  | .comp _ _, cur, _, .libString _ _ => .ok (.comp (curVals cur))
  | .comp _ _, cur, _, .libNumeric _ _ => .ok (.comp (curVals cur))
  | .comp _ _, cur, _, .libBinary _ _ => .ok (.comp (curVals cur))
  | .comp _ _, cur, _, .libHex _ _ => .ok (.comp (curVals cur))
  | .comp _ _, _, _, _ => .err      -- "data is not a pointer" / "data must be a pointer to struct"

/-- the loop of `Composite.Marshal` over the struct fields -/
def marshalSubs (subs : List (Tag × Field)) :
    List (Tag × Value) → Bool → List (FieldHdr × GoVal) → Res (List (Tag × Value))
  | vals, _, [] => .ok vals
  | vals, z, (h, v) :: rest =>
    let it := h.indexTagOf
    if it.tag = [] then marshalSubs subs vals z rest
    else
      match lookup it.tag subs with
      | none => marshalSubs subs vals z rest
      | some f =>
        if (v.eff z).isZero && !it.keepZero then marshalSubs subs vals z rest
        else
          match marshalField f (lookup it.tag vals) z v with
          | .ok val => marshalSubs subs (insertKV it.tag val vals) z rest
          | .err => .err
          | .panic => .panic
end

mutual
/-- the `switch dataField.Kind()` + `messageField.Unmarshal(…)` step for one struct field
whose message field is set and holds `val`; `z` = the enclosing struct was freshly
allocated (every field zero) -/
def unmarshalField : Field → Value → Bool → GoVal → Res GoVal
  | .prim s, val, z, v => unmarshalPrim s.kind val (v.eff z)
  | .comp _ subs, .comp vals, z, .structPtr isNil fields =>
    match unmarshalSubs subs vals (z || isNil) fields with
    | .ok fields' => .ok (.structPtr false fields')
    | .err => .err
    | .panic => .panic
  -- see marshalField: nothing is written; a nil pointer is replaced by a fresh object
  | .comp _ _, .comp _, z, .libString n s => .ok (.libString false (if z || n then [] else s))
  | .comp _ _, .comp _, z, .libNumeric n i => .ok (.libNumeric false (if z || n then 0 else i))
  | .comp _ _, .comp _, z, .libBinary n b => .ok (.libBinary false (if z || n then [] else b))
  | .comp _ _, .comp _, z, .libHex n s => .ok (.libHex false (if z || n then [] else s))
  | .comp _ _, _, _, _ => .err

/-- the loop of `Composite.Unmarshal`: only struct fields whose subfield is set are written -/
def unmarshalSubs (subs : List (Tag × Field)) (vals : List (Tag × Value)) :
    Bool → List (FieldHdr × GoVal) → Res (List (FieldHdr × GoVal))
  | _, [] => .ok []
  | z, (h, v) :: rest =>
    let it := h.indexTagOf
    let step : Res GoVal :=
      if it.tag = [] then .ok (v.eff z)
      else
        match lookup it.tag subs with
        | none => .ok (v.eff z)
        | some f =>
          match lookup it.tag vals with
          | none => .ok (v.eff z)
          | some val => unmarshalField f val z v
    match step with
    | .ok v' =>
      match unmarshalSubs subs vals z rest with
      | .ok more => .ok ((h, v') :: more)
      | .err => .err
      | .panic => .panic
    | .err => .err
    | .panic => .panic
end

/-- message state seen by Marshal / Unmarshal: the set fields (`fieldsMap`) with the values
their field objects hold; id 0 is the MTI -/
abbrev MState := List (Nat × Value)

def insertId {α : Type} (i : Nat) (v : α) : List (Nat × α) → List (Nat × α)
  | [] => [(i, v)]
  | (k, w) :: rest => if k = i then (k, v) :: rest else (k, w) :: insertId i v rest

/-- `m.GetField(id)` restricted to what the model covers: 0 = MTI, ≥ 2 data elements
(`none` for id 1: the bitmap field only accepts a `*field.Bitmap`) -/
def MsgSpec.fieldAt (spec : MsgSpec) (id : Int) : Option Field :=
  if id = 0 then some (.prim spec.mti)
  else if id = 1 then none
  else lookupId id.toNat spec.fields

/-- the loop of `Message.Marshal` -/
def marshalMsg (spec : MsgSpec) : MState → GoStruct → Res MState
  | st, [] => .ok st
  | st, (h, v) :: rest =>
    let it := h.indexTagOf
    if it.id < 0 then marshalMsg spec st rest
    else
      match spec.fieldAt it.id with
      | none => .err       -- "no message field defined by spec with index"
      | some f =>
        if v.isZero && !it.keepZero then marshalMsg spec st rest
        else
          match marshalField f (lookupId it.id.toNat st) false v with
          | .ok val => marshalMsg spec (insertId it.id.toNat val st) rest
          | .err => .err
          | .panic => .panic

/-- the loop of `Message.Unmarshal`: the struct afterwards -/
def unmarshalMsg (spec : MsgSpec) (st : MState) : GoStruct → Res GoStruct
  | [] => .ok []
  | (h, v) :: rest =>
    let it := h.indexTagOf
    let step : Res GoVal :=
      if it.id < 0 then .ok v
      else
        match spec.fieldAt it.id with
        | none => .ok v
        | some f =>
          match lookupId it.id.toNat st with
          | none => .ok v
          | some val => unmarshalField f val false v
    match step with
    | .ok v' =>
      match unmarshalMsg spec st rest with
      | .ok more => .ok ((h, v') :: more)
      | .err => .err
      | .panic => .panic
    | .err => .err
    | .panic => .panic

/-- the logical content (`Msg`) of a message state, as `pack` sees it -/
def MState.toMsg (st : MState) : Msg :=
  { mti := lookupId 0 st, fields := st.filter (fun p => decide (2 ≤ p.1)) }

/-- the message state after `Unpack` produced the content `m` (ids 0 and ≥ 2) -/
def MState.ofMsg (m : Msg) : MState :=
  (match m.mti with | some v => [(0, v)] | none => []) ++ m.fields

end Iso8583
