/-
Model of /repo/specs/builder.go: `ImportJSON` / `ExportJSON`, `importField` / `exportField`,
`exportTag` / `exportPad` / `exportEnc`, `constructField`, together with the constructor-side
validation that `constructField` turns into errors (`field.Spec.Validate` through
`NewComposite`, `make([]byte, length)` in `NewBitmap`) and `MessageSpec.Validate` /
`NewMessage`'s re-validation.

What is modelled and what is not.  The model works on the *decoded document tree*:
`SpecDoc` / `FieldDoc` / `TagDoc` / `PadDoc` mirror `specDummy` / `fieldDummy` / `tagDummy` /
`paddingDummy` member by member, each member being a `Slot` (key absent, JSON `null`, a JSON
value of the wrong type, or a value).  JSON *text* is NOT modelled: tokenising, string escaping,
`encoding/json`'s struct decoding and `omitempty` encoding, the sorting of map keys by
`orderedFieldMap.MarshalJSON` / `encoding/json`.  What is assumed about `encoding/json` is
exactly: a member of the wrong JSON type (or an integer outside `int`) makes `json.Unmarshal`
return an error; an absent or `null` member leaves the Go zero value (a `null` *element of a
map* is a nil pointer); `omitempty` drops zero values.  These assumptions are exercised on the
real code by correspondence channel `S` (Drivers/Spec.lean), which renders the tree to real JSON.

Go maps are association lists; the order of the list is the map iteration order (DESIGN §1.4).
Import and export preserve it (canonical sorting is done by the line driver, not by the model).

The name tables and four structural facts about the Go code (`importField` checks for a nil
definition; `constructField` recovers; `constructField` rejects a non-composite field without
encoder; a composite's bitmap is built through `constructField`) are read from
`Gen/BuilderTables.lean`, regenerated from the source on every run.  The model follows them:
e.g. with `Gen.constructFieldRecovers = false` a failing constructor is a `panic`.

Not determined by the model: a document whose message indices alias after `strconv.Atoi`
("1" and "01", "+1") — the Go result then depends on map iteration order; the model processes
the list in order (later entries replace earlier ones). Lengths between 2^24 and 2^48 are
treated as allocatable by `NewBitmap` (the real code would try to allocate them).

Core-only.
-/
import Iso8583.Model.Prefix
import Iso8583.Gen.Prefixers
import Iso8583.Gen.Consts
import Iso8583.Gen.BuilderTables

namespace Iso8583.Builder
open Iso8583

/-! ## The decoded document -/

/-- one member of a JSON object as `encoding/json` sees it when decoding into a struct member -/
inductive Slot (α : Type) where
  | absent            -- key not present
  | null              -- `"key": null`  (no-op: the member keeps its zero value)
  | bad               -- a value of the wrong JSON type, e.g. an array (`json.Unmarshal` fails)
  | val (a : α)
deriving Repr, DecidableEq, Inhabited

namespace Slot
/-- the Go value after decoding: the given value or the zero value -/
def getD {α : Type} : Slot α → α → α
  | val a, _ => a
  | _, z => z
def isBad {α : Type} : Slot α → Bool
  | bad => true
  | _ => false
/-- pointer-typed member: nil unless a value is given -/
def toOption {α : Type} : Slot α → Option α
  | val a => some a
  | _ => none
end Slot

structure PadDoc where
  type : Slot String
  pad : Slot String
deriving Repr, DecidableEq, Inhabited

structure TagDoc where
  length : Slot Int
  enc : Slot String
  padding : Slot PadDoc
  sort : Slot String
deriving Repr, DecidableEq, Inhabited

/-- `fieldDummy` as a JSON value: `null` (nil pointer when it is a map element), a value of the
wrong type, or an object.  `subfields`: absent, `null` and `{}` all decode to a map of length 0
and are represented by `[]`; `bitmap`: `none` = absent. -/
inductive FieldDoc where
  | null
  | bad
  | obj (type : Slot String) (length : Slot Int) (description enc pref : Slot String)
        (padding : Slot PadDoc) (tag : Slot TagDoc)
        (subfields : List (String × FieldDoc)) (bitmap : Option FieldDoc) (dae : Slot Bool)
deriving Repr, Inhabited

structure SpecDoc where
  name : Slot String
  fields : Slot (List (String × FieldDoc))
deriving Repr, Inhabited

/-! ## What ImportJSON builds -/

inductive FType where
  | string | track2 | numeric | binary | bitmap | composite
deriving Repr, DecidableEq, Inhabited

/-- padders; the pad is a rune (`padding.Left(rune)`), its bytes are the UTF-8 encoding -/
inductive PadSpec where
  | none
  | left (c : Char)
  | right (c : Char)
deriving Repr, DecidableEq, Inhabited

inductive SortFn where
  | strings | byInt | byHex
deriving Repr, DecidableEq, Inhabited

structure TagSpec where
  length : Int
  enc : Option Enc
  pad : Option PadSpec
  sort : Option SortFn
deriving Repr, DecidableEq, Inhabited

/-- `field.Spec` as far as the builder touches it; a subfield is a constructed field = its Go
type and its spec; `bitmap` is the spec of the composite's `*field.Bitmap` -/
inductive Spec where
  | mk (length : Int) (description : String) (pref : Pref) (enc : Option Enc) (pad : Option PadSpec)
       (tag : Option TagSpec) (subfields : List (String × FType × Spec)) (bitmap : Option Spec)
       (dae : Bool)
deriving Repr, Inhabited

abbrev FieldTree := FType × Spec

structure MsgSpec where
  name : String
  fields : List (Int × FType × Spec)
deriving Repr, Inhabited

namespace Spec
def length : Spec → Int | .mk l _ _ _ _ _ _ _ _ => l
def description : Spec → String | .mk _ d _ _ _ _ _ _ _ => d
def pref : Spec → Pref | .mk _ _ p _ _ _ _ _ _ => p
def enc : Spec → Option Enc | .mk _ _ _ e _ _ _ _ _ => e
def pad : Spec → Option PadSpec | .mk _ _ _ _ p _ _ _ _ => p
def tag : Spec → Option TagSpec | .mk _ _ _ _ _ t _ _ _ => t
def subfields : Spec → List (String × FType × Spec) | .mk _ _ _ _ _ _ s _ _ => s
def bitmap : Spec → Option Spec | .mk _ _ _ _ _ _ _ b _ => b
def dae : Spec → Bool | .mk _ _ _ _ _ _ _ _ d => d
end Spec

/-! ## Integers and `strconv` -/

def inInt64 (n : Int) : Bool := decide (-(2:Int)^63 ≤ n) && decide (n ≤ (2:Int)^63 - 1)

def digitVal? (c : Char) : Option Nat :=
  if 48 ≤ c.toNat ∧ c.toNat ≤ 57 then some (c.toNat - 48) else none

/-- value of a (possibly empty) run of decimal digits, `none` on a non-digit -/
def decValAcc : Option Nat → List Char → Option Nat
  | acc, [] => acc
  | some a, c :: cs =>
    match digitVal? c with
    | some d => decValAcc (some (a * 10 + d)) cs
    | none => none
  | none, _ => none

def decVal (cs : List Char) : Option Nat :=
  if cs.isEmpty then none else decValAcc (some 0) cs

/-- `strconv.Atoi`: optional sign, one or more decimal digits, value within `int` (64 bit) -/
def atoiChars (cs : List Char) : Option Int :=
  let r : Option Int :=
    match cs with
    | '+' :: rest => (decVal rest).map (fun n => (n : Int))
    | '-' :: rest => (decVal rest).map (fun n => - (n : Int))
    | _ => (decVal cs).map (fun n => (n : Int))
  match r with
  | some v => if inInt64 v then some v else none
  | none => none

def atoi (s : String) : Option Int := atoiChars s.toList

def digitChar (d : Nat) : Char := Char.ofNat (48 + d)

/-- minimal decimal digits of `n` (fuel ≥ number of digits) -/
def natDigits : Nat → Nat → List Char
  | 0, _ => []
  | fuel + 1, n => if n < 10 then [digitChar n] else natDigits fuel (n / 10) ++ [digitChar (n % 10)]

/-- `strconv.Itoa` for a 64-bit int (at most 19 digits) -/
def itoaChars (i : Int) : List Char :=
  if i < 0 then '-' :: natDigits 20 i.natAbs else natDigits 20 i.natAbs

def itoa (i : Int) : String := String.ofList (itoaChars i)

/-! ## Name tables (from the regenerated Go source) -/

def find2 (t : List (String × String)) (k : String) : Option String :=
  (t.find? (fun r => r.1 == k)).map (·.2)

def find3 (t : List (String × String × String)) (k : String) : Option (String × String) :=
  (t.find? (fun r => r.1 == k)).map (·.2)

def find4 (t : List (String × String × String × String)) (k : String) : Option (String × String × String) :=
  (t.find? (fun r => r.1 == k)).map (·.2)

/-! ### field types -/

def FType.goName : FType → String
  | .string => "String" | .track2 => "Track2" | .numeric => "Numeric"
  | .binary => "Binary" | .bitmap => "Bitmap" | .composite => "Composite"

def FType.ofGoName : String → Option FType
  | "String" => some .string | "Track2" => some .track2 | "Numeric" => some .numeric
  | "Binary" => some .binary | "Bitmap" => some .bitmap | "Composite" => some .composite
  | _ => none

/-- `FieldConstructor[name]`: the constructor named by the table, identified by the struct type
it returns (`field/*.go`) -/
def importType (name : String) : Option FType :=
  match find3 Gen.fieldConstructor name with
  | some (_, ctor) =>
    match find2 Gen.fieldCtorTypes ctor with
    | some t => FType.ofGoName t
    | none => none
  | none => none

/-- `reflect.TypeOf(field).Elem().Name()` -/
def exportType (t : FType) : String := t.goName

/-! ### prefixers -/

def famOfVar : String → Option Fam
  | "ASCII" => some .ascii | "BCD" => some .bcd | "Binary" => some .binary | "Hex" => some .hex
  | "EBCDIC" => some .ebcdic | "EBCDIC1047" => some .ebcdic1047 | _ => none

/-- implementation type of a prefixer -/
def prefTypeName : Pref → String
  | .fixed .ascii => "asciiFixedPrefixer" | .var .ascii _ => "asciiVarPrefixer"
  | .fixed .bcd => "bcdFixedPrefixer" | .var .bcd _ => "bcdVarPrefixer"
  | .fixed .binary => "binaryFixedPrefixer" | .var .binary _ => "binaryVarPrefixer"
  | .fixed .hex => "hexFixedPrefixer" | .var .hex _ => "hexVarPrefixer"
  | .fixed .ebcdic => "ebcdicFixedPrefixer" | .var .ebcdic _ => "ebcdicVarPrefixer"
  | .fixed .ebcdic1047 => "ebcdic1047FixedPrefixer" | .var .ebcdic1047 _ => "ebcdic1047Prefixer"
  | .berTLV => "berTLVPrefixer"
  | .none => "nonePrefixer"

def prefDigits : Pref → Nat
  | .var _ d => d
  | _ => 0

/-- the prefixer value described by a row (implementation type, digit count) of `Gen.prefixers` -/
def prefOfType (typ : String) (digits : Int) : Option Pref :=
  let var (f : Fam) : Option Pref := if 1 ≤ digits then some (.var f digits.toNat) else Option.none
  let fixed (f : Fam) : Option Pref := if digits = 0 then some (.fixed f) else Option.none
  match typ with
  | "asciiFixedPrefixer" => fixed .ascii | "asciiVarPrefixer" => var .ascii
  | "bcdFixedPrefixer" => fixed .bcd | "bcdVarPrefixer" => var .bcd
  | "binaryFixedPrefixer" => fixed .binary | "binaryVarPrefixer" => var .binary
  | "hexFixedPrefixer" => fixed .hex | "hexVarPrefixer" => var .hex
  | "ebcdicFixedPrefixer" => fixed .ebcdic | "ebcdicVarPrefixer" => var .ebcdic
  | "ebcdic1047FixedPrefixer" => fixed .ebcdic1047 | "ebcdic1047Prefixer" => var .ebcdic1047
  | "berTLVPrefixer" => if digits = 0 then some .berTLV else Option.none
  | "nonePrefixer" => if digits = 0 then some .none else Option.none
  | _ => Option.none

/-- the value of `prefix.<var>.<slot>` (or `prefix.<var>` when `slot = ""`) according to the
prefixer table regenerated from prefix/*.go -/
def prefOfVarSlot (var_ slot : String) : Option Pref :=
  match Gen.prefixers.find? (fun r => r.1 == var_ && r.2.1 == slot) with
  | some (_, _, typ, digits) => prefOfType typ digits
  | Option.none => Option.none

/-- `PrefixesExtToInt[name]` -/
def importPrefix (name : String) : Option Pref :=
  match find4 Gen.prefixesExtToInt name with
  | some (_, var_, slot) => prefOfVarSlot var_ slot
  | Option.none => Option.none

/-- `Pref.Inspect()`, by implementation type (`Gen.prefixInspect`) -/
def inspect (p : Pref) : String :=
  match Gen.prefixInspect.find? (fun r => r.1 == prefTypeName p) with
  | some (_, lit, rep) => if rep then lit ++ String.ofList (List.replicate (prefDigits p) 'L') else lit
  | Option.none => "unknown"

/-! ### encoders -/

def encTypeName : Enc → String
  | .ascii => "asciiEncoder" | .ebcdic => "ebcdicEncoder" | .ebcdic1047 => "ebcdic1047Encoder"
  | .binary => "binaryEncoder" | .bcd => "bcdEncoder" | .lbcd => "lBCDEncoder"
  | .bytesToHex => "hexToASCIIEncoder" | .hexToBytes => "asciiToHexEncoder"
  | .berTag => "berTLVEncoderTag"

def encOfType : String → Option Enc
  | "asciiEncoder" => some .ascii | "ebcdicEncoder" => some .ebcdic
  | "ebcdic1047Encoder" => some .ebcdic1047 | "binaryEncoder" => some .binary
  | "bcdEncoder" => some .bcd | "lBCDEncoder" => some .lbcd
  | "hexToASCIIEncoder" => some .bytesToHex | "asciiToHexEncoder" => some .hexToBytes
  | "berTLVEncoderTag" => some .berTag
  | _ => none

/-- `EncodingsExtToInt[name]` (nil = `none`) -/
def importEnc (name : String) : Option Enc :=
  match find3 Gen.encodingsExtToInt name with
  | some (_, var_) =>
    match find2 Gen.encoderVars var_ with
    | some typ => encOfType typ
    | none => none
  | none => none

/-- `exportEnc`: `EncodingsIntToExt[reflect type name]`, error when not found -/
def exportEnc (e : Enc) : Res String :=
  match find2 Gen.encodingsIntToExt (encTypeName e) with
  | some n => .ok n
  | none => .err

/-! ### padders -/

def padTypeName : PadSpec → String
  | .none => "nonePadder" | .left _ => "leftPadder" | .right _ => "rightPadder"

/-- `PaddersExtToInt[type](pad)`; `none` = a nil `Padder` (unknown type: the member stays nil) -/
def importPadder (type pad : String) : Option PadSpec :=
  match find4 Gen.paddersExtToInt type with
  | some (_, kind, name) =>
    match find2 Gen.padderCtors name with
    | some typ =>
      if kind == "rune1" then
        match pad.toList with
        | [c] => if typ == "leftPadder" then some (.left c)
                 else if typ == "rightPadder" then some (.right c) else Option.none
        | _ => Option.none
      else if kind == "const" then
        (if typ == "nonePadder" then some .none else Option.none)
      else Option.none
    | Option.none => Option.none
  | Option.none => Option.none

def importPad (p : Slot PadDoc) : Option PadSpec :=
  match p with
  | .val d => importPadder (d.type.getD "") (d.pad.getD "")
  | _ => Option.none

/-- `string(pad.Inspect())` -/
def padText : PadSpec → String
  | .none => ""
  | .left c => String.singleton c
  | .right c => String.singleton c

/-- `exportPad` (type and pad are always written: no `omitempty`) -/
def exportPad (p : PadSpec) : Res PadDoc :=
  match find2 Gen.paddersIntToExt (padTypeName p) with
  | some n => .ok { type := .val n, pad := .val (padText p) }
  | Option.none => .err

/-! ### sort functions -/

def SortFn.goName : SortFn → String
  | .strings => "Strings" | .byInt => "StringsByInt" | .byHex => "StringsByHex"

def SortFn.ofGoName : String → Option SortFn
  | "Strings" => some .strings | "StringsByInt" => some .byInt | "StringsByHex" => some .byHex
  | _ => none

/-- `SortExtToInt[name]` -/
def importSort (name : String) : Option SortFn :=
  match find3 Gen.sortExtToInt name with
  | some (_, fn) => SortFn.ofGoName fn
  | none => none

/-- `getFunctionName`: the last component of the runtime name of the function value. For a
function declared in package sort it is its own name; `Strings` is the variable holding the
standard library's `sort.Strings`, whose runtime name ends in `Strings` too. -/
def exportSort (s : SortFn) : String :=
  match find2 Gen.sortDecls s.goName with
  | some "func" => s.goName
  | some "var:sort.Strings" => "Strings"
  | _ => "unknown"

/-! ## Constructors' validation -/

/-- `runtime.maxAlloc` on linux/amd64: `make([]byte, n)` panics ("len out of range") iff
`n < 0 ∨ n > maxAlloc`. Lengths below that are assumed to be allocatable. -/
def maxAlloc : Int := 281474976710656

/-- `NewBitmap`: `make([]byte, length)` with `length = 8` when the spec says 0 -/
def bitmapLenOK (len : Int) : Bool := decide (0 ≤ len) && decide (len ≤ maxAlloc)

/-- `field.Spec.Validate` (field/spec.go), as called by `Composite.SetSpec` -/
def validate : Spec → Bool
  | .mk _ _ _ enc pad tag subs bitmap _ =>
    enc.isNone
    && (pad == Option.none || pad == some PadSpec.none)
    && (match bitmap, tag with
        | Option.none, Option.none => false
        | some _, some _ => false
        | some b, Option.none =>
          b.dae && subs.all (fun kv => match atoi kv.1 with | some n => decide (0 < n) | Option.none => false)
        | Option.none, some t =>
          t.sort.isSome && !(t.enc.isNone && decide (0 < t.length)))

/-- does the constructor of the given type return (rather than panic) on this spec -/
def constructs : FType → Spec → Bool
  | .composite, s => validate s
  | .bitmap, s => bitmapLenOK s.length
  | _, _ => true

/-- a panic inside `constructField` -/
def ctorFailure {α : Type} : Res α := if Gen.constructFieldRecovers then .err else .panic

/-- only composites work without an encoder (any other field dereferences `spec.Enc` when packed) -/
def encPresent (t : FType) (s : Spec) : Bool := t == .composite || s.enc.isSome

/-- `constructField(fieldType, spec, index)`: the constructor (a panic is recovered into an
error), then — when the source has it — the check that a non-composite field has an encoder -/
def constructField (type : String) (s : Spec) : Res FieldTree :=
  match importType type with
  | Option.none => .err
  | some t =>
    if constructs t s then
      (if Gen.constructFieldRequiresEnc && !encPresent t s then .err else .ok (t, s))
    else ctorFailure

/-- dereferencing a nil `*fieldDummy` -/
def nilDefinition {α : Type} : Res α := if Gen.importFieldChecksNil then .err else .panic

/-- the composite's bitmap: `constructField("Bitmap", …)` + checked type assertion, or (before
the repair) `field.NewBitmap` called directly -/
def constructBitmap (s : Spec) : Res Spec :=
  if Gen.compositeBitmapVia == "constructField:Bitmap" then
    match constructField "Bitmap" s with
    | .ok (t, s') => if t = .bitmap then .ok s' else .err
    | .err => .err
    | .panic => .panic
  else
    if bitmapLenOK s.length then .ok s else .panic

/-! ## Import -/

def docType : FieldDoc → String
  | .obj ty _ _ _ _ _ _ _ _ _ => ty.getD ""
  | _ => ""

def importTag (t : Slot TagDoc) : Option TagSpec :=
  match t with
  | .val d => some { length := d.length.getD 0, enc := importEnc (d.enc.getD ""),
                     pad := importPad d.padding, sort := importSort (d.sort.getD "") }
  | _ => Option.none

mutual
/-- `importField` -/
def importField : FieldDoc → Res Spec
  | .null => nilDefinition
  | .bad => .err
  | .obj _ len desc enc pref pad tag subs bm dae =>
    match importPrefix (pref.getD "") with
    | Option.none => .err
    | some p =>
      if subs.isEmpty then
        match importEnc (enc.getD "") with
        | Option.none => .err
        | some e =>
          .ok (.mk (len.getD 0) (desc.getD "") p (some e) (importPad pad) Option.none [] Option.none (dae.getD false))
      else
        match importSubs subs with
        | .err => .err
        | .panic => .panic
        | .ok fs =>
          match importBitmap bm with
          | .err => .err
          | .panic => .panic
          | .ok b =>
            .ok (.mk (len.getD 0) (desc.getD "") p Option.none (importPad pad) (importTag tag) fs b (dae.getD false))

/-- the loop over `dummyField.Subfields` (list order = iteration order) -/
def importSubs : List (String × FieldDoc) → Res (List (String × FType × Spec))
  | [] => .ok []
  | (k, d) :: rest =>
    match importField d with
    | .err => .err
    | .panic => .panic
    | .ok s =>
      match constructField (docType d) s with
      | .err => .err
      | .panic => .panic
      | .ok f =>
        match importSubs rest with
        | .err => .err
        | .panic => .panic
        | .ok fs => .ok ((k, f) :: fs)

/-- the `bitmap` member (`null` = nil pointer = absent) -/
def importBitmap : Option FieldDoc → Res (Option Spec)
  | Option.none => .ok Option.none
  | some .null => .ok Option.none
  | some d =>
    match importField d with
    | .err => .err
    | .panic => .panic
    | .ok s =>
      match constructBitmap s with
      | .err => .err
      | .panic => .panic
      | .ok b => .ok (some b)
end

/-! ### `json.Unmarshal` succeeds -/

def intBad (s : Slot Int) : Bool :=
  match s with
  | .bad => true
  | .val n => !inInt64 n
  | _ => false

def padDocBad (p : Slot PadDoc) : Bool :=
  match p with
  | .bad => true
  | .val d => d.type.isBad || d.pad.isBad
  | _ => false

def tagDocBad (t : Slot TagDoc) : Bool :=
  match t with
  | .bad => true
  | .val d => intBad d.length || d.enc.isBad || padDocBad d.padding || d.sort.isBad
  | _ => false

mutual
def fieldBad : FieldDoc → Bool
  | .null => false
  | .bad => true
  | .obj ty len desc enc pref pad tag subs bm dae =>
    ty.isBad || intBad len || desc.isBad || enc.isBad || pref.isBad || padDocBad pad || tagDocBad tag
    || subsBad subs || bitmapBad bm || dae.isBad
def subsBad : List (String × FieldDoc) → Bool
  | [] => false
  | (_, d) :: rest => fieldBad d || subsBad rest
def bitmapBad : Option FieldDoc → Bool
  | Option.none => false
  | some d => fieldBad d
end

def docBad (d : SpecDoc) : Bool :=
  d.name.isBad ||
  match d.fields with
  | .bad => true
  | .val fs => subsBad fs
  | _ => false

/-! ### `ImportJSON` -/

/-- `spec.Fields[index] = messageField` -/
def upsert (m : List (Int × FType × Spec)) (i : Int) (f : FType × Spec) : List (Int × FType × Spec) :=
  if m.any (fun e => e.1 == i) then m.map (fun e => if e.1 == i then (i, f) else e) else m ++ [(i, f)]

/-- the loop over `dummySpec.Fields` -/
def importTop : List (String × FieldDoc) → List (Int × FType × Spec) → Res (List (Int × FType × Spec))
  | [], acc => .ok acc
  | (k, d) :: rest, acc =>
    match atoi k with
    | Option.none => .err
    | some i =>
      match importField d with
      | .err => .err
      | .panic => .panic
      | .ok s =>
        match constructField (docType d) s with
        | .err => .err
        | .panic => .panic
        | .ok f => importTop rest (upsert acc i f)

def importJSON (d : SpecDoc) : Res MsgSpec :=
  if docBad d then .err          -- json.Unmarshal returns an error
  else
    match d.fields with
    | .val (f :: fs) =>
      match importTop (f :: fs) [] with
      | .ok m => .ok { name := d.name.getD "", fields := m }
      | .err => .err
      | .panic => .panic
    | _ => .err                   -- "no fields in JSON file"

/-! ## Export -/

/-- `omitempty` -/
def omitStr (s : String) : Slot String := if s == "" then .absent else .val s
def omitInt (n : Int) : Slot Int := if n == 0 then .absent else .val n
def omitBool (b : Bool) : Slot Bool := if b then .val true else .absent

def exportPadOpt (p : Option PadSpec) : Res (Slot PadDoc) :=
  match p with
  | Option.none => .ok .absent
  | some q =>
    match exportPad q with
    | .ok d => .ok (.val d)
    | .err => .err
    | .panic => .panic

def exportEncOpt (e : Option Enc) : Res (Slot String) :=
  match e with
  | Option.none => .ok .absent
  | some x =>
    match exportEnc x with
    | .ok n => .ok (omitStr n)
    | .err => .err
    | .panic => .panic

def exportSortOpt (s : Option SortFn) : Slot String :=
  match s with
  | some f => omitStr (exportSort f)
  | Option.none => .absent

/-- `exportTag` -/
def exportTag (t : TagSpec) : Res TagDoc :=
  match exportPadOpt t.pad with
  | .err => .err
  | .panic => .panic
  | .ok p =>
    match exportEncOpt t.enc with
    | .err => .err
    | .panic => .panic
    | .ok e =>
      .ok { length := omitInt t.length, enc := e, padding := p,
            sort := exportSortOpt t.sort }

def exportTagOpt (t : Option TagSpec) : Res (Slot TagDoc) :=
  match t with
  | Option.none => .ok .absent
  | some x =>
    match exportTag x with
    | .ok d => .ok (.val d)
    | .err => .err
    | .panic => .panic

mutual
/-- `exportField` -/
def exportField : FType → Spec → Res FieldDoc
  | ty, .mk len desc p enc pad tag subs bm dae =>
    match exportPadOpt pad with
    | .err => .err
    | .panic => .panic
    | .ok pd =>
      if subs.isEmpty then
        match enc with
        | Option.none => .err           -- "missing required spec.Enc"
        | some e =>
          match exportEnc e with
          | .err => .err
          | .panic => .panic
          | .ok en =>
            .ok (.obj (omitStr (exportType ty)) (omitInt len) (omitStr desc) (omitStr en) (omitStr (inspect p))
                   pd .absent [] Option.none (omitBool dae))
      else
        match exportSubs subs with
        | .err => .err
        | .panic => .panic
        | .ok ds =>
          match exportTagOpt tag with
          | .err => .err
          | .panic => .panic
          | .ok tg =>
            match exportBitmap bm with
            | .err => .err
            | .panic => .panic
            | .ok b =>
              .ok (.obj (omitStr (exportType ty)) (omitInt len) (omitStr desc) .absent (omitStr (inspect p))
                     pd tg ds b (omitBool dae))

def exportSubs : List (String × FType × Spec) → Res (List (String × FieldDoc))
  | [] => .ok []
  | (k, ty, s) :: rest =>
    match exportField ty s with
    | .err => .err
    | .panic => .panic
    | .ok d =>
      match exportSubs rest with
      | .err => .err
      | .panic => .panic
      | .ok ds => .ok ((k, d) :: ds)

def exportBitmap : Option Spec → Res (Option FieldDoc)
  | Option.none => .ok Option.none
  | some b =>
    match exportField .bitmap b with
    | .err => .err
    | .panic => .panic
    | .ok d => .ok (some d)
end

/-- the loop over `origSpec.Fields`; keys are `strconv.Itoa(index)` -/
def exportTop : List (Int × FType × Spec) → Res (List (String × FieldDoc))
  | [] => .ok []
  | (i, ty, s) :: rest =>
    match exportField ty s with
    | .err => .err
    | .panic => .panic
    | .ok d =>
      match exportTop rest with
      | .err => .err
      | .panic => .panic
      | .ok ds => .ok ((itoa i, d) :: ds)

/-- `ExportJSON` up to the JSON encoder -/
def exportJSON (m : MsgSpec) : Res SpecDoc :=
  match exportTop m.fields with
  | .err => .err
  | .panic => .panic
  | .ok ds => .ok { name := omitStr m.name, fields := if ds.isEmpty then .absent else .val ds }

/-! ## `iso8583.NewMessage(spec)` -/

mutual
/-- `createMessageField` / `CreateSubfield`: `SetSpec` (validates composites again) and, for
composites, `ConstructSubfields` recursively. `true` = returns without panicking. -/
def setSpecOK : FType → Spec → Bool
  | ty, .mk len desc p enc pad tag subs bm dae =>
    (if ty = .composite then validate (.mk len desc p enc pad tag subs bm dae) && subsSetSpecOK subs else true)
def subsSetSpecOK : List (String × FType × Spec) → Bool
  | [] => true
  | (_, ty, s) :: rest => setSpecOK ty s && subsSetSpecOK rest
end

def fieldAt (m : List (Int × FType × Spec)) (i : Int) : Option (FType × Spec) :=
  (m.find? (fun e => e.1 == i)).map (·.2)

/-- `MessageSpec.Validate`: fields 0 and 1 exist and field 1 is a `*field.Bitmap` -/
def messageValidate (m : MsgSpec) : Bool :=
  (fieldAt m.fields (Int.ofNat Gen.mtiIdx)).isSome &&
  match fieldAt m.fields (Int.ofNat Gen.bitmapIdx) with
  | some (ty, _) => ty == .bitmap
  | Option.none => false

/-- `NewMessage`: panics when validation fails or a composite's `SetSpec` does -/
def newMessage (m : MsgSpec) : Res Unit :=
  if messageValidate m && m.fields.all (fun e => setSpecOK e.2.1 e.2.2) then .ok () else .panic

end Iso8583.Builder
