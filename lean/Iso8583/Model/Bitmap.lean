/-
Model of /repo/field/bitmap.go: the bit set (Reset/Set/IsSet/Len/IsBitmapPresenceBit)
and Pack/Unpack of the block chain.
-/
import Iso8583.Model.Prefix
import Iso8583.Gen.Consts

namespace Iso8583

structure Bitmap where
  data : Bytes
  /-- `bitmapLength`: block size in bytes (spec.Length, 0 meaning the default 8) -/
  blockLen : Nat
  /-- `!spec.DisableAutoExpand` -/
  auto : Bool
deriving Repr, DecidableEq, Inhabited

namespace Bitmap

/-- block size from the spec length (`0` = `defaultBitmapLength`) -/
def blockLenOf (specLen : Nat) : Nat := if specLen = 0 then Gen.defaultBitmapLength else specLen

/-- `Reset` (also what `NewBitmap` builds) -/
def reset (specLen : Nat) (auto : Bool) : Bitmap :=
  { data := List.replicate (blockLenOf specLen) 0, blockLen := blockLenOf specLen, auto := auto }

/-- bit mask `1 << (uint(7-(n-1)) % 8)` for `n ≥ 1`: the unsigned wrap-around of the Go
expression reduces to `7 - (n-1) mod 8` because `2^64 ≡ 0 (mod 8)`. -/
def mask (n : Nat) : Byte := UInt8.ofNat (2 ^ (7 - (n - 1) % 8))

def orAt (data : Bytes) (i : Nat) (m : Byte) : Bytes :=
  data.set i (data.getD i 0 ||| m)

/-- the blocks `Set` appends: `cnt` zero blocks, each but the last with its first bit on -/
def newBlocks (blockLen : Nat) : Nat → Bytes
  | 0 => []
  | cnt + 1 =>
    (if cnt + 1 > 1 then (UInt8.ofNat Gen.firstBitOn :: List.replicate (blockLen - 1) 0)
     else List.replicate blockLen 0) ++ newBlocks blockLen cnt

def set (bm : Bitmap) (n : Nat) : Bitmap :=
  if n = 0 then bm
  else if n > bm.data.length * 8 then
    if !bm.auto then bm
    else
      let bitmapIndex := (n - 1) / (bm.blockLen * 8)
      let newCount := bitmapIndex + 1
      let d1 := orAt bm.data (bm.data.length - bm.blockLen) (UInt8.ofNat Gen.firstBitOn)
      let d2 := d1 ++ newBlocks bm.blockLen (newCount - bm.data.length / bm.blockLen)
      { bm with data := orAt d2 ((n - 1) / 8) (mask n) }
  else { bm with data := orAt bm.data ((n - 1) / 8) (mask n) }

def isSet (bm : Bitmap) (n : Nat) : Bool :=
  if n = 0 ∨ n > bm.data.length * 8 then false
  else (bm.data.getD ((n - 1) / 8) 0 &&& mask n) != 0

def len (bm : Bitmap) : Nat := bm.data.length * 8

def isPresenceBit (bm : Bitmap) (n : Nat) : Bool :=
  bm.auto && decide (n > 0) && decide (n % (bm.blockLen * 8) = 1)

/-- `Pack`: the encoder applied to all blocks -/
def pack (enc : Enc) (bm : Bitmap) : Res Bytes := Enc.encode enc bm.data

/-- the `for` loop of `Unpack`; `fuel` bounds the iterations (each consumes ≥ 1 byte
when `minLen ≥ 1`). Returns the accumulated blocks and bytes read. -/
def unpackLoop (enc : Enc) (minLen : Nat) (auto : Bool) :
    Nat → Bytes → Bytes → Nat → Res (Bytes × Nat)
  | 0, _, _, _ => .err   -- fuel exhausted: unreachable, see `unpack_fuel_enough`
  | fuel + 1, rest, acc, read =>
    match Enc.decode enc rest minLen with
    | .err => .err
    | .panic => .panic
    | .ok (decoded, r) =>
      match decoded with
      | [] => .err     -- an empty decoded block is rejected before `decoded[0]` is looked at
      | first :: _ =>
        if !auto || first.toNat < 128 then .ok (acc ++ decoded, read + r)
        else unpackLoop enc minLen auto fuel (rest.drop r) (acc ++ decoded) (read + r)

/-- `Unpack(data)` on a bitmap with the given block size / mode: the new bitmap and the
number of bytes read. -/
def unpack (enc : Enc) (pref : Pref) (bm : Bitmap) (data : Bytes) : Res (Bitmap × Nat) :=
  match Pref.decodeLength pref bm.blockLen data with
  | .err => .err
  | .panic => .panic
  | .ok (minLen, _) =>
    match unpackLoop enc minLen bm.auto (data.length + 1) data [] 0 with
    | .ok (blocks, read) => .ok ({ bm with data := blocks }, read)
    | .err => .err
    | .panic => .panic

end Bitmap
end Iso8583
