/-
Lock discipline of *Message and *field.Composite as decidable Boolean functions over the
regenerated micro-step table (Gen/LockFacts.lean, produced by harness/cmd/extract/locks.go).

Rules (DESIGN.md §4, C13):
 (1) every entry point of the synchronized API that reaches guarded state takes the mutex
     (`lock` immediately followed by `deferUnlock`, both at the top level of the body)
     before its first guarded access or helper call and holds it to the end;
 (2) unexported helpers never lock, and helpers that touch guarded state are only called
     with the lock held;
 (3) no method acquires the mutex of its own receiver while holding it (Go mutexes are not
     re-entrant: self-deadlock);
 (4) while holding its lock an object only calls locking methods of its children or of
     objects it has just created, never of a parent type (lock order message → composite →
     nested composite); that the structs keep no pointer to a parent is part of
     `structs_as_expected` (Props/C13.lean);
 (5) entry points never write a struct field that is not guarded (spec, tag order: they
     are immutable after construction, so reading them without the lock is fine).
Anything the translator could not classify (`unknown`) fails every rule that meets it.

`compile` turns an entry point into the micro-step list of Spec/Linearizable.lean
(helpers inlined, `defer Unlock` = release at the end); `wellLocked` includes
`Lin.wlOp (compile …)`, which is the hypothesis of the semantic theorems.

Core-only.
-/
import Iso8583.Spec.Linearizable

namespace Iso8583.Locks
open Iso8583.Lin

inductive MStep where
  | lock | deferUnlock | unlock
  | read (f : String) | write (f : String)
  | call (m : String)
  | callOther (origin ty m : String)
  | unknown (why : String)
deriving DecidableEq, Repr

structure Method where
  recv : String
  name : String
  exported : Bool
  steps : List MStep
deriving Repr

def ofStep : String × String × String × String → MStep
  | ("lock", _, _, _) => .lock
  | ("deferUnlock", _, _, _) => .deferUnlock
  | ("unlock", _, _, _) => .unlock
  | ("read", f, _, _) => .read f
  | ("write", f, _, _) => .write f
  | ("call", m, _, _) => .call m
  | ("callOther", o, ty, m) => .callOther o ty m
  | (k, a, _, _) => .unknown (k ++ " " ++ a)

def ofRow : String × String × Bool × List (String × String × String × String) → Method
  | (r, n, e, ss) => { recv := r, name := n, exported := e, steps := ss.map ofStep }

def lookup (tbl : List Method) (recv name : String) : Option Method :=
  tbl.find? (fun m => m.recv == recv && m.name == name)

def MStep.isLockOp : MStep → Bool
  | .lock | .deferUnlock | .unlock => true
  | _ => false

/-- `defer Unlock` runs when the method returns -/
def desugar (ss : List MStep) : List MStep :=
  ss.filter (· != .deferUnlock) ++ (if ss.contains .deferUnlock then [.unlock] else [])

/-- calls to methods of the same receiver replaced by the callee's body, to depth `fuel`;
what is left over (recursion, unknown callee) becomes `unknown` -/
def inline (tbl : List Method) (recv : String) : Nat → List MStep → List MStep
  | 0, ss => ss.map fun s => match s with
      | .call m => .unknown ("call depth " ++ m)
      | s => s
  | n + 1, ss => ss.flatMap fun s => match s with
      | .call m =>
        match lookup tbl recv m with
        | some c => inline tbl recv n (desugar c.steps)
        | none => [.unknown ("no method " ++ m)]
      | s => [s]

def flat (tbl : List Method) (m : Method) : List MStep :=
  inline tbl m.recv tbl.length (desugar m.steps)

def isGuarded (g : List (String × String)) (recv f : String) : Bool := g.contains (recv, f)

def touches (g : List (String × String)) (recv : String) : MStep → Bool
  | .read f | .write f => isGuarded g recv f
  | _ => false

def hasUnknown (ss : List MStep) : Bool := ss.any fun s => match s with | .unknown _ => true | _ => false

/-! ### rule (1) -/

/-- a method that locks does so first thing (only calls into other objects may precede),
with the deferred unlock right behind, and has no other lock operation -/
def lockShape (ss : List MStep) : Bool :=
  match ss.dropWhile (fun s => match s with | .callOther _ _ _ => true | _ => false) with
  | .lock :: .deferUnlock :: rest => !rest.any MStep.isLockOp
  | rest => !rest.any MStep.isLockOp

/-- every guarded access of the flattened body happens with the mutex held -/
def accessesHeld (g : List (String × String)) (recv : String) : Bool → List MStep → Bool
  | _, [] => true
  | _, .lock :: r => accessesHeld g recv true r
  | _, .unlock :: r => accessesHeld g recv false r
  | held, s :: r => (held || !touches g recv s) && accessesHeld g recv held r

def rule1 (g : List (String × String)) (tbl : List Method) (entries : List (String × String)) : Bool :=
  tbl.all (fun m => lockShape m.steps) &&
  entries.all fun e => match lookup tbl e.1 e.2 with
    | some m => m.exported && !hasUnknown (flat tbl m) && accessesHeld g m.recv false (flat tbl m)
    | none => false

/-! ### rule (2) -/

def touchesGuarded (g : List (String × String)) (tbl : List Method) (m : Method) : Bool :=
  (flat tbl m).any (touches g m.recv)

/-- helper calls of one (raw) body happen with the lock held -/
def helperCallsHeld (g : List (String × String)) (tbl : List Method) (recv : String) : Bool → List MStep → Bool
  | _, [] => true
  | _, .lock :: r => helperCallsHeld g tbl recv true r
  | _, .unlock :: r => helperCallsHeld g tbl recv false r
  | held, .call m :: r =>
    (match lookup tbl recv m with
     | some c => held || c.exported || !touchesGuarded g tbl c
     | none => false) && helperCallsHeld g tbl recv held r
  | held, _ :: r => helperCallsHeld g tbl recv held r

def rule2 (g : List (String × String)) (tbl : List Method) : Bool :=
  tbl.all fun m =>
    if m.exported then helperCallsHeld g tbl m.recv false m.steps
    else !m.steps.any MStep.isLockOp

/-! ### rule (3) -/

def noReentry : Bool → List MStep → Bool
  | _, [] => true
  | held, .lock :: r => !held && noReentry true r
  | held, .unlock :: r => held && noReentry false r
  | held, _ :: r => noReentry held r

/-- exported methods start without the lock, helpers with it -/
def rule3 (tbl : List Method) : Bool :=
  tbl.all fun m => noReentry (!m.exported) (flat tbl m)

/-! ### rule (4) -/

def rule4 (parents : List String) (tbl : List Method) : Bool :=
  tbl.all fun m => m.steps.all fun s => match s with
    | .callOther origin ty _ =>
      (origin == "fresh" || (origin == "child" && !parents.contains ty)) &&
      (m.recv == "Message" || !parents.contains ty)
    | _ => true

/-! ### rule (5) -/

def rule5 (g : List (String × String)) (tbl : List Method) (entries : List (String × String)) : Bool :=
  entries.all fun e => match lookup tbl e.1 e.2 with
    | some m => (flat tbl m).all fun s => match s with
        | .write f => isGuarded g m.recv f
        | _ => true
    | none => false

/-! ### compilation to the semantic micro-steps -/

def toInstr (g : List (String × String)) (recv : String) : MStep → Option Instr
  | .lock => some .acq
  | .unlock => some .rel
  | .read f => some (if isGuarded g recv f then .acc f false else .ext)
  | .write f => if isGuarded g recv f then some (.acc f true) else none
  | .callOther _ _ _ => some .ext
  | _ => none

def compile (g : List (String × String)) (tbl : List Method) (e : String × String) : Option (List Instr) :=
  match lookup tbl e.1 e.2 with
  | some m => (flat tbl m).mapM (toInstr g m.recv)
  | none => none

def compiledOK (g : List (String × String)) (tbl : List Method) (entries : List (String × String)) : Bool :=
  entries.all fun e => match compile g tbl e with
    | some b => wlOp b
    | none => false

def wellLocked (g : List (String × String)) (parents : List String) (tbl : List Method)
    (entries : List (String × String)) : Bool :=
  rule1 g tbl entries && rule2 g tbl && rule3 tbl && rule4 parents tbl && rule5 g tbl entries &&
  compiledOK g tbl entries

/-- exported methods outside the operation list that reach guarded state without the lock
(recorded in the evidence note; not part of the property) -/
def unlockedOutsideList (g : List (String × String)) (tbl : List Method) (entries : List (String × String)) :
    List (String × String) :=
  (tbl.filter fun m => m.exported && !entries.contains (m.recv, m.name) &&
    !accessesHeld g m.recv false (flat tbl m)).map fun m => (m.recv, m.name)

end Iso8583.Locks
