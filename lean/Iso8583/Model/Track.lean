/-
Model of the three track field kinds: /repo/field/track1.go, track2.go, track3.go
(Pack, Unpack, pack, unpack) as they are after the `fix:` commits — the regex parsers
clear the components first. A standalone field family (the `Kind`/`Field` types of
Model/Field.lean are frozen): the wire layer is `PrimSpec.packBytes` / `unpackBytes`
(defaultPacker / Track2Packer and their unpackers), the text layer is modelled here.

Hand models of library behaviour used by the track code (exercised by channel Y):
* `regexp`: the three anchored patterns are matched by hand-written splitters
  (`Track1.groups`, …); Lemmas/TrackRegex.lean relates them to a small regex semantics
  over the pattern text regenerated in Gen/TrackConsts.lean. `regexp` works on UTF-8
  code points and treats every byte that does not start a valid encoding as one
  (U+FFFD) code point of width 1 — `utf8Width` is `utf8.DecodeRune`'s width.
* `strings.TrimSpace`: strips leading and trailing Unicode White_Space code points
  (`spacePrefix` lists the 25 encodings; unicode.IsSpace of Go 1.23 / Unicode 15).
* `time.Parse("0601", v)` / `Time.Format("0601")`: two-digit year with pivot 69, month
  01..12; a `*time.Time` produced by the parser is (year, month) — day 1, 00:00 UTC.
* `fmt.Sprintf("%-26.26s")`: truncate to 26 code points, pad with spaces to 26.
-/
import Iso8583.Model.Field

namespace Iso8583

inductive TrackKind where
  | t1 | t2 | t3
deriving Repr, DecidableEq, Inhabited

structure TrackSpec where
  kind : TrackKind
  len : Nat
  enc : Enc
  pref : Pref
  pad : Pad
  packer : PackerKind := .default
deriving Repr, DecidableEq, Inhabited

/-- the wire layer of a track field is that of a primitive (`spec.getPacker().Pack(text, spec)`) -/
def TrackSpec.prim (s : TrackSpec) : PrimSpec :=
  { kind := .string, len := s.len, enc := s.enc, pref := s.pref, pad := s.pad, packer := s.packer }

/-- `ExpirationDate *time.Time` as far as `Format("0601")` reads it and `Parse("0601")`
produces it -/
structure Expiry where
  year : Nat
  month : Nat
deriving Repr, DecidableEq, Inhabited

structure Track1 where
  fixedLength : Bool := false
  formatCode : Bytes := []
  pan : Bytes := []
  name : Bytes := []
  expiry : Option Expiry := none
  serviceCode : Bytes := []
  data : Bytes := []
deriving Repr, DecidableEq, Inhabited

structure Track2 where
  pan : Bytes := []
  sep : Bytes := []
  expiry : Option Expiry := none
  serviceCode : Bytes := []
  data : Bytes := []
deriving Repr, DecidableEq, Inhabited

structure Track3 where
  formatCode : Bytes := []
  pan : Bytes := []
  data : Bytes := []
deriving Repr, DecidableEq, Inhabited

/-- the exported components of a track field object -/
inductive TrackVal where
  | t1 (v : Track1)
  | t2 (v : Track2)
  | t3 (v : Track3)
deriving Repr, DecidableEq, Inhabited

def TrackVal.kind : TrackVal → TrackKind
  | .t1 _ => .t1 | .t2 _ => .t2 | .t3 _ => .t3

namespace Track

/-! ### byte classes -/

def dig (c : Byte) : Bool := decide (48 ≤ c.toNat ∧ c.toNat ≤ 57)
def upper (c : Byte) : Bool := decide (65 ≤ c.toNat ∧ c.toNat ≤ 90)
def caret : Byte := 94      -- '^'
def quest : Byte := 63      -- '?'
def eqSign : Byte := 61     -- '='
def capD : Byte := 68       -- 'D'

/-! ### UTF-8 as `utf8.DecodeRune` sees it -/

def isCont (c : Byte) : Bool := decide (128 ≤ c.toNat ∧ c.toNat ≤ 191)

/-- width of the first code point (`utf8.DecodeRune(p)`'s size): an invalid or truncated
encoding is one unit of width 1 -/
def utf8Width : Bytes → Nat
  | [] => 0
  | b0 :: rest =>
    let x := b0.toNat
    if x < 128 then 1
    else if 194 ≤ x ∧ x ≤ 223 then
      match rest with
      | b1 :: _ => if isCont b1 then 2 else 1
      | _ => 1
    else if 224 ≤ x ∧ x ≤ 239 then
      let lo := if x = 224 then 160 else 128
      let hi := if x = 237 then 159 else 191
      match rest with
      | b1 :: b2 :: _ => if lo ≤ b1.toNat ∧ b1.toNat ≤ hi ∧ isCont b2 then 3 else 1
      | _ => 1
    else if 240 ≤ x ∧ x ≤ 244 then
      let lo := if x = 240 then 144 else 128
      let hi := if x = 244 then 143 else 191
      match rest with
      | b1 :: b2 :: b3 :: _ => if lo ≤ b1.toNat ∧ b1.toNat ≤ hi ∧ isCont b2 ∧ isCont b3 then 4 else 1
      | _ => 1
    else 1

/-- number of code points; `skip` = bytes of the current code point still to pass -/
def utf8CountAux : Nat → Bytes → Nat
  | _, [] => 0
  | 0, b :: rest => 1 + utf8CountAux (utf8Width (b :: rest) - 1) rest
  | k + 1, _ :: rest => utf8CountAux k rest

/-- `utf8.RuneCount` -/
def utf8Count (bs : Bytes) : Nat := utf8CountAux 0 bs

/-- the first `n` code points (`fmt`'s precision on `%s`) -/
def utf8TakeAux : Nat → Nat → Bytes → Bytes
  | _, _, [] => []
  | n, k + 1, b :: rest => b :: utf8TakeAux n k rest
  | 0, 0, _ :: _ => []
  | n + 1, 0, b :: rest => b :: utf8TakeAux n (utf8Width (b :: rest) - 1) rest

def utf8Take (n : Nat) (bs : Bytes) : Bytes := utf8TakeAux n 0 bs

/-! ### strings.TrimSpace -/

/-- byte length of a leading Unicode White_Space code point (0 = none):
U+0009–000D, 0020, 0085, 00A0, 1680, 2000–200A, 2028, 2029, 202F, 205F, 3000 -/
def spacePrefix : Bytes → Nat
  | [] => 0
  | b :: rest =>
    let x := b.toNat
    if (9 ≤ x ∧ x ≤ 13) ∨ x = 32 then 1
    else if x = 194 then
      match rest with
      | b1 :: _ => if b1.toNat = 133 ∨ b1.toNat = 160 then 2 else 0
      | _ => 0
    else if x = 225 then
      match rest with
      | b1 :: b2 :: _ => if b1.toNat = 154 ∧ b2.toNat = 128 then 3 else 0
      | _ => 0
    else if x = 226 then
      match rest with
      | b1 :: b2 :: _ =>
        if b1.toNat = 128 ∧ ((128 ≤ b2.toNat ∧ b2.toNat ≤ 138) ∨ b2.toNat = 168 ∨ b2.toNat = 169 ∨ b2.toNat = 175) then 3
        else if b1.toNat = 129 ∧ b2.toNat = 159 then 3
        else 0
      | _ => 0
    else if x = 227 then
      match rest with
      | b1 :: b2 :: _ => if b1.toNat = 128 ∧ b2.toNat = 128 then 3 else 0
      | _ => 0
    else 0

/-- byte length of a trailing White_Space code point, on the *reversed* string -/
def spaceSuffixRev : Bytes → Nat
  | [] => 0
  | b :: rest =>
    let x := b.toNat
    if (9 ≤ x ∧ x ≤ 13) ∨ x = 32 then 1
    else
      match rest with
      | b1 :: rest' =>
        if b1.toNat = 194 ∧ (x = 133 ∨ x = 160) then 2
        else
          match rest' with
          | b2 :: _ =>
            if b2.toNat = 225 ∧ b1.toNat = 154 ∧ x = 128 then 3
            else if b2.toNat = 226 ∧ b1.toNat = 128 ∧ ((128 ≤ x ∧ x ≤ 138) ∨ x = 168 ∨ x = 169 ∨ x = 175) then 3
            else if b2.toNat = 226 ∧ b1.toNat = 129 ∧ x = 159 then 3
            else if b2.toNat = 227 ∧ b1.toNat = 128 ∧ x = 128 then 3
            else 0
          | [] => 0
      | [] => 0

/-- drop leading units for which `sp` reports a positive width -/
def trimAux (sp : Bytes → Nat) : Nat → Bytes → Bytes
  | _, [] => []
  | k + 1, _ :: rest => trimAux sp k rest
  | 0, b :: rest =>
    let w := sp (b :: rest)
    if w = 0 then b :: rest else trimAux sp (w - 1) rest

def trimLeft (bs : Bytes) : Bytes := trimAux spacePrefix 0 bs
def trimRight (bs : Bytes) : Bytes := (trimAux spaceSuffixRev 0 bs.reverse).reverse

/-- `strings.TrimSpace` -/
def trimSpace (bs : Bytes) : Bytes := trimRight (trimLeft bs)

/-! ### time.Parse("0601") / Format("0601") -/

def two (n : Nat) : Bytes := [asciiDigit (n / 10 % 10), asciiDigit (n % 10)]

/-- `t.Format("0601")` -/
def fmtExpiry (e : Expiry) : Bytes := two (e.year % 100) ++ two e.month

/-- `time.Parse("0601", v)`: two digits of year (69..99 → 19xx, 00..68 → 20xx), two
digits of month 01..12; anything else is an error -/
def parseExpiry (v : Bytes) : Option Expiry :=
  match v with
  | [a, b, c, d] =>
    match decVal? a, decVal? b, decVal? c, decVal? d with
    | some a, some b, some c, some d =>
      let yy := a * 10 + b
      let mm := c * 10 + d
      if mm = 0 ∨ 12 < mm then none
      else some { year := if yy ≥ 69 then 1900 + yy else 2000 + yy, month := mm }
    | _, _, _, _ => none
  | _ => none

/-- `fmt.Sprintf("%-26.26s", name)` -/
def padName (name : Bytes) : Bytes :=
  let t := utf8Take 26 name
  t ++ List.replicate (26 - utf8Count t) 32

/-- `[^\?]+$`: non-empty, no '?' (the class is negated, so it also matches invalid bytes
and newlines; '?' is ASCII and never part of a longer encoding) -/
def dataOK (dd : Bytes) : Bool := !dd.isEmpty && dd.all (· != quest)

end Track

open Track

/-! ### Track 2 -/

namespace Track2

/-- `fmt.Sprintf("%s%s%s%s%s", pan, separator, expired, code, dd)` -/
def packText (f : Track2) : Bytes :=
  let expired := match f.expiry with | some e => fmtExpiry e | none => [caret]
  let code := if f.serviceCode.length > 0 then f.serviceCode else [caret]
  let separator := if f.sep ≠ [] then f.sep else [eqSign]
  f.pan ++ separator ++ expired ++ code ++ f.data

/-- the capture groups of `^([0-9]{1,19})(=|D)([0-9]{4})([0-9]{3})([^?]+)$` -/
def groups (raw : Bytes) : Option (Bytes × Bytes × Bytes × Bytes × Bytes) :=
  let pan := raw.takeWhile dig
  if 1 ≤ pan.length ∧ pan.length ≤ 19 then
    match raw.dropWhile dig with
    | sep :: r2 =>
      if sep = eqSign ∨ sep = capD then
        let exp := r2.take 4
        let sc := (r2.drop 4).take 3
        let dd := (r2.drop 4).drop 3
        if exp.length = 4 ∧ exp.all dig ∧ sc.length = 3 ∧ sc.all dig ∧ dataOK dd then
          some (pan, [sep], exp, sc, dd)
        else none
      else none
    | [] => none
  else none

/-- `(*Track2).unpack(raw)`: the object afterwards and whether it returned nil. -/
def unpackRaw (old : Track2) (raw : Bytes) : Track2 × Bool :=
  match groups raw with
  | none => (old, false)              -- "invalid track data": nothing touched
  | some (pan, sep, exp, sc, dd) =>
    -- components cleared, then every group that is non-empty after TrimSpace is stored
    let f : Track2 := { pan := trimSpace pan, sep := trimSpace sep }
    let e := trimSpace exp
    if e.isEmpty then
      ({ f with serviceCode := trimSpace sc, data := trimSpace dd }, true)
    else
      match parseExpiry e with
      | none => (f, false)            -- "invalid expired time": later groups stay cleared
      | some t => ({ f with expiry := some t, serviceCode := trimSpace sc, data := trimSpace dd }, true)

end Track2

/-! ### Track 1 -/

namespace Track1

/-- a stored component: trimmed; an empty one or the placeholder "^" is skipped (stays cleared) -/
def comp (v : Bytes) : Bytes :=
  let t := trimSpace v
  if t = [caret] then [] else t

/-- `fmt.Sprintf("%s%s^%s^%s%s%s", fc, pan, name, expired, code, dd)` -/
def packText (f : Track1) : Bytes :=
  let name := if f.name.length > 1 ∧ f.fixedLength then padName f.name else f.name
  let expired := match f.expiry with | some e => fmtExpiry e | none => [caret]
  let code := if f.serviceCode.length > 0 then f.serviceCode else [caret]
  f.formatCode ++ f.pan ++ [caret] ++ name ++ [caret] ++ expired ++ code ++ f.data

/-- `([0-9]{k}|\^)`: the group and the rest -/
def digitsOrCaret (k : Nat) (r : Bytes) : Option (Bytes × Bytes) :=
  match r with
  | [] => none
  | c :: rest =>
    if c = caret then some ([caret], rest)
    else if (r.take k).length = k ∧ (r.take k).all dig then some (r.take k, r.drop k)
    else none

/-- the capture groups of
`^([A-Z]{1})([0-9]{1,19})\^([^\^]{2,26})\^([0-9]{4}|\^)([0-9]{3}|\^)([^\?]+)$` -/
def groups (raw : Bytes) : Option (Bytes × Bytes × Bytes × Bytes × Bytes × Bytes) :=
  match raw with
  | [] => none
  | fc :: r0 =>
    if upper fc then
      let pan := r0.takeWhile dig
      if 1 ≤ pan.length ∧ pan.length ≤ 19 then
        match r0.dropWhile dig with
        | c1 :: r1 =>
          if c1 = caret then
            let name := r1.takeWhile (· != caret)
            if 2 ≤ utf8Count name ∧ utf8Count name ≤ 26 then
              match r1.dropWhile (· != caret) with
              | _ :: r2 =>           -- the '^' that ended the name
                match digitsOrCaret 4 r2 with
                | some (exp, r3) =>
                  match digitsOrCaret 3 r3 with
                  | some (sc, dd) => if dataOK dd then some ([fc], pan, name, exp, sc, dd) else none
                  | none => none
                | none => none
              | [] => none
            else none
          else none
        | [] => none
      else none
    else none

/-- `(*Track1).unpack(raw)`; `FixedLength` is not a parsed component and is left alone -/
def unpackRaw (old : Track1) (raw : Bytes) : Track1 × Bool :=
  match groups raw with
  | none => (old, false)
  | some (fc, pan, name, exp, sc, dd) =>
    let f : Track1 := { fixedLength := old.fixedLength, formatCode := comp fc, pan := comp pan, name := comp name }
    let e := comp exp
    if e.isEmpty then
      ({ f with serviceCode := comp sc, data := comp dd }, true)
    else
      match parseExpiry e with
      | none => (f, false)
      | some t => ({ f with expiry := some t, serviceCode := comp sc, data := comp dd }, true)

end Track1

/-! ### Track 3 -/

namespace Track3

/-- a stored component: trimmed; an empty one or "=" is skipped -/
def comp (v : Bytes) : Bytes :=
  let t := trimSpace v
  if t = [eqSign] then [] else t

/-- `fmt.Sprintf("%s%s=%s", fc, pan, dd)` -/
def packText (f : Track3) : Bytes := f.formatCode ++ f.pan ++ [eqSign] ++ f.data

/-- the capture groups of `^([0-9]{2})([0-9]{1,19})\=([^\?]+)$` -/
def groups (raw : Bytes) : Option (Bytes × Bytes × Bytes) :=
  let ds := raw.takeWhile dig
  if 3 ≤ ds.length ∧ ds.length ≤ 21 then
    match raw.dropWhile dig with
    | c :: dd => if c = eqSign ∧ dataOK dd then some (ds.take 2, ds.drop 2, dd) else none
    | [] => none
  else none

def unpackRaw (old : Track3) (raw : Bytes) : Track3 × Bool :=
  match groups raw with
  | none => (old, false)
  | some (fc, pan, dd) => ({ formatCode := comp fc, pan := comp pan, data := comp dd }, true)

end Track3

/-! ### the field: Pack / Unpack -/

namespace TrackVal

/-- `f.pack()` (also `Bytes()` / `String()`) -/
def packText : TrackVal → Bytes
  | .t1 v => v.packText
  | .t2 v => v.packText
  | .t3 v => v.packText

/-- `f.unpack(raw)` (also `SetBytes`) -/
def unpackRaw : TrackVal → Bytes → TrackVal × Bool
  | .t1 v, raw => let r := v.unpackRaw raw; (.t1 r.1, r.2)
  | .t2 v, raw => let r := v.unpackRaw raw; (.t2 r.1, r.2)
  | .t3 v, raw => let r := v.unpackRaw raw; (.t3 r.1, r.2)

end TrackVal

/-- the components cleared, the FixedLength option (configuration, not a parsed
component) kept: what `Unpack` does to the object for an empty value (fix c30286b) -/
def TrackVal.cleared : TrackVal → TrackVal
  | .t1 v => .t1 { fixedLength := v.fixedLength }
  | .t2 _ => .t2 {}
  | .t3 _ => .t3 {}

namespace TrackSpec

/-- `NewTrackN(spec)`: all components empty -/
def fresh (s : TrackSpec) : TrackVal :=
  match s.kind with
  | .t1 => .t1 {} | .t2 => .t2 {} | .t3 => .t3 {}

/-- `Pack`: `packer.Pack(f.pack(), spec)` -/
def pack (s : TrackSpec) (v : TrackVal) : Res Bytes := s.prim.packBytes v.packText

/-- `Unpack` into an object holding `old`: the object afterwards and the returned
(bytes read | error). As in the Go code, `f.unpack` is only called for a non-empty
value; an empty value clears every component (fix c30286b). -/
def unpack (s : TrackSpec) (old : TrackVal) (data : Bytes) : TrackVal × Res Nat :=
  match s.prim.unpackBytes data with
  | .err => (old, .err)
  | .panic => (old, .panic)
  | .ok (raw, read) =>
    if raw.isEmpty then (old.cleared, .ok read)
    else
      match old.unpackRaw raw with
      | (new, true) => (new, .ok read)
      | (new, false) => (new, .err)

end TrackSpec

end Iso8583
