/-
Model of what `encoding/json` (go1.23) does to string literals: the `StrCodec` that the
JSON model (`Model/Json.lean`) takes as a parameter.  Core-only.

  * `goEmit s`  = `json.Marshal(string(s))`: `appendString` of encoding/json/encode.go with
    the default `escapeHTML = true`.  ASCII bytes of `htmlSafeSet` (0x20 … 0x7F except
    `"` `\` `<` `>` `&`) are copied; `"` `\` get a backslash; BS FF LF CR TAB their short
    forms; every other byte below 0x80 (the remaining control characters and `<` `>` `&`)
    becomes `\u00xx` (lower-case hex); from 0x80 on `utf8.DecodeRuneInString` decides: an
    ill-formed sequence costs ONE byte and is written as `�`, U+2028 / U+2029 are
    written as ` ` / ` `, every other well-formed sequence is copied.
  * `goParse lit` = `var s string; json.Unmarshal(lit, &s)`: the scanner (scanner.go) first
    checks that `lit` is ONE JSON value surrounded by optional white space (space, TAB, LF,
    CR); for a string literal the scanner accepts every byte >= 0x20 other than `"` and
    `\`, the escapes `\" \\ \/ \b \f \n \r \t` and `\u` + four hex digits of either case
    (NOT `\'`, which `unquoteBytes` alone would take); then `unquoteBytes` (decode.go)
    builds the string: escapes resolved, a `\uD800…\uDBFF` immediately followed by a
    `\uDC00…\uDFFF` combined into one code point, every other surrogate replaced by U+FFFD
    (the following `\u` escape is then NOT consumed), every raw ill-formed UTF-8 byte
    replaced by U+FFFD, well-formed raw sequences decoded and re-encoded
    (`utf8.EncodeRune (utf8.DecodeRune …)`).  The document `null` leaves the Go string
    untouched (`""`); every other document (numbers, `true`, objects, two values, a raw
    control character, an unterminated literal …) is an error = `none`.

Both loops are written as a non-recursive *step* (one iteration: the bytes produced and the
rest of the input) iterated by a fuel-indexed loop with fuel = length of the input; every
step consumes at least one byte, so the fuel never runs out (`Props/C12Text.lean`).
Correspondence channel `JS` (harness/impl/jsontext.go) compares both functions with the
real encoder / decoder on all one- and two-byte strings and on hand-made literals.
-/
import Iso8583.Model.Json

namespace Iso8583
namespace JsonText

/-! ### UTF-8 (`unicode/utf8`) -/

/-- `utf8.EncodeRune` (surrogates and values beyond U+10FFFF are written as U+FFFD) -/
def encodeRune (r : Nat) : Bytes :=
  if r < 128 then [UInt8.ofNat r]
  else if r < 2048 then [UInt8.ofNat (192 + r / 64), UInt8.ofNat (128 + r % 64)]
  else if (55296 ≤ r ∧ r ≤ 57343) ∨ 1114111 < r then [239, 191, 189]
  else if r < 65536 then
    [UInt8.ofNat (224 + r / 4096), UInt8.ofNat (128 + r / 64 % 64), UInt8.ofNat (128 + r % 64)]
  else
    [UInt8.ofNat (240 + r / 262144), UInt8.ofNat (128 + r / 4096 % 64), UInt8.ofNat (128 + r / 64 % 64),
     UInt8.ofNat (128 + r % 64)]

/-- `utf8.DecodeRune` on a sequence that starts with a byte >= 0x80: `some (rune, size)` for a
well-formed sequence (`first` / `acceptRanges` of utf8.go: C2..DF + 1 continuation byte;
E0 + A0..BF, E1..EC / EE..EF + 80..BF, ED + 80..9F, then 1 continuation byte; F0 + 90..BF,
F1..F3 + 80..BF, F4 + 80..8F, then 2 continuation bytes), `none` for `(RuneError, 1)` -/
def decodeRune (c : Byte) (rest : Bytes) : Option (Nat × Nat) :=
  if 194 ≤ c.toNat ∧ c.toNat ≤ 223 then
    match rest with
    | c1 :: _ =>
      if isCont c1 then some ((c.toNat - 192) * 64 + (c1.toNat - 128), 2) else none
    | _ => none
  else if 224 ≤ c.toNat ∧ c.toNat ≤ 239 then
    match rest with
    | c1 :: c2 :: _ =>
      if isCont c1 && isCont c2 && (c.toNat != 224 || decide (160 ≤ c1.toNat)) &&
          (c.toNat != 237 || decide (c1.toNat ≤ 159)) then
        some ((c.toNat - 224) * 4096 + (c1.toNat - 128) * 64 + (c2.toNat - 128), 3)
      else none
    | _ => none
  else if 240 ≤ c.toNat ∧ c.toNat ≤ 244 then
    match rest with
    | c1 :: c2 :: c3 :: _ =>
      if isCont c1 && isCont c2 && isCont c3 && (c.toNat != 240 || decide (144 ≤ c1.toNat)) &&
          (c.toNat != 244 || decide (c1.toNat ≤ 143)) then
        some ((c.toNat - 240) * 262144 + (c1.toNat - 128) * 4096 + (c2.toNat - 128) * 64 + (c3.toNat - 128), 4)
      else none
    | _ => none
  else none

/-- U+FFFD in UTF-8 -/
def replacement : Bytes := [239, 191, 189]

/-! ### `json.Marshal(string)` -/

/-- `hex[n]` of encode.go: lower-case hex digit -/
def hexLower (d : Nat) : Byte := if d < 10 then UInt8.ofNat (48 + d) else UInt8.ofNat (87 + d)

/-- `htmlSafeSet[b]` for `b < 0x80` -/
def htmlSafe (c : Byte) : Bool :=
  decide (32 ≤ c.toNat) && c != 34 && c != 92 && c != 60 && c != 62 && c != 38

/-- what `appendString` writes for one byte below 0x80 -/
def emitAscii (c : Byte) : Bytes :=
  if htmlSafe c then [c]
  else if c = 92 ∨ c = 34 then [92, c]
  else if c = 8 then [92, 98]         -- \b
  else if c = 12 then [92, 102]       -- \f
  else if c = 10 then [92, 110]       -- \n
  else if c = 13 then [92, 114]       -- \r
  else if c = 9 then [92, 116]        -- \t
  else [92, 117, 48, 48, hexLower (c.toNat / 16), hexLower (c.toNat % 16)]

/-- one iteration of the loop of `appendString` at the byte `c` followed by `rest`: the bytes
written for it and the input that remains -/
def emitStep (c : Byte) (rest : Bytes) : Bytes × Bytes :=
  if c.toNat < 128 then (emitAscii c, rest)
  else
    match decodeRune c rest with
    | none => ([92, 117, 102, 102, 102, 100], rest)                       -- �, one byte consumed
    | some (r, size) =>
      if r = 8232 ∨ r = 8233 then
        ([92, 117, 50, 48, 50, hexLower (r % 16)], (c :: rest).drop size)   --  ,
      else ((c :: rest).take size, (c :: rest).drop size)

def emitLoop : Nat → Bytes → Bytes
  | _, [] => []
  | 0, _ :: _ => []                      -- unreachable: fuel = length
  | fuel + 1, c :: rest =>
    let (chunk, rest') := emitStep c rest
    chunk ++ emitLoop fuel rest'

/-- the text between the quotes -/
def emitBody (s : Bytes) : Bytes := emitLoop s.length s

/-- `json.Marshal(string(s))` -/
def goEmit (s : Bytes) : Bytes := 34 :: (emitBody s ++ [34])

/-! ### `json.Unmarshal(lit, &string)` -/

/-- `getu4` without the leading `\u`: four hex digits of either case, and the rest -/
def hex4 : Bytes → Option (Nat × Bytes)
  | a :: b :: c :: d :: r =>
    match hexVal? a, hexVal? b, hexVal? c, hexVal? d with
    | some x, some y, some z, some w => some (((x * 16 + y) * 16 + z) * 16 + w, r)
    | _, _, _, _ => none
  | _ => none

/-- `getu4`: `\uXXXX` at the head of the input -/
def getu4 : Bytes → Option (Nat × Bytes)
  | 92 :: 117 :: r => hex4 r
  | _ => none

def isSurrogate (r : Nat) : Bool := decide (55296 ≤ r ∧ r < 57344)

/-- one iteration of the loop of `unquoteBytes` (restricted to what the scanner lets
through) at the byte `c` followed by `rest`: the bytes written and the input that remains;
`none` = not a string literal -/
def parseStep (c : Byte) (rest : Bytes) : Option (Bytes × Bytes) :=
  if c = 92 then
    match rest with
    | [] => none
    | e :: r =>
      if e = 34 ∨ e = 92 ∨ e = 47 then some ([e], r)
      else if e = 98 then some ([8], r)
      else if e = 102 then some ([12], r)
      else if e = 110 then some ([10], r)
      else if e = 114 then some ([13], r)
      else if e = 116 then some ([9], r)
      else if e = 117 then
        match hex4 r with
        | none => none
        | some (rr, r') =>
          if isSurrogate rr then
            match getu4 r' with
            | some (rr1, r'') =>
              -- utf16.DecodeRune
              if rr < 56320 ∧ 56320 ≤ rr1 ∧ rr1 < 57344 then
                some (encodeRune ((rr - 55296) * 1024 + (rr1 - 56320) + 65536), r'')
              else some (replacement, r')
            | none => some (replacement, r')
          else some (encodeRune rr, r')
      else none
  else if c = 34 ∨ c.toNat < 32 then none
  else if c.toNat < 128 then some ([c], rest)
  else
    match decodeRune c rest with
    | none => some (replacement, rest)
    | some (r, size) => some (encodeRune r, (c :: rest).drop size)

def parseLoop : Nat → Bytes → Option Bytes
  | _, [] => some []
  | 0, _ :: _ => none                    -- unreachable: fuel = length
  | fuel + 1, c :: rest =>
    match parseStep c rest with
    | none => none
    | some (out, rest') =>
      match parseLoop fuel rest' with
      | none => none
      | some t => some (out ++ t)

/-- the string denoted by the text between the quotes -/
def parseBody (body : Bytes) : Option Bytes := parseLoop body.length body

/-- the scanner's `isSpace` -/
def isSpace (c : Byte) : Bool := c = 32 || c = 9 || c = 13 || c = 10

def trimSpace (s : Bytes) : Bytes := ((s.dropWhile isSpace).reverse.dropWhile isSpace).reverse

/-- `var s string; err := json.Unmarshal(lit, &s)`: `some s` when `err == nil` -/
def goParse (lit : Bytes) : Option Bytes :=
  match trimSpace lit with
  | 34 :: rest =>
    match rest.reverse with
    | 34 :: bodyRev => parseBody bodyRev.reverse
    | _ => none
  | [110, 117, 108, 108] => some []            -- null: the string is left as it was
  | _ => none

end JsonText

open JsonText in
/-- the string codec of `encoding/json` -/
def goCodec : StrCodec := ⟨goEmit, goParse⟩

end Iso8583
