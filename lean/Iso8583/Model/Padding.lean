/-
Model of /repo/padding/*.go (after the `fix:` commit for the right padder).
Pad characters are single bytes < 0x80 (DESIGN.md §2.1); for such a byte
`bytes.TrimLeftFunc`/`TrimRightFunc` with the rune predicate `r == pad` strip exactly
the leading / trailing bytes equal to the pad byte (a byte ≥ 0x80 never decodes to an
ASCII rune).
-/
import Iso8583.Basic

namespace Iso8583

inductive Pad where
  | nil                 -- spec.Pad == nil
  | none                -- padding.None
  | left (c : Byte)
  | right (c : Byte)
deriving Repr, DecidableEq, Inhabited

/-- A Go slice as seen by the callee: the backing array from the slice start to its
capacity, and the slice length. -/
structure GoSlice where
  arr : Bytes
  len : Nat
deriving Repr, DecidableEq

def GoSlice.data (s : GoSlice) : Bytes := s.arr.take s.len

namespace Pad

def dropWhileRight (p : Byte → Bool) (bs : Bytes) : Bytes :=
  (bs.reverse.dropWhile p).reverse

def pad (p : Pad) (data : Bytes) (length : Nat) : Bytes :=
  match p with
  | nil => data
  | none => data
  | left c => if data.length ≥ length then data else List.replicate (length - data.length) c ++ data
  | right c => if data.length ≥ length then data else data ++ List.replicate (length - data.length) c

def unpad (p : Pad) (data : Bytes) : Bytes :=
  match p with
  | nil => data
  | none => data
  | left c => data.dropWhile (· == c)
  | right c => dropWhileRight (· == c) data

/-- `Pad` with its memory effect made explicit: the result, and the caller's backing
array after the call. All three padders build their result in fresh memory, so the
backing array comes back unchanged. -/
def padMem (p : Pad) (s : GoSlice) (length : Nat) : Bytes × Bytes :=
  (pad p s.data length, s.arr)

end Pad
end Iso8583
