/-
Model of the JSON encoding of messages: /repo/message.go (MarshalJSON, UnmarshalJSON),
/repo/field/ordered_map.go (OrderedMap.MarshalJSON), /repo/field/composite.go
(MarshalJSON, UnmarshalJSON) and the per-kind MarshalJSON / UnmarshalJSON of
field/string.go, numeric.go, binary.go, hex.go, bitmap.go.  Core-only.

ASSUMPTION (stated in every theorem that needs it, never an axiom): `encoding/json`'s
tokeniser, number syntax and string escaping are NOT modelled.  The model works on JSON
*trees*; a string node holds the string *literal* as it stands in the document, and the pair
`encoding/json` uses to write and read such literals is a parameter `StrCodec = (emit, parse)`
of the model.  The round-trip theorems assume `parse (emit s) = some s` for valid UTF-8 `s`
(`StrCodec.Faithful`) and that a hand-quoted alphanumeric key `"k"` parses to `k`
(`StrCodec.KeysOK`; object keys are written by `fmt.Sprintf("\"%v\":", key)` without
escaping, field/ordered_map.go:29).  Integers are tree nodes (`json.Marshal(int64)` /
`json.Unmarshal` into `int` assumed to be inverse on the 64-bit range).  The correspondence
channel J compares the model's tree with the implementation's document as parsed by
`encoding/json`, key order preserved, and `json.Valid` is checked on every document.

Go maps: `json.Unmarshal` into `map[string]json.RawMessage` keeps the *last* occurrence of a
repeated key; the model does the same (`laterKey`).  Two different keys that `strconv.Atoi`
maps to one field number ("5", "05") are processed by Go in map order — not modelled
(documents emitted by MarshalJSON never contain them).
-/
import Iso8583.Model.Message

namespace Iso8583

inductive Json where
  | str (lit : Bytes)                    -- a string literal as written in the document
  | num (i : Int)                        -- an integer
  | obj (kvs : List (Bytes × Json))      -- members in document order, keys as literals
  | other                                -- anything else (true, false, null, arrays, fractions)
deriving Repr, Inhabited

structure StrCodec where
  /-- `json.Marshal(string)`: the literal for a string -/
  emit : Bytes → Bytes
  /-- the string a literal denotes (`none` = not a string literal) -/
  parse : Bytes → Option Bytes

/-- `fmt.Sprintf("\"%v\"", key)` -/
def quoteRaw (k : Bytes) : Bytes := 34 :: (k ++ [34])

/-! ### UTF-8 validity (`utf8.Valid`): JSON's own domain for string values -/

def isCont (c : Byte) : Bool := decide (128 ≤ c.toNat ∧ c.toNat ≤ 191)

def validUtf8 : Bytes → Bool
  | [] => true
  | c :: rest =>
    if c.toNat < 128 then validUtf8 rest
    else if 194 ≤ c.toNat ∧ c.toNat ≤ 223 then
      match rest with
      | c1 :: r => isCont c1 && validUtf8 r
      | _ => false
    else if 224 ≤ c.toNat ∧ c.toNat ≤ 239 then
      match rest with
      | c1 :: c2 :: r =>
        isCont c1 && isCont c2 &&
        (c.toNat != 224 || decide (160 ≤ c1.toNat)) &&      -- no overlong forms
        (c.toNat != 237 || decide (c1.toNat ≤ 159)) &&      -- no surrogates
        validUtf8 r
      | _ => false
    else if 240 ≤ c.toNat ∧ c.toNat ≤ 244 then
      match rest with
      | c1 :: c2 :: c3 :: r =>
        isCont c1 && isCont c2 && isCont c3 &&
        (c.toNat != 240 || decide (144 ≤ c1.toNat)) &&
        (c.toNat != 244 || decide (c1.toNat ≤ 143)) &&
        validUtf8 r
      | _ => false
    else false

/-! ### OrderedMap.MarshalJSON at token level (the hand-written object syntax) -/

inductive Tok where
  | lbrace | rbrace | comma
  | key (raw : Bytes)          -- `"` raw `":`  (raw is not escaped)
  | val (j : Json)
deriving Repr, Inhabited

/-- the loop of `OrderedMap.MarshalJSON` over the sorted keys: the value, the key, then
`break` when the key equals the last key, otherwise a comma -/
def orderedMapLoop (last : Bytes) (get : Bytes → Json) : List Bytes → List Tok
  | [] => []
  | k :: rest =>
    [Tok.key k, Tok.val (get k)] ++ (if k = last then [] else Tok.comma :: orderedMapLoop last get rest)

def orderedMapTokens (keys : List Bytes) (get : Bytes → Json) : List Tok :=
  [Tok.lbrace] ++ orderedMapLoop (keys.getLast?.getD []) get keys ++ [Tok.rbrace]

/-- the tokens of a well-formed object with the given members -/
def wellFormedMembers (get : Bytes → Json) : List Bytes → List Tok
  | [] => []
  | [k] => [Tok.key k, Tok.val (get k)]
  | k :: rest => [Tok.key k, Tok.val (get k), Tok.comma] ++ wellFormedMembers get rest

/-! ### MarshalJSON -/

mutual
/-- `json.Marshal(field)`: String → string, Numeric → number, Binary → upper-case hex
string, Hex → its text, Composite → `OrderedMap` of the set subfields -/
def Value.toJson (c : StrCodec) : Value → Json
  | .str b => .str (c.emit b)
  | .num i => .num i
  | .bin b => .str (c.emit (Enc.hexEncodeUpper b))
  | .hexv t => .str (c.emit t)
  | .comp vals =>
    .obj ((sortBy (fun a b => SortKind.byInt.less a.1 b.1) (Value.toJsonList c vals)).map
      fun p => (quoteRaw p.1, p.2))

/-- the set subfields, tag ↦ JSON (before sorting) -/
def Value.toJsonList (c : StrCodec) : List (Tag × Value) → List (Tag × Json)
  | [] => []
  | (t, v) :: rest => (t, v.toJson c) :: Value.toJsonList c rest
end

/-- the bitmap `Message.pack` builds (first loop) -/
def MsgSpec.bitmapOf (spec : MsgSpec) (m : Msg) : Res Bitmap :=
  MsgSpec.setBits ((sortBy (fun a b => decide (a.1 < b.1)) m.fields).map (·.1))
    (Bitmap.reset spec.bitmap.specLen spec.bitmap.auto)

/-- the members of the message object before sorting: MTI (if set), bitmap, data elements -/
def jsonMembers (c : StrCodec) (m : Msg) (bm : Bitmap) : List (Bytes × Json) :=
  (match m.mti with | some v => [(natToDec 0, v.toJson c)] | none => []) ++
  [(natToDec 1, Json.str (c.emit (Enc.hexEncodeUpper bm.data)))] ++
  m.fields.map fun p => (natToDec p.1, p.2.toJson c)

/-- `Message.MarshalJSON`: pack first (validation + bitmap), then the set fields through
`OrderedMap` (keys `strconv.Itoa(id)` sorted by `StringsByInt`) -/
def MsgSpec.marshalJSON (c : StrCodec) (spec : MsgSpec) (m : Msg) : Res Json :=
  match spec.pack m with
  | .err => .err
  | .panic => .panic
  | .ok _ =>
    match spec.bitmapOf m with
    | .ok bm =>
      .ok (.obj ((sortBy (fun a b => SortKind.byInt.less a.1 b.1) (jsonMembers c m bm)).map
        fun p => (quoteRaw p.1, p.2)))
    | .err => .err        -- unreachable: `pack` succeeded
    | .panic => .panic

/-! ### UnmarshalJSON -/

/-- does the (decoded) key occur again later in the object -/
def laterKey (c : StrCodec) (k : Bytes) (rest : List (Bytes × Json)) : Bool :=
  rest.any fun p => c.parse p.1 == some k

/-- `SkipUnknownTLVTags` as `Composite.skipUnknownTLVTags` evaluates it -/
def CompSpec.skipsUnknown (s : CompSpec) : Bool :=
  match s.mode with
  | .tagged t => t.skipUnknown && (t.enc == some Enc.berTag || t.prefUnknown.isSome)
  | .bitmapped _ => false

/-- per-kind `UnmarshalJSON` of a primitive field -/
def primOfJson (c : StrCodec) (k : Kind) (j : Json) : Res Value :=
  match k, j with
  | .string, .str lit =>
    match c.parse lit with
    | some s => .ok (.str s)
    | none => .err
  | .numeric, .num i =>
    -- `var v int`; then SetBytes(Sprintf("%d", v))
    if -(2 ^ 63 : Int) ≤ i ∧ i < 2 ^ 63 then .ok (.num i) else .err
  | .binary, .str lit =>
    match c.parse lit with
    | some s =>
      match Enc.hexDecode s with      -- encoding.ASCIIHexToBytes.Encode
      | some b => .ok (.bin b)
      | none => .err
    | none => .err
  | .hex, .str lit =>
    match c.parse lit with
    | some s => .ok (.hexv s)
    | none => .err
  | _, _ => .err

mutual
/-- `json.Unmarshal(raw, field)` on a fresh field -/
def Field.ofJson (c : StrCodec) : Field → Json → Res Value
  | .prim s, j => primOfJson c s.kind j
  | .comp s subs, .obj kvs =>
    match Field.ofJsonMembers c subs s.skipsUnknown kvs [] with
    | .ok vals => .ok (.comp vals)
    | .err => .err
    | .panic => .panic
  | .comp _ _, _ => .err

/-- the loop of `Composite.UnmarshalJSON` -/
def Field.ofJsonMembers (c : StrCodec) (subs : List (Tag × Field)) (skip : Bool) :
    List (Bytes × Json) → List (Tag × Value) → Res (List (Tag × Value))
  | [], acc => .ok acc
  | (klit, j) :: rest, acc =>
    match c.parse klit with
    | none => .err
    | some tag =>
      if laterKey c tag rest then Field.ofJsonMembers c subs skip rest acc
      else
        match lookup tag subs with
        | none => if skip then Field.ofJsonMembers c subs skip rest acc else .err
        | some f =>
          match Field.ofJson c f j with
          | .ok v => Field.ofJsonMembers c subs skip rest (acc ++ [(tag, v)])
          | .err => .err
          | .panic => .panic
end

/-- the message after `UnmarshalJSON` into a fresh message -/
structure JMsg where
  mti : Option Value
  /-- field 1 (the bitmap) is marked set: it is from `NewMessage` on, whether or not the
  document has a member "1" (which, if present, must decode as hex) -/
  bitmap : Bool
  fields : List (Nat × Value)
deriving Repr, Inhabited

def JMsg.toMsg (j : JMsg) : Msg := { mti := j.mti, fields := j.fields }

/-- the loop of `Message.UnmarshalJSON` -/
def MsgSpec.ofJsonMembers (c : StrCodec) (spec : MsgSpec) :
    List (Bytes × Json) → JMsg → Res JMsg
  | [], acc => .ok acc
  | (klit, j) :: rest, acc =>
    match c.parse klit with
    | none => .err
    | some key =>
      if laterKey c key rest then MsgSpec.ofJsonMembers c spec rest acc
      else
        match parseInt64? key with       -- strconv.Atoi
        | none => .err
        | some id =>
          if id = 0 then
            match primOfJson c spec.mti.kind j with
            | .ok v => MsgSpec.ofJsonMembers c spec rest { acc with mti := some v }
            | .err => .err
            | .panic => .panic
          else if id = 1 then
            -- Bitmap.UnmarshalJSON: unquote, hex-decode, SetBytes
            match j with
            | .str lit =>
              match c.parse lit with
              | some s =>
                match Enc.hexDecode s with
                | some _ => MsgSpec.ofJsonMembers c spec rest { acc with bitmap := true }
                | none => .err
              | none => .err
            | _ => .err
          else if id < 0 then .err
          else
            match lookupId id.toNat spec.fields with
            | none => .err           -- "no specification found"
            | some f =>
              match Field.ofJson c f j with
              | .ok v => MsgSpec.ofJsonMembers c spec rest { acc with fields := acc.fields ++ [(id.toNat, v)] }
              | .err => .err
              | .panic => .panic

/-- `Message.UnmarshalJSON` into a fresh message of the spec -/
def MsgSpec.unmarshalJSON (c : StrCodec) (spec : MsgSpec) : Json → Res JMsg
  | .obj kvs => MsgSpec.ofJsonMembers c spec kvs { mti := none, bitmap := true, fields := [] }
  | _ => .err

/-- the codec used by the line driver: literals are the text between two quotes, no
escaping (the Go side decodes the real document with `encoding/json`, so the comparison
is on decoded strings) -/
def plainCodec : StrCodec where
  emit := quoteRaw
  parse := fun lit =>
    match lit with
    | 34 :: rest =>
      match rest.reverse with
      | 34 :: body => some body.reverse
      | _ => none
    | _ => none

end Iso8583
