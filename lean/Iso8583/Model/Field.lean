/-
Model of the field layer: /repo/field/packer_unpacker.go (defaultPacker/defaultUnpacker,
Track2Packer/Track2Unpacker), field/string.go, numeric.go, binary.go, hex.go (Pack,
Unpack, SetBytes, Bytes) and field/composite.go (Pack/Unpack in the three modes:
positional, tagged, bitmapped — arbitrarily nested). After the `fix:` commits.
-/
import Iso8583.Model.Prefix
import Iso8583.Model.Padding
import Iso8583.Model.Bitmap

namespace Iso8583

abbrev Tag := Bytes

inductive Kind where
  | string | numeric | binary | hex
deriving Repr, DecidableEq, Inhabited

inductive PackerKind where
  | default | track2
deriving Repr, DecidableEq, Inhabited

structure PrimSpec where
  kind : Kind
  len : Nat
  enc : Enc
  pref : Pref
  pad : Pad
  packer : PackerKind := .default
deriving Repr, DecidableEq, Inhabited

inductive SortKind where
  | strings | byInt | byHex
deriving Repr, DecidableEq, Inhabited

structure TagSpec where
  len : Nat
  /-- `none` = positional composite (no tags on the wire) -/
  enc : Option Enc
  pad : Pad
  sort : SortKind
  skipUnknown : Bool
  prefUnknown : Option Pref
deriving Repr, DecidableEq, Inhabited

structure BitmapSpec where
  /-- spec.Length of the bitmap field (0 = default 8) -/
  specLen : Nat
  enc : Enc
  pref : Pref
  auto : Bool
deriving Repr, DecidableEq, Inhabited

inductive Mode where
  | tagged (t : TagSpec)
  | bitmapped (b : BitmapSpec)
deriving Repr, DecidableEq, Inhabited

structure CompSpec where
  len : Nat
  pref : Pref
  mode : Mode
deriving Repr, DecidableEq, Inhabited

/-- A field spec. For composites `subs` is `orderedSpecFieldTags` zipped with the subfield
specs, i.e. already in the composite's sort order. -/
inductive Field where
  | prim (s : PrimSpec)
  | comp (s : CompSpec) (subs : List (Tag × Field))
deriving Repr, Inhabited

/-- A field value in canonical form. -/
inductive Value where
  | str (b : Bytes)
  | num (i : Int)
  | bin (b : Bytes)
  | hexv (text : Bytes)          -- upper-case hex text, as field.Hex stores it
  | comp (subs : List (Tag × Value))   -- the set subfields
deriving Repr, Inhabited

/-- result of an unpack: error carries the chain of UnpackError.FieldID below this level -/
inductive UR (α : Type) where
  | ok : α → UR α
  | err : List Bytes → UR α
  | panic : UR α
deriving Repr, Inhabited

/-! ### integers as text (strconv.FormatInt / ParseInt base 10, 64 bit) -/

def decDigits : Nat → Nat → List Nat
  | 0, _ => []
  | f + 1, n => if n < 10 then [n] else decDigits f (n / 10) ++ [n % 10]

def natToDec (n : Nat) : Bytes := (decDigits (n + 1) n).map asciiDigit

def formatInt (i : Int) : Bytes :=
  if i < 0 then 45 :: natToDec (-i).toNat else natToDec i.toNat

/-- `strconv.ParseInt(s, 10, 64)` -/
def parseInt64? (s : Bytes) : Option Int :=
  let digitsVal (ds : Bytes) : Option Nat :=
    match ds with
    | [] => none
    | _ => (mapM? decVal? ds).map (ofDigits 10)
  match s with
  | [] => none
  | c :: rest =>
    if c = 45 then
      match digitsVal rest with
      | some v => if v ≤ 2 ^ 63 then some (-(v : Int)) else none
      | none => none
    else if c = 43 then
      match digitsVal rest with
      | some v => if v < 2 ^ 63 then some (v : Int) else none
      | none => none
    else
      match digitsVal s with
      | some v => if v < 2 ^ 63 then some (v : Int) else none
      | none => none

/-! ### primitive fields -/

namespace PrimSpec

/-- the bytes handed to the packer (`[]byte(f.value)`, `FormatInt`, `f.Bytes()`) -/
def valueBytes (s : PrimSpec) (v : Value) : Res Bytes :=
  match s.kind, v with
  | .string, .str b => .ok b
  | .numeric, .num i => .ok (formatInt i)
  | .binary, .bin b => .ok b
  | .hex, .hexv t => Res.ofOption (Enc.hexDecode t)
  | _, _ => .err   -- value of the wrong kind: not expressible in Go

/-- `defaultPacker.Pack` / `Track2Packer.Pack` -/
def packBytes (s : PrimSpec) (value : Bytes) : Res Bytes :=
  match s.packer with
  | .default =>
    let padded := s.pad.pad value s.len
    match Enc.encode s.enc padded with
    | .ok encoded =>
      match s.pref.encodeLength s.len padded.length with
      | .ok pre => .ok (pre ++ encoded)
      | .err => .err
      | .panic => .panic
    | .err => .err
    | .panic => .panic
  | .track2 =>
    let data := if s.pad ≠ .nil ∧ value.length % 2 ≠ 0 then s.pad.pad value (value.length + 1) else value
    match Enc.encode s.enc data with
    | .ok encoded =>
      match s.pref.encodeLength s.len value.length with
      | .ok pre => .ok (pre ++ encoded)
      | .err => .err
      | .panic => .panic
    | .err => .err
    | .panic => .panic

def pack (s : PrimSpec) (v : Value) : Res Bytes :=
  match valueBytes s v with
  | .ok b => packBytes s b
  | .err => .err
  | .panic => .panic

/-- `defaultUnpacker.Unpack` / `Track2Unpacker.Unpack`: raw value and bytes read -/
def unpackBytes (s : PrimSpec) (data : Bytes) : Res (Bytes × Nat) :=
  match s.pref.decodeLength s.len data with
  | .err => .err
  | .panic => .panic
  | .ok (valueLength, prefBytes) =>
    let announced := valueLength
    let valueLength := match s.packer with
      | .default => valueLength
      | .track2 => if s.pad ≠ .nil ∧ valueLength % 2 ≠ 0 then valueLength + 1 else valueLength
    if prefBytes > data.length then .panic   -- `packedFieldValue[prefBytes:]`
    else
    match Enc.decode s.enc (data.drop prefBytes) valueLength with
    | .err => .err
    | .panic => .panic
    | .ok (value, read) =>
      let value := s.pad.unpad value
      match s.packer with
      | .default => .ok (value, read + prefBytes)
      | .track2 =>
        -- the character that made the length even must have been the pad character
        if value.length > announced then .err else .ok (value, read + prefBytes)

/-- `SetBytes` of the field kind: canonical value from the raw bytes -/
def setBytes (s : PrimSpec) (raw : Bytes) : Res Value :=
  match s.kind with
  | .string => .ok (.str raw)
  | .binary => .ok (.bin raw)
  | .hex => .ok (.hexv (Enc.hexEncodeUpper raw))
  | .numeric =>
    match raw with
    | [] => .ok (.num 0)
    | _ => match parseInt64? raw with
      | some i => .ok (.num i)
      | none => .err

def unpack (s : PrimSpec) (data : Bytes) : Res (Value × Nat) :=
  match unpackBytes s data with
  | .err => .err
  | .panic => .panic
  | .ok (raw, read) =>
    match setBytes s raw with
    | .ok v => .ok (v, read)
    | .err => .err
    | .panic => .panic

end PrimSpec

/-! ### tag sorting (sort/strings.go) — see Model/Sort.lean for the comparators -/

def lookup {α : Type} (t : Tag) : List (Tag × α) → Option α
  | [] => none
  | (k, v) :: rest => if k = t then some v else lookup t rest

def insertKV {α : Type} (t : Tag) (v : α) : List (Tag × α) → List (Tag × α)
  | [] => [(t, v)]
  | (k, w) :: rest => if k = t then (k, v) :: rest else (k, w) :: insertKV t v rest

/-- canonical presentation of a set of subfield values: in the spec's subfield order -/
def orderBySpec {α β : Type} : List (Tag × α) → List (Tag × β) → List (Tag × β)
  | [], _ => []
  | (t, _) :: rest, vals =>
    match lookup t vals with
    | some v => (t, v) :: orderBySpec rest vals
    | none => orderBySpec rest vals

/-! ### composites -/

/-- tag bytes as written on the wire: pad, then encode -/
def encodeTag (t : TagSpec) (enc : Enc) (tag : Tag) : Res Bytes :=
  Enc.encode enc (t.pad.pad tag t.len)

mutual

/-- `Field.Pack` -/
def Field.pack : Field → Value → Res Bytes
  | .prim s, v => s.pack v
  | .comp s subs, .comp vals =>
    match s.mode with
    | .tagged t =>
      match packByTag t subs vals with
      | .ok packed =>
        match s.pref.encodeLength s.len packed.length with
        | .ok pre => .ok (pre ++ packed)
        | .err => .err
        | .panic => .panic
      | .err => .err
      | .panic => .panic
    | .bitmapped b =>
      match packByBitmap subs vals (Bitmap.reset b.specLen b.auto) with
      | .ok (bm, packedFields) =>
        match bm.pack b.enc with
        | .ok packedBitmap =>
          let packed := packedBitmap ++ packedFields
          match s.pref.encodeLength s.len packed.length with
          | .ok pre => .ok (pre ++ packed)
          | .err => .err
          | .panic => .panic
        | .err => .err
        | .panic => .panic
      | .err => .err
      | .panic => .panic
  | .comp _ _, _ => .err

/-- `packByTag`: set subfields in spec order, each preceded by its encoded tag when tags
travel on the wire -/
def packByTag (t : TagSpec) : List (Tag × Field) → List (Tag × Value) → Res Bytes
  | [], _ => .ok []
  | (tag, f) :: rest, vals =>
    match lookup tag vals with
    | none => packByTag t rest vals
    | some v =>
      let tagBytes : Res Bytes := match t.enc with
        | some enc => encodeTag t enc tag
        | none => .ok []
      match tagBytes with
      | .ok tb =>
        match f.pack v with
        | .ok pb =>
          match packByTag t rest vals with
          | .ok more => .ok (tb ++ pb ++ more)
          | .err => .err
          | .panic => .panic
        | .err => .err
        | .panic => .panic
      | .err => .err
      | .panic => .panic

/-- `packByBitmap`: returns the bitmap with the bits of the set subfields and their packed bytes -/
def packByBitmap : List (Tag × Field) → List (Tag × Value) → Bitmap → Res (Bitmap × Bytes)
  | [], _, bm => .ok (bm, [])
  | (tag, f) :: rest, vals, bm =>
    match lookup tag vals with
    | none => packByBitmap rest vals bm
    | some v =>
      match atoi? tag with
      | none => .err
      | some idInt =>
        let id := idInt.toNat
        let bm' := if idInt ≤ 0 then bm else bm.set id
        if !(bm'.isSet id) then .err   -- the bitmap can not represent the subfield
        else
        match f.pack v with
        | .ok pb =>
          match packByBitmap rest vals bm' with
          | .ok (bm'', more) => .ok (bm'', pb ++ more)
          | .err => .err
          | .panic => .panic
        | .err => .err
        | .panic => .panic

end

/-- the TLV loop of `unpackSubfieldsByTag`, parameterised by the per-tag dispatcher;
`fuel` bounds the iterations (every iteration consumes at least the tag) -/
def tlvLoop (t : TagSpec) (enc : Enc) (isBer : Bool)
    (known : Tag → Bool) (dispatch : Tag → Bytes → UR (Value × Nat)) :
    Nat → Bytes → Nat → List (Tag × Value) → UR (List (Tag × Value) × Nat)
  | 0, _, _, _ => .err []     -- fuel exhausted (unreachable: see `tlvLoop_fuel`)
  | fuel + 1, data, offset, acc =>
    if offset ≥ data.length then .ok (acc, offset)
    else
      match Enc.decode enc (data.drop offset) t.len with
      | .err => .err [[]]
      | .panic => .panic
      | .ok (tagBytes, read) =>
        let offset := offset + read
        let tag := t.pad.unpad tagBytes
        if !(known tag) then
          if t.skipUnknown && (isBer || t.prefUnknown.isSome) then
            let (pref, maxLen) := match t.prefUnknown with
              | some p => (p, maxInt)
              | none => (Pref.berTLV, 0)
            if offset > data.length then .panic
            else
            match pref.decodeLength maxLen (data.drop offset) with
            | .err => .err [[]]
            | .panic => .panic
            | .ok (fieldLength, read) =>
              if fieldLength > data.length - offset - read ∨ offset + read > data.length then .err [tag]
              else tlvLoop t enc isBer known dispatch fuel data (offset + fieldLength + read) acc
          else .err [tag]
        else
          if offset > data.length then .panic
          else
          match dispatch tag (data.drop offset) with
          | .err p => .err (tag :: p)
          | .panic => .panic
          | .ok (v, read') =>
            -- an element that consumed neither tag nor value bytes would be read again forever
            if read = 0 ∧ read' = 0 then .err [tag]
            else tlvLoop t enc isBer known dispatch fuel data (offset + read') (insertKV tag v acc)

/-- the scan of `unpackSubfieldsByBitmap` over bit numbers `i = cur .. len` -/
def bitmapScan (bm : Bitmap) (dispatch : Tag → Bytes → Option (UR (Value × Nat))) :
    Nat → Nat → Bytes → Nat → List (Tag × Value) → UR (List (Tag × Value) × Nat)
  | 0, _, _, off, acc => .ok (acc, off)
  | remaining + 1, i, data, off, acc =>
    if bm.isSet i then
      let iStr := natToDec i
      if off > data.length then .panic
      else
      match dispatch iStr (data.drop off) with
      | none => .err [iStr]      -- no specification found
      | some (.err p) => .err (iStr :: p)
      | some .panic => .panic
      | some (.ok (v, read)) => bitmapScan bm dispatch remaining (i + 1) data (off + read) (acc ++ [(iStr, v)])
    else bitmapScan bm dispatch remaining (i + 1) data off acc

/-- is `tag` defined by the spec -/
def lookupField : List (Tag × Field) → Tag → Bool
  | [], _ => false
  | (k, _) :: rest, tag => if k = tag then true else lookupField rest tag

mutual

/-- `Field.Unpack`: the value and the number of bytes read. For a composite:
`Composite.Unpack` = decode the length, bound it, `wrapErrorUnpack ∘ unpack` on the body
in the composite's mode, and compare the bytes read with the announced length. -/
def Field.unpack : Field → Bytes → UR (Value × Nat)
  | .prim s, data =>
    match s.unpack data with
    | .ok r => .ok r
    | .err => .err []
    | .panic => .panic
  | .comp s subs, data =>
    match s.pref.decodeLength s.len data with
    | .err => .err []
    | .panic => .panic
    | .ok (dataLen, offset) =>
      let isVar := offset != 0
      if offset > data.length then .panic
      else if dataLen > data.length - offset then .err []
      else
        let body := (data.drop offset).take dataLen
        let res : UR (List (Tag × Value) × Nat) :=
          match s.mode with
          | .bitmapped b =>
            match Bitmap.unpack b.enc b.pref (Bitmap.reset b.specLen b.auto) body with
            | .err => .err [[]]
            | .panic => .panic
            | .ok (bm, read) =>
              bitmapScan bm (fun tag d => unpackTaggedOpt subs tag d) bm.len 1 body read []
          | .tagged t =>
            match t.enc with
            | some enc =>
              tlvLoop t enc (enc == Enc.berTag) (lookupField subs) (fun tag d => unpackTagged subs tag d)
                (body.length + 1) body 0 []
            | none => unpackPositional subs body isVar 0 []
        match res with
        | .err p => .err p
        | .panic => .panic
        | .ok (vals, read) =>
          if dataLen ≠ read then .err [] else .ok (.comp (orderBySpec subs vals), offset + read)

/-- unpack `data` with the subfield spec of `tag` (error if there is none) -/
def unpackTagged : List (Tag × Field) → Tag → Bytes → UR (Value × Nat)
  | [], _, _ => .err []
  | (k, f) :: rest, tag, data => if k = tag then f.unpack data else unpackTagged rest tag data

def unpackTaggedOpt : List (Tag × Field) → Tag → Bytes → Option (UR (Value × Nat))
  | [], _, _ => none
  | (k, f) :: rest, tag, data => if k = tag then some (f.unpack data) else unpackTaggedOpt rest tag data

/-- `unpackSubfields` (positional): subfields in spec order; a variable-length composite
stops as soon as its data is used up -/
def unpackPositional : List (Tag × Field) → Bytes → Bool → Nat → List (Tag × Value) →
    UR (List (Tag × Value) × Nat)
  | [], _, _, offset, acc => .ok (acc, offset)
  | (tag, f) :: rest, data, isVar, offset, acc =>
    if offset > data.length then .panic
    else
    match f.unpack (data.drop offset) with
    | .err p => .err (tag :: p)
    | .panic => .panic
    | .ok (v, read) =>
      let offset := offset + read
      let acc := acc ++ [(tag, v)]
      if isVar && offset ≥ data.length then .ok (acc, offset)
      else unpackPositional rest data isVar offset acc

end

end Iso8583
