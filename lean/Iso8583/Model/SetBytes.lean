/-
Model of `SetBytes` (field/string.go, numeric.go, binary.go, hex.go: parse the raw value;
field/composite.go `Composite.SetBytes`: unpack the subfields from the whole input, no
length prefix, `isVariableLength = false`). `compBody` is the mode dispatch of
`Composite.unpack`, the same expression `Field.unpack` runs on the length-delimited body.
Tied to the Go code by channel W (`W <ms> F <spec> setbytes <hex>`).
-/
import Iso8583.Model.Field

namespace Iso8583

/-- the body of `Composite.unpack` in the composite's mode (what `Field.unpack` runs on the
length-delimited body, and what `Composite.SetBytes` runs on the whole input with
`isVariableLength = false`) -/
def compBody (mode : Mode) (subs : List (Tag × Field)) (body : Bytes) (isVar : Bool) :
    UR (List (Tag × Value) × Nat) :=
  match mode with
  | .bitmapped b =>
    match Bitmap.unpack b.enc b.pref (Bitmap.reset b.specLen b.auto) body with
    | .err => .err [[]]
    | .panic => .panic
    | .ok (bm, read) =>
      bitmapScan bm (fun tag d => unpackTaggedOpt subs tag d) bm.len 1 body read []
  | .tagged t =>
    match t.enc with
    | some enc =>
      tlvLoop t enc (enc == Enc.berTag) (lookupField subs) (fun tag d => unpackTagged subs tag d)
        (body.length + 1) body 0 []
    | none => unpackPositional subs body isVar 0 []

/-- `SetBytes` of a field: primitives parse the raw value; a composite unpacks its
subfields from the whole input (no length prefix, `isVariableLength = false`). -/
def Field.setBytes : Field → Bytes → UR Value
  | .prim s, raw =>
    match s.setBytes raw with
    | .ok v => .ok v
    | .err => .err []
    | .panic => .panic
  | .comp s subs, data =>
    match compBody s.mode subs data false with
    | .ok (vals, _) => .ok (.comp (orderBySpec subs vals))
    | .err p => .err p
    | .panic => .panic

end Iso8583
