/-
Error texts (property C18): the shape of the rows of `Gen/ErrorSites.lean`, the bound on
value-derived bytes of a site, and a small model of how Go renders an error chain
(`fmt.Errorf` with `%w`/`%v`, `errors.New`, `utils.NewSafeError[f]`, the wrapper structs
`UnpackError`/`PackError`). Core-only.

Units. A *unit* is the rendering of one byte/character that derives from message data
(verbatim, escaped by `strconv.Quote`, or as two hex digits). The rendered text is modelled
by one `Bool` per output position: `true` = a unit, `false` = text that does not derive from
message data (literal text of a format string, digits of a length / id / offset, a spec
description, a Go type name, a caller-supplied key).
-/
import Iso8583.Basic

namespace Iso8583.Errors

/-- longest run of value-derived units; `none` = unbounded -/
abbrev Bound := Option Nat

def Bound.le : Bound → Bound → Bool
  | some a, some b => decide (a ≤ b)
  | _, none => true
  | none, some _ => false

def Bound.max : Bound → Bound → Bound
  | some a, some b => some (if a ≤ b then b else a)
  | _, _ => none

def Bound.lt (b : Bound) (n : Nat) : Bool :=
  match b with
  | some a => decide (a < n)
  | none => false

/-- taint class of one interpolated argument (computed by the translator) -/
inductive Cls where
  /-- an int: length, count, id, offset, index — decimal digits, not field content -/
  | len
  /-- text from the spec or the code: description, tag name, Go type / kind name, constant -/
  | spec
  /-- an identifier supplied by the caller (JSON object key, id path): names a field, is not a field's content -/
  | key
  /-- one byte / rune of data (≤ 4 bytes of text) -/
  | char
  /-- the length prefix as found on the wire (≤ `k` bytes of wire data at the prefix position) -/
  | prefixDigits (k : Nat)
  /-- at most `k` bytes of wire data -/
  | wireBounded (k : Nat)
  /-- field / wire content of unbounded length -/
  | value
  /-- an error of the standard library or a dependency whose text carries no message data -/
  | errSafe
  /-- … that shows one input character (hex.InvalidByteError, json.SyntaxError) -/
  | errChar
  /-- … that quotes an input of at most `k` bytes -/
  | errBounded (k : Nat)
  /-- … that quotes an input of unbounded length (strconv.NumError, time.ParseError on a field value) -/
  | errValue
  /-- an error returned by a user-supplied callback (PackerFunc / UnpackerFunc): outside the library -/
  | errUser
  /-- no rule applied -/
  | unknown
deriving Repr, DecidableEq, Inhabited

def Cls.bound : Cls → Bound
  | .len | .spec | .key | .errSafe | .errUser => some 0
  | .char | .errChar => some 4
  | .wireBounded k | .errBounded k | .prefixDigits k => some k
  | .value | .errValue | .unknown => none

inductive Kind where
  | errorf | new | safe | safef | wrapStruct | passthrough | sentinel
deriving Repr, DecidableEq, Inhabited

/-- one piece of a site's message -/
inductive Seg where
  /-- literal text of the format string (`n` = its length in bytes) -/
  | lit (n : Nat) (text : String)
  /-- an interpolated non-error argument or an error of a foreign package -/
  | arg (verb : String) (cls : Cls) (rule : String)
  /-- an interpolated error returned by library functions `callees` (function ids);
      `extra` covers a foreign error that can appear in the same place -/
  | wrap (verb : String) (callees : List Nat) (extra : Cls) (what : String)
deriving Repr, Inhabited

structure Site where
  file : String
  line : Nat
  fn : String
  fnId : Nat
  kind : Kind
  /-- the site sits in the cause argument of `NewSafeError[f]`: its text is never part of `Error()` -/
  hidden : Bool
  format : String
  /-- what `Error()` shows -/
  segs : List Seg
  /-- the cause kept for `Unwrap` (for `safe`/`safef` sites); not part of `Error()` -/
  cause : List Seg
deriving Repr, Inhabited

/-- bound of the *direct* insertions of a segment (wrapped library errors are accounted for at
their own sites; the chain theorem composes them) -/
def Seg.direct : Seg → Bound
  | .lit _ _ => some 0
  | .arg _ c _ => c.bound
  | .wrap _ _ extra _ => extra.bound

def maxBound : List Bound → Bound
  | [] => some 0
  | b :: bs => Bound.max b (maxBound bs)

/-- `leakBound`: the longest run of value-derived units that this site itself puts into a text -/
def Site.leakBound (s : Site) : Bound :=
  if s.hidden then some 0 else maxBound (s.segs.map Seg.direct)

/-- bound including wrapped library errors, given claimed per-function bounds -/
def Seg.total (fb : List Bound) : Seg → Bound
  | .lit _ _ => some 0
  | .arg _ c _ => c.bound
  | .wrap _ ids extra _ => Bound.max extra.bound (maxBound (ids.map fun i => (fb[i]?).getD none))

def Site.total (fb : List Bound) (s : Site) : Bound :=
  if s.hidden then some 0 else maxBound (s.segs.map (Seg.total fb))

/-- does a segment render only text that is not derived from message data? -/
def Seg.clean : Seg → Bool
  | .lit _ _ => true
  | .arg _ c _ => c.bound == some 0
  | .wrap _ _ _ _ => false

/-- Separation: every tainted insertion and every wrapped error is preceded, within its own
format string, by a non-empty literal or by the start of the text, and is not directly
followed by another tainted insertion / wrapped error. (`prevLit` = the text so far ends in
something that is certainly not a value-derived unit.) Clean insertions may be empty, so they
neither separate nor join. -/
def sepFrom : Bool → List Seg → Bool
  | _, [] => true
  | pl, .lit n _ :: r => if n = 0 then sepFrom pl r else sepFrom true r
  | pl, .arg _ c _ :: r => if c.bound == some 0 then sepFrom pl r else pl && sepFrom false r
  | pl, .wrap _ _ _ _ :: r => pl && sepFrom false r

def Site.sepOK (s : Site) : Bool := s.hidden || sepFrom true s.segs

/-- what the table must satisfy at a site for the chain theorem with window `B + 1` -/
def Site.ok (B : Nat) (s : Site) : Bool := s.leakBound.lt (B + 1) && s.sepOK

/-! ## Rendering model -/

/-- a rendered error text, as a tree: literal / clean text, value-derived units, nested error -/
inductive Chain where
  | nil : Chain
  | text (n : Nat) (rest : Chain) : Chain
  | data (n : Nat) (rest : Chain) : Chain
  | sub (inner : Chain) (rest : Chain) : Chain
deriving Repr, Inhabited

def render : Chain → List Bool
  | .nil => []
  | .text n rest => List.replicate n false ++ render rest
  | .data n rest => List.replicate n true ++ render rest
  | .sub inner rest => render inner ++ render rest

/-- scan with a counter of the current run of units; `none` as soon as a run exceeds `B` -/
def scan (B : Nat) : Nat → List Bool → Option Nat
  | c, [] => some c
  | c, true :: xs => if c + 1 ≤ B then scan B (c + 1) xs else none
  | _, false :: xs => scan B 0 xs

/-- the text contains no `B + 1` consecutive value-derived units -/
def NoLongRun (B : Nat) (xs : List Bool) : Prop := (scan B 0 xs).isSome = true

instance (B : Nat) (xs : List Bool) : Decidable (NoLongRun B xs) := by
  unfold NoLongRun; infer_instance

/-- the chains a table of sites can produce: every node instantiates the segments of a
visible site; a clean insertion renders as any amount of clean text, an insertion with
bound `k` as at most `k` units, an unbounded one as any number of units, a wrapped error as
the chain of any visible site of the table. -/
inductive Gen (tbl : List Site) : List Seg → Chain → Prop where
  | nil : Gen tbl [] .nil
  | lit {n t segs rest} : Gen tbl segs rest → Gen tbl (.lit n t :: segs) (.text n rest)
  | clean {v c r segs rest} (m : Nat) : c.bound = some 0 → Gen tbl segs rest →
      Gen tbl (.arg v c r :: segs) (.text m rest)
  | data {v c r segs rest} (k m : Nat) : c.bound = some k → m ≤ k → Gen tbl segs rest →
      Gen tbl (.arg v c r :: segs) (.data m rest)
  | dataU {v c r segs rest} (m : Nat) : c.bound = none → Gen tbl segs rest →
      Gen tbl (.arg v c r :: segs) (.data m rest)
  | wrap {v ids ex w segs rest inner} (s : Site) : s ∈ tbl → s.hidden = false → Gen tbl s.segs inner →
      Gen tbl segs rest → Gen tbl (.wrap v ids ex w :: segs) (.sub inner rest)
  | wrapExtra {v ids ex w segs rest} (k m : Nat) : ex.bound = some k → m ≤ k → Gen tbl segs rest →
      Gen tbl (.wrap v ids ex w :: segs) (.data m rest)

end Iso8583.Errors
