/-
Model of /repo/prefix/*.go (after the `fix:` commits for Binary, BER-TLV, EBCDIC).
-/
import Iso8583.Model.Encoding

namespace Iso8583

inductive Fam where
  | ascii | bcd | binary | hex | ebcdic | ebcdic1047
deriving Repr, DecidableEq, Inhabited

inductive Pref where
  | fixed (f : Fam)
  | var (f : Fam) (d : Nat)
  | berTLV
  | none
deriving Repr, DecidableEq, Inhabited

/-- Go `math.MaxInt` on the 64-bit platforms the library targets -/
def maxInt : Nat := 2 ^ 63 - 1

namespace Pref

/-- big-endian bytes of `n` without leading zero bytes (`big.Int.Bytes`, and
`bytes.TrimLeft(…, "\x00")` of the 8-byte rendering); structural in the fuel -/
def minimalBE : Nat → Nat → List Nat
  | 0, _ => []
  | fuel + 1, n => if n = 0 then [] else minimalBE fuel (n / 256) ++ [n % 256]

def beBytes (n : Nat) : List Nat := minimalBE 9 n   -- n < 2^63 needs at most 8 bytes

def bytesOfNats (xs : List Nat) : Bytes := xs.map UInt8.ofNat

def decString (d n : Nat) : Bytes := (fixedDec d n).map asciiDigit

/-- `EncodeLength(maxLen, n)` for `n ≥ 0` (`maxLen`, `n` are Go ints ≥ 0). -/
def encodeLength (p : Pref) (maxLen n : Nat) : Res Bytes :=
  match p with
  | fixed .hex => if n ≠ maxLen * 2 then .err else .ok []
  | fixed _ => if n ≠ maxLen then .err else .ok []
  | none => .ok []
  | berTLV =>
    if maxLen ≠ 0 ∧ n > maxLen then .err
    else if n ≤ 127 then .ok [UInt8.ofNat n]
    else
      let buf := beBytes n
      .ok (UInt8.ofNat (128 + buf.length) :: bytesOfNats buf)
  | var f d =>
    if n > maxLen then .err else
    match f with
    | .ascii => if n ≥ 10 ^ d then .err else .ok (decString d n)
    | .ebcdic => if n ≥ 10 ^ d then .err else Enc.encode .ebcdic (decString d n)
    | .ebcdic1047 => if n ≥ 10 ^ d then .err else Enc.encode .ebcdic1047 (decString d n)
    | .bcd => if n ≥ 10 ^ d then .err else Enc.encode .bcd (decString d n)
    | .binary =>
      let res := beBytes n
      if res.length > d then .err
      else .ok (bytesOfNats (List.replicate (d - res.length) 0 ++ res))
    | .hex =>
      if n > 2 ^ (d * 8) - 1 then .err
      else .ok ((fixedHex (2 * d) n).map hexDigitUpper)

def beValue (bs : Bytes) : Nat := ofDigits 256 (bs.map (·.toNat))

/-- finish a decimal decode: `strconv.Atoi`, sign check, maximum check -/
def finishDec (maxLen : Nat) (digits : Bytes) (read : Nat) : Res (Nat × Nat) :=
  match atoi? digits with
  | Option.none => .err
  | some v =>
    if v < 0 then .err
    else if v.toNat > maxLen then .err
    else .ok (v.toNat, read)

/-- `DecodeLength(maxLen, data)`: (length, bytes read). -/
def decodeLength (p : Pref) (maxLen : Nat) (data : Bytes) : Res (Nat × Nat) :=
  match p with
  | fixed _ => .ok (maxLen, 0)
  | none => .ok (data.length, 0)
  | berTLV =>
    match data with
    | [] => .err
    | first :: rest =>
      if first.toNat < 128 then
        if maxLen ≠ 0 ∧ first.toNat > maxLen then .err else .ok (first.toNat, 1)
      else
        let k := first.toNat - 128
        if rest.length < k then .err
        else
          let v := beValue (rest.take k)
          if v > maxInt then .err
          else if maxLen ≠ 0 ∧ v > maxLen then .err
          else .ok (v, 1 + k)
  | var f d =>
    match f with
    | .ascii =>
      if data.length < d then .err else finishDec maxLen (data.take d) d
    | .ebcdic =>
      if data.length < d then .err else
      match Enc.decode .ebcdic (data.take d) d with
      | .ok (ds, _) => finishDec maxLen ds d
      | .err => .err
      | .panic => .panic
    | .ebcdic1047 =>
      if data.length < d then .err else
      match Enc.decode .ebcdic1047 (data.take d) d with
      | .ok (ds, _) => finishDec maxLen ds d
      | .err => .err
      | .panic => .panic
    | .bcd =>
      let length := (d + 1) / 2
      if data.length < length then .err else
      match Enc.decode .bcd (data.take length) d with
      | .ok (ds, _) => finishDec maxLen ds length
      | .err => .err
      | .panic => .panic
    | .binary =>
      if data.length < d then .err else
      let v := beValue (data.take d)
      if v > maxInt then .err
      else if v > maxLen then .err
      else .ok (v, d)
    | .hex =>
      let length := 2 * d
      if data.length < length then .err else
      match mapM? hexVal? (data.take length) with
      | Option.none => .err
      | some ds =>
        let v := ofDigits 16 ds
        if v > maxLen then .err else .ok (v, length)

def famName : Fam → String
  | .ascii => "ascii" | .bcd => "bcd" | .binary => "binary" | .hex => "hex"
  | .ebcdic => "ebcdic" | .ebcdic1047 => "ebcdic1047"

def famOfName? : String → Option Fam
  | "ascii" => some .ascii | "bcd" => some .bcd | "binary" => some .binary | "hex" => some .hex
  | "ebcdic" => some .ebcdic | "ebcdic1047" => some .ebcdic1047 | _ => Option.none

/-- textual form used by the line protocol: `ascii.F`, `bcd.3`, `ber`, `none` -/
def ofName? (s : String) : Option Pref :=
  if s = "ber" then some berTLV
  else if s = "none" then some none
  else match s.splitOn "." with
    | [f, "F"] => (famOfName? f).map fixed
    | [f, d] => match famOfName? f, d.toNat? with
      | some fam, some k => some (var fam k)
      | _, _ => Option.none
    | _ => Option.none

end Pref
end Iso8583
