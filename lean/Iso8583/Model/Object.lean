/-
Model of the *stateful objects* of /repo/message.go (`Message`) and /repo/field/composite.go
(`Composite`), after the `fix:` commits: which fields are marked as set (`fieldsMap`,
`setSubfields`), the field objects that hold values whether or not they are marked
(`fields`, `subfields` — a value can live in an object that is not marked), the cached
bitmap pointer, and every state-changing or observing entry point as one `step`.

Conventions
* A Go map from keys to field objects is an association list; a key that is missing stands
  for "the object `createMessageField` / `CreateSubfield` built and nobody touched", i.e.
  the lookup defaults to `Field.fresh`. Re-creating an object = erasing its key.
* `present` / `setSubs` are the key sets of `fieldsMap` / `setSubfields` (lists without
  duplicates, order irrelevant: every consumer sorts or only tests membership; wherever
  the Go code ranges over the map the order is an explicit argument — see `content`).
* Packing and unpacking of values is *not* re-modelled: `pack` applies the frozen
  `MsgSpec.pack` to the content derived from the object, a successful `Unpack` stores
  `Field.ofValue` of what the frozen `Field.unpack` / `MsgSpec.unpack` returns. Only the
  residue a *failing* Unpack leaves behind (subfields decoded before the failure) is
  mirrored here loop by loop (`*Into` functions); it is tied to the code by channel H.
* The bitmap field object (id 1) is its byte content `bitmap` plus `cachedBitmap`
  (`m.cachedBitmap != nil`); `bitmap()` resets the content when it first caches the object.
  Id 1 is marked set in every message: by `NewMessage`, by `unpack`, and again by
  `unsetField(1)` (which only replaces the object and drops the cache).
-/
import Iso8583.Model.Message

namespace Iso8583

/-- a field object: the value of a primitive, or the subfield objects of a composite
together with the set of tags marked as set -/
inductive FieldObj where
  | prim (v : Value)
  | comp (subs : List (Tag × FieldObj)) (setSubs : List Tag)
deriving Repr, Inhabited

/-- zero value of a primitive field object -/
def Kind.zero : Kind → Value
  | .string => .str []
  | .numeric => .num 0
  | .binary => .bin []
  | .hex => .hexv []

/-- the object `createMessageField` / `CreateSubfield` builds: zero value, resp. no
subfield touched and none set -/
def Field.fresh : Field → FieldObj
  | .prim s => .prim s.kind.zero
  | .comp _ _ => .comp [] []

/-- subfield object for `tag` (untouched = fresh) -/
def getSub (f : Field) (tag : Tag) (objs : List (Tag × FieldObj)) : FieldObj :=
  (lookup tag objs).getD f.fresh

/-- `set[tag] = struct{}{}` -/
def markTag (t : Tag) (set : List Tag) : List Tag := if set.contains t then set else t :: set

def markTags : List Tag → List Tag → List Tag
  | [], set => set
  | t :: ts, set => markTags ts (markTag t set)

def eraseKV {α : Type} (t : Tag) : List (Tag × α) → List (Tag × α)
  | [] => []
  | (k, v) :: rest => if k = t then eraseKV t rest else (k, v) :: eraseKV t rest

def noDupTags : List Tag → Bool
  | [] => true
  | t :: ts => !(ts.contains t) && noDupTags ts

/-! ### content of an object: what it packs as -/

mutual
/-- the value a field object stands for: for a composite the *set* subfields, in spec order -/
def Field.valueOf : Field → FieldObj → Value
  | .prim _, .prim v => v
  | .prim s, .comp _ _ => s.kind.zero
  | .comp _ subs, .comp objs set => .comp (Field.valueSubs subs objs set)
  | .comp _ _, .prim _ => .comp []

def Field.valueSubs : List (Tag × Field) → List (Tag × FieldObj) → List Tag → List (Tag × Value)
  | [], _, _ => []
  | (t, f) :: rest, objs, set =>
    if set.contains t then (t, f.valueOf ((lookup t objs).getD f.fresh)) :: Field.valueSubs rest objs set
    else Field.valueSubs rest objs set
end

mutual
/-- the object a *successful* Unpack / SetBytes leaves: subfields found in the data hold
their values and are set, every other subfield is fresh (the decoders only ever return
tags of the spec, so the filter changes nothing for them) -/
def Field.ofValue : Field → Value → FieldObj
  | .prim _, v => .prim v
  | .comp _ subs, .comp vals => .comp (Field.ofValueSubs subs vals) ((vals.map (·.1)).filter (lookupField subs))
  | .comp _ _, _ => .comp [] []

def Field.ofValueSubs : List (Tag × Field) → List (Tag × Value) → List (Tag × FieldObj)
  | [], _ => []
  | (t, f) :: rest, vals =>
    match lookup t vals with
    | some v => (t, f.ofValue v) :: Field.ofValueSubs rest vals
    | none => Field.ofValueSubs rest vals
end

/-! ### Marshal (struct → field objects) and JSON decoding: both *merge* into the
existing objects and only ever add to the set of marked tags -/

mutual
/-- can `v` be written as a Go struct for this field: kinds match, tags are spec tags,
no tag twice (a JSON object / struct with one member per tag) -/
def Field.shapeOK : Field → Value → Bool
  | .prim s, .str _ => s.kind == .string
  | .prim s, .num _ => s.kind == .numeric
  | .prim s, .bin _ => s.kind == .binary
  | .prim s, .hexv _ => s.kind == .hex
  | .prim _, .comp _ => false
  | .comp _ subs, .comp vals =>
    noDupTags (vals.map (·.1)) && vals.all (fun p => lookupField subs p.1) && Field.shapeSubs subs vals
  | .comp _ _, _ => false

def Field.shapeSubs : List (Tag × Field) → List (Tag × Value) → Bool
  | [], _ => true
  | (t, f) :: rest, vals =>
    (match lookup t vals with | some v => f.shapeOK v | none => true) && Field.shapeSubs rest vals
end

mutual
/-- `Field.Marshal(v)` / `json.Unmarshal(raw, field)`: a primitive takes the value; a
composite hands each member to the *existing* subfield object and marks its tag -/
def Field.marshalInto : Field → FieldObj → Value → FieldObj
  | .prim _, _, v => .prim v
  | .comp _ subs, .comp objs set, .comp vals =>
    .comp (Field.marshalSubs subs objs vals) (markTags (vals.map (·.1)) set)
  | .comp _ subs, .prim _, .comp vals =>
    .comp (Field.marshalSubs subs [] vals) (markTags (vals.map (·.1)) [])
  | .comp _ _, o, _ => o

def Field.marshalSubs : List (Tag × Field) → List (Tag × FieldObj) → List (Tag × Value) → List (Tag × FieldObj)
  | [], objs, _ => objs
  | (t, f) :: rest, objs, vals =>
    match lookup t vals with
    | some v => insertKV t (f.marshalInto ((lookup t objs).getD f.fresh) v) (Field.marshalSubs rest objs vals)
    | none => Field.marshalSubs rest objs vals
end

/-! ### UnsetSubfields -/

/-- `strings.Cut(s, ".")` -/
def cutDot : Bytes → Bytes × Bytes
  | [] => ([], [])
  | c :: rest => if c = 46 then ([], rest) else let (a, b) := cutDot rest; (c :: a, b)

mutual
/-- `Composite.UnsetSubfields(path)` (one path): a set subfield named by the whole path is
unmarked and re-created; a longer path descends into a set composite subfield -/
def Field.unsetSubs : Field → FieldObj → Bytes → Res FieldObj
  | .comp _ subs, .comp objs set, path =>
    if path.isEmpty then .ok (.comp objs set)
    else
      let (id, rest) := cutDot path
      if set.contains id then
        if rest.isEmpty then
          if lookupField subs id then .ok (.comp (eraseKV id objs) (set.filter (fun t => t != id)))
          else .panic       -- `CreateSubfield(nil)`; unreachable: only spec tags are ever marked
        else Field.unsetIn subs id objs set rest
      else .ok (.comp objs set)
  | .comp _ _, .prim _, _ => .err
  | .prim _, _, _ => .err        -- "is not a composite field and its subfields cannot be unset"

def Field.unsetIn : List (Tag × Field) → Tag → List (Tag × FieldObj) → List Tag → Bytes → Res FieldObj
  | [], _, _, _, _ => .err       -- "subfield does not exist"
  | (k, f) :: more, id, objs, set, rest =>
    if k = id then
      match f.unsetSubs ((lookup id objs).getD f.fresh) rest with
      | .ok o' => .ok (.comp (insertKV id o' objs) set)
      | .err => .err
      | .panic => .panic
    else Field.unsetIn more id objs set rest
end

/-! ### Unpack into an object: success through the frozen model, failure residue mirrored -/

/-- the body of `Composite.unpack` in the composite's mode (the part of `Field.unpack`
after the length prefix; `SetBytes` runs it on the whole input with `isVar = false`) -/
def unpackBodyWith (s : CompSpec) (known : Tag → Bool)
    (tagged : Tag → Bytes → UR (Value × Nat)) (taggedOpt : Tag → Bytes → Option (UR (Value × Nat)))
    (positional : Bytes → Bool → UR (List (Tag × Value) × Nat))
    (body : Bytes) (isVar : Bool) : UR (List (Tag × Value) × Nat) :=
  match s.mode with
  | .bitmapped b =>
    match Bitmap.unpack b.enc b.pref (Bitmap.reset b.specLen b.auto) body with
    | .err => .err [[]]
    | .panic => .panic
    | .ok (bm, read) => bitmapScan bm taggedOpt bm.len 1 body read []
  | .tagged t =>
    match t.enc with
    | some enc => tlvLoop t enc (enc == Enc.berTag) known tagged (body.length + 1) body 0 []
    | none => positional body isVar

def Field.unpackBody (s : CompSpec) (subs : List (Tag × Field)) (body : Bytes) (isVar : Bool) :
    UR (List (Tag × Value) × Nat) :=
  unpackBodyWith s (lookupField subs) (fun tag d => unpackTagged subs tag d)
    (fun tag d => unpackTaggedOpt subs tag d) (fun b v => unpackPositional subs b v 0 []) body isVar

/-- residue of the TLV loop: the subfield objects and marks at the point where
`unpackSubfieldsByTag` returns (normally or with an error) -/
def tlvInto (t : TagSpec) (enc : Enc) (isBer : Bool) (known : Tag → Bool)
    (res : Tag → Bytes → UR (Value × Nat))
    (into : Tag → List (Tag × FieldObj) → Bytes → FieldObj) :
    Nat → Bytes → Nat → List (Tag × FieldObj) → List Tag → List (Tag × FieldObj) × List Tag
  | 0, _, _, objs, set => (objs, set)
  | fuel + 1, data, offset, objs, set =>
    if offset ≥ data.length then (objs, set)
    else
      match Enc.decode enc (data.drop offset) t.len with
      | .err => (objs, set)
      | .panic => (objs, set)
      | .ok (tagBytes, read) =>
        let offset := offset + read
        let tag := t.pad.unpad tagBytes
        if !(known tag) then
          if t.skipUnknown && (isBer || t.prefUnknown.isSome) then
            let (pref, maxLen) := match t.prefUnknown with
              | some p => (p, maxInt)
              | none => (Pref.berTLV, 0)
            if offset > data.length then (objs, set)
            else
            match pref.decodeLength maxLen (data.drop offset) with
            | .err => (objs, set)
            | .panic => (objs, set)
            | .ok (fieldLength, read) =>
              if fieldLength > data.length - offset - read ∨ offset + read > data.length then (objs, set)
              else tlvInto t enc isBer known res into fuel data (offset + fieldLength + read) objs set
          else (objs, set)
        else
          if offset > data.length then (objs, set)
          else
          let objs' := insertKV tag (into tag objs (data.drop offset)) objs
          match res tag (data.drop offset) with
          | .ok (_, read') =>
            -- an element that consumed neither tag nor value bytes is an error (fix d0ad63f);
            -- its tag has been marked by then
            if read = 0 ∧ read' = 0 then (objs', markTag tag set)
            else tlvInto t enc isBer known res into fuel data (offset + read') objs' (markTag tag set)
          | _ => (objs', set)

/-- residue of the scan of `unpackSubfieldsByBitmap` -/
def bitmapInto (bm : Bitmap) (res : Tag → Bytes → Option (UR (Value × Nat)))
    (into : Tag → List (Tag × FieldObj) → Bytes → FieldObj) :
    Nat → Nat → Bytes → Nat → List (Tag × FieldObj) → List Tag → List (Tag × FieldObj) × List Tag
  | 0, _, _, _, objs, set => (objs, set)
  | remaining + 1, i, data, off, objs, set =>
    if bm.isSet i then
      let iStr := natToDec i
      if off > data.length then (objs, set)
      else
      match res iStr (data.drop off) with
      | none => (objs, set)
      | some r =>
        let objs' := insertKV iStr (into iStr objs (data.drop off)) objs
        match r with
        | .ok (_, read) => bitmapInto bm res into remaining (i + 1) data (off + read) objs' (markTag iStr set)
        | _ => (objs', set)
    else bitmapInto bm res into remaining (i + 1) data off objs set

/-- residue of `Composite.unpack(body)`: `subfields` re-created, then the mode's loop -/
def bodyIntoWith (s : CompSpec) (known : Tag → Bool)
    (tagged : Tag → Bytes → UR (Value × Nat)) (taggedOpt : Tag → Bytes → Option (UR (Value × Nat)))
    (into : Tag → List (Tag × FieldObj) → Bytes → FieldObj)
    (positional : Bytes → Bool → List (Tag × FieldObj) × List Tag)
    (body : Bytes) (isVar : Bool) : FieldObj :=
  match s.mode with
  | .bitmapped b =>
    match Bitmap.unpack b.enc b.pref (Bitmap.reset b.specLen b.auto) body with
    | .ok (bm, read) =>
      let r := bitmapInto bm taggedOpt into bm.len 1 body read [] []
      .comp r.1 r.2
    | _ => .comp [] []
  | .tagged t =>
    match t.enc with
    | some enc =>
      let r := tlvInto t enc (enc == Enc.berTag) known tagged into (body.length + 1) body 0 [] []
      .comp r.1 r.2
    | none =>
      let r := positional body isVar
      .comp r.1 r.2

mutual
/-- the object after `Unpack(data)` was called on it: a successful Unpack replaces it by
the decoded content; a failing one leaves what was decoded before the failure (or the old
object when the failure precedes the re-creation of the subfields) -/
def Field.unpackInto : Field → FieldObj → Bytes → FieldObj
  | .prim s, o, data =>
    match s.unpack data with
    | .ok (v, _) => .prim v
    | _ => o
  | .comp s subs, o, data =>
    match (Field.comp s subs).unpack data with
    | .ok (v, _) => (Field.comp s subs).ofValue v
    | _ =>
      match s.pref.decodeLength s.len data with
      | .ok (dataLen, offset) =>
        if offset > data.length then o
        else if dataLen > data.length - offset then o
        else
          bodyIntoWith s (lookupField subs) (fun tag d => unpackTagged subs tag d)
            (fun tag d => unpackTaggedOpt subs tag d)
            (fun tag objs d => Field.intoTagged subs tag objs d)
            (fun b v => Field.posInto subs b v 0 [] [])
            ((data.drop offset).take dataLen) (offset != 0)
      | _ => o

def Field.intoTagged : List (Tag × Field) → Tag → List (Tag × FieldObj) → Bytes → FieldObj
  | [], _, _, _ => .comp [] []
  | (k, f) :: rest, tag, objs, data =>
    if k = tag then f.unpackInto ((lookup tag objs).getD f.fresh) data
    else Field.intoTagged rest tag objs data

/-- residue of `unpackSubfields` (positional) -/
def Field.posInto : List (Tag × Field) → Bytes → Bool → Nat → List (Tag × FieldObj) → List Tag →
    List (Tag × FieldObj) × List Tag
  | [], _, _, _, objs, set => (objs, set)
  | (tag, f) :: rest, data, isVar, offset, objs, set =>
    if offset > data.length then (objs, set)
    else
      let objs' := insertKV tag (f.unpackInto ((lookup tag objs).getD f.fresh) (data.drop offset)) objs
      match f.unpack (data.drop offset) with
      | .ok (_, read) =>
        let offset := offset + read
        let set' := markTag tag set
        if isVar && offset ≥ data.length then (objs', set')
        else Field.posInto rest data isVar offset objs' set'
      | _ => (objs', set)
end

/-- `SetBytes(b)` on a field object: the new object and whether an error was returned.
For a composite this is `unpack(b, false)`: the subfields are re-created first. -/
def Field.setBytesInto : Field → FieldObj → Bytes → FieldObj × Res Unit
  | .prim s, o, b =>
    match s.setBytes b with
    | .ok v => (.prim v, .ok ())
    | .err => (o, .err)
    | .panic => (o, .panic)
  | .comp s subs, _, b =>
    match Field.unpackBody s subs b false with
    | .ok (vals, _) => ((Field.comp s subs).ofValue (.comp (orderBySpec subs vals)), .ok ())
    | r =>
      (bodyIntoWith s (lookupField subs) (fun tag d => unpackTagged subs tag d)
        (fun tag d => unpackTaggedOpt subs tag d)
        (fun tag objs d => Field.intoTagged subs tag objs d)
        (fun b v => Field.posInto subs b v 0 [] []) b false,
       match r with | .panic => .panic | _ => .err)

/-! ### JSON (structure only: the tokeniser / string escaping belong to C12) -/

inductive JVal where
  | str (b : Bytes)
  | num (i : Int)
  | obj (kvs : List (Bytes × JVal))
deriving Repr, Inhabited

/-- `OrderedMap.MarshalJSON`: keys sorted by `sort.StringsByInt` -/
def orderJson (kvs : List (Bytes × JVal)) : List (Bytes × JVal) :=
  sortBy (fun a b => SortKind.byInt.less a.1 b.1) kvs

mutual
/-- `json.Marshal(field)`: String → string, Numeric → number, Binary → upper-case hex
string, Hex → its text, Composite → `OrderedMap(getSubfields())` -/
def Field.jsonOf : Field → FieldObj → JVal
  | .prim _, .prim (.str b) => .str b
  | .prim _, .prim (.num i) => .num i
  | .prim _, .prim (.bin b) => .str (Enc.hexEncodeUpper b)
  | .prim _, .prim (.hexv t) => .str t
  | .prim _, _ => .str []
  | .comp _ subs, .comp objs set => .obj (orderJson (Field.jsonSubs subs objs set))
  | .comp _ _, .prim _ => .obj []

def Field.jsonSubs : List (Tag × Field) → List (Tag × FieldObj) → List Tag → List (Bytes × JVal)
  | [], _, _ => []
  | (t, f) :: rest, objs, set =>
    if set.contains t then (t, f.jsonOf ((lookup t objs).getD f.fresh)) :: Field.jsonSubs rest objs set
    else Field.jsonSubs rest objs set
end

/-! ### the message object -/

def setId {α : Type} (i : Nat) (x : α) : List (Nat × α) → List (Nat × α)
  | [] => [(i, x)]
  | (k, y) :: rest => if k = i then (k, x) :: rest else (k, y) :: setId i x rest

def eraseId {α : Type} (i : Nat) : List (Nat × α) → List (Nat × α)
  | [] => []
  | (k, y) :: rest => if k = i then eraseId i rest else (k, y) :: eraseId i rest

/-- `fieldsMap[id] = struct{}{}` -/
def markId (i : Nat) (l : List Nat) : List Nat := if l.contains i then l else i :: l

structure MsgObj where
  /-- `m.fields` for id 0 and the data elements (missing key = untouched since creation) -/
  fields : List (Nat × FieldObj)
  /-- key set of `m.fieldsMap` -/
  present : List Nat
  /-- `m.cachedBitmap != nil` -/
  cachedBitmap : Bool
  /-- byte content of the bitmap field object `m.fields[1]` -/
  bitmap : Bytes
deriving Repr, Inhabited

namespace MsgSpec

/-- spec of a field object held in `m.fields` (id 1, the bitmap, is kept apart) -/
def fieldOf (spec : MsgSpec) (id : Nat) : Option Field :=
  if id = 0 then some (.prim spec.mti)
  else if id = 1 then none
  else lookupId id spec.fields

/-- `NewMessage(spec)`: the bitmap field (id 1) is part of every message — it is marked set
from the start (the bitmap *object* is cached, and reset, on first use: `touchBitmap`) -/
def newMsg (_spec : MsgSpec) : MsgObj := { fields := [], present := [1], cachedBitmap := false, bitmap := [] }

def zeroBitmap (spec : MsgSpec) : Bytes := (Bitmap.reset spec.bitmap.specLen spec.bitmap.auto).data

end MsgSpec

namespace MsgObj

def get (o : MsgObj) (id : Nat) (f : Field) : FieldObj := (lookupId id o.fields).getD f.fresh

/-- `m.bitmap()`: caches the bitmap object on first use, resetting it and marking id 1 -/
def touchBitmap (spec : MsgSpec) (o : MsgObj) : MsgObj :=
  if o.cachedBitmap then o
  else { o with cachedBitmap := true, present := markId 1 o.present, bitmap := spec.zeroBitmap }

/-- logical content, with the ids taken in the order `ord` (Go: the iteration order of
`range m.fieldsMap` in `packableFieldIDs`; any permutation of `present`) -/
def content (spec : MsgSpec) (o : MsgObj) (ord : List Nat) : Msg :=
  { mti := if ord.contains 0 then some ((Field.prim spec.mti).valueOf (o.get 0 (.prim spec.mti))) else none,
    fields := (ord.filter (fun i => decide (2 ≤ i))).filterMap fun i =>
      (lookupId i spec.fields).map fun f => (i, f.valueOf (o.get i f)) }

/-- the bits the first loop of `pack` leaves in the bitmap object (also when it stops early) -/
def setBitsState : List Nat → Bitmap → Bitmap
  | [], bm => bm
  | id :: rest, bm =>
    if id < 2 || bm.isPresenceBit id then setBitsState rest bm
    else
      let bm' := bm.set id
      if !(bm'.isSet id) then bm' else setBitsState rest bm'

/-- `Message.Pack` with the map iterated in order `ord` -/
def packOrd (spec : MsgSpec) (o : MsgObj) (ord : List Nat) : MsgObj × Res Bytes :=
  let m := o.content spec ord
  let ids := (sortBy (fun a b => decide (a.1 < b.1)) m.fields).map (·.1)
  ({ o with bitmap := (setBitsState ids (Bitmap.reset spec.bitmap.specLen spec.bitmap.auto)).data },
   spec.pack m)

def pack (spec : MsgSpec) (o : MsgObj) : MsgObj × Res Bytes :=
  let o1 := o.touchBitmap spec
  o1.packOrd spec o1.present

end MsgObj

namespace MsgSpec

/-- content of the bitmap object after `Unpack(src)`; the blocks read before a failure -/
def bitmapLoopInto (enc : Enc) (minLen : Nat) (auto : Bool) : Nat → Bytes → Bytes → Bytes
  | 0, _, acc => acc
  | fuel + 1, rest, acc =>
    match Enc.decode enc rest minLen with
    | .ok (decoded, r) =>
      match decoded with
      | [] => acc
      | first :: _ =>
        if !auto || first.toNat < 128 then acc ++ decoded
        else bitmapLoopInto enc minLen auto fuel (rest.drop r) (acc ++ decoded)
    | _ => acc

def bitmapInto (spec : MsgSpec) (data : Bytes) : Bytes :=
  let bl := Bitmap.blockLenOf spec.bitmap.specLen
  match Pref.decodeLength spec.bitmap.pref bl data with
  | .ok (minLen, _) => bitmapLoopInto spec.bitmap.enc minLen spec.bitmap.auto (data.length + 1) data []
  | _ => spec.zeroBitmap

/-- residue of the field loop of `unpack` -/
def scanInto (spec : MsgSpec) (bm : Bitmap) :
    Nat → Nat → Bytes → Nat → List (Nat × FieldObj) → List Nat → List (Nat × FieldObj) × List Nat
  | 0, _, _, _, fs, pr => (fs, pr)
  | remaining + 1, i, src, off, fs, pr =>
    if bm.isPresenceBit i then scanInto spec bm remaining (i + 1) src off fs pr
    else if bm.isSet i then
      match lookupId i spec.fields with
      | none => (fs, pr)
      | some f =>
        if off > src.length then (fs, pr)
        else
        let fs' := setId i (f.unpackInto f.fresh (src.drop off)) fs
        match f.unpack (src.drop off) with
        | .ok (_, read) => scanInto spec bm remaining (i + 1) src (off + read) fs' (markId i pr)
        | _ => (fs', pr)
    else scanInto spec bm remaining (i + 1) src off fs pr

/-- the message a *failing* `Unpack(src)` leaves: everything re-created, the bitmap
cached and marked, then whatever was decoded before the failure -/
def unpackResidue (spec : MsgSpec) (src : Bytes) : MsgObj :=
  match spec.mti.unpack src with
  | .ok (mtiV, read) =>
    if read > src.length then
      { fields := [(0, .prim mtiV)], present := [0, 1], cachedBitmap := true, bitmap := spec.zeroBitmap }
    else
    match Bitmap.unpack spec.bitmap.enc spec.bitmap.pref
        (Bitmap.reset spec.bitmap.specLen spec.bitmap.auto) (src.drop read) with
    | .ok (bm, bread) =>
      let r := scanInto spec bm (bm.len - 1) 2 src (read + bread) [(0, .prim mtiV)] [0, 1]
      { fields := r.1, present := r.2, cachedBitmap := true, bitmap := bm.data }
    | _ =>
      { fields := [(0, .prim mtiV)], present := [0, 1], cachedBitmap := true,
        bitmap := spec.bitmapInto (src.drop read) }
  | _ => { fields := [], present := [1], cachedBitmap := true, bitmap := spec.zeroBitmap }

/-- the bitmap blocks of a message that unpacks -/
def wireBitmapOf (spec : MsgSpec) (src : Bytes) : Bytes :=
  match spec.mti.unpack src with
  | .ok (_, read) =>
    match Bitmap.unpack spec.bitmap.enc spec.bitmap.pref
        (Bitmap.reset spec.bitmap.specLen spec.bitmap.auto) (src.drop read) with
    | .ok (bm, _) => bm.data
    | _ => spec.zeroBitmap
  | _ => spec.zeroBitmap

/-- the message object holding exactly the content `m` (what a successful Unpack builds;
the decoder only returns ids of the spec, so the `filterMap`s drop nothing) -/
def objOfMsg (spec : MsgSpec) (m : Msg) (bitmap : Bytes) : MsgObj :=
  { fields := (match m.mti with | some v => [(0, FieldObj.prim v)] | none => []) ++
      m.fields.filterMap (fun p => (lookupId p.1 spec.fields).map fun f => (p.1, f.ofValue p.2)),
    present := (match m.mti with | some _ => [0] | none => []) ++
      1 :: m.fields.filterMap (fun p => (lookupId p.1 spec.fields).map fun _ => p.1),
    cachedBitmap := true,
    bitmap := bitmap }

/-- `Message.Unpack(src)` — on *any* message object: nothing of the old state is used -/
def unpackObj (spec : MsgSpec) (src : Bytes) : MsgObj × UR Unit :=
  match spec.unpack src with
  | .ok (m, _) => (spec.objOfMsg m (spec.wireBitmapOf src), .ok ())
  | .err p => (spec.unpackResidue src, .err p)
  | .panic => (spec.unpackResidue src, .panic)

end MsgSpec

/-! ### operations -/

inductive Op where
  | mti (s : Bytes)
  | setField (id : Nat) (b : Bytes)
  | marshalField (id : Nat) (v : Value)
  | jsonDecode (doc : List (Nat × Value))
  | unpack (b : Bytes)
  | unsetField (id : Nat)
  | unsetPath (id : Nat) (path : Bytes)
  | pack
  | getFields
  | json
  | clone
  | describe
deriving Repr, Inhabited

inductive Out where
  /-- no result (MTI, UnsetField) -/
  | unit
  /-- `error` result: nil / error / panic -/
  | status (r : Res Unit)
  /-- keys of `GetFields()`, ascending -/
  | ids (l : List Nat)
  | packed (r : Res Bytes)
  | json (r : Option JVal)
  | cloned (r : Option MsgObj)
  /-- `Describe`: the bitmap bytes it prints and the field ids in the order it lists them -/
  | described (bitmap : Bytes) (ids : List Nat)
deriving Repr, Inhabited

namespace MsgObj

def sortedIds (o : MsgObj) : List Nat := sortBy (fun a b => decide (a < b)) o.present

def setField (spec : MsgSpec) (o : MsgObj) (id : Nat) (b : Bytes) : MsgObj × Res Unit :=
  if id = 1 then ({ o with bitmap := b, present := markId 1 o.present }, .ok ())
  else
    match spec.fieldOf id with
    | none => (o, .err)
    | some f =>
      let r := f.setBytesInto (o.get id f) b
      ({ o with fields := setId id r.1 o.fields, present := markId id o.present }, r.2)

def marshalField (spec : MsgSpec) (o : MsgObj) (id : Nat) (v : Value) : MsgObj × Res Unit :=
  match spec.fieldOf id with
  | none => (o, .err)
  | some f =>
    if f.shapeOK v then
      ({ o with fields := setId id (f.marshalInto (o.get id f) v) o.fields, present := markId id o.present }, .ok ())
    else (o, .err)

/-- `UnmarshalJSON` over the members in the order given (Go: map iteration order; it only
matters when a member is rejected) -/
def jsonDecode (spec : MsgSpec) (o : MsgObj) : List (Nat × Value) → MsgObj × Res Unit
  | [] => (o, .ok ())
  | (id, v) :: rest =>
    if id = 1 then
      match v with
      | .bin d => jsonDecode spec { o with bitmap := d, present := markId 1 o.present } rest
      | _ => (o, .err)
    else
      match o.marshalField spec id v with
      | (o', .ok _) => jsonDecode spec o' rest
      | r => r

/-- `unsetField(id)`: a marked field is unmarked and its object re-created. For the bitmap
field (id 1) the re-created object replaces the cached one (`cachedBitmap = nil`) and the
id stays marked: the bitmap field is part of every message. -/
def unsetField (o : MsgObj) (id : Nat) : MsgObj :=
  if o.present.contains id then
    if id = 1 then { o with cachedBitmap := false, bitmap := [] }
    else { o with present := o.present.filter (fun i => i != id), fields := eraseId id o.fields }
  else o

def unsetPath (spec : MsgSpec) (o : MsgObj) (id : Nat) (path : Bytes) : MsgObj × Res Unit :=
  if o.present.contains id then
    if path.isEmpty then (o.unsetField id, .ok ())
    else
      match spec.fieldOf id with
      | none => (o, .err)
      | some f =>
        match f.unsetSubs (o.get id f) path with
        | .ok obj' => ({ o with fields := setId id obj' o.fields }, .ok ())
        | .err => (o, .err)
        | .panic => (o, .panic)
  else (o, .ok ())

/-- `UnsetFields(p₁, p₂, …)` with several paths: the paths are processed in order and the
call returns at the first error, keeping what the earlier paths did -/
def unsetPaths (spec : MsgSpec) (o : MsgObj) : List (Nat × Bytes) → MsgObj × Res Unit
  | [] => (o, .ok ())
  | (id, path) :: rest =>
    match o.unsetPath spec id path with
    | (o', .ok _) => unsetPaths spec o' rest
    | r => r

/-- `m.GetField(id).(*Composite).UnsetSubfield(tag)`: the caller reaches below the message and
unsets one subfield of the composite object directly — unconditionally (no look at the presence
sets), and the message's own presence set is not involved. An undefined tag panics in
`CreateSubfield(nil)` after the tag was unmarked. -/
def unsetSubDirect (spec : MsgSpec) (o : MsgObj) (id : Nat) (tag : Tag) : MsgObj × Res Unit :=
  match spec.fieldOf id with
  | some (.comp cs subs) =>
    match o.get id (.comp cs subs) with
    | .comp objs set =>
      let set' := set.filter (fun t => t != tag)
      if lookupField subs tag then ({ o with fields := setId id (.comp (eraseKV tag objs) set') o.fields }, .ok ())
      else ({ o with fields := setId id (.comp objs set') o.fields }, .panic)
    | .prim _ => (o, .err)
  | _ => (o, .err)

/-- JSON text of the field with id `i` of a message -/
def jsonAt (spec : MsgSpec) (o : MsgObj) (i : Nat) : Option (Bytes × JVal) :=
  if i = 1 then some (natToDec 1, .str (Enc.hexEncodeUpper o.bitmap))
  else (spec.fieldOf i).map fun f => (natToDec i, f.jsonOf (o.get i f))

/-- `MarshalJSON`: pack (which also refreshes the bitmap), then the set fields -/
def json (spec : MsgSpec) (o : MsgObj) : MsgObj × Option JVal :=
  let r := o.pack spec
  match r.2 with
  | .ok _ => (r.1, some (.obj (orderJson (r.1.present.filterMap (jsonAt spec r.1)))))
  | _ => (r.1, none)

/-- `Clone`: pack the original, unpack the bytes into a new message, pack that -/
def clone (spec : MsgSpec) (o : MsgObj) : MsgObj × Option MsgObj :=
  let r := o.pack spec
  match r.2 with
  | .ok bytes =>
    let c := (spec.unpackObj bytes).1
    let rc := c.pack spec
    match rc.2 with
    | .ok _ => (r.1, some rc.1)
    | _ => (r.1, none)
  | _ => (r.1, none)

def describe (spec : MsgSpec) (o : MsgObj) : MsgObj × Out :=
  let o1 := o.touchBitmap spec
  (o1, .described o1.bitmap
    ((sortBy (fun a b => SortKind.byInt.less a b) (o1.present.map natToDec)).filterMap
      (fun s => (atoi? s).map Int.toNat) |>.filter (fun i => i != 1)))

def step (spec : MsgSpec) (o : MsgObj) : Op → MsgObj × Out
  | .mti s => ((o.setField spec 0 s).1, .unit)
  | .setField id b => let r := o.setField spec id b; (r.1, .status r.2)
  | .marshalField id v => let r := o.marshalField spec id v; (r.1, .status r.2)
  | .jsonDecode doc => let r := o.jsonDecode spec doc; (r.1, .status r.2)
  | .unpack b =>
    let r := spec.unpackObj b
    (r.1, .status (match r.2 with | .ok _ => .ok () | .err _ => .err | .panic => .panic))
  | .unsetField id => (o.unsetField id, .unit)
  | .unsetPath id path => let r := o.unsetPath spec id path; (r.1, .status r.2)
  | .pack => let r := o.pack spec; (r.1, .packed r.2)
  | .getFields => (o, .ids o.sortedIds)
  | .json => let r := o.json spec; (r.1, .json r.2)
  | .clone => let r := o.clone spec; (r.1, .cloned r.2)
  | .describe => o.describe spec

/-- run a history -/
def run (spec : MsgSpec) (o : MsgObj) : List Op → MsgObj
  | [] => o
  | op :: rest => run spec (step spec o op).1 rest

end MsgObj
end Iso8583
