/-
Model of the Describe filters (`/repo/field_filter.go`) on Go strings (= byte sequences),
faithful to the slicing code: `utf8.RuneCountInString` for the "too short" test, byte
slicing `in[0:n]` / `in[len(in)-n:]` through checked primitives that yield `panic` exactly
when the Go runtime would. Track filters follow `newTrackData(in, &track)` =
`track.SetBytes([]byte(in))` = `Track{1,2,3}.unpack` (regular expression + `strings.TrimSpace`
+ `time.Parse("0601")`) → `PANFilter` on the account number → `Track{1,2,3}.pack`. They are
pure functions of the text that is about to be printed: a text the track grammar rejects is
returned unchanged, the field's spec plays no role.

The constants (how many characters stay visible, the mask text, which field id gets which
filter) come from `Gen/Filters.lean`, regenerated from the source on every run. Core-only.
-/
import Iso8583.Basic
import Iso8583.Gen.Filters

namespace Iso8583.Describe

/-! ## `utf8.RuneCountInString` -/

def inRange (c : Byte) (lo hi : Nat) : Bool := lo ≤ c.toNat && c.toNat ≤ hi

/-- bytes consumed by the first rune of a non-empty string (`1` for ASCII, for an invalid
or truncated sequence: Go counts such a byte as one `RuneError`) -/
def runeLen : Bytes → Nat
  | [] => 0
  | c :: rest =>
    let n := c.toNat
    if n < 0x80 then 1
    else if n < 0xC2 then 1
    else if n ≤ 0xDF then
      match rest with
      | c1 :: _ => if inRange c1 0x80 0xBF then 2 else 1
      | _ => 1
    else if n ≤ 0xEF then
      let lo := if n = 0xE0 then 0xA0 else 0x80
      let hi := if n = 0xED then 0x9F else 0xBF
      match rest with
      | c1 :: c2 :: _ => if inRange c1 lo hi && inRange c2 0x80 0xBF then 3 else 1
      | _ => 1
    else if n ≤ 0xF4 then
      let lo := if n = 0xF0 then 0x90 else 0x80
      let hi := if n = 0xF4 then 0x8F else 0xBF
      match rest with
      | c1 :: c2 :: c3 :: _ =>
        if inRange c1 lo hi && inRange c2 0x80 0xBF && inRange c3 0x80 0xBF then 4 else 1
      | _ => 1
    else 1

def runeCountAux : Nat → Bytes → Nat
  | 0, _ => 0
  | _ + 1, [] => 0
  | fuel + 1, s => 1 + runeCountAux fuel (s.drop (runeLen s))

/-- `utf8.RuneCountInString` -/
def runeCount (s : Bytes) : Nat := runeCountAux s.length s

/-! ## checked slicing -/

/-- `s[0:j]` -/
def sliceTo (s : Bytes) (j : Nat) : Res Bytes :=
  if j ≤ s.length then .ok (s.take j) else .panic

/-- `s[len(s)-k:]` -/
def sliceLast (s : Bytes) (k : Nat) : Res Bytes :=
  if k ≤ s.length then .ok (s.drop (s.length - k)) else .panic

/-! ## PAN / PIN / EMV filters -/

/-- `PANFilter`, `PINFilter`, `EMVFilter` share one shape:
```go
if utf8.RuneCountInString(in) < first+last { return in }
return in[0:first] + pattern + in[len(in)-last:]
``` -/
def maskFilter (first last : Nat) (pattern : Bytes) (s : Bytes) : Res Bytes :=
  if runeCount s < first + last then .ok s
  else do
    let a ← sliceTo s first
    let b ← sliceLast s last
    pure (a ++ pattern ++ b)

/-! ## track data -/

def isDigit (c : Byte) : Bool := inRange c 48 57
def isUpper (c : Byte) : Bool := inRange c 65 90

/-- ASCII part of `unicode.IsSpace` (what `strings.TrimSpace` removes without decoding) -/
def isAsciiSpace (c : Byte) : Bool := c = 9 || c = 10 || c = 11 || c = 12 || c = 13 || c = 32

/-- `strings.TrimSpace` for text whose non-ASCII part contains no Unicode white space -/
def trimSpace (s : Bytes) : Bytes :=
  ((s.dropWhile isAsciiSpace).reverse.dropWhile isAsciiSpace).reverse

def spanDigits : Bytes → Bytes × Bytes
  | [] => ([], [])
  | c :: r => if isDigit c then let (a, b) := spanDigits r; (c :: a, b) else ([], c :: r)

def dval (c : Byte) : Nat := c.toNat - 48

/-- `time.Parse("0601", s)` succeeds on four digits iff the month is 01..12 -/
def expiryOK (e : Bytes) : Bool :=
  match e with
  | [_, _, m1, m2] => let m := dval m1 * 10 + dval m2; 1 ≤ m && m ≤ 12
  | _ => false

def Q : Byte := 63  -- '?'
def caret : Byte := 94
def eqSign : Byte := 61

def ddOK (dd : Bytes) : Bool := !dd.isEmpty && dd.all (fun c => c != Q)

/-- result of `Track.unpack`: the components, or failure -/
structure T2 where
  pan : Bytes
  sep : Bytes
  exp : Option Bytes
  code : Bytes
  dd : Bytes
deriving Repr, DecidableEq

/-- `track2Regex = ^([0-9]{1,19})(=|D)([0-9]{4})([0-9]{3})([^?]+)$` then `Track2.unpack` -/
def parseTrack2 (raw : Bytes) : Option T2 :=
  let (pan, r1) := spanDigits raw
  if pan.length < 1 || pan.length > 19 then none else
  match r1 with
  | sep :: r2 =>
    if sep = eqSign || sep = 68 then
      let exp := r2.take 4
      let code := (r2.drop 4).take 3
      let dd := r2.drop 7
      if exp.length = 4 && exp.all isDigit && code.length = 3 && code.all isDigit && ddOK dd then
        if expiryOK exp then some { pan := pan, sep := [sep], exp := some exp, code := code, dd := trimSpace dd }
        else none
      else none
    else none
  | [] => none

/-- `Track2.pack` -/
def formatTrack2 (t : T2) : Bytes :=
  let expired := match t.exp with | some e => e | none => [caret]
  let code := if t.code.isEmpty then [caret] else t.code
  let sep := if t.sep.isEmpty then [eqSign] else t.sep
  t.pan ++ sep ++ expired ++ code ++ t.dd

/-- `Track2Filter(in, data)`: `data` is not used any more -/
def track2Filter (pan : Bytes → Res Bytes) (inp : Bytes) : Res Bytes :=
  match parseTrack2 inp with
  | none => .ok inp            -- `ErrCreatingNewTrackData`: the filter returns its input
  | some t => do
    let p ← pan t.pan
    pure (formatTrack2 { t with pan := p })

structure T1 where
  fc : Bytes
  pan : Bytes
  name : Bytes
  exp : Option Bytes
  code : Bytes
  dd : Bytes
deriving Repr, DecidableEq

def spanNotCaret : Bytes → Bytes × Bytes
  | [] => ([], [])
  | c :: r => if c != caret then let (a, b) := spanNotCaret r; (c :: a, b) else ([], c :: r)

/-- one alternative `([0-9]{n}|\^)`: the digits, or the caret -/
def digitsOrCaret (n : Nat) (s : Bytes) : Option (Bytes × Bytes) :=
  if (s.take n).length = n && (s.take n).all isDigit then some (s.take n, s.drop n)
  else match s with
    | c :: r => if c = caret then some ([caret], r) else none
    | [] => none

/-- `track1Regex = ^([A-Z]{1})([0-9]{1,19})\^([^\^]{2,26})\^([0-9]{4}|\^)([0-9]{3}|\^)([^\?]+)$`
then `Track1.unpack` (groups are trimmed; empty groups and "^" are skipped) -/
def parseTrack1 (raw : Bytes) : Option T1 :=
  match raw with
  | fc :: r0 =>
    if !isUpper fc then none else
    let (pan, r1) := spanDigits r0
    if pan.length < 1 || pan.length > 19 then none else
    match r1 with
    | c1 :: r2 =>
      if c1 != caret then none else
      let (name, r3) := spanNotCaret r2
      if runeCount name < 2 || runeCount name > 26 then none else
      match r3 with
      | _ :: r4 =>   -- the caret that ended the name
        match digitsOrCaret 4 r4 with
        | none => none
        | some (exp, r5) =>
          match digitsOrCaret 3 r5 with
          | none => none
          | some (code, dd) =>
            if !ddOK dd then none else
            let skip (v : Bytes) : Bytes := let t := trimSpace v; if t = [caret] then [] else t
            let exp' := skip exp
            if !exp'.isEmpty && !expiryOK exp' then none else
            some { fc := [fc], pan := pan, name := skip name,
                   exp := if exp'.isEmpty then none else some exp', code := skip code, dd := skip dd }
      | [] => none
    | [] => none
  | [] => none

/-- `Track1.pack` with `FixedLength = false` (what `unpack` leaves) -/
def formatTrack1 (t : T1) : Bytes :=
  let expired := match t.exp with | some e => e | none => [caret]
  let code := if t.code.isEmpty then [caret] else t.code
  t.fc ++ t.pan ++ [caret] ++ t.name ++ [caret] ++ expired ++ code ++ t.dd

def track1Filter (pan : Bytes → Res Bytes) (inp : Bytes) : Res Bytes :=
  match parseTrack1 inp with
  | none => .ok inp            -- `ErrCreatingNewTrackData`: the filter returns its input
  | some t => do
    let p ← pan t.pan
    pure (formatTrack1 { t with pan := p })

structure T3 where
  fc : Bytes
  pan : Bytes
  dd : Bytes
deriving Repr, DecidableEq

/-- `track3Regex = ^([0-9]{2})([0-9]{1,19})\=([^\?]+)$` then `Track3.unpack` -/
def parseTrack3 (raw : Bytes) : Option T3 :=
  let (ds, r1) := spanDigits raw
  if ds.length < 3 || ds.length > 21 then none else
  match r1 with
  | c :: dd =>
    if c != eqSign then none else
    if !ddOK dd then none else
    let t := trimSpace dd
    some { fc := ds.take 2, pan := ds.drop 2, dd := if t = [eqSign] then [] else t }
  | [] => none

def formatTrack3 (t : T3) : Bytes := t.fc ++ t.pan ++ [eqSign] ++ t.dd

def emptyT3 : T3 := { fc := [], pan := [], dd := [] }

/-- `Track3Filter`. `Track3.SetBytes` (unlike `Track1`/`Track2.SetBytes`) swallows the error of
`unpack` (`field/track3.go`: `if err := f.unpack(b); err != nil { return nil }`), so
`newTrackData` never fails for track 3: a text the grammar rejects leaves the track empty and
is printed as the empty track, `"="` — nothing of the text is shown. -/
def track3Filter (pan : Bytes → Res Bytes) (inp : Bytes) : Res Bytes :=
  let go (t : T3) : Res Bytes := do
    let p ← pan t.pan
    pure (formatTrack3 { t with pan := p })
  match parseTrack3 inp with
  | none => go emptyT3
  | some t => go t

/-! ## the filters with the constants of the source -/

def bytesOf (xs : List Nat) : Bytes := xs.map UInt8.ofNat

def panFilter : Bytes → Res Bytes := maskFilter Gen.panFistIndex Gen.panLastIndex (bytesOf Gen.panPattern)
def pinFilter : Bytes → Res Bytes := maskFilter Gen.pinFirstIndex Gen.pinLastIndex (bytesOf Gen.pinPattern)
def emvFilter : Bytes → Res Bytes := maskFilter Gen.emvFirstIndex Gen.emvLastIndex (bytesOf Gen.emvPattern)

/-- filter function by its Go name -/
def filterByName (name : String) (inp : Bytes) : Option (Res Bytes) :=
  match name with
  | "PANFilter" => some (panFilter inp)
  | "PINFilter" => some (pinFilter inp)
  | "EMVFilter" => some (emvFilter inp)
  | "NoOpFilter" => some (.ok inp)
  | "Track1Filter" => some (track1Filter panFilter inp)
  | "Track2Filter" => some (track2Filter panFilter inp)
  | "Track3Filter" => some (track3Filter panFilter inp)
  | _ => none

/-- the filter `Describe` applies to field `id` with `DefaultFilters()` (none = printed unfiltered) -/
def defaultFilterFor (id : String) : Option String :=
  (Gen.defaultFilters.reverse.find? (fun p => p.1 == id)).map (·.2)

end Iso8583.Describe
