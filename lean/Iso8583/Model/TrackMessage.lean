/-
Messages whose data elements may be track fields (field.Track1 / Track2 / Track3) next to
the field kinds of Model/Field.lean: a model of /repo/message.go `pack` / `unpack` when
some entries of the MessageSpec are track fields.

Model/Message.lean (`MsgSpec`, `Msg`) only knows `Field`; Model/Track.lean models the track
fields on their own. Both are left untouched: a message field is here *either* a `Field`
*or* a `TrackSpec` (`MField`), a field value *either* a `Value` *or* the exported components
of a track object (`MValue`). `TMsgSpec.pack / packFields / scan / unpack` repeat
`MsgSpec.pack / packFields / scan / unpack` line by line with `MField.pack` / `MField.unpack`
in the place of `Field.pack` / `Field.unpack`; everything that does not touch a field
(`MsgSpec.setBits`, `lookupId`, `sortBy`, `Bitmap.*`, `natToDec`) is re-used.

  * `Message.pack` calls `field.Pack()` of the field object: for a track field that is
    `packer.Pack(f.pack(), spec)` = `TrackSpec.pack`.
  * `Message.unpack` re-creates every field object (`spec.CreateMessageFields()`) and then
    calls `Unpack` on the new object: for a track field that is `TrackSpec.unpack` started
    from `TrackSpec.fresh`. A track field's error is not an `UnpackError`, so the path of a
    failing track field ends at the field id.

The second half reduces the new model to the old one (`TMsgSpec.base`, `TMsg.textify`) and
states the side conditions (`TMsgSpec.coherent`, `inDomain`, `canon`); the round trip is
proved in Props/C01TrackMsg.lean. Tied to the Go code by channel YM (Drivers/TrackMsg.lean,
harness/impl/trackmsg.go).
-/
import Iso8583.Model.Message
import Iso8583.Model.Track
import Iso8583.Spec.TrackDomain

namespace Iso8583

/-- a data element of a message spec: an ordinary field or a track field -/
inductive MField where
  | plain (f : Field)
  | track (s : TrackSpec)
deriving Repr, Inhabited

/-- the content of a data element: an ordinary value or the components of a track object -/
inductive MValue where
  | plain (v : Value)
  | track (v : TrackVal)
deriving Repr, Inhabited

structure TMsgSpec where
  mti : PrimSpec
  bitmap : BitmapSpec
  /-- data elements, ids ≥ 2 -/
  fields : List (Nat × MField)
deriving Repr, Inhabited

/-- logical content of a message: the MTI (if set) and the set data elements -/
structure TMsg where
  mti : Option Value
  fields : List (Nat × MValue)
deriving Repr, Inhabited

namespace MField

/-- `field.Pack()`; a value of the wrong sort is not expressible in Go (`Marshal` refuses it) -/
def pack : MField → MValue → Res Bytes
  | .plain f, .plain v => f.pack v
  | .track s, .track v => s.pack v
  | _, _ => .err

/-- `field.Unpack(data)` on the field object of a *new* message: the value afterwards and
the bytes read. The error of a track field carries no field id of its own. -/
def unpack : MField → Bytes → UR (MValue × Nat)
  | .plain f, data =>
    match f.unpack data with
    | .ok (v, read) => .ok (.plain v, read)
    | .err p => .err p
    | .panic => .panic
  | .track s, data =>
    match s.unpack s.fresh data with
    | (v, .ok read) => .ok (.track v, read)
    | (_, .err) => .err []
    | (_, .panic) => .panic

end MField

namespace TMsgSpec

/-- second loop of `pack` over the ids ≥ 2 in ascending order (cf. `MsgSpec.packFields`) -/
def packFields (spec : TMsgSpec) (bm : Bitmap) : List (Nat × MValue) → Res Bytes
  | [] => .ok []
  | (i, v) :: rest =>
    if bm.isPresenceBit i then packFields spec bm rest
    else
      match lookupId i spec.fields with
      | none => .err
      | some f =>
        match f.pack v with
        | .ok b =>
          match packFields spec bm rest with
          | .ok more => .ok (b ++ more)
          | .err => .err
          | .panic => .panic
        | .err => .err
        | .panic => .panic

/-- `Message.Pack` on a message whose logical content is `m` (cf. `MsgSpec.pack`) -/
def pack (spec : TMsgSpec) (m : TMsg) : Res Bytes :=
  let sorted := sortBy (fun a b => decide (a.1 < b.1)) m.fields
  match MsgSpec.setBits (sorted.map (·.1)) (Bitmap.reset spec.bitmap.specLen spec.bitmap.auto) with
  | .err => .err
  | .panic => .panic
  | .ok bm =>
    let mtiBytes : Res Bytes := match m.mti with
      | some v => spec.mti.pack v
      | none => .ok []
    match mtiBytes with
    | .err => .err
    | .panic => .panic
    | .ok mb =>
      match bm.pack spec.bitmap.enc with
      | .err => .err
      | .panic => .panic
      | .ok bb =>
        match packFields spec bm sorted with
        | .ok fb => .ok (mb ++ bb ++ fb)
        | .err => .err
        | .panic => .panic

/-- the `for i := 2; i <= Len; i++` scan of `unpack` (cf. `MsgSpec.scan`) -/
def scan (spec : TMsgSpec) (bm : Bitmap) :
    Nat → Nat → Bytes → Nat → List (Nat × MValue) → UR (List (Nat × MValue) × Nat)
  | 0, _, _, off, acc => .ok (acc, off)
  | remaining + 1, i, src, off, acc =>
    if bm.isPresenceBit i then scan spec bm remaining (i + 1) src off acc
    else if bm.isSet i then
      match lookupId i spec.fields with
      | none => .err [natToDec i]
      | some f =>
        if off > src.length then .panic
        else
        match f.unpack (src.drop off) with
        | .err p => .err (natToDec i :: p)
        | .panic => .panic
        | .ok (v, read) => scan spec bm remaining (i + 1) src (off + read) (acc ++ [(i, v)])
    else scan spec bm remaining (i + 1) src off acc

/-- `Message.Unpack`: the content and the number of bytes consumed; an error carries
`UnpackError.FieldIDs()` (cf. `MsgSpec.unpack`) -/
def unpack (spec : TMsgSpec) (src : Bytes) : UR (TMsg × Nat) :=
  match spec.mti.unpack src with
  | .err => .err [natToDec 0]
  | .panic => .panic
  | .ok (mtiV, read) =>
    if read > src.length then .panic
    else
    match Bitmap.unpack spec.bitmap.enc spec.bitmap.pref
        (Bitmap.reset spec.bitmap.specLen spec.bitmap.auto) (src.drop read) with
    | .err => .err [natToDec 1]
    | .panic => .panic
    | .ok (bm, bread) =>
      match scan spec bm (bm.len - 1) 2 src (read + bread) [] with
      | .err p => .err p
      | .panic => .panic
      | .ok (fields, off) => .ok ({ mti := some mtiV, fields := fields }, off)

end TMsgSpec

/-! ## Reduction to the message model without track fields -/

/-- the wire layer of a track field read as a String primitive -/
def MField.base : MField → Field
  | .plain f => f
  | .track s => .prim s.prim

/-- a track value seen by the String primitive: its packed text -/
def MValue.textify : MValue → Value
  | .plain v => v
  | .track v => .str v.packText

/-- the message spec with every track field replaced by the String primitive of its wire layer -/
def TMsgSpec.base (spec : TMsgSpec) : MsgSpec :=
  { mti := spec.mti, bitmap := spec.bitmap, fields := spec.fields.map fun p => (p.1, p.2.base) }

/-- the content with every track value replaced by its packed text -/
def TMsg.textify (m : TMsg) : Msg :=
  { mti := m.mti, fields := m.fields.map fun p => (p.1, p.2.textify) }

/-- canonical form of one value: `Field.canon` / `TrackVal.canon` (Track2 separator defaulted) -/
def MField.canon : MField → MValue → MValue
  | .plain f, .plain v => .plain (f.canon v)
  | .track _, .track v => .track v.canon
  | _, v => v

/-- canonical message content: fields ascending by id, each in canonical form (cf. `MsgSpec.canon`) -/
def TMsgSpec.canon (spec : TMsgSpec) (m : TMsg) : TMsg :=
  { mti := m.mti.map spec.mti.canon,
    fields := (sortBy (fun a b => decide (a.1 < b.1)) m.fields).map fun p =>
      match lookupId p.1 spec.fields with
      | some f => (p.1, f.canon p.2)
      | none => p }

/-- the value has the sort of its field and lies in the field's domain -/
def MField.inDomain : MField → MValue → Bool
  | .plain f, .plain v => f.inDomain v
  | .track s, .track v => s.inDomain v
  | _, _ => false

/-- `Coherent`: the base spec is coherent (`MsgSpec.coherent`); for a track field this is
exactly `TrackSpec.coherent` (its wire layer is a coherent String primitive) -/
def TMsgSpec.coherent (spec : TMsgSpec) : Bool := spec.base.coherent

/-- `InDomain`: the textified content lies in the domain of the base spec (MTI present and in
its domain, ids distinct and declared, every value in the domain of the base field), and
every value has the sort of its field and lies in that field's own domain — for a track
value `TrackSpec.inDomain` (components, text in the wire layer's domain and canonical there) -/
def TMsgSpec.inDomain (spec : TMsgSpec) (m : TMsg) : Bool :=
  spec.base.inDomain m.textify &&
  m.fields.all (fun p => match lookupId p.1 spec.fields with | some f => f.inDomain p.2 | none => false)

end Iso8583
