/-
Model of /repo/network/*.go (after the `fix:` commit 7c24436): the four message-length
headers `Binary2Bytes`, `ASCII4BytesHeader`, `BCD2BytesHeader`, `VMLH`.
Each function mirrors one Go method; see DESIGN.md §4 C16.

Reader model: an `io.Reader` is a list of chunks. Every `Read(p)` call hands out the
next chunk (or, if the chunk is longer than `p`, its first `len(p)` bytes — the rest
stays at the head of the reader); an empty chunk is a `Read` that returns `(0, nil)`;
when the list is exhausted `Read` returns `(0, io.EOF)`. A stream that ends early is a
chunk list that holds fewer bytes than the header needs.
-/
import Iso8583.Basic
import Iso8583.Model.Encoding
import Iso8583.Model.Prefix
import Iso8583.Gen.Consts

namespace Iso8583

/-- the four header implementations -/
inductive Hdr where
  | binary2   -- network.Binary2Bytes
  | ascii4    -- network.ASCII4BytesHeader
  | bcd2      -- network.BCD2BytesHeader
  | vmlh      -- network.VMLH (Visa message length header)
deriving Repr, DecidableEq, Inhabited

namespace Net

/-- what a successful `ReadFrom` leaves behind: `Length()`, the number of bytes the
reader handed out, and `IsSessionControl` (VMLH only, `false` otherwise) -/
structure RdOk where
  length : Int
  consumed : Nat
  flag : Bool
deriving Repr, DecidableEq, Inhabited

/-- fixed width of the header on the wire -/
def size : Hdr → Nat
  | .binary2 => 2
  | .ascii4 => 4
  | .bcd2 => 2
  | .vmlh => 4

/-! ### io.ReadFull over a fragmented reader -/

/-- `io.ReadFull(r, buf)` with `len(buf) = n` (`io.ReadAtLeast`'s loop
`for n < min && err == nil { nn, err = r.Read(buf[n:]); n += nn }`): the bytes obtained
and the reader afterwards. Fewer than `n` bytes obtained ⇔ the reader hit EOF first
(`io.EOF` / `io.ErrUnexpectedEOF`). -/
def readFull : List Bytes → Nat → Bytes × List Bytes
  | [], _ => ([], [])                       -- Read returns (0, io.EOF)
  | c :: cs, n =>
    if n = 0 then ([], c :: cs)             -- buffer full: no further Read call
    else if c.length ≤ n then
      let r := readFull cs (n - c.length)   -- whole chunk taken, loop again
      (c ++ r.1, r.2)
    else (c.take n, c.drop n :: cs)         -- chunk larger than the buffer: rest stays

/-! ### helpers -/

/-- `uint16(length)` -/
def wrap16 (n : Int) : Int := n % 65536

/-- big-endian bytes of a `uint16` (`binary.BigEndian.PutUint16`) -/
def be16Bytes (n : Nat) : Bytes := [UInt8.ofNat (n / 256 % 256), UInt8.ofNat (n % 256)]

/-- `binary.BigEndian.Uint16` -/
def be16 (b0 b1 : Byte) : Nat := b0.toNat * 256 + b1.toNat

/-- `fmt.Sprintf("%04d", n)` for `n ≥ 0`: zero-padded to four digits, wider when the
number needs more digits (the callers exclude that case first). -/
def fmt04d (n : Nat) : Bytes :=
  if n < 10000 then Pref.decString 4 n
  else (Nat.toDigits 10 n).map (fun c => UInt8.ofNat c.toNat)

/-! ### SetLength -/

/-- `SetLength(length)`: the stored `Len`, or the returned error. `Binary2Bytes` and
`VMLH` keep a `uint16` and refuse what does not fit; the two decimal headers keep the
`int` as it is (their `SetLength` has no result) and refuse later, in `WriteTo`. -/
def setLength (h : Hdr) (length : Int) : Res Int :=
  match h with
  | .binary2 => if length < 0 then .err else if length > 65535 then .err else .ok (wrap16 length)
  | .vmlh => if length < 0 then .err else if length > 65535 then .err else .ok (wrap16 length)
  | .ascii4 => .ok length
  | .bcd2 => .ok length

/-! ### WriteTo -/

/-- `WriteTo(w)` for a header whose stored `Len` is `len`: the bytes written, or an
error (nothing is written then). -/
def writeTo (h : Hdr) (len : Int) : Res Bytes :=
  match h with
  | .binary2 => .ok (be16Bytes len.toNat)
  | .ascii4 =>
    if len < 0 ∨ len > (Gen.maxASCII4BytesLength : Int) then .err
    else .ok (fmt04d len.toNat)
  | .bcd2 =>
    if len < 0 ∨ len > (Gen.maxBCD2BytesLength : Int) then .err
    else Enc.encode .bcd (fmt04d len.toNat)
  | .vmlh =>
    if len > (Gen.vmlMaxMessageLength : Int) then .err
    else .ok (be16Bytes len.toNat ++ [0, 0])

/-- a fresh header, `SetLength(n)`, then `WriteTo`: error if either step fails -/
def write (h : Hdr) (n : Int) : Res Bytes :=
  match setLength h n with
  | .ok len => writeTo h len
  | .err => .err
  | .panic => .panic

/-! ### ReadFrom

Each `ReadFrom` begins with `io.ReadFull` of the fixed header size; `…After` is the rest
of the Go function, given the bytes `io.ReadFull` obtained (`got`, which is shorter than
the buffer exactly when `io.ReadFull` returned an error). -/

/-- `Binary2Bytes.ReadFrom` after `binary.Read`'s `io.ReadFull(r, bs)` with 2 bytes:
`BigEndian.Uint16(bs)` (which indexes `bs[1]`). -/
def binary2After (got : Bytes) : Res RdOk :=
  if got.length ≠ 2 then .err           -- err from io.ReadFull
  else match got with
    | b0 :: b1 :: _ => .ok ⟨be16 b0 b1, got.length, false⟩
    | _ => .panic

def binary2ReadFrom (cs : List Bytes) : Res RdOk := binary2After (readFull cs 2).1

/-- `ASCII4BytesHeader.ReadFrom` after `io.ReadFull(r, buf)` with 4 bytes:
`strconv.Atoi`, then the sign check. -/
def ascii4After (got : Bytes) : Res RdOk :=
  if got.length < 4 then .err           -- err from io.ReadFull
  else if got.length ≠ 4 then .err      -- `read != 4`
  else match atoi? got with
    | none => .err
    | some l => if l < 0 then .err else .ok ⟨l, got.length, false⟩

def ascii4ReadFrom (cs : List Bytes) : Res RdOk := ascii4After (readFull cs 4).1

/-- `BCD2BytesHeader.ReadFrom` after `io.ReadFull(r, buf)` with 2 bytes:
`BCD.Decode(buf, 4)`, then `strconv.Atoi`. -/
def bcd2After (got : Bytes) : Res RdOk :=
  if got.length ≠ 2 then .err           -- err from io.ReadFull
  else match Enc.decode .bcd got 4 with
    | .err => .err
    | .panic => .panic
    | .ok (ds, _) =>
      match atoi? ds with
      | none => .err
      | some l => .ok ⟨l, got.length, false⟩

def bcd2ReadFrom (cs : List Bytes) : Res RdOk := bcd2After (readFull cs 2).1

/-- `VMLH.ReadFrom` after `io.ReadFull(r, header)` with 4 bytes: big-endian `uint16` from
the first two; refuse more than `MaxMessageLength`; `BCD.Decode(header[3:], 2)`; the flag
is `indicators[0] == '2'`. -/
def vmlhAfter (got : Bytes) : Res RdOk :=
  if got.length ≠ 4 then .err           -- err from io.ReadFull
  else match got with
    | b0 :: b1 :: _ =>
      let len := be16 b0 b1
      if len > Gen.vmlMaxMessageLength then .err
      else match Enc.decode .bcd (got.drop 3) 2 with
        | .err => .err
        | .panic => .panic
        | .ok (ds, _) =>
          match ds with
          | [] => .panic                  -- indicators[0] out of range
          | d0 :: _ => .ok ⟨len, got.length, d0.toNat == Gen.vmlSessionControlIndicator⟩
    | _ => .err                           -- binary.Read from a too short header

def vmlhReadFrom (cs : List Bytes) : Res RdOk := vmlhAfter (readFull cs 4).1

def readFrom (h : Hdr) (cs : List Bytes) : Res RdOk :=
  match h with
  | .binary2 => binary2ReadFrom cs
  | .ascii4 => ascii4ReadFrom cs
  | .bcd2 => bcd2ReadFrom cs
  | .vmlh => vmlhReadFrom cs

def name : Hdr → String
  | .binary2 => "binary2" | .ascii4 => "ascii4" | .bcd2 => "bcd2" | .vmlh => "vmlh"

def ofName? : String → Option Hdr
  | "binary2" => some .binary2 | "ascii4" => some .ascii4 | "bcd2" => some .bcd2
  | "vmlh" => some .vmlh | _ => none

end Net
end Iso8583
