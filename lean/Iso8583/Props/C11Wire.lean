/-
C11 through the wire without the explicit C01 hypothesis: `C11.marshal_unmarshal_wire` takes
`unpack (pack m) = canon m` as a hypothesis because C01's file proves it; here the two are put
together for every coherent spec.
-/
import Iso8583.Props.C11
import Iso8583.Props.C01

namespace Iso8583.C11Wire
open Iso8583 Iso8583.C11

/-- Marshal → Pack → Unpack into a second message → Unmarshal, for every coherent spec whose
marshalled content is in the value domain: Unmarshal from the second message is exactly
Unmarshal from the first message's values put in canonical form, for every target struct. -/
theorem marshal_unmarshal_wire_all (spec : MsgSpec) (g g0 : GoStruct) (st : MState) (bs : Bytes)
    (hc : spec.coherent = true) (hd : spec.inDomain st.toMsg = true)
    (hm : marshalMsg spec [] g = .ok st) (hpack : spec.pack st.toMsg = .ok bs)
    (hlen : bs.length ≤ maxInt) :
    viaWire spec st g0 = unmarshalMsg spec (canonState spec st) g0 := by
  have h := (C01.pack_unpack spec st.toMsg [] bs hc hd hpack hlen).1
  rw [List.append_nil] at h
  exact marshal_unmarshal_wire spec g g0 st bs hm hpack h

end Iso8583.C11Wire
