/-
C08 — Declared field lengths are enforced on both pack and unpack.
Primitive level (String / Numeric / Binary / Hex through defaultPacker / Track2Packer;
proofs in Lemmas/Prim.lean) and composite level.
-/
import Iso8583.Props.C06
import Iso8583.Spec.Coherent
import Iso8583.Lemmas.Prim

namespace Iso8583.C08
open Iso8583 Pref

/-- the bound a prefixer enforces on a length `n` against the declared maximum `maxLen`:
`None` and BER-TLV with `maxLen = 0` declare no bound (stated, not hidden) -/
def Bounded (p : Pref) (maxLen n : Nat) : Prop :=
  match p with
  | .fixed .hex => n = 2 * maxLen
  | .fixed _ => n = maxLen
  | .none => True
  | .berTLV => maxLen = 0 ∨ n ≤ maxLen
  | .var f d => n ≤ maxLen ∧ n ≤ C06.capacity f d

/-- whatever `EncodeLength` accepts is within the declared bound — for every exported prefixer -/
theorem encodeLength_ok_bounded (p : Pref) (maxLen n : Nat) (bs : Bytes) (hp : C06.Exported p)
    (hn : n ≤ maxInt) (h : encodeLength p maxLen n = .ok bs) : Bounded p maxLen n := by
  by_cases hhex : p = .fixed .hex
  · subst hhex
    have := (C06.hex_fixed_partial maxLen n []).2.1
    by_cases hne : n = 2 * maxLen
    · exact hne
    · rw [this.mpr hne] at h; cases h
  · have := (C06.enc_fails_iff p maxLen n hp hhex hn)
    have hrep : C06.Representable p maxLen n := by
      by_cases hr : C06.Representable p maxLen n
      · exact hr
      · rw [this.1.mpr hr] at h; cases h
    cases p with
    | none => trivial
    | berTLV => exact hrep
    | var f d => exact hrep
    | fixed f =>
      cases f <;> first | exact absurd rfl hhex | exact hrep

/-- whatever `DecodeLength` returns is within the declared maximum and the bytes read were available -/
theorem decodeLength_ok_bounded (p : Pref) (maxLen : Nat) (data : Bytes) (m r : Nat)
    (h : decodeLength p maxLen data = .ok (m, r)) :
    r ≤ data.length ∧ (p ≠ .none ∧ ¬ (p = .berTLV ∧ maxLen = 0) → m ≤ maxLen) := by
  have := (C06.dec_range p maxLen data).2 m r h
  exact ⟨this.1, this.2.1⟩

/-- **Composite pack**: Pack returns bytes only if the total encoded length of the
subfields is within the composite's declared bound; the result is prefix ++ body. -/
theorem composite_pack_bound (s : CompSpec) (subs : List (Tag × Field)) (vals : List (Tag × Value))
    (bs : Bytes) (hp : C06.Exported s.pref) (h : (Field.comp s subs).pack (.comp vals) = .ok bs) :
    ∃ pre body, bs = pre ++ body ∧ encodeLength s.pref s.len body.length = .ok pre ∧
      (body.length ≤ maxInt → Bounded s.pref s.len body.length) := by
  simp only [Field.pack] at h
  cases hm : s.mode with
  | tagged t =>
    simp only [hm] at h
    cases hb : packByTag t subs vals with
    | ok packed =>
      simp only [hb] at h
      cases he : encodeLength s.pref s.len packed.length with
      | ok pre =>
        simp only [he] at h
        cases h
        exact ⟨pre, packed, rfl, he, fun hn => encodeLength_ok_bounded _ _ _ _ hp hn he⟩
      | err => simp [he] at h
      | panic => simp [he] at h
    | err => simp [hb] at h
    | panic => simp [hb] at h
  | bitmapped b =>
    simp only [hm] at h
    cases hb : packByBitmap subs vals (Bitmap.reset b.specLen b.auto) with
    | ok r =>
      obtain ⟨bm, packedFields⟩ := r
      simp only [hb] at h
      cases hbm : bm.pack b.enc with
      | ok packedBitmap =>
        simp only [hbm] at h
        cases he : encodeLength s.pref s.len (packedBitmap ++ packedFields).length with
        | ok pre =>
          simp only [he] at h
          cases h
          exact ⟨pre, packedBitmap ++ packedFields, rfl, he, fun hn => encodeLength_ok_bounded _ _ _ _ hp hn he⟩
        | err => rw [List.length_append] at he; simp [he] at h
        | panic => rw [List.length_append] at he; simp [he] at h
      | err => simp [hbm] at h
      | panic => simp [hbm] at h
    | err => simp [hb] at h
    | panic => simp [hb] at h

/-- **Composite unpack**: Unpack accepts a composite only if its announced length is
within the declared maximum and within the bytes available after the prefix; it then
consumes exactly prefix + announced length. -/
theorem composite_unpack_bound (s : CompSpec) (subs : List (Tag × Field)) (data : Bytes)
    (v : Value) (read : Nat) (h : (Field.comp s subs).unpack data = .ok (v, read)) :
    ∃ dataLen offset, decodeLength s.pref s.len data = .ok (dataLen, offset) ∧
      offset ≤ data.length ∧ dataLen ≤ data.length - offset ∧ read = offset + dataLen ∧
      (s.pref ≠ .none ∧ ¬ (s.pref = .berTLV ∧ s.len = 0) → dataLen ≤ s.len) := by
  rw [Field.unpack] at h
  cases hd : decodeLength s.pref s.len data with
  | err => simp [hd] at h
  | panic => simp [hd] at h
  | ok r =>
    obtain ⟨dataLen, offset⟩ := r
    simp only [hd] at h
    have hb := decodeLength_ok_bounded _ _ _ _ _ hd
    by_cases h1 : offset > data.length
    · simp [h1] at h
    · by_cases h2 : dataLen > data.length - offset
      · simp [h1, h2] at h
      · simp only [h1, h2, ite_false] at h
        refine ⟨dataLen, offset, rfl, by omega, by omega, ?_, hb.2⟩
        split at h
        · cases h
        · cases h
        · rename_i vals r heq
          split at h
          · cases h
          · rename_i hne
            simp only [UR.ok.injEq, Prod.mk.injEq] at h
            have : dataLen = r := by
              by_cases he : dataLen = r
              · exact he
              · exact absurd he hne
            omega

/-- an announced composite length above the declared maximum is rejected -/
theorem composite_unpack_rejects_over (s : CompSpec) (subs : List (Tag × Field)) (data : Bytes)
    (dataLen offset : Nat) (hd : decodeLength s.pref s.len data = .ok (dataLen, offset))
    (hover : dataLen > data.length - offset) :
    (Field.comp s subs).unpack data = .err [] ∨ (Field.comp s subs).unpack data = .panic := by
  rw [Field.unpack]
  simp only [hd]
  by_cases h1 : offset > data.length
  · right; simp [h1]
  · left; simp [h1, hover]


/-! ## Primitive fields -/

/-- **Pack bound**: Pack returns bytes only if the (padded) value length `announced`
satisfies the prefixer's bound against the declared `len` — equal to `len` for a fixed
field (`2·len` hex digits for Hex.Fixed), ≤ `len` and within the digit capacity for a
variable one; BER-TLV with `len = 0` and None declare no bound (`Pref.lenOK`). -/
theorem prim_pack_ok_bound (s : PrimSpec) (v : Value) (bs : Bytes) (hx : s.pref.exportedB = true)
    (hp : s.pack v = .ok bs) :
    ∃ b, s.valueBytes v = .ok b ∧ s.pref.lenOK s.len (s.announced b) ∧ b.length ≤ s.announced b :=
  PrimSpec.prim_pack_bound s v bs hx hp

/-- **Pack refuses**: a value whose padded length violates the bound makes Pack return
an error — never bytes, never a panic. -/
theorem prim_pack_over_fails (s : PrimSpec) (v : Value) (b : Bytes) (hx : s.pref.exportedB = true)
    (hb : s.valueBytes v = .ok b) (hover : ¬ s.pref.lenOK s.len (s.announced b)) :
    s.pack v = .err :=
  PrimSpec.prim_pack_fails_over s v b hx hb hover

/-- **Unpack bound**: an accepted field's announced length is ≤ the declared maximum
(same two exceptions), the bytes read were available, and exactly prefix + value bytes
were consumed. No coherence hypothesis: this holds for every spec. -/
theorem prim_unpack_ok_bound (s : PrimSpec) (data : Bytes) (v : Value) (read : Nat)
    (h : s.unpack data = .ok (v, read)) :
    ∃ n k, s.pref.decodeLength s.len data = .ok (n, k) ∧
      (s.pref ≠ .none ∧ ¬ (s.pref = .berTLV ∧ s.len = 0) → n ≤ s.len) ∧
      (s.pref = .none → n = data.length) ∧
      k ≤ read ∧ read ≤ data.length ∧
      (s.enc ≠ .berTag → read = k + C07.needed s.enc (s.valueLength n)) :=
  PrimSpec.prim_unpack_bound s data v read h

/-- **Unpack refuses**: if every length the prefix can announce exceeds the maximum, Unpack fails. -/
theorem prim_unpack_over_fails (s : PrimSpec) (data : Bytes)
    (hb : s.pref ≠ .none ∧ ¬ (s.pref = .berTLV ∧ s.len = 0))
    (hover : ∀ n k, s.pref.decodeLength s.len data = .ok (n, k) → s.len < n) :
    s.unpack data = .err :=
  PrimSpec.prim_unpack_fails_over s data hb hover

/-! Non-vacuity -/
example : Bounded (.var .ascii 2) 50 12 := by simp [Bounded, C06.capacity]
example : encodeLength (.var .ascii 2) 10 12 = .err := by decide
example : decodeLength (.var .ascii 2) 10 [0x31, 0x32] = .err := by decide

end Iso8583.C08
