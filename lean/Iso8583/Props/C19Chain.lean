/-
C19, the error chain tied by TRANSLATION: `UnpackError.FieldIDs()` walks the chain of wrapped
errors (`errors.As`), so the path "continues with subfield tags" only if every `fmt.Errorf` between
two `UnpackError`s wraps its cause with `%w` — and only if the format string is a literal (a
format string assembled from a spec's free-text description can swallow the `%w` operand).
Over the regenerated table of error-construction sites (`Gen/ErrorSites.lean`, every run): in the
functions on the unpack path of messages and composites, every `fmt.Errorf` that interpolates
an error returned by the library does so with `%w`, and its format is a constant.
-/
import Iso8583.Gen.ErrorSites

namespace Iso8583.C19Chain
open Iso8583 Iso8583.Errors

/-- the functions between the entry point and the place where decoding stops -/
def unpackPath : List String := [
  "iso8583.(*Message).unpack", "iso8583.(*Message).Unpack", "iso8583.(*Message).wrapErrorUnpack",
  "field.(*Composite).Unpack", "field.(*Composite).unpack", "field.(*Composite).wrapErrorUnpack",
  "field.(*Composite).unpackSubfields", "field.(*Composite).unpackSubfieldsByBitmap",
  "field.(*Composite).unpackSubfieldsByTag", "field.(*Composite).SetBytes"]

def wrapsWithW : Seg → Bool
  | .wrap verb callees _ _ => callees.isEmpty || verb == "%w"
  | _ => true

def isErrorf : Kind → Bool
  | .errorf => true
  | _ => false

def onPath (s : Site) : Bool := unpackPath.contains s.fn && isErrorf s.kind

/-- **the chain is kept**: on the unpack path every `fmt.Errorf` wraps library errors with `%w` -/
theorem unpack_chain_kept :
    (Gen.errorSites.filter onPath).all (fun s => s.segs.all wrapsWithW) = true := by decide +kernel

/-- and every format string there is a constant -/
theorem unpack_formats_constant :
    (Gen.errorSites.filter onPath).all (fun s => s.format != "<non-constant format>") = true := by decide +kernel

/-- non-vacuity: the path functions do construct errors with wrapped causes -/
example : 5 ≤ ((Gen.errorSites.filter onPath).filter (fun s => s.segs.any (fun g => match g with
    | .wrap "%w" _ _ _ => true | _ => false))).length := by decide +kernel

end Iso8583.C19Chain
