/-
C12 (string syntax) — the codec hypotheses of the C12 round-trip theorems, discharged for
`encoding/json`.

`Props/C12.lean` proves the JSON round trips for any string codec `c : StrCodec` that is
`Faithful` (valid UTF-8 survives `json.Marshal` + `json.Unmarshal`) and `KeysOK` (the key
`"k"` written without escaping by `OrderedMap.MarshalJSON` is read as `k`).  Here both are
THEOREMS about `goCodec = ⟨goEmit, goParse⟩` (`Model/JsonText.lean`), the model of
`json.Marshal(string)` (encode.go `appendString`, escapeHTML on) and of
`json.Unmarshal(lit, &string)` (scanner.go + decode.go `unquoteBytes`) of go1.23, compared
with the real functions on correspondence channel `JS`:

  * `goCodec_faithful`, `goCodec_keysOK`;
  * `json_roundtrip_go`, `field_json_roundtrip_go`, `json_roundtrip_coherent_go` — the three
    round-trip theorems of C12 at `goCodec`, with no hypothesis about the codec left.

Proof of `Faithful`: induction along `validUtf8`'s case split (`utf8_induction`: ASCII byte,
2-, 3-, 4-byte sequence).  In each case one iteration of the encoder (`emitStep`) writes a
chunk — the byte, `\"` `\\` `\b` `\f` `\n` `\r` `\t`, `\u00xx`, the copied sequence, or
`\u2028` / `\u2029` — that one iteration of the decoder (`parseStep`) reads back as the
original bytes whatever follows (`Reads`: `reads_ascii`, `reads_2`, `reads_3`, `reads_4`,
`reads_2028`, `reads_2029`; `encodeRune_2/3/4`: `utf8.EncodeRune ∘ utf8.DecodeRune` is the
identity on well-formed sequences); `readsBack_step` chains the iterations with the fuel of
both loops; `goParse_quoted` removes the quotes (white-space trimming is a no-op).
`parseBody_fuel`, `emitBody_fuel`: every iteration consumes at least one byte, so the fuel
(= length) of the model's loops never runs out.
-/
import Iso8583.Props.C12
import Iso8583.Model.JsonText
import Iso8583.Lemmas.Bytes

namespace Iso8583.C12Text
open Iso8583 Iso8583.JsonText

theorem isCont_iff (c : Byte) : isCont c = true ↔ 128 ≤ c.toNat ∧ c.toNat ≤ 191 := by
  simp [isCont]

theorem ne_of_toNat_ne {c d : Byte} (h : c.toNat ≠ d.toNat) : c ≠ d := fun e => h (e ▸ rfl)

/-! ### `utf8.EncodeRune (utf8.DecodeRune …)` is the identity on well-formed sequences -/

theorem encodeRune_ascii (c : Byte) (h : c.toNat < 128) : encodeRune c.toNat = [c] := by
  unfold encodeRune
  rw [if_pos h, ofNat_toNat_self]

theorem ofNat_eq {n : Nat} {c : Byte} (h : n = c.toNat) : UInt8.ofNat n = c := by
  subst h; exact ofNat_toNat_self c

theorem encodeRune_2 (c c1 : Byte) (h1 : 194 ≤ c.toNat) (h2 : c.toNat ≤ 223) (hc1 : isCont c1 = true) :
    encodeRune ((c.toNat - 192) * 64 + (c1.toNat - 128)) = [c, c1] := by
  rw [isCont_iff] at hc1
  unfold encodeRune
  rw [if_neg (by omega), if_pos (by omega), ofNat_eq (c := c) (by omega), ofNat_eq (c := c1) (by omega)]

theorem encodeRune_3 (c c1 c2 : Byte) (h1 : 224 ≤ c.toNat) (h2 : c.toNat ≤ 239)
    (hc1 : isCont c1 = true) (hc2 : isCont c2 = true)
    (hlo : c.toNat = 224 → 160 ≤ c1.toNat) (hsur : c.toNat = 237 → c1.toNat ≤ 159) :
    encodeRune ((c.toNat - 224) * 4096 + (c1.toNat - 128) * 64 + (c2.toNat - 128)) = [c, c1, c2] := by
  rw [isCont_iff] at hc1 hc2
  unfold encodeRune
  rw [if_neg (by omega), if_neg (by omega), if_neg (by omega), if_pos (by omega),
    ofNat_eq (c := c) (by omega), ofNat_eq (c := c1) (by omega), ofNat_eq (c := c2) (by omega)]

theorem encodeRune_4 (c c1 c2 c3 : Byte) (h1 : 240 ≤ c.toNat) (h2 : c.toNat ≤ 244)
    (hc1 : isCont c1 = true) (hc2 : isCont c2 = true) (hc3 : isCont c3 = true)
    (hlo : c.toNat = 240 → 144 ≤ c1.toNat) (hhi : c.toNat = 244 → c1.toNat ≤ 143) :
    encodeRune ((c.toNat - 240) * 262144 + (c1.toNat - 128) * 4096 + (c2.toNat - 128) * 64 + (c3.toNat - 128)) =
      [c, c1, c2, c3] := by
  rw [isCont_iff] at hc1 hc2 hc3
  unfold encodeRune
  rw [if_neg (by omega), if_neg (by omega), if_neg (by omega), if_neg (by omega),
    ofNat_eq (c := c) (by omega), ofNat_eq (c := c1) (by omega), ofNat_eq (c := c2) (by omega),
    ofNat_eq (c := c3) (by omega)]

/-! ### one emitted chunk is read back by one step of the decoder -/

/-- `chunk`, whatever follows it, is read by one iteration of the decoder's loop as `out` -/
def Reads (chunk out : Bytes) : Prop :=
  ∃ k t, chunk = k :: t ∧ ∀ X, parseStep k (t ++ X) = some (out, X)

theorem hexVal_hexLower : ∀ d, d < 16 → hexVal? (hexLower d) = some d := by decide

theorem reads_safe (c : Byte) (h : c.toNat < 128) (hs : htmlSafe c = true) : Reads [c] [c] := by
  refine ⟨c, [], rfl, fun X => ?_⟩
  simp only [htmlSafe, Bool.and_eq_true, decide_eq_true_eq, bne_iff_ne, ne_eq] at hs
  obtain ⟨⟨⟨⟨⟨h32, h34⟩, h92⟩, _⟩, _⟩, _⟩ := hs
  simp only [parseStep, if_neg h92, List.nil_append]
  rw [if_neg (by intro hh; cases hh with | inl a => exact h34 a | inr b => omega), if_pos h]

theorem reads_u00 (c : Byte) (h : c.toNat < 128) :
    Reads [92, 117, 48, 48, hexLower (c.toNat / 16), hexLower (c.toNat % 16)] [c] := by
  refine ⟨92, _, rfl, fun X => ?_⟩
  have h1 := hexVal_hexLower (c.toNat / 16) (by omega)
  have h2 := hexVal_hexLower (c.toNat % 16) (by omega)
  have h0 : hexVal? 48 = some 0 := by decide
  have hv : c.toNat / 16 * 16 + c.toNat % 16 = c.toNat := by omega
  have hsur : isSurrogate c.toNat = false := by simp [isSurrogate]; omega
  simp [parseStep, hex4, h0, h1, h2, hv, hsur, encodeRune_ascii c h]

theorem reads_ascii (c : Byte) (h : c.toNat < 128) : Reads (emitAscii c) [c] := by
  unfold emitAscii
  split
  · exact reads_safe c h ‹_›
  split
  · refine ⟨92, [c], rfl, fun X => ?_⟩
    rename_i hq
    cases hq with
    | inl a => subst a; simp [parseStep]
    | inr a => subst a; simp [parseStep]
  split
  · rename_i a; subst a; exact ⟨92, [98], rfl, fun X => by simp [parseStep]⟩
  split
  · rename_i a; subst a; exact ⟨92, [102], rfl, fun X => by simp [parseStep]⟩
  split
  · rename_i a; subst a; exact ⟨92, [110], rfl, fun X => by simp [parseStep]⟩
  split
  · rename_i a; subst a; exact ⟨92, [114], rfl, fun X => by simp [parseStep]⟩
  split
  · rename_i a; subst a; exact ⟨92, [116], rfl, fun X => by simp [parseStep]⟩
  exact reads_u00 c h

/-! ### bytes from 0x80 on -/

theorem parseStep_high (c : Byte) (rest : Bytes) (r size : Nat) (h : 128 ≤ c.toNat)
    (hd : decodeRune c rest = some (r, size)) :
    parseStep c rest = some (encodeRune r, (c :: rest).drop size) := by
  have h92 : c ≠ 92 := by intro e; subst e; revert h; decide
  have h34 : c ≠ 34 := by intro e; subst e; revert h; decide
  unfold parseStep
  rw [if_neg h92, if_neg (by intro hh; cases hh with | inl a => exact h34 a | inr b => omega),
    if_neg (by omega), hd]

theorem emitStep_high (c : Byte) (rest : Bytes) (r size : Nat) (h : 128 ≤ c.toNat)
    (hd : decodeRune c rest = some (r, size)) :
    emitStep c rest =
      if r = 8232 ∨ r = 8233 then
        ([92, 117, 50, 48, 50, hexLower (r % 16)], (c :: rest).drop size)
      else ((c :: rest).take size, (c :: rest).drop size) := by
  unfold emitStep
  rw [if_neg (by omega), hd]

theorem decodeRune_2 (c c1 : Byte) (X : Bytes) (h1 : 194 ≤ c.toNat) (h2 : c.toNat ≤ 223)
    (hc1 : isCont c1 = true) :
    decodeRune c (c1 :: X) = some ((c.toNat - 192) * 64 + (c1.toNat - 128), 2) := by
  unfold decodeRune
  rw [if_pos ⟨h1, h2⟩]
  simp only [hc1, if_true]

theorem decodeRune_3 (c c1 c2 : Byte) (X : Bytes) (h1 : 224 ≤ c.toNat) (h2 : c.toNat ≤ 239)
    (hc1 : isCont c1 = true) (hc2 : isCont c2 = true)
    (hlo : c.toNat = 224 → 160 ≤ c1.toNat) (hsur : c.toNat = 237 → c1.toNat ≤ 159) :
    decodeRune c (c1 :: c2 :: X) =
      some ((c.toNat - 224) * 4096 + (c1.toNat - 128) * 64 + (c2.toNat - 128), 3) := by
  unfold decodeRune
  rw [if_neg (by omega), if_pos ⟨h1, h2⟩]
  have e1 : (c.toNat != 224 || decide (160 ≤ c1.toNat)) = true := by
    by_cases hh : c.toNat = 224 <;> simp [hh, hlo]
  have e2 : (c.toNat != 237 || decide (c1.toNat ≤ 159)) = true := by
    by_cases hh : c.toNat = 237 <;> simp [hh, hsur]
  simp only [hc1, hc2, e1, e2, Bool.and_self, if_true]

theorem decodeRune_4 (c c1 c2 c3 : Byte) (X : Bytes) (h1 : 240 ≤ c.toNat) (h2 : c.toNat ≤ 244)
    (hc1 : isCont c1 = true) (hc2 : isCont c2 = true) (hc3 : isCont c3 = true)
    (hlo : c.toNat = 240 → 144 ≤ c1.toNat) (hhi : c.toNat = 244 → c1.toNat ≤ 143) :
    decodeRune c (c1 :: c2 :: c3 :: X) =
      some ((c.toNat - 240) * 262144 + (c1.toNat - 128) * 4096 + (c2.toNat - 128) * 64 + (c3.toNat - 128), 4) := by
  unfold decodeRune
  rw [if_neg (by omega), if_neg (by omega), if_pos ⟨h1, h2⟩]
  have e1 : (c.toNat != 240 || decide (144 ≤ c1.toNat)) = true := by
    by_cases hh : c.toNat = 240 <;> simp [hh, hlo]
  have e2 : (c.toNat != 244 || decide (c1.toNat ≤ 143)) = true := by
    by_cases hh : c.toNat = 244 <;> simp [hh, hhi]
  simp only [hc1, hc2, hc3, e1, e2, Bool.and_self, if_true]

/-- a copied well-formed sequence is read back unchanged -/
theorem reads_2 (c c1 : Byte) (h1 : 194 ≤ c.toNat) (h2 : c.toNat ≤ 223) (hc1 : isCont c1 = true) :
    Reads [c, c1] [c, c1] := by
  refine ⟨c, [c1], rfl, fun X => ?_⟩
  show parseStep c (c1 :: X) = _
  rw [parseStep_high c _ _ _ (by omega) (decodeRune_2 c c1 X h1 h2 hc1), encodeRune_2 c c1 h1 h2 hc1]
  rfl

theorem reads_3 (c c1 c2 : Byte) (h1 : 224 ≤ c.toNat) (h2 : c.toNat ≤ 239)
    (hc1 : isCont c1 = true) (hc2 : isCont c2 = true)
    (hlo : c.toNat = 224 → 160 ≤ c1.toNat) (hsur : c.toNat = 237 → c1.toNat ≤ 159) :
    Reads [c, c1, c2] [c, c1, c2] := by
  refine ⟨c, [c1, c2], rfl, fun X => ?_⟩
  show parseStep c (c1 :: c2 :: X) = _
  rw [parseStep_high c _ _ _ (by omega) (decodeRune_3 c c1 c2 X h1 h2 hc1 hc2 hlo hsur), encodeRune_3 c c1 c2 h1 h2 hc1 hc2 hlo hsur]
  rfl

theorem reads_4 (c c1 c2 c3 : Byte) (h1 : 240 ≤ c.toNat) (h2 : c.toNat ≤ 244)
    (hc1 : isCont c1 = true) (hc2 : isCont c2 = true) (hc3 : isCont c3 = true)
    (hlo : c.toNat = 240 → 144 ≤ c1.toNat) (hhi : c.toNat = 244 → c1.toNat ≤ 143) :
    Reads [c, c1, c2, c3] [c, c1, c2, c3] := by
  refine ⟨c, [c1, c2, c3], rfl, fun X => ?_⟩
  show parseStep c (c1 :: c2 :: c3 :: X) = _
  rw [parseStep_high c _ _ _ (by omega) (decodeRune_4 c c1 c2 c3 X h1 h2 hc1 hc2 hc3 hlo hhi), encodeRune_4 c c1 c2 c3 h1 h2 hc1 hc2 hc3 hlo hhi]
  rfl

/-- the escapes written for U+2028 and U+2029 are read back as their UTF-8 forms -/
theorem reads_2028 : Reads [92, 117, 50, 48, 50, hexLower (8232 % 16)] (encodeRune 8232) :=
  ⟨92, _, rfl, fun X => by
    simp [parseStep, hex4, hexVal?, hexLower, isSurrogate]⟩

theorem reads_2029 : Reads [92, 117, 50, 48, 50, hexLower (8233 % 16)] (encodeRune 8233) :=
  ⟨92, _, rfl, fun X => by
    simp [parseStep, hex4, hexVal?, hexLower, isSurrogate]⟩

/-! ### the two loops -/

theorem emitLoop_cons (f : Nat) (c : Byte) (rest : Bytes) :
    emitLoop (f + 1) (c :: rest) = (emitStep c rest).1 ++ emitLoop f (emitStep c rest).2 := by
  cases h : emitStep c rest
  simp [emitLoop, h]

theorem parseLoop_cons (g : Nat) (k : Byte) (rest out rest' : Bytes)
    (h : parseStep k rest = some (out, rest')) :
    parseLoop (g + 1) (k :: rest) = (parseLoop g rest').map (out ++ ·) := by
  simp only [parseLoop, h]
  cases parseLoop g rest' <;> rfl

/-- what the induction proves for a string `s`: with enough fuel on both sides the decoder's
loop reads the encoder's output back as `s` -/
def ReadsBack (s : Bytes) : Prop :=
  ∀ f g, s.length ≤ f → (emitLoop f s).length ≤ g → parseLoop g (emitLoop f s) = some s

/-- one iteration on both sides -/
theorem readsBack_step (c : Byte) (rest chunk r pre : Bytes) (he : emitStep c rest = (chunk, r))
    (hr : Reads chunk pre) (hlen : r.length ≤ rest.length) (hs : pre ++ r = c :: rest)
    (ih : ReadsBack r) : ReadsBack (c :: rest) := by
  intro f g hf hg
  obtain ⟨k, t, hk, hstep⟩ := hr
  cases f with
  | zero => simp at hf
  | succ f =>
    rw [emitLoop_cons, he] at hg ⊢
    simp only [hk, List.cons_append, List.length_cons, List.length_append] at hg ⊢
    simp only [List.length_cons] at hf
    cases g with
    | zero => omega
    | succ g =>
      rw [parseLoop_cons g k _ pre _ (hstep _), ih f g (by omega) (by omega)]
      simp [hs]

/-- induction along the case split of `validUtf8` -/
theorem utf8_induction (P : Bytes → Prop) (h0 : P [])
    (h1 : ∀ c r, c.toNat < 128 → P r → P (c :: r))
    (h2 : ∀ c c1 r, 194 ≤ c.toNat → c.toNat ≤ 223 → isCont c1 = true → P r → P (c :: c1 :: r))
    (h3 : ∀ c c1 c2 r, 224 ≤ c.toNat → c.toNat ≤ 239 → isCont c1 = true → isCont c2 = true →
      (c.toNat = 224 → 160 ≤ c1.toNat) → (c.toNat = 237 → c1.toNat ≤ 159) → P r → P (c :: c1 :: c2 :: r))
    (h4 : ∀ c c1 c2 c3 r, 240 ≤ c.toNat → c.toNat ≤ 244 → isCont c1 = true → isCont c2 = true →
      isCont c3 = true → (c.toNat = 240 → 144 ≤ c1.toNat) → (c.toNat = 244 → c1.toNat ≤ 143) → P r →
      P (c :: c1 :: c2 :: c3 :: r)) :
    ∀ s, validUtf8 s = true → P s := by
  have key : ∀ n (s : Bytes), s.length ≤ n → validUtf8 s = true → P s := by
    intro n
    induction n with
    | zero =>
      intro s hl _
      cases s with
      | nil => exact h0
      | cons _ _ => simp at hl
    | succ n ih =>
      intro s hl hv
      cases s with
      | nil => exact h0
      | cons c rest =>
        simp only [List.length_cons] at hl
        unfold validUtf8 at hv
        split at hv
        · exact h1 c rest ‹_› (ih rest (by omega) hv)
        split at hv
        · rename_i hc
          cases rest with
          | nil => simp at hv
          | cons c1 r =>
            simp only [Bool.and_eq_true] at hv
            simp only [List.length_cons] at hl
            exact h2 c c1 r hc.1 hc.2 hv.1 (ih r (by omega) hv.2)
        split at hv
        · rename_i hc
          match rest, hv, hl with
          | [], hv, _ => simp at hv
          | [_], hv, _ => simp at hv
          | c1 :: c2 :: r, hv, hl =>
            simp only [Bool.and_eq_true, Bool.or_eq_true, bne_iff_ne, ne_eq, decide_eq_true_eq] at hv
            simp only [List.length_cons] at hl
            obtain ⟨⟨⟨⟨a1, a2⟩, a3⟩, a4⟩, a5⟩ := hv
            exact h3 c c1 c2 r hc.1 hc.2 a1 a2
              (fun e => by cases a3 with | inl x => exact absurd e x | inr x => exact x)
              (fun e => by cases a4 with | inl x => exact absurd e x | inr x => exact x)
              (ih r (by omega) a5)
        split at hv
        · rename_i hc
          match rest, hv, hl with
          | [], hv, _ => simp at hv
          | [_], hv, _ => simp at hv
          | [_, _], hv, _ => simp at hv
          | c1 :: c2 :: c3 :: r, hv, hl =>
            simp only [Bool.and_eq_true, Bool.or_eq_true, bne_iff_ne, ne_eq, decide_eq_true_eq] at hv
            simp only [List.length_cons] at hl
            obtain ⟨⟨⟨⟨⟨a1, a2⟩, a3⟩, a4⟩, a5⟩, a6⟩ := hv
            exact h4 c c1 c2 c3 r hc.1 hc.2 a1 a2 a3
              (fun e => by cases a4 with | inl x => exact absurd e x | inr x => exact x)
              (fun e => by cases a5 with | inl x => exact absurd e x | inr x => exact x)
              (ih r (by omega) a6)
        · simp at hv
  exact fun s => key s.length s (Nat.le_refl _)

/-- the heart of `Faithful`: the decoder's loop reads the encoder's loop back, for every
valid UTF-8 string -/
theorem readsBack_of_valid : ∀ s, validUtf8 s = true → ReadsBack s := by
  apply utf8_induction
  · intro f g _ _
    cases f <;> cases g <;> rfl
  · intro c r hc ih
    refine readsBack_step c r (emitAscii c) r [c] ?_ (reads_ascii c hc) (Nat.le_refl _) rfl ih
    simp [emitStep, hc]
  · intro c c1 r h1 h2 hc1 ih
    have hd := decodeRune_2 c c1 r h1 h2 hc1
    have hcc := (isCont_iff c1).mp hc1
    refine readsBack_step c (c1 :: r) [c, c1] r [c, c1] ?_ (reads_2 c c1 h1 h2 hc1) (by simp only [List.length_cons]; omega) rfl ih
    rw [emitStep_high c _ _ _ (by omega) hd, if_neg (by omega)]
    rfl
  · intro c c1 c2 r h1 h2 hc1 hc2 hlo hsur ih
    have hd := decodeRune_3 c c1 c2 r h1 h2 hc1 hc2 hlo hsur
    have he := emitStep_high c _ _ _ (by omega) hd
    have henc := encodeRune_3 c c1 c2 h1 h2 hc1 hc2 hlo hsur
    by_cases hr : (c.toNat - 224) * 4096 + (c1.toNat - 128) * 64 + (c2.toNat - 128) = 8232
    · rw [hr] at he henc
      rw [if_pos (Or.inl rfl)] at he
      refine readsBack_step c (c1 :: c2 :: r) _ r [c, c1, c2] he ?_ (by simp only [List.length_cons]; omega) rfl ih
      rw [← henc]
      exact reads_2028
    by_cases hr' : (c.toNat - 224) * 4096 + (c1.toNat - 128) * 64 + (c2.toNat - 128) = 8233
    · rw [hr'] at he henc
      rw [if_pos (Or.inr rfl)] at he
      refine readsBack_step c (c1 :: c2 :: r) _ r [c, c1, c2] he ?_ (by simp only [List.length_cons]; omega) rfl ih
      rw [← henc]
      exact reads_2029
    · rw [if_neg (by intro hh; cases hh with | inl a => exact hr a | inr a => exact hr' a)] at he
      exact readsBack_step c (c1 :: c2 :: r) _ r [c, c1, c2] he
        (reads_3 c c1 c2 h1 h2 hc1 hc2 hlo hsur) (by simp only [List.length_cons]; omega) rfl ih
  · intro c c1 c2 c3 r h1 h2 hc1 hc2 hc3 hlo hhi ih
    have hd := decodeRune_4 c c1 c2 c3 r h1 h2 hc1 hc2 hc3 hlo hhi
    have he := emitStep_high c _ _ _ (by omega) hd
    have hcc := (isCont_iff c1).mp hc1
    rw [if_neg (by omega)] at he
    exact readsBack_step c (c1 :: c2 :: c3 :: r) _ r [c, c1, c2, c3] he
      (reads_4 c c1 c2 c3 h1 h2 hc1 hc2 hc3 hlo hhi) (by simp only [List.length_cons]; omega) rfl ih

/-- `parseBody (emitBody s) = some s` -/
theorem parseBody_emitBody (s : Bytes) (h : validUtf8 s = true) : parseBody (emitBody s) = some s :=
  readsBack_of_valid s h s.length (emitBody s).length (Nat.le_refl _) (Nat.le_refl _)

/-! ### the quotes -/

theorem goParse_quoted (body : Bytes) : goParse (34 :: (body ++ [34])) = parseBody body := by
  have h34 : isSpace 34 = false := by decide
  have ht : trimSpace (34 :: (body ++ [34])) = 34 :: (body ++ [34]) := by
    simp [trimSpace, List.dropWhile, h34, List.reverse_append]
  unfold goParse
  rw [ht]
  simp [List.reverse_append]

/-! ### the fuel of the two loops never runs out

Every iteration consumes at least one byte, so with fuel >= length the result does not depend
on the fuel: the `0, _ :: _` equations of `emitLoop` / `parseLoop` are never reached from
`emitBody` / `parseBody`. -/

theorem decodeRune_size (c : Byte) (rest : Bytes) (r size : Nat)
    (h : decodeRune c rest = some (r, size)) : 1 ≤ size := by
  unfold decodeRune at h
  repeat' split at h
  all_goals first
    | (simp only [Option.some.injEq, Prod.mk.injEq] at h; omega)
    | simp at h

theorem emitStep_length (c : Byte) (rest : Bytes) : (emitStep c rest).2.length ≤ rest.length := by
  unfold emitStep
  split
  · exact Nat.le_refl _
  split
  · exact Nat.le_refl _
  · rename_i r size hd
    have := decodeRune_size c rest r size hd
    split <;> simp only [List.length_drop, List.length_cons] <;> omega

theorem hex4_length (s r : Bytes) (v : Nat) (h : hex4 s = some (v, r)) : r.length + 4 = s.length := by
  unfold hex4 at h
  split at h
  · split at h
    · simp only [Option.some.injEq, Prod.mk.injEq] at h
      simp [h.2]
    · simp at h
  · simp at h

theorem getu4_length (s r : Bytes) (v : Nat) (h : getu4 s = some (v, r)) : r.length ≤ s.length := by
  unfold getu4 at h
  split at h
  · have := hex4_length _ _ _ h
    simp only [List.length_cons]; omega
  · simp at h

theorem parseStep_length (c : Byte) (rest out rest' : Bytes) (h : parseStep c rest = some (out, rest')) :
    rest'.length ≤ rest.length := by
  have fin : ∀ {o : Bytes} {x : Bytes}, some (o, x) = some (out, rest') → x.length ≤ rest.length →
      rest'.length ≤ rest.length := by
    intro o x e hx
    simp only [Option.some.injEq, Prod.mk.injEq] at e
    rw [← e.2]; exact hx
  unfold parseStep at h
  split at h
  · cases rest with
    | nil => simp at h
    | cons e r =>
      simp only at h
      have hr : r.length ≤ (e :: r).length := by simp
      split at h
      · exact fin h hr
      split at h
      · exact fin h hr
      split at h
      · exact fin h hr
      split at h
      · exact fin h hr
      split at h
      · exact fin h hr
      split at h
      · exact fin h hr
      split at h
      · cases hh : hex4 r with
        | none => simp [hh] at h
        | some p =>
          obtain ⟨rr, r'⟩ := p
          simp only [hh] at h
          have h4 := hex4_length _ _ _ hh
          have hr' : r'.length ≤ (e :: r).length := by simp only [List.length_cons]; omega
          split at h
          · cases hg : getu4 r' with
            | none =>
              simp only [hg] at h
              exact fin h hr'
            | some q =>
              obtain ⟨rr1, r''⟩ := q
              simp only [hg] at h
              have := getu4_length _ _ _ hg
              split at h
              · exact fin h (by omega)
              · exact fin h hr'
          · exact fin h hr'
      · simp at h
  split at h
  · simp at h
  split at h
  · exact fin h (Nat.le_refl _)
  split at h
  · exact fin h (Nat.le_refl _)
  · rename_i r size hd
    have := decodeRune_size c rest r size hd
    exact fin h (by simp only [List.length_drop, List.length_cons]; omega)

theorem parseLoop_fuel : ∀ (n : Nat) (s : Bytes) (g1 g2 : Nat), s.length ≤ n → s.length ≤ g1 → s.length ≤ g2 →
    parseLoop g1 s = parseLoop g2 s := by
  intro n
  induction n with
  | zero =>
    intro s g1 g2 hn _ _
    cases s with
    | nil => cases g1 <;> cases g2 <;> rfl
    | cons _ _ => simp at hn
  | succ n ih =>
    intro s g1 g2 hn h1 h2
    cases s with
    | nil => cases g1 <;> cases g2 <;> rfl
    | cons c rest =>
      simp only [List.length_cons] at hn h1 h2
      cases g1 with
      | zero => omega
      | succ g1 =>
        cases g2 with
        | zero => omega
        | succ g2 =>
          cases hst : parseStep c rest with
          | none => simp [parseLoop, hst]
          | some p =>
            obtain ⟨out, rest'⟩ := p
            have hl := parseStep_length c rest out rest' hst
            rw [parseLoop_cons g1 c rest out rest' hst, parseLoop_cons g2 c rest out rest' hst,
              ih rest' g1 g2 (by omega) (by omega) (by omega)]

theorem emitLoop_fuel : ∀ (n : Nat) (s : Bytes) (f1 f2 : Nat), s.length ≤ n → s.length ≤ f1 → s.length ≤ f2 →
    emitLoop f1 s = emitLoop f2 s := by
  intro n
  induction n with
  | zero =>
    intro s f1 f2 hn _ _
    cases s with
    | nil => cases f1 <;> cases f2 <;> rfl
    | cons _ _ => simp at hn
  | succ n ih =>
    intro s f1 f2 hn h1 h2
    cases s with
    | nil => cases f1 <;> cases f2 <;> rfl
    | cons c rest =>
      simp only [List.length_cons] at hn h1 h2
      cases f1 with
      | zero => omega
      | succ f1 =>
        cases f2 with
        | zero => omega
        | succ f2 =>
          have hl := emitStep_length c rest
          rw [emitLoop_cons, emitLoop_cons, ih _ f1 f2 (by omega) (by omega) (by omega)]

/-- more fuel than the length changes nothing -/
theorem parseBody_fuel (s : Bytes) (g : Nat) (h : s.length ≤ g) : parseLoop g s = parseBody s :=
  parseLoop_fuel s.length s g s.length (Nat.le_refl _) h (Nat.le_refl _)

theorem emitBody_fuel (s : Bytes) (f : Nat) (h : s.length ≤ f) : emitLoop f s = emitBody s :=
  emitLoop_fuel s.length s f s.length (Nat.le_refl _) h (Nat.le_refl _)

/-! ### the codec hypotheses of C12, for `encoding/json` -/

/-- **Faithful**: `json.Unmarshal(json.Marshal(string(s)), &t)` gives `t = s` for every valid
UTF-8 string `s`. -/
theorem goCodec_faithful : goCodec.Faithful := by
  intro s hs
  show goParse (goEmit s) = some s
  unfold goEmit
  rw [goParse_quoted, parseBody_emitBody s hs]

/-- a string of ASCII letters and digits between quotes needs no unescaping -/
theorem parseLoop_alnum : ∀ (k : Bytes) (g : Nat), tagAlnum k = true → k.length ≤ g → parseLoop g k = some k
  | [], g, _, _ => by cases g <;> rfl
  | c :: rest, g, h, hg => by
    simp only [tagAlnum, List.all_cons, Bool.and_eq_true, decide_eq_true_eq] at h
    obtain ⟨hc, hrest⟩ := h
    cases g with
    | zero => simp at hg
    | succ g =>
      simp only [List.length_cons] at hg
      have h92 : c ≠ 92 := by intro e; subst e; revert hc; decide
      have h34 : c ≠ 34 := by intro e; subst e; revert hc; decide
      have hstep : parseStep c rest = some ([c], rest) := by
        unfold parseStep
        rw [if_neg h92, if_neg (by intro hh; cases hh with | inl a => exact h34 a | inr b => omega),
          if_pos (by omega)]
      rw [parseLoop_cons g c rest [c] rest hstep,
        parseLoop_alnum rest g (by simpa [tagAlnum] using hrest) (by omega)]
      rfl

/-- **KeysOK**: the key `"k"` written without escaping by `fmt.Sprintf("\"%v\":", key)`
(field/ordered_map.go) is read as `k` by the JSON decoder, for alphanumeric `k`. -/
theorem goCodec_keysOK : goCodec.KeysOK := by
  intro k hk
  show goParse (quoteRaw k) = some k
  unfold quoteRaw
  rw [goParse_quoted]
  exact parseLoop_alnum k k.length hk (Nat.le_refl _)

/-! ### the C12 round trips with the real string codec, no codec hypotheses left -/

/-- `C12.field_json_roundtrip` for `encoding/json`'s string syntax -/
theorem field_json_roundtrip_go (f : Field) (v : Value) (hdom : jsonDomain f v = true) :
    Field.ofJson goCodec f (v.toJson goCodec) = .ok v.sortJ ∧ f.pack v.sortJ = f.pack v :=
  C12.field_json_roundtrip goCodec goCodec_faithful goCodec_keysOK f v hdom

/-- `C12.json_roundtrip` for `encoding/json`'s string syntax -/
theorem json_roundtrip_go (spec : MsgSpec) (m : Msg) (bs : Bytes)
    (hdom : msgJsonDomain spec m = true) (hpack : spec.pack m = .ok bs) :
    ∃ j, spec.marshalJSON goCodec m = .ok j ∧ spec.unmarshalJSON goCodec j = .ok (jsonNormal m) ∧
      spec.pack (jsonNormal m).toMsg = .ok bs :=
  C12.json_roundtrip goCodec goCodec_faithful goCodec_keysOK spec m bs hdom hpack

/-- `C12.json_roundtrip_coherent` for `encoding/json`'s string syntax -/
theorem json_roundtrip_coherent_go (spec : MsgSpec) (m : Msg) (bs : Bytes)
    (hc : spec.coherent = true) (hd : spec.inDomain m = true) (hu : m.utf8OK = true)
    (hids : ∀ p ∈ m.fields, p.1 < 2 ^ 63) (hpack : spec.pack m = .ok bs) :
    ∃ j, spec.marshalJSON goCodec m = .ok j ∧ spec.unmarshalJSON goCodec j = .ok (jsonNormal m) ∧
      spec.pack (jsonNormal m).toMsg = .ok bs :=
  C12.json_roundtrip_coherent goCodec goCodec_faithful goCodec_keysOK spec m bs hc hd hu hids hpack

/-! ### Non-vacuity and the shape of the literals

`a"\<LF>é<U+2028>😀<>&<DEL><0x01>` is written as `"a\"\\\né\u2028😀\u003c\u003e\u0026<DEL>\u0001"`
and read back; the validity hypothesis of `Faithful` is needed (an ill-formed byte comes back
as U+FFFD); surrogate escapes; white space, `null`, malformed literals. -/

def demoText : Bytes :=
  [97, 34, 92, 10, 195, 169, 226, 128, 168, 240, 159, 152, 128, 60, 62, 38, 127, 1]

example : validUtf8 demoText = true := by decide
example : goEmit demoText =
    [34, 97, 92, 34, 92, 92, 92, 110, 195, 169, 92, 117, 50, 48, 50, 56, 240, 159, 152, 128,
     92, 117, 48, 48, 51, 99, 92, 117, 48, 48, 51, 101, 92, 117, 48, 48, 50, 54, 127,
     92, 117, 48, 48, 48, 49, 34] := by decide
example : goParse (goEmit demoText) = some demoText := by decide
/-- ill-formed input: `0xFF` is written as `\ufffd` and comes back as U+FFFD (EF BF BD) -/
example : validUtf8 [255] = false ∧ goEmit [255] = [34, 92, 117, 102, 102, 102, 100, 34] ∧
    goParse (goEmit [255]) = some [239, 191, 189] := by decide
/-- `"\ud83d\uDE00"` is U+1F600; a lone `\ud83d` and a reversed pair give U+FFFD each -/
example : goParse [34, 92, 117, 100, 56, 51, 100, 92, 117, 68, 69, 48, 48, 34] = some [240, 159, 152, 128] ∧
    goParse [34, 92, 117, 100, 56, 51, 100, 97, 34] = some [239, 191, 189, 97] ∧
    goParse [34, 92, 117, 68, 69, 48, 48, 92, 117, 100, 56, 51, 100, 34] =
      some [239, 191, 189, 239, 191, 189] := by decide
/-- not string literals: raw LF, raw quote, `\'`, `\u12`, trailing backslash, no closing quote, a number -/
example : goParse [34, 10, 34] = none ∧ goParse [34, 34, 34] = none ∧ goParse [34, 92, 39, 34] = none ∧
    goParse [34, 92, 117, 49, 50, 34] = none ∧ goParse [34, 92, 34] = none ∧ goParse [34, 97] = none ∧
    goParse [49] = none := by decide
/-- surrounding white space is skipped; `null` leaves the Go string empty -/
example : goParse [32, 34, 97, 34, 10] = some [97] ∧ goParse [110, 117, 108, 108] = some [] := by decide
/-- the demo message of C12 through the real codec -/
example : (C12.demoSpec.marshalJSON goCodec C12.demoMsg).isOk = true := by decide
example : (match C12.demoSpec.marshalJSON goCodec C12.demoMsg with
    | .ok j => (C12.demoSpec.unmarshalJSON goCodec j).isOk | _ => false) = true := by decide

end Iso8583.C12Text
