/-
C14 — One consistent notion of "present fields" across all operations.

The message object of Model/Object.lean (mirror of /repo/message.go and
/repo/field/composite.go) refines the abstract state of Spec/Presence.lean — a partial
map from field ids to values — at every step of every operation history, and all
observers (GetFields, the ids Pack flags, JSON keys, what Unmarshal copies, GetSubfields)
read that one set: the domain of the abstract state (`observers_read_abs`). The bitmap field
(id 1) is part of every message: it is in that domain from `NewMessage` on and no operation
removes it (KF9 repaired; Pack / JSON / Describe / Clone are the identity on the abstract state). Unsetting a field or a subfield path leaves a brand-new object behind,
so nothing written before the unset can come back.

Hypotheses beyond the model:
* `spec.tagsOK` — ids of data elements ≥ 2 and subfield tags pairwise distinct at every
  level (both are clauses of `MsgSpec.coherent`, K8 / K6);
* for the refinement: every `Unpack` / composite `SetBytes` input of the history decodes
  (`Op.decodeOK`). A decoder that stops half-way leaves subfields it has already filled in
  a composite it has not marked yet; a later Marshal into that composite shows them. The
  full statement without this hypothesis is false in the model *and* in the code
  (`presence_refinement_witness`); the observers still agree in that case
  (`observers_agree` has no such hypothesis).
-/
import Iso8583.Lemmas.Object
import Iso8583.Lemmas.ObjectCoherent

namespace Iso8583.C14
open Iso8583

local macro "triv" : tactic => `(tactic| first | rfl | trivial)

/-! ### one step -/

theorem setField_refines (spec : MsgSpec) (hs : spec.tagsOK = true) (o : MsgObj) (id : Nat) (b : Bytes)
    (hc : o.Clean spec) (hok : (Op.setField id b).decodeOK spec = true) :
    (o.setField spec id b).1.abs spec = specStep spec (o.abs spec) (.setField id b) ∧
    (o.setField spec id b).1.Clean spec := by
  unfold MsgObj.setField
  simp only [specStep]
  by_cases h1 : id = 1
  · subst h1
    simp only [if_true]
    have ha := abs_mark1 spec o { o with bitmap := b, present := markId 1 o.present } rfl
      (fun j => markId_contains 1 j o.present)
    rw [abs_set1 spec o hc] at ha
    exact ⟨ha, clean_mark1 spec o _ hc rfl (fun j => markId_contains 1 j o.present)⟩
  · simp only [h1, if_false]
    cases hf : spec.fieldOf id with
    | none => exact ⟨by triv, hc⟩
    | some f =>
      dsimp only
      have hd := fieldOf_distinct hs hf
      have hcl := (hc.2.2 id f hf).2
      have hr := setBytes_refines f hd (o.get id f) b hcl
      constructor
      · rw [abs_update spec o _ id f _ hf rfl (fun j => markId_contains id j o.present)]
        rw [hr.1, cur_eq_valueOf spec o hc hf]
      · exact clean_update spec o _ id f _ hc hf (hr.2 (decodeOK_bodyDecodes hf hok)) rfl
          (fun j => markId_contains id j o.present)

theorem marshalField_refines (spec : MsgSpec) (hs : spec.tagsOK = true) (o : MsgObj) (id : Nat) (v : Value)
    (hc : o.Clean spec) :
    (o.marshalField spec id v).1.abs spec = (specMarshal spec (o.abs spec) id v).1 ∧
    (o.marshalField spec id v).1.Clean spec ∧
    (o.marshalField spec id v).2 = (specMarshal spec (o.abs spec) id v).2 := by
  unfold MsgObj.marshalField specMarshal
  cases hf : spec.fieldOf id with
  | none => exact ⟨by triv, hc, by triv⟩
  | some f =>
    dsimp only
    by_cases hsh : f.shapeOK v = true
    · simp only [hsh, if_true]
      have hd := fieldOf_distinct hs hf
      have hcl := (hc.2.2 id f hf).2
      have hr := marshal_refines f hd (o.get id f) v hcl hsh
      refine ⟨?_, ?_, by triv⟩
      · rw [abs_update spec o _ id f _ hf rfl (fun j => markId_contains id j o.present)]
        rw [hr.1, cur_eq_valueOf spec o hc hf]
      · exact clean_update spec o _ id f _ hc hf hr.2 rfl (fun j => markId_contains id j o.present)
    · simp only [hsh, Bool.false_eq_true, if_false]
      exact ⟨by triv, hc, by triv⟩

theorem jsonDecode_refines (spec : MsgSpec) (hs : spec.tagsOK = true) (doc : List (Nat × Value)) :
    ∀ o : MsgObj, o.Clean spec →
    (o.jsonDecode spec doc).1.abs spec = specJsonDecode spec (o.abs spec) doc ∧
    (o.jsonDecode spec doc).1.Clean spec := by
  induction doc with
  | nil => intro o hc; exact ⟨by triv, hc⟩
  | cons p rest ih =>
    intro o hc
    obtain ⟨id, v⟩ := p
    unfold MsgObj.jsonDecode specJsonDecode
    by_cases h1 : id = 1
    · subst h1
      simp only [if_true]
      cases v with
      | bin d =>
        simp only
        have ha := abs_mark1 spec o { o with bitmap := d, present := markId 1 o.present } rfl
          (fun j => markId_contains 1 j o.present)
        have hcl := clean_mark1 spec o { o with bitmap := d, present := markId 1 o.present } hc rfl
          (fun j => markId_contains 1 j o.present)
        have := ih _ hcl
        rw [ha, abs_set1 spec o hc] at this
        exact this
      | str _ => exact ⟨by triv, hc⟩
      | num _ => exact ⟨by triv, hc⟩
      | hexv _ => exact ⟨by triv, hc⟩
      | comp _ => exact ⟨by triv, hc⟩
    · simp only [h1, if_false]
      obtain ⟨ha, hcl, hst⟩ := marshalField_refines spec hs o id v hc
      generalize hm : o.marshalField spec id v = r at ha hcl hst
      obtain ⟨o', st⟩ := r
      generalize hsm : specMarshal spec (o.abs spec) id v = rs at ha hst
      obtain ⟨a', st'⟩ := rs
      simp only at ha hcl hst
      subst hst
      cases st with
      | ok u =>
        simp only
        have := ih o' hcl
        rw [ha] at this
        exact this
      | err => exact ⟨ha, hcl⟩
      | panic => exact ⟨ha, hcl⟩

/-- unset of the bitmap field: the object is replaced, the field stays -/
theorem unsetField_one (spec : MsgSpec) (o : MsgObj) (hc : o.Clean spec) :
    (o.unsetField 1).abs spec = o.abs spec ∧ (o.unsetField 1).Clean spec := by
  have h1 : o.unsetField 1 = { o with cachedBitmap := false, bitmap := [] } := by
    unfold MsgObj.unsetField; rw [hc.2.1]; rfl
  rw [h1]
  exact ⟨abs_same spec o _ rfl rfl, clean_same spec o _ hc rfl rfl⟩

theorem unsetField_refines (spec : MsgSpec) (o : MsgObj) (id : Nat) (hc : o.Clean spec) :
    (o.unsetField id).abs spec = specStep spec (o.abs spec) (.unsetField id) ∧
    (o.unsetField id).Clean spec := by
  simp only [specStep]
  by_cases hid : id = 1
  · subst hid; simp only [if_true]; exact unsetField_one spec o hc
  simp only [hid, if_false]
  unfold MsgObj.unsetField
  by_cases hp : o.present.contains id = true
  · simp only [hp, if_true, hid, if_false]
    have hcont : ∀ j, (o.present.filter (fun i => i != id)).contains j = (j != id && o.present.contains j) := by
      intro j
      rw [Bool.eq_iff_iff]
      simp [List.contains_iff_mem, List.mem_filter, and_comm]
    constructor
    · funext j
      unfold MsgObj.abs AbsState.erase MsgObj.get
      simp only [hcont j, lookupId_eraseId]
      by_cases hj : j = id
      · subst hj; simp
      · simp [hj]
    · obtain ⟨h1, h2, h3⟩ := hc
      refine ⟨?_, ?_, ?_⟩
      · intro i hi
        exact h1 i (List.mem_filter.mp hi).1
      · rw [hcont 1, h2]
        simp [Ne.symm hid]
      · intro j g hg
        unfold MsgObj.get
        simp only [hcont j, lookupId_eraseId]
        by_cases hj : j = id
        · subst hj
          simp [clean_fresh]
        · have := h3 j g hg
          unfold MsgObj.get at this
          simpa [hj] using this
  · simp only [hp, Bool.false_eq_true, if_false]
    refine ⟨?_, hc⟩
    have hp' : id ∉ o.present := by simpa using hp
    funext j
    unfold AbsState.erase
    by_cases hj : j = id
    · subst hj
      simp [MsgObj.abs, hp']
    · simp [hj]

theorem unsetPath_refines (spec : MsgSpec) (hs : spec.tagsOK = true) (o : MsgObj) (id : Nat) (path : Bytes)
    (hc : o.Clean spec) :
    (o.unsetPath spec id path).1.abs spec = specStep spec (o.abs spec) (.unsetPath id path) ∧
    (o.unsetPath spec id path).1.Clean spec := by
  unfold MsgObj.unsetPath
  simp only [specStep]
  by_cases hid : id = 1
  · -- the bitmap field: `UnsetFields("1")` replaces the object, a longer path is refused
    subst hid
    simp only [if_true, hc.2.1]
    by_cases hpe : path.isEmpty = true
    · simp only [hpe, if_true]; exact unsetField_one spec o hc
    · have hf1 : spec.fieldOf 1 = none := by simp [MsgSpec.fieldOf]
      simp only [hpe, Bool.false_eq_true, if_false, hf1]
      exact ⟨by triv, hc⟩
  simp only [hid, if_false]
  by_cases hp : o.present.contains id = true
  · simp only [hp, if_true]
    by_cases hpe : path.isEmpty = true
    · simp only [hpe, if_true]
      have := unsetField_refines spec o id hc
      simp only [specStep, hid, if_false] at this
      refine ⟨?_, this.2⟩
      rw [this.1]
      cases ha : o.abs spec id with
      | none =>
        funext j
        unfold AbsState.erase
        by_cases hj : j = id
        · subst hj; simp [ha]
        · simp [hj]
      | some v => rfl
    · simp only [hpe, Bool.false_eq_true, if_false]
      cases hf : spec.fieldOf id with
      | none =>
        refine ⟨?_, hc⟩
        cases ha : o.abs spec id <;> rfl
      | some f =>
        have h1 := fieldOf_ne_one hf
        have hp' : id ∈ o.present := List.contains_iff_mem.mp hp
        have habs : o.abs spec id = some (f.valueOf (o.get id f)) := by
          simp [MsgObj.abs, hp', h1, hf]
        simp only [habs]
        have hd := fieldOf_distinct hs hf
        have hcl := (hc.2.2 id f hf).2
        have hrel := unset_refines f hd (o.get id f) path hcl
        unfold UnsetRel at hrel
        cases hr : f.unsetSubs (o.get id f) path with
        | panic => simp [hr] at hrel
        | err =>
          simp only [hr] at hrel
          simp only [hrel]
          exact ⟨by triv, hc⟩
        | ok obj' =>
          simp only [hr] at hrel
          obtain ⟨hv, hcl'⟩ := hrel
          simp only [hv]
          have hpres : ∀ j, o.present.contains j = (j == id || o.present.contains j) := by
            intro j
            by_cases hj : j = id
            · subst hj; simp [hp']
            · simp [hj]
          exact ⟨abs_update spec o { o with fields := setId id obj' o.fields } id f obj' hf rfl hpres,
                 clean_update spec o { o with fields := setId id obj' o.fields } id f obj' hc hf hcl' rfl hpres⟩
  · simp only [hp, Bool.false_eq_true, if_false]
    refine ⟨?_, hc⟩
    have hp' : id ∉ o.present := by simpa using hp
    have : o.abs spec id = none := by simp [MsgObj.abs, hp']
    simp [this]

/-- Pack (and what calls it) leaves the abstract state alone: it caches and recomputes the
bitmap *object*, the bitmap *field* was marked all along -/
theorem pack_refines (spec : MsgSpec) (o : MsgObj) (hc : o.Clean spec) :
    (o.pack spec).1.abs spec = o.abs spec ∧ (o.pack spec).1.Clean spec := by
  obtain ⟨hf, hp, hcb⟩ := touchBitmap_spec spec o hc
  unfold MsgObj.pack MsgObj.packOrd
  exact ⟨abs_same_set spec o _ hf hp, clean_same_set spec o _ hc hf hp⟩

theorem describe_refines (spec : MsgSpec) (o : MsgObj) (hc : o.Clean spec) :
    (o.describe spec).1.abs spec = o.abs spec ∧ (o.describe spec).1.Clean spec := by
  obtain ⟨hf, hp, hcb⟩ := touchBitmap_spec spec o hc
  unfold MsgObj.describe
  exact ⟨abs_same_set spec o _ hf hp, clean_same_set spec o _ hc hf hp⟩

/-! ### Unpack: the state is the content of the input -/

theorem unpack_refines (spec : MsgSpec) (hs : spec.tagsOK = true) (m : Msg) (bm : Bytes) :
    (spec.objOfMsg m bm).abs spec = absOfMsg spec m ∧ (spec.objOfMsg m bm).Clean spec := by
  have hno0 : lookupId 0 spec.fields = none := by
    cases h : lookupId 0 spec.fields with
    | none => rfl
    | some f => have := fieldOf_ge_two hs h; omega
  have hno1 : lookupId 1 spec.fields = none := by
    cases h : lookupId 1 spec.fields with
    | none => rfl
    | some f => have := fieldOf_ge_two hs h; omega
  constructor
  · funext i
    unfold MsgObj.abs absOfMsg
    rw [objOfMsg_present]
    by_cases h0 : i = 0
    · subst h0
      simp only [hno0]
      cases hm : m.mti with
      | none => simp
      | some v =>
        have : (spec.objOfMsg m bm).get 0 (.prim spec.mti) = .prim v := by
          simp [MsgObj.get, MsgSpec.objOfMsg, hm, lookupId]
        simp [MsgSpec.fieldOf, this, valueOf_prim]
    · by_cases h1 : i = 1
      · subst h1; simp
      · have hfo : spec.fieldOf i = lookupId i spec.fields := by simp [MsgSpec.fieldOf, h0, h1]
        simp only [h0, h1, hfo, if_false]
        cases hf : lookupId i spec.fields with
        | none => simp
        | some f =>
          have hg := objOfMsg_get spec hs m bm i f hf
          cases hv : lookupId i m.fields with
          | none => simp; exact ⟨fun h => absurd h h0, h1⟩
          | some v =>
            rw [hv] at hg
            simp [Field.norm, hg]
  · refine ⟨?_, ?_, ?_⟩
    · intro i hi
      have := objOfMsg_present spec m bm i
      rw [List.contains_iff_mem.mpr hi] at this
      by_cases h0 : i = 0
      · right; subst h0; simp [MsgSpec.fieldOf]
      · by_cases h1 : i = 1
        · left; exact h1
        · right
          have hfo : spec.fieldOf i = lookupId i spec.fields := by simp [MsgSpec.fieldOf, h0, h1]
          rw [hfo]
          cases hf : lookupId i spec.fields with
          | none => simp [h0, h1, hf] at this
          | some f => rfl
    · rw [objOfMsg_present]; simp
    · intro i f hf
      have h1 := fieldOf_ne_one hf
      by_cases h0 : i = 0
      · subst h0
        rw [fieldOf_zero] at hf; cases hf
        rw [objOfMsg_present]
        cases hm : m.mti with
        | none =>
          have : (spec.objOfMsg m bm).get 0 (.prim spec.mti) = (Field.prim spec.mti).fresh := by
            simp [MsgObj.get, MsgSpec.objOfMsg, hm, lookupId_objFields, hno0]
          rw [this]
          exact ⟨fun _ => rfl, clean_fresh _⟩
        | some v =>
          have : (spec.objOfMsg m bm).get 0 (.prim spec.mti) = .prim v := by
            simp [MsgObj.get, MsgSpec.objOfMsg, hm, lookupId]
          rw [this]
          simp [Field.Clean]
      · have hfo : spec.fieldOf i = lookupId i spec.fields := by simp [MsgSpec.fieldOf, h0, h1]
        rw [hfo] at hf
        rw [objOfMsg_get spec hs m bm i f hf, objOfMsg_present]
        have hd : f.distinctTags = true := fieldOf_distinct hs (hfo ▸ hf)
        cases hv : lookupId i m.fields with
        | none => exact ⟨fun _ => rfl, clean_fresh _⟩
        | some v =>
          refine ⟨fun hu => ?_, clean_ofValue f hd v⟩
          simp [h0, h1, hf] at hu

/-! ### every step refines the presence specification -/

theorem step_refines (spec : MsgSpec) (hs : spec.tagsOK = true) (o : MsgObj) (op : Op)
    (hc : o.Clean spec) (hok : op.decodeOK spec = true) :
    (o.step spec op).1.abs spec = specStep spec (o.abs spec) op ∧ (o.step spec op).1.Clean spec := by
  cases op with
  | mti s =>
    have h := setField_refines spec hs o 0 s hc (by simp [Op.decodeOK, fieldOf_zero])
    simp only [specStep, fieldOf_zero] at h
    simpa [MsgObj.step, specStep] using h
  | setField id b => exact setField_refines spec hs o id b hc hok
  | marshalField id v =>
    have h := marshalField_refines spec hs o id v hc
    exact ⟨h.1, h.2.1⟩
  | jsonDecode doc => exact jsonDecode_refines spec hs doc o hc
  | unpack b =>
    simp only [MsgObj.step, specStep, MsgSpec.unpackObj]
    simp only [Op.decodeOK] at hok
    cases hu : spec.unpack b with
    | ok r =>
      obtain ⟨m, n⟩ := r
      exact unpack_refines spec hs m _
    | err p => simp [hu] at hok
    | panic => simp [hu] at hok
  | unsetField id => exact unsetField_refines spec o id hc
  | unsetPath id path => exact unsetPath_refines spec hs o id path hc
  | pack => exact pack_refines spec o hc
  | getFields => exact ⟨by triv, hc⟩
  | json =>
    simp only [MsgObj.step, specStep, json_fst]
    exact pack_refines spec o hc
  | clone =>
    simp only [MsgObj.step, specStep, clone_fst]
    exact pack_refines spec o hc
  | describe => exact describe_refines spec o hc

theorem clean_newMsg (spec : MsgSpec) : (spec.newMsg).Clean spec := by
  refine ⟨by simp [MsgSpec.newMsg], by simp [MsgSpec.newMsg], ?_⟩
  intro id f _
  have : (spec.newMsg).get id f = f.fresh := by simp [MsgObj.get, MsgSpec.newMsg, lookupId]
  rw [this]
  exact ⟨fun _ => rfl, clean_fresh f⟩

theorem abs_newMsg (spec : MsgSpec) : (spec.newMsg).abs spec = AbsState.init := by
  funext i
  by_cases h1 : i = 1
  · subst h1; simp [MsgObj.abs, MsgSpec.newMsg, AbsState.init]
  · simp [MsgObj.abs, MsgSpec.newMsg, AbsState.init, h1]

/-- all inputs of the history decode -/
def HistoryDecodes (spec : MsgSpec) (h : List Op) : Prop := ∀ op, op ∈ h → op.decodeOK spec = true

/-- the full-strength statement: refinement for *every* history -/
def presence_refinementStatement : Prop :=
  ∀ (spec : MsgSpec), spec.tagsOK = true → ∀ (h : List Op),
    (MsgObj.run spec spec.newMsg h).abs spec = specRun spec AbsState.init h

/-- **Presence refinement.** From any clean message object (in particular a new one), along
every history whose inputs decode, the object seen through `abs` follows the abstract
specification step by step, and stays clean. -/
theorem presence_refinement_from (spec : MsgSpec) (hs : spec.tagsOK = true) (h : List Op) :
    ∀ o : MsgObj, o.Clean spec → HistoryDecodes spec h →
    (MsgObj.run spec o h).abs spec = specRun spec (o.abs spec) h ∧ (MsgObj.run spec o h).Clean spec := by
  induction h with
  | nil => intro o hc _; exact ⟨by triv, hc⟩
  | cons op rest ih =>
    intro o hc hd
    have hstep := step_refines spec hs o op hc (hd op List.mem_cons_self)
    have := ih (o.step spec op).1 hstep.2 (fun q hq => hd q (List.mem_cons_of_mem _ hq))
    simp only [MsgObj.run, specRun]
    rw [← hstep.1]
    exact this

theorem presence_refinement_partial (spec : MsgSpec) (hs : spec.tagsOK = true) (h : List Op)
    (hd : HistoryDecodes spec h) :
    (MsgObj.run spec spec.newMsg h).abs spec = specRun spec AbsState.init h ∧
    (MsgObj.run spec spec.newMsg h).Clean spec := by
  have := presence_refinement_from spec hs h spec.newMsg (clean_newMsg spec) hd
  rwa [abs_newMsg] at this

/-- the same for coherent specs (DESIGN §2.2): `MsgSpec.coherent` implies `tagsOK` -/
theorem presence_refinement_coherent (spec : MsgSpec) (hc : spec.coherent = true) (h : List Op)
    (hd : HistoryDecodes spec h) :
    (MsgObj.run spec spec.newMsg h).abs spec = specRun spec AbsState.init h ∧
    (MsgObj.run spec spec.newMsg h).Clean spec :=
  presence_refinement_partial spec (tagsOK_of_coherent spec hc) h hd

/-! ### the observers read one set -/

/-- **All observers agree**, at every point of every history (no hypothesis on the
history): for any message object `o`,
* `GetFields` reports exactly the marked ids;
* `Unmarshal` copies a wanted id iff it is marked (and is an id of the spec);
* when `MarshalJSON` succeeds, its keys are (a permutation of, before sorting) the marked
  ids (`json_keys_present`; the bitmap field is one of them from `NewMessage` on);
* the ids `Pack` flags in the bitmap and emits are the marked data elements of the spec. -/
theorem observers_agree (spec : MsgSpec) (o : MsgObj) :
    (o.step spec .getFields).2 = .ids o.sortedIds ∧
    (∀ i, i ∈ o.sortedIds ↔ i ∈ o.present) ∧
    (∀ want i, i ∈ o.unmarshalIds spec want ↔
        i ∈ want ∧ i ∈ o.present ∧ (i = 1 ∨ (spec.fieldOf i).isSome = true)) ∧
    (∀ i, i ∈ o.packedIds spec ↔
        i ∈ o.present ∧ 2 ≤ i ∧ (lookupId i spec.fields).isSome = true) := by
  refine ⟨rfl, ?_, ?_, ?_⟩
  · intro i
    exact (sortBy_perm' _ _).mem_iff
  · intro want i
    simp only [MsgObj.unmarshalIds, List.mem_filter, Bool.and_eq_true, Bool.or_eq_true, beq_iff_eq,
      List.contains_iff_mem]
    constructor
    · rintro ⟨h1, h2, h3⟩; exact ⟨h1, h3, h2⟩
    · rintro ⟨h1, h2, h3⟩; exact ⟨h1, h3, h2⟩
  · intro i
    have htouch : 2 ≤ i → (i ∈ (o.touchBitmap spec).present ↔ i ∈ o.present) := by
      intro h2
      unfold MsgObj.touchBitmap
      split
      · exact Iff.rfl
      · show i ∈ markId 1 o.present ↔ i ∈ o.present
        rw [mem_markId]
        constructor
        · rintro (h | h)
          · omega
          · exact h
        · exact Or.inr
    suffices hs : i ∈ o.packedIds spec ↔
        i ∈ (o.touchBitmap spec).present ∧ 2 ≤ i ∧ (lookupId i spec.fields).isSome = true by
      rw [hs]
      constructor
      · rintro ⟨a, b, c⟩; exact ⟨(htouch b).mp a, b, c⟩
      · rintro ⟨a, b, c⟩; exact ⟨(htouch b).mpr a, b, c⟩
    unfold MsgObj.packedIds
    rw [List.mem_map]
    constructor
    · rintro ⟨p, hp, rfl⟩
      have hp' := (sortBy_perm' _ _).mem_iff.mp hp
      simp only [MsgObj.content, List.mem_filterMap, List.mem_filter, decide_eq_true_eq] at hp'
      obtain ⟨j, ⟨hj1, hj2⟩, hj3⟩ := hp'
      cases hf : lookupId j spec.fields with
      | none => simp [hf] at hj3
      | some f =>
        simp only [hf, Option.map_some, Option.some.injEq] at hj3
        subst hj3
        exact ⟨hj1, hj2, by simp [hf]⟩
    · rintro ⟨h1, h2, h3⟩
      obtain ⟨f, hf⟩ := Option.isSome_iff_exists.mp h3
      refine ⟨(i, f.valueOf ((o.touchBitmap spec).get i f)), ?_, rfl⟩
      apply (sortBy_perm' _ _).mem_iff.mpr
      simp only [MsgObj.content, List.mem_filterMap, List.mem_filter, decide_eq_true_eq]
      exact ⟨i, ⟨h1, h2⟩, by simp [hf]⟩

/-- the JSON keys are the marked ids of the message after `MarshalJSON` (which is the
message after `Pack`): same set as `GetFields` then reports -/
theorem json_keys_present (spec : MsgSpec) (o : MsgObj) (hc : o.Clean spec) (j : JVal)
    (hj : (o.json spec).2 = some j) :
    j.keys.Perm ((o.json spec).1.present.map natToDec) := by
  have hclean := (C14.pack_refines spec o hc).2
  unfold MsgObj.json at hj ⊢
  cases hp : (o.pack spec).2 with
  | ok bytes =>
    simp only [hp] at hj ⊢
    cases hj
    simp only [JVal.keys, orderJson]
    refine ((sortBy_perm' _ _).map _).trans ?_
    -- every marked id has a JSON member
    have hall : ∀ i, i ∈ (o.pack spec).1.present →
        MsgObj.jsonAt spec (o.pack spec).1 i =
          some (natToDec i, (match MsgObj.jsonAt spec (o.pack spec).1 i with | some p => p.2 | none => .str [])) := by
      intro i hi
      unfold MsgObj.jsonAt
      by_cases h1 : i = 1
      · simp [h1]
      · rcases hclean.1 i hi with h | h
        · exact absurd h h1
        · obtain ⟨f, hf⟩ := Option.isSome_iff_exists.mp h
          simp [h1, hf]
    generalize (o.pack spec).1.present = l at hall
    induction l with
    | nil => exact List.Perm.refl _
    | cons i rest ih =>
      have hi := hall i List.mem_cons_self
      rw [List.filterMap_cons, hi]
      simp only [List.map_cons]
      exact List.Perm.cons _ (ih (fun k hk => hall k (List.mem_cons_of_mem _ hk)))
  | err => simp [hp] at hj
  | panic => simp [hp] at hj

/-- the marked ids of a clean message are the domain of its abstract state -/
theorem present_iff_abs (spec : MsgSpec) (o : MsgObj) (hc : o.Clean spec) (i : Nat) :
    i ∈ o.present ↔ (o.abs spec i).isSome = true := by
  unfold MsgObj.abs
  constructor
  · intro hi
    rcases hc.1 i hi with h | h
    · subst h; simp [hi]
    · obtain ⟨f, hf⟩ := Option.isSome_iff_exists.mp h
      by_cases h1 : i = 1
      · subst h1; simp [hi]
      · simp [hi, h1, hf]
  · intro h
    by_cases hi : i ∈ o.present
    · exact hi
    · simp [hi] at h

theorem pack_present (spec : MsgSpec) (o : MsgObj) (hc : o.Clean spec) (i : Nat) :
    i ∈ (o.pack spec).1.present ↔ i ∈ o.present := by
  obtain ⟨_, hp, _⟩ := touchBitmap_spec spec o hc
  have : (o.pack spec).1.present = (o.touchBitmap spec).present := by
    unfold MsgObj.pack MsgObj.packOrd; rfl
  rw [this, ← List.contains_iff_mem, hp i, List.contains_iff_mem]

/-- **Every observer reads the abstract state** of a clean message (every message reached
from `NewMessage` through decoding inputs is clean): the ids `GetFields` reports, the ids
`Unmarshal` copies out of those wanted, the members of the JSON document, and — for data
elements — the ids `Pack` flags in the bitmap and emits are exactly the ids on which the
abstract state is defined. The bitmap field (id 1) is one of them from `NewMessage` on. -/
theorem observers_read_abs (spec : MsgSpec) (o : MsgObj) (hc : o.Clean spec) :
    (∀ i, i ∈ o.sortedIds ↔ (o.abs spec i).isSome = true) ∧
    (∀ want i, i ∈ o.unmarshalIds spec want ↔ i ∈ want ∧ (o.abs spec i).isSome = true) ∧
    (∀ i, i ∈ o.packedIds spec ↔ 2 ≤ i ∧ (o.abs spec i).isSome = true) ∧
    (∀ j, (o.json spec).2 = some j →
      ∀ k, k ∈ j.keys ↔ ∃ i, k = natToDec i ∧ (o.abs spec i).isSome = true) := by
  obtain ⟨_, h2, h3, h4⟩ := observers_agree spec o
  refine ⟨fun i => (h2 i).trans (present_iff_abs spec o hc i), ?_, ?_, ?_⟩
  · intro want i
    rw [h3 want i, ← present_iff_abs spec o hc i]
    constructor
    · rintro ⟨a, b, _⟩; exact ⟨a, b⟩
    · rintro ⟨a, b⟩; exact ⟨a, b, hc.1 i b⟩
  · intro i
    rw [h4 i, ← present_iff_abs spec o hc i]
    constructor
    · rintro ⟨a, b, _⟩; exact ⟨b, a⟩
    · rintro ⟨a, b⟩
      refine ⟨b, a, ?_⟩
      rcases hc.1 i b with h | h
      · omega
      · have : spec.fieldOf i = lookupId i spec.fields := by
          unfold MsgSpec.fieldOf
          have h0 : ¬ i = 0 := by omega
          have h1 : ¬ i = 1 := by omega
          simp [h0, h1]
        rwa [this] at h
  · intro j hj k
    have hperm := json_keys_present spec o hc j hj
    rw [hperm.mem_iff, List.mem_map]
    have hfst : (o.json spec).1 = (o.pack spec).1 := json_fst spec o
    constructor
    · rintro ⟨i, hi, rfl⟩
      rw [hfst, pack_present spec o hc i] at hi
      exact ⟨i, rfl, (present_iff_abs spec o hc i).mp hi⟩
    · rintro ⟨i, rfl, hi⟩
      refine ⟨i, ?_, rfl⟩
      rw [hfst, pack_present spec o hc i]
      exact (present_iff_abs spec o hc i).mpr hi

/-- `GetSubfields` of a composite object: its set tags, and its content lists exactly those -/
theorem subfields_agree (s : CompSpec) (subs : List (Tag × Field)) (hd : noDupTags (subs.map (·.1)) = true)
    (objs : List (Tag × FieldObj)) (set : List Tag) (t : Tag) :
    (lookup t (Field.valueSubs subs objs set)).isSome = (set.contains t && lookupField subs t) ∧
    (lookup t (Field.jsonSubs subs objs set)).isSome = (set.contains t && lookupField subs t) := by
  have hjson : Field.jsonSubs subs objs set =
      specList subs (fun t f => if set.contains t then some (f.jsonOf (getSub f t objs)) else none) := by
    clear hd
    induction subs with
    | nil => simp [Field.jsonSubs, specList_nil]
    | cons p rest ih =>
      obtain ⟨k, f⟩ := p
      rw [specList_cons, Field.jsonSubs]
      by_cases h : set.contains k = true
      · simp only [h, ↓reduceIte, ih, getSub]
      · simp only [h, ↓reduceIte, ih]; rfl
  rw [lookup_valueSubs hd, hjson, lookup_specList hd, lookupField_eq_isSome]
  cases lookup t subs <;> by_cases h : t ∈ set <;> simp [h]

/-! ### unset discards -/

/-- **UnsetField discards.** After `UnsetField(id)` (a data element or the MTI) the field is
not marked and its object is brand new: no value or subfield written before survives in it
— whatever the history before. (The bitmap field, id 1, has no value of its own: its object
is replaced and it stays marked, `unsetField_one`.) -/
theorem unset_discards_field (spec : MsgSpec) (o : MsgObj) (id : Nat) (f : Field) (hp : id ∈ o.present)
    (h1 : id ≠ 1) :
    id ∉ (o.unsetField id).present ∧ (o.unsetField id).get id f = f.fresh := by
  have hc : o.present.contains id = true := List.contains_iff_mem.mpr hp
  unfold MsgObj.unsetField
  simp only [hc, if_true, h1, if_false]
  constructor
  · simp [List.mem_filter]
  · simp [MsgObj.get, lookupId_eraseId]

/-- **UnsetFields(path) discards.** On a clean composite object, unsetting a path gives a
clean object whose content is the old content with the named subtree erased: the erased
subfield's object is brand new (`Clean`: every unmarked subfield object is), so a later
Marshal of the parent or of a sibling merges into nothing old. -/
theorem unset_discards_path (f : Field) (hd : f.distinctTags = true) (obj : FieldObj) (path : Bytes)
    (hc : f.Clean obj) (obj' : FieldObj) (h : f.unsetSubs obj path = .ok obj') :
    f.unsetValue (f.valueOf obj) path = .ok (f.valueOf obj') ∧ f.Clean obj' := by
  have := unset_refines f hd obj path hc
  unfold UnsetRel at this
  rw [h] at this
  exact this

/-- **No resurrection.** Two clean message objects with the same abstract state — e.g. one
in which a value was written and then unset, and one in which it never existed — can not be
told apart by any later history: the erased data is gone for good. -/
theorem no_resurrection (spec : MsgSpec) (hs : spec.tagsOK = true) (o₁ o₂ : MsgObj)
    (h₁ : o₁.Clean spec) (h₂ : o₂.Clean spec) (hab : o₁.abs spec = o₂.abs spec)
    (later : List Op) (hd : HistoryDecodes spec later) :
    (MsgObj.run spec o₁ later).abs spec = (MsgObj.run spec o₂ later).abs spec := by
  rw [(presence_refinement_from spec hs later o₁ h₁ hd).1,
      (presence_refinement_from spec hs later o₂ h₂ hd).1, hab]

theorem historyDecodes_of_all (spec : MsgSpec) (h : List Op)
    (hall : h.all (fun op => op.decodeOK spec) = true) : HistoryDecodes spec h := by
  intro op hop
  exact List.all_eq_true.mp hall op hop

/-! ### the multi-path and the direct unset entry points are histories of single-path unsets -/

/-- **`UnsetFields(p₁, …, pₙ)` is a history.** One call with several paths leaves the message in
the state reached by the single-path calls for `p₁ … p_k` in this order, where `k = n` when the
call succeeds and otherwise `p_k` is the first path that is rejected (paths after it are not
processed; what the earlier ones did stays). So every theorem about histories of `Op`s — the
refinement, `no_resurrection`, C10, C15 — covers the multi-path call; in particular a path whose
field is not present is skipped and does not stop the later paths (`unsetPath` of an absent id is
the identity with result ok). -/
theorem unsetPaths_is_history (spec : MsgSpec) : ∀ (ps : List (Nat × Bytes)) (o : MsgObj),
    ∃ k, k ≤ ps.length ∧
      (o.unsetPaths spec ps).1 = MsgObj.run spec o ((ps.take k).map fun p => Op.unsetPath p.1 p.2) ∧
      ((o.unsetPaths spec ps).2 = .ok () → k = ps.length)
  | [], o => ⟨0, Nat.le_refl _, rfl, fun _ => rfl⟩
  | (id, path) :: rest, o => by
    unfold MsgObj.unsetPaths
    cases h : o.unsetPath spec id path with
    | mk o' r =>
      cases r with
      | ok u =>
        obtain ⟨k, hk, hs, hok⟩ := unsetPaths_is_history spec rest o'
        refine ⟨k + 1, by simp only [List.length_cons]; omega, ?_, ?_⟩
        · simp only [List.take_succ_cons, List.map_cons, MsgObj.run, MsgObj.step, h]
          exact hs
        · intro hr
          simp only [List.length_cons, hok hr]
      | err =>
        refine ⟨1, by simp only [List.length_cons]; omega, ?_, ?_⟩
        · simp only [List.take_succ_cons, List.take_zero, List.map_cons, List.map_nil, MsgObj.run, MsgObj.step, h]
        · intro hr; cases hr
      | panic =>
        refine ⟨1, by simp only [List.length_cons]; omega, ?_, ?_⟩
        · simp only [List.take_succ_cons, List.take_zero, List.map_cons, List.map_nil, MsgObj.run, MsgObj.step, h]
        · intro hr; cases hr

theorem cutDot_nodot : ∀ (p : Bytes), (∀ c ∈ p, c ≠ 46) → cutDot p = (p, [])
  | [], _ => rfl
  | c :: rest, h => by
    have hc : c ≠ 46 := h c (List.mem_cons_self ..)
    have ih := cutDot_nodot rest (fun x hx => h x (List.mem_cons_of_mem _ hx))
    simp only [cutDot, hc, if_false, ih]

/-- **`Composite.UnsetSubfield(tag)` called on the field object** (`m.GetField(id)`) of a present
composite whose subfield `tag` is set does exactly what `m.UnsetFields("id.tag")` does. (When the
subfield is not set, the path form leaves the object alone while the direct call re-creates the
unmarked subfield object — which no observer distinguishes from the old one unless the history
contains a failed decode, KF11.) -/
theorem unsetSubDirect_eq_unsetPath (spec : MsgSpec) (o : MsgObj) (id : Nat) (tag : Tag)
    (cs : CompSpec) (subs : List (Tag × Field)) (objs : List (Tag × FieldObj)) (set : List Tag)
    (hp : o.present.contains id = true) (hf : spec.fieldOf id = some (.comp cs subs))
    (ho : o.get id (.comp cs subs) = .comp objs set) (hset : set.contains tag = true)
    (hne : tag ≠ []) (hdot : ∀ c ∈ tag, c ≠ 46) (hspec : lookupField subs tag = true) :
    o.unsetSubDirect spec id tag = o.unsetPath spec id tag := by
  have hemp : tag.isEmpty = false := by cases tag with | nil => exact absurd rfl hne | cons _ _ => rfl
  unfold MsgObj.unsetSubDirect MsgObj.unsetPath
  simp only [hf, ho, hp, if_true, hemp, hspec, Bool.false_eq_true, if_false]
  simp only [Field.unsetSubs, hemp, Bool.false_eq_true, if_false, cutDot_nodot tag hdot, hset, if_true,
    List.isEmpty_nil, hspec]

/-! ### the hypothesis `HistoryDecodes` can not be dropped -/
section Witness
open ObjDemo

/-- a failing Unpack (field 55 is cut inside its second subfield), then Marshal of the
second subfield only -/
def witnessHistory : List Op :=
  [.unpack cutWire, .marshalField 55 (.comp [([48, 98], .str [66])])]

def subfieldCount (a : AbsState) : Nat :=
  match a 55 with
  | some (.comp l) => l.length
  | _ => 0

/-- **Witness.** After an Unpack that fails inside composite 55 (subfield 0a decoded, 0b
cut), the message does not report field 55; a Marshal of subfield 0b alone then makes 55
present *with both subfields* — 0a holding the value of the rejected input. The abstract
state has one subfield there. So the refinement does not hold for histories with failing
decodes (and the real code does the same: channel H agrees with the model on this line). -/
theorem presence_refinement_witness : ¬ presence_refinementStatement := by
  intro h
  have h1 := h spec (by decide) witnessHistory
  have h2 := congrArg subfieldCount h1
  revert h2
  decide

end Witness

/-! ### non-vacuity -/
section Examples
open ObjDemo

example : spec.tagsOK = true := by decide
example : spec.coherent = true := by decide
example : HistoryDecodes spec (populate ++ [.unsetPath 55 [48, 97], .pack, .unpack wire, .unsetField 2]) :=
  historyDecodes_of_all _ _ (by decide)
-- unsetPath takes effect on a set subfield, and the sibling stays
example : ((MsgObj.run spec spec.newMsg (populate ++ [.unsetPath 55 [48, 97]])).content spec [55]).fields.length = 1 := by
  decide
-- the multi-path unset: a path of an absent field first, then two present ones - all three are processed
example : ((MsgObj.run spec spec.newMsg populate).unsetPaths spec [(99, []), (2, []), (55, [48, 97])]).2 = .ok () := by
  decide
example : (((MsgObj.run spec spec.newMsg populate).unsetPaths spec [(99, []), (2, []), (55, [48, 97])]).1.present.contains 2) = false := by
  decide
-- a clean composite object with something to unset
example : (Field.comp compSpec compSubs).distinctTags = true := by decide

end Examples

end Iso8583.C14
