/-
C12 — JSON encoding of messages is well-formed and round-trips.

Property theorems about the model `Model/Json.lean` (Message.MarshalJSON / UnmarshalJSON,
OrderedMap.MarshalJSON, Composite and per-kind MarshalJSON / UnmarshalJSON), for ALL message
specs, all messages in the JSON domain (`msgJsonDomain`: kinds match, texts valid UTF-8,
64-bit integers, data-element ids in 2 … 2^63−1 defined by the spec and pairwise different,
set subfields pairwise different alphanumeric tags of their composite — all of which
Coherent + InDomain + "valid UTF-8" give) and any nesting depth.  Helper lemmas in
`Lemmas/Json.lean`.

ASSUMPTION (explicit hypotheses `c.Faithful`, `c.KeysOK` of the round-trip theorems):
`encoding/json`'s tokeniser and string escaping are a parameter `c : StrCodec` of the model;
`Faithful`: a valid UTF-8 string survives `json.Marshal` + `json.Unmarshal`; `KeysOK`: the
hand-quoted alphanumeric key `"k"` is read as `k`.  `plainCodec_ok` shows the assumptions
are satisfiable; the correspondence channel J checks them on every emitted document
(`json.Valid`, decoded with `encoding/json`).

  * `json_wellformed_ordered` — the emitted object's keys are exactly the set field
    numbers (0 if the MTI is set, 1 = the bitmap, the data elements) in ascending numeric
    order; `composite_keys_fixed_order`, `composite_keys_numeric_order` — a composite
    object lists its set tags in the StringsByInt order of the tags, whatever order they
    were set in, numerically ascending for decimal tags; `orderedMap_tokens_wellformed` —
    the hand-written `{`, `"k":`, `,`, `}` emission with its `break`-on-last-key comma logic
    produces exactly the members separated by commas when the keys are pairwise different.
  * `json_roundtrip`, `json_roundtrip_coherent` — UnmarshalJSON (MarshalJSON m) into a fresh message gives the same MTI,
    the bitmap field marked set, the same data elements (ascending, subfields re-ordered)
    and hence the same Pack bytes; `field_json_roundtrip` — the same for one field.
  * `json_total_on_packable` — MarshalJSON succeeds exactly when Pack does.
-/
import Iso8583.Lemmas.Json

namespace Iso8583.C12
open Iso8583

/-! ### totality -/

/-- MarshalJSON succeeds iff Pack succeeds (it packs first; no per-field MarshalJSON fails). -/
theorem json_total_on_packable (c : StrCodec) (spec : MsgSpec) (m : Msg) :
    (spec.marshalJSON c m).isOk = (spec.pack m).isOk := by
  cases hp : spec.pack m with
  | ok bs =>
    obtain ⟨bm, hbm⟩ := pack_ok_bitmap spec m bs hp
    simp [MsgSpec.marshalJSON, hp, hbm, Res.isOk]
  | err => simp [MsgSpec.marshalJSON, hp, Res.isOk]
  | panic => simp [MsgSpec.marshalJSON, hp, Res.isOk]

theorem json_fails_iff_pack_fails (c : StrCodec) (spec : MsgSpec) (m : Msg) :
    spec.marshalJSON c m = .err ↔ spec.pack m = .err := by
  cases hp : spec.pack m with
  | ok bs =>
    obtain ⟨bm, hbm⟩ := pack_ok_bitmap spec m bs hp
    simp [MsgSpec.marshalJSON, hp, hbm]
  | err => simp [MsgSpec.marshalJSON, hp]
  | panic => simp [MsgSpec.marshalJSON, hp]

/-! ### well-formedness and key order -/

/-- the keys of the emitted object -/
def objKeys : Json → List Bytes
  | .obj kvs => kvs.map (·.1)
  | _ => []

/-- The emitted document is an object whose keys are the quoted decimal numerals of exactly
the set fields — 0 if the MTI is set, 1 (the bitmap), the data elements — in ascending
numeric order (`keysAscending` on the numbers). -/
theorem json_wellformed_ordered (c : StrCodec) (spec : MsgSpec) (m : Msg) (j : Json)
    (hd : allDistinct (m.fields.map (·.1)) = true) (h2 : ∀ p ∈ m.fields, 2 ≤ p.1)
    (hj : spec.marshalJSON c m = .ok j) :
    ∃ ids : List (Nat × Unit),
      objKeys j = ids.map (fun p => quoteRaw (natToDec p.1)) ∧ keysAscending ids ∧
      (∀ i, i ∈ ids.map (·.1) ↔ (i = 0 ∧ m.mti.isSome) ∨ i = 1 ∨ i ∈ m.fields.map (·.1)) := by
  cases hp : spec.pack m with
  | ok bs =>
    obtain ⟨bm, hbm⟩ := pack_ok_bitmap spec m bs hp
    simp only [MsgSpec.marshalJSON, hp, hbm, Res.ok.injEq] at hj
    subst hj
    have hS := sortBy_ascending m.fields hd
    have hSge : ∀ p ∈ sortBy (fun a b => decide (a.1 < b.1)) m.fields, 2 ≤ p.1 :=
      fun p hp => h2 p ((mem_sortBy _ m.fields p).mp hp)
    have hfa : keysAscending ((1, ()) :: (sortBy (fun a b => decide (a.1 < b.1)) m.fields).map fun p => (p.1, ())) := by
      have := keysAscending_map (fun _ : Value => ()) _ hS
      cases hs : sortBy (fun a b => decide (a.1 < b.1)) m.fields with
      | nil => trivial
      | cons y ys =>
        rw [hs] at this
        refine ⟨?_, this⟩
        have := hSge y (by rw [hs]; simp)
        show 1 < y.1
        omega
    refine ⟨(match m.mti with | some _ => [(0, ())] | none => []) ++
      (1, ()) :: (sortBy (fun a b => decide (a.1 < b.1)) m.fields).map fun p => (p.1, ()), ?_, ?_, ?_⟩
    · simp only [objKeys, marshalJSON_members c m bm h2]
      cases m.mti <;> simp [List.map_map, Function.comp_def]
    · cases m.mti with
      | none => exact hfa
      | some v => exact ⟨Nat.zero_lt_one, hfa⟩
    · intro i
      have hk : ∀ i, i ∈ ((sortBy (fun a b => decide (a.1 < b.1)) m.fields).map fun p => (p.1, ())).map (·.1) ↔
          i ∈ m.fields.map (·.1) := by
        intro i
        simp only [List.map_map, Function.comp_def]
        exact keys_sortBy_gen _ m.fields i
      cases hm : m.mti with
      | none =>
        simp only [List.nil_append, List.map_cons, List.mem_cons, hk, Option.isSome_none]
        simp
      | some v =>
        simp only [List.cons_append, List.nil_append, List.map_cons, List.mem_cons, hk, Option.isSome_some]
        simp
  | err => simp [MsgSpec.marshalJSON, hp] at hj
  | panic => simp [MsgSpec.marshalJSON, hp] at hj

/-- A composite object lists the set subfield tags in the `StringsByInt` order of the tags:
the keys are the sorted tags, and two lists of set subfields with the same look-ups (the
same set, populated in any order) sort to objects with the same keys … -/
theorem composite_keys_fixed_order (c : StrCodec) (vals : List (Tag × Value)) :
    objKeys ((Value.comp vals).toJson c) =
      (sortBy (fun a b => SortKind.byInt.less a b) (vals.map (·.1))).map quoteRaw := by
  simp only [Value.toJson, objKeys, sortBy_toJson, List.map_map, Function.comp_def]
  have := sortBy_map (fun p : Tag × Value => p.1) byIntKey (fun a b => SortKind.byInt.less a b)
    (fun a b => rfl) vals
  rw [this]
  simp [List.map_map, Function.comp_def]

/-- … and for decimal tags (bitmapped composites, numbered positional subfields) that order
is the ascending numeric one. -/
theorem composite_keys_numeric_order (c : StrCodec) (L : List (Nat × Value))
    (hd : allDistinct (L.map (·.1)) = true) :
    ∃ S : List (Nat × Value), keysAscending S ∧ (∀ p, p ∈ S ↔ p ∈ L) ∧
      objKeys ((Value.comp (L.map fun p => (natToDec p.1, p.2))).toJson c) =
        S.map fun p => quoteRaw (natToDec p.1) := by
  refine ⟨sortBy (fun a b => decide (a.1 < b.1)) L, sortBy_ascending L hd, fun p => mem_sortBy _ L p, ?_⟩
  simp only [Value.toJson, objKeys, sortBy_toJson]
  have := sortBy_map (fun p : Nat × Value => (natToDec p.1, p.2)) (fun a b => decide (a.1 < b.1))
    (byIntKey (α := Value)) (fun a b => byInt_less_natToDec a.1 b.1) L
  rw [this]
  simp [List.map_map, Function.comp_def]

/-- `OrderedMap.MarshalJSON`'s hand-written syntax — `{`, then for every key the value and
`"key":`, `break` when the key equals the last key, otherwise `,`, finally `}` — emits
exactly the members separated by commas when the keys are pairwise different (they are the
keys of a Go map). -/
theorem orderedMap_tokens_wellformed (get : Bytes → Json) (keys : List Bytes)
    (hd : allDistinct keys = true) :
    orderedMapTokens keys get = [Tok.lbrace] ++ wellFormedMembers get keys ++ [Tok.rbrace] := by
  have key : ∀ (ks : List Bytes) (last : Bytes), allDistinct ks = true → ks.getLast? = some last →
      orderedMapLoop last get ks = wellFormedMembers get ks := by
    intro ks
    induction ks with
    | nil => intro last _ h; simp at h
    | cons k rest ih =>
      intro last hdist hlast
      rw [allDistinct_cons] at hdist
      cases rest with
      | nil =>
        simp only [List.getLast?_singleton, Option.some.injEq] at hlast
        subst hlast
        simp [orderedMapLoop, wellFormedMembers]
      | cons k2 rest2 =>
        have hl : (k2 :: rest2).getLast? = some last := by
          simpa [List.getLast?_cons_cons] using hlast
        have hne : k ≠ last := by
          intro e
          subst e
          exact hdist.1 (List.mem_of_getLast? hl)
        rw [orderedMapLoop, if_neg hne, ih last hdist.2 hl]
        simp [wellFormedMembers]
  unfold orderedMapTokens
  cases hk : keys.getLast? with
  | none =>
    have : keys = [] := by simpa using hk
    subst this
    simp [orderedMapLoop, wellFormedMembers]
  | some last => simp [key keys last hd hk]

/-! ### round trip -/

/-- Field level: MarshalJSON then UnmarshalJSON into a fresh field of the same spec gives the
value back, with the set subfields listed in StringsByInt order (`sortJ`), which `pack`
does not see (`pack_sortJ`). -/
theorem field_json_roundtrip (c : StrCodec) (hF : c.Faithful) (hK : c.KeysOK) (f : Field) (v : Value)
    (hdom : jsonDomain f v = true) :
    Field.ofJson c f (v.toJson c) = .ok v.sortJ ∧ f.pack v.sortJ = f.pack v :=
  ⟨ofJson_toJson c hF hK v f hdom, pack_sortJ v (jsonDomain_distinctTags v f hdom) f⟩

/-- Message level: for a packable message in the JSON domain, MarshalJSON succeeds,
UnmarshalJSON of the document into a fresh message of the same spec succeeds and yields
`jsonNormal m` — the same MTI, the bitmap field marked set, the same data elements in
ascending order with the same values up to the order of set subfields — and that message
packs to the same bytes. -/
theorem json_roundtrip (c : StrCodec) (hF : c.Faithful) (hK : c.KeysOK) (spec : MsgSpec) (m : Msg)
    (bs : Bytes) (hdom : msgJsonDomain spec m = true) (hpack : spec.pack m = .ok bs) :
    ∃ j, spec.marshalJSON c m = .ok j ∧ spec.unmarshalJSON c j = .ok (jsonNormal m) ∧
      spec.pack (jsonNormal m).toMsg = .ok bs :=
  json_roundtrip_msg c hF hK spec m bs hdom hpack

/-- The same under the spec grammar's own hypotheses: a coherent spec (`MsgSpec.coherent`), an
in-domain message (`MsgSpec.inDomain`) whose texts are valid UTF-8 (`Msg.utf8OK`) and whose
data-element ids are Go ints. -/
theorem json_roundtrip_coherent (c : StrCodec) (hF : c.Faithful) (hK : c.KeysOK) (spec : MsgSpec) (m : Msg)
    (bs : Bytes) (hc : spec.coherent = true) (hd : spec.inDomain m = true) (hu : m.utf8OK = true)
    (hids : ∀ p ∈ m.fields, p.1 < 2 ^ 63) (hpack : spec.pack m = .ok bs) :
    ∃ j, spec.marshalJSON c m = .ok j ∧ spec.unmarshalJSON c j = .ok (jsonNormal m) ∧
      spec.pack (jsonNormal m).toMsg = .ok bs :=
  json_roundtrip_msg c hF hK spec m bs (msgJsonDomain_of_inDomain spec m hc hd hu hids) hpack

/-- … in particular the decoded message has exactly the same set fields. -/
theorem json_roundtrip_same_fields (m : Msg) (i : Nat) :
    i ∈ (jsonNormal m).fields.map (·.1) ↔ i ∈ m.fields.map (·.1) := by
  simp only [jsonNormal, List.map_map, Function.comp_def]
  exact keys_sortBy_gen _ m.fields i

/-! ### the codec assumptions are satisfiable -/

theorem plainCodec_ok : plainCodec.Faithful ∧ plainCodec.KeysOK := by
  have h : ∀ s : Bytes, plainCodec.parse (quoteRaw s) = some s := by
    intro s
    simp [plainCodec, quoteRaw, List.reverse_append]
  exact ⟨fun s _ => h s, fun k _ => h k⟩

/-! ### Non-vacuity: a coherent spec with ids beyond the first bitmap block and a bitmapped
composite with a two-digit tag; a packable message with a quote, a backslash, a control
character and a multi-byte rune in its text. -/

def demoSpec : MsgSpec :=
  { mti := { kind := .string, len := 4, enc := .ascii, pref := .fixed .ascii, pad := .nil },
    bitmap := { specLen := 8, enc := .binary, pref := .fixed .binary, auto := true },
    fields := [
      (2, .prim { kind := .string, len := 19, enc := .binary, pref := .var .ascii 2, pad := .nil }),
      (3, .prim { kind := .numeric, len := 6, enc := .ascii, pref := .fixed .ascii, pad := .left 48 }),
      (70, .prim { kind := .binary, len := 8, enc := .binary, pref := .var .ascii 2, pad := .nil }),
      (100, .comp { len := 99, pref := .var .ascii 2,
                    mode := .bitmapped { specLen := 2, enc := .binary, pref := .fixed .binary, auto := false } }
            [([50], .prim { kind := .string, len := 5, enc := .ascii, pref := .var .ascii 1, pad := .nil }),
             ([49, 48], .prim { kind := .hex, len := 4, enc := .binary, pref := .var .ascii 1, pad := .nil })])] }

/-- fields given out of order; text `a"\<LF>é` -/
def demoMsg : Msg :=
  { mti := some (.str [48, 49, 48, 48]),
    fields := [ (100, .comp [([49, 48], .hexv [48, 65, 102, 70]), ([50], .str [120])]),
                (3, .num 7), (70, .bin [10, 255]),
                (2, .str [97, 34, 92, 10, 195, 169]) ] }

example : demoSpec.coherent = true := by decide
example : demoSpec.inDomain demoMsg = true := by decide
example : msgJsonDomain demoSpec demoMsg = true := by decide
example : demoMsg.utf8OK = true ∧ ∀ p ∈ demoMsg.fields, p.1 < 2 ^ 63 := by decide
example : (demoSpec.pack demoMsg).isOk = true := by decide
example : (demoSpec.marshalJSON plainCodec demoMsg).isOk = true := by decide
/-- the keys of the demo document: "0","1","2","3","70","100" -/
example : (match demoSpec.marshalJSON plainCodec demoMsg with | .ok j => objKeys j | _ => []) =
    [[34, 48, 34], [34, 49, 34], [34, 50, 34], [34, 51, 34], [34, 55, 48, 34], [34, 49, 48, 48, 34]] := by decide
/-- the composite lists tag "2" before tag "10" -/
example : objKeys ((Value.comp [([49, 48], .hexv [48, 65]), ([50], .str [120])]).toJson plainCodec) =
    [[34, 50, 34], [34, 49, 48, 34]] := by decide
example : validUtf8 [97, 34, 92, 10, 195, 169] = true ∧ validUtf8 [195] = false ∧ validUtf8 [237, 160, 128] = false := by
  decide

end Iso8583.C12
