/-
C19 for messages that contain track fields (field.Track1 / Track2 / Track3): a packed
message cut at any offset inside element k is rejected by Unpack with an error whose
field-id path starts with k. Model: Model/TrackMessage.lean (`TMsgSpec`, `TMsg`).

The proof reduces the new model to the message model without track fields (the reduction of
Props/C01TrackMsg.lean: `TMsgSpec.base`, `TMsg.textify`):

  * `scanPre` / `unpackPre`: the elements the base scan / base Unpack decodes before it stops;
  * `scan_err_sim` / `unpack_err_sim` (error simulation): when the base Unpack fails with
    path `p`, the Unpack of the message with track fields either fails with the same path,
    or fails earlier, at a track field whose text (decoded by the base scan) its parser
    rejects; `unpack_err_of_base` is the conditional form: if every element the base scan
    decoded before the failure lifts, the error paths coincide;
  * `scanPre_truncated` / `unpackPre_truncated` (base model): on a truncated packed message
    the elements decoded before the failing one are canonical forms of populated elements;
  * `C19.truncation_attribution_all` on the base spec, `field_canon_base` and `lift_canon`
    (the parser of a fresh track object accepts the packed text of an in-domain track value).

`tmsg_truncation_attribution` is the property at full strength: no hypothesis beyond
`coherent`, `inDomain`, `pack = ok`, "the packed bytes are a Go slice" and `o < |bs|`.
-/
import Iso8583.Props.C19
import Iso8583.Props.C01TrackMsg

set_option linter.unusedSimpArgs false
set_option linter.unusedVariables false

namespace Iso8583.C19TrackMsg
open Iso8583 Bitmap MsgSpec MessageRT C01TrackMsg

/-! ## what the base scan decodes before it stops -/

/-- the elements the scan of `MsgSpec.unpack` decodes successfully, in order, until it stops
(at the end of the bitmap or at the first element that fails) -/
def scanPre (spec : MsgSpec) (bm : Bitmap) : Nat → Nat → Bytes → Nat → List (Nat × Value)
  | 0, _, _, _ => []
  | remaining + 1, i, src, off =>
    if bm.isPresenceBit i then scanPre spec bm remaining (i + 1) src off
    else if bm.isSet i then
      match lookupId i spec.fields with
      | none => []
      | some f =>
        if off > src.length then []
        else
        match f.unpack (src.drop off) with
        | .ok (v, read) => (i, v) :: scanPre spec bm remaining (i + 1) src (off + read)
        | .err _ => []
        | .panic => []
    else scanPre spec bm remaining (i + 1) src off

/-- the data elements `MsgSpec.unpack` decodes successfully before it stops (none when the
MTI or the bitmap can not be read) -/
def unpackPre (spec : MsgSpec) (src : Bytes) : List (Nat × Value) :=
  match spec.mti.unpack src with
  | .ok (_, read) =>
    if read > src.length then []
    else
    match Bitmap.unpack spec.bitmap.enc spec.bitmap.pref
        (Bitmap.reset spec.bitmap.specLen spec.bitmap.auto) (src.drop read) with
    | .ok (bm, bread) => scanPre spec bm (bm.len - 1) 2 src (read + bread)
    | .err => []
    | .panic => []
  | .err => []
  | .panic => []

theorem scanPre_skip (spec : MsgSpec) (bm : Bitmap) (n i : Nat) (src : Bytes) (off : Nat)
    (h : bm.isPresenceBit i = true ∨ bm.isSet i = false) :
    scanPre spec bm (n + 1) i src off = scanPre spec bm n (i + 1) src off := by
  rw [scanPre]
  rcases h with h | h
  · simp only [h, ite_true]
  · cases hp : bm.isPresenceBit i with
    | true => simp only [ite_true]
    | false => simp only [h, Bool.false_eq_true, ite_false]

theorem scanPre_field (spec : MsgSpec) (bm : Bitmap) (n i : Nat) (src : Bytes) (off : Nat)
    (f : Field) (hp : bm.isPresenceBit i = false) (hs : bm.isSet i = true)
    (hl : lookupId i spec.fields = some f) (ho : off ≤ src.length) :
    scanPre spec bm (n + 1) i src off =
      match f.unpack (src.drop off) with
      | .ok (v, read) => (i, v) :: scanPre spec bm n (i + 1) src (off + read)
      | .err _ => []
      | .panic => [] := by
  rw [scanPre]
  have : ¬ off > src.length := by omega
  simp only [hp, hs, hl, this, Bool.false_eq_true, ite_false, ite_true]

/-! ## (1) error simulation: the scan and Unpack against the base model -/

/-- **a failing base scan is simulated**: when the base scan fails with path `p`, the scan of
the message with track fields, from the same offset and with any accumulator, either fails
with the same path `p`, or fails earlier — at an element `q.1` that the base scan decoded
(to the text `q.2`) before it reached the failing element, which is a track field whose
parser rejects that text; the path is then just that element's id. -/
theorem scan_err_sim (spec : TMsgSpec) (bm : Bitmap) :
    ∀ (n i : Nat) (src : Bytes) (off : Nat) (acc : List (Nat × Value)) (p : List Bytes),
      spec.base.scan bm n i src off acc = .err p →
      ∀ tacc : List (Nat × MValue),
        spec.scan bm n i src off tacc = .err p ∨
        ∃ q ∈ scanPre spec.base bm n i src off, ∃ f, lookupId q.1 spec.fields = some f ∧
          lift f q.2 = none ∧ spec.scan bm n i src off tacc = .err [natToDec q.1] := by
  intro n
  induction n with
  | zero =>
    intro i src off acc p h tacc
    simp only [MsgSpec.scan] at h
    cases h
  | succ n ih =>
    intro i src off acc p h tacc
    by_cases hp : bm.isPresenceBit i = true
    · rw [MessageRT.scan_skip spec.base bm n i src off acc (Or.inl hp)] at h
      rw [tscan_skip spec bm n i src off tacc (Or.inl hp),
        scanPre_skip spec.base bm n i src off (Or.inl hp)]
      exact ih (i + 1) src off acc p h tacc
    · have hpf : bm.isPresenceBit i = false := by simpa using hp
      by_cases hs : bm.isSet i = true
      · cases hlk : lookupId i spec.fields with
        | none =>
          have hb : lookupId i spec.base.fields = none := by rw [base_fields, lookup_base, hlk]; rfl
          left
          rw [MsgSpec.scan] at h
          simp only [hpf, hs, hb, Bool.false_eq_true, ite_false, ite_true] at h
          rw [TMsgSpec.scan]
          simp only [hpf, hs, hlk, Bool.false_eq_true, ite_false, ite_true]
          simp only [UR.err.injEq] at h ⊢
          exact h
        | some f =>
          have hb : lookupId i spec.base.fields = some f.base := by rw [base_fields, lookup_base, hlk]; rfl
          by_cases ho : off > src.length
          · rw [MsgSpec.scan] at h
            simp [hpf, hs, hb, ho] at h
          · rw [MessageRT.scan_field spec.base bm n i src off acc f.base hpf hs hb (by omega)] at h
            rw [tscan_field spec bm n i src off tacc f hpf hs hlk (by omega), field_unpack_base,
              scanPre_field spec.base bm n i src off f.base hpf hs hb (by omega)]
            cases hu : f.base.unpack (src.drop off) with
            | err q =>
              left
              simp only [hu, UR.err.injEq] at h ⊢
              exact h
            | panic => simp [hu] at h
            | ok r =>
              obtain ⟨v, read⟩ := r
              simp only [hu] at h ⊢
              cases hv : lift f v with
              | none =>
                right
                exact ⟨(i, v), List.mem_cons_self .., f, hlk, hv, rfl⟩
              | some mv =>
                simp only
                rcases ih (i + 1) src (off + read) (acc ++ [(i, v)]) p h (tacc ++ [(i, mv)]) with h' | h'
                · exact Or.inl h'
                · obtain ⟨q, hq, f', h1, h2, h3⟩ := h'
                  exact Or.inr ⟨q, List.mem_cons_of_mem _ hq, f', h1, h2, h3⟩
      · have hsf : bm.isSet i = false := by simpa using hs
        rw [MessageRT.scan_skip spec.base bm n i src off acc (Or.inr hsf)] at h
        rw [tscan_skip spec bm n i src off tacc (Or.inr hsf),
          scanPre_skip spec.base bm n i src off (Or.inr hsf)]
        exact ih (i + 1) src off acc p h tacc

/-- **a failing base Unpack is simulated**: when Unpack under the base spec (every track
field read as the String primitive of its wire layer) fails with path `p`, Unpack of the
message with track fields either fails with the same path `p`, or fails earlier with the
path `[id]` of a track field that the base Unpack decoded before reaching the failing
element and whose text the track parser rejects. -/
theorem unpack_err_sim (spec : TMsgSpec) (src : Bytes) (p : List Bytes)
    (h : spec.base.unpack src = .err p) :
    spec.unpack src = .err p ∨
    ∃ q ∈ unpackPre spec.base src, ∃ f, lookupId q.1 spec.fields = some f ∧
      lift f q.2 = none ∧ spec.unpack src = .err [natToDec q.1] := by
  cases hm : spec.mti.unpack src with
  | err =>
    have hm' : spec.base.mti.unpack src = .err := hm
    left
    simp only [MsgSpec.unpack, hm'] at h
    simp only [TMsgSpec.unpack, hm]
    simp only [UR.err.injEq] at h ⊢
    exact h
  | panic =>
    have hm' : spec.base.mti.unpack src = .panic := hm
    simp [MsgSpec.unpack, hm'] at h
  | ok r =>
    obtain ⟨v, read⟩ := r
    have hm' : spec.base.mti.unpack src = .ok (v, read) := hm
    by_cases hr : read > src.length
    · simp [MsgSpec.unpack, hm', hr] at h
    · cases hb : Bitmap.unpack spec.bitmap.enc spec.bitmap.pref
          (Bitmap.reset spec.bitmap.specLen spec.bitmap.auto) (src.drop read) with
      | err =>
        have hb' : Bitmap.unpack spec.base.bitmap.enc spec.base.bitmap.pref
          (Bitmap.reset spec.base.bitmap.specLen spec.base.bitmap.auto) (src.drop read) = .err := hb
        left
        simp only [MsgSpec.unpack, hm', hr, ite_false, hb'] at h
        simp only [TMsgSpec.unpack, hm, hr, ite_false, hb]
        simp only [UR.err.injEq] at h ⊢
        exact h
      | panic =>
        have hb' : Bitmap.unpack spec.base.bitmap.enc spec.base.bitmap.pref
          (Bitmap.reset spec.base.bitmap.specLen spec.base.bitmap.auto) (src.drop read) = .panic := hb
        simp [MsgSpec.unpack, hm', hr, hb'] at h
      | ok rb =>
        obtain ⟨bm, bread⟩ := rb
        have hb' : Bitmap.unpack spec.base.bitmap.enc spec.base.bitmap.pref
          (Bitmap.reset spec.base.bitmap.specLen spec.base.bitmap.auto) (src.drop read) = .ok (bm, bread) := hb
        simp only [MsgSpec.unpack, hm', hr, ite_false, hb'] at h
        have hpre : unpackPre spec.base src = scanPre spec.base bm (bm.len - 1) 2 src (read + bread) := by
          simp only [unpackPre, hm', hr, ite_false, hb']
        cases hs : spec.base.scan bm (bm.len - 1) 2 src (read + bread) [] with
        | ok r => simp [hs] at h
        | panic => simp [hs] at h
        | err p' =>
          simp only [hs, UR.err.injEq] at h
          subst h
          rcases scan_err_sim spec bm (bm.len - 1) 2 src (read + bread) [] p' hs [] with h' | h'
          · left
            simp only [TMsgSpec.unpack, hm, hr, ite_false, hb, h']
          · obtain ⟨q, hq, f, h1, h2, h3⟩ := h'
            right
            refine ⟨q, by rw [hpre]; exact hq, f, h1, h2, ?_⟩
            simp only [TMsgSpec.unpack, hm, hr, ite_false, hb, h3]

/-- the conditional form used for truncation: **if the base Unpack fails with path `p` and
every element it decoded before the failing one lifts (for a track field: the parser accepts
the text the wire layer returned), Unpack of the message with track fields fails with the
same path** — in particular with the same head `k` when `p = k :: rest`. -/
theorem unpack_err_of_base (spec : TMsgSpec) (src : Bytes) (p : List Bytes)
    (h : spec.base.unpack src = .err p)
    (hside : ∀ q ∈ unpackPre spec.base src, ∀ f, lookupId q.1 spec.fields = some f → lift f q.2 ≠ none) :
    spec.unpack src = .err p := by
  rcases unpack_err_sim spec src p h with h' | ⟨q, hq, f, h1, h2, _⟩
  · exact h'
  · exact absurd h2 (hside q hq f h1)

/-- the statement of the task, spelled out with head and tail of the path -/
theorem unpack_err_head_of_base (spec : TMsgSpec) (src : Bytes) (k : Bytes) (rest : List Bytes)
    (h : spec.base.unpack src = .err (k :: rest))
    (hside : ∀ q ∈ unpackPre spec.base src, ∀ f, lookupId q.1 spec.fields = some f → lift f q.2 ≠ none) :
    ∃ rest', spec.unpack src = .err (k :: rest') :=
  ⟨rest, unpack_err_of_base spec src _ h hside⟩

/-! ## what the base model decodes from a truncated packed message -/

/-- **the base scan on a truncated body decodes only canonical forms of populated elements**:
every element before the one owning the cut round-trips (with the truncated rest as tail),
the owner sees a strict prefix of its bytes and fails (cf. `MessageRT.scan_truncated`) -/
theorem scanPre_truncated (spec : MsgSpec) (bm : Bitmap) :
    ∀ (remaining i : Nat) (l : List (Nat × Value)) (src : Bytes) (off : Nat) (body : Bytes) (o : Nat),
      Asc l →
      (∀ p ∈ l, i ≤ p.1 ∧ p.1 < i + remaining ∧ bm.isPresenceBit p.1 = false ∧ bm.isSet p.1 = true ∧
        EntryRT spec p ∧ EntryPF spec p) →
      (∀ j, i ≤ j → j < i + remaining → bm.isPresenceBit j = false → bm.isSet j = true →
        ∃ p ∈ l, p.1 = j) →
      C05.packAll spec l = .ok body →
      off ≤ src.length → src.drop off = body.take o →
      ∀ q ∈ scanPre spec bm remaining i src off, q ∈ l.map (MessageRT.canonEntry spec) := by
  intro remaining
  induction remaining with
  | zero =>
    intro i l src off body o _ _ _ _ _ _ q hq
    simp only [scanPre] at hq
    cases hq
  | succ n ih =>
    intro i l src off body o hs hl hbits hpk ho hsrc q hq
    rcases asc_head_cases i l hs (fun p hp => (hl p hp).1) with hgt | ⟨v, l', rfl⟩
    · have hskip : bm.isPresenceBit i = true ∨ bm.isSet i = false := by
        cases hp : bm.isPresenceBit i with
        | true => exact Or.inl rfl
        | false =>
          right
          cases hset : bm.isSet i with
          | false => rfl
          | true =>
            obtain ⟨p, hp1, hp2⟩ := hbits i (Nat.le_refl _) (by omega) hp hset
            have := hgt p hp1
            omega
      rw [scanPre_skip spec bm n i src off hskip] at hq
      refine ih (i + 1) l src off body o hs ?_ ?_ hpk ho hsrc q hq
      · intro p hp
        obtain ⟨_, h2, h3⟩ := hl p hp
        exact ⟨hgt p hp, by omega, h3⟩
      · intro j hj1 hj2 hj3 hj4
        exact hbits j (by omega) (by omega) hj3 hj4
    · obtain ⟨_, _, hp, hset, ⟨f, hlk, hrt⟩, hpf⟩ := hl (i, v) (by simp)
      obtain ⟨f', b, more, hlk', hpb, hmore, rfl⟩ := packAll_cons_ok spec i v l' body hpk
      simp only at hlk
      rw [hlk] at hlk'
      simp only [Option.some.injEq] at hlk'
      subst hlk'
      rw [scanPre_field spec bm n i src off f hp hset hlk ho, hsrc] at hq
      by_cases hlt : o < b.length
      · obtain ⟨q', hq'⟩ := hpf f hlk b o hpb hlt
        rw [List.take_append_of_le_length (by omega), hq'] at hq
        cases hq
      · rw [List.take_append, List.take_of_length_le (by omega),
          (hrt b (more.take (o - b.length)) hpb).1] at hq
        simp only [List.mem_cons] at hq
        rcases hq with rfl | hq
        · simp only [List.map_cons, MessageRT.canonEntry, hlk]
          exact List.mem_cons_self ..
        · have hs' := List.pairwise_cons.mp hs
          have hlen : (src.drop off).length = ((b ++ more).take o).length := by rw [hsrc]
          simp only [List.length_drop, List.length_append, List.length_take] at hlen
          rw [List.map_cons]
          refine List.mem_cons_of_mem _ (ih (i + 1) l' src (off + b.length) more (o - b.length) hs'.2 ?_ ?_ hmore
            (by omega) ?_ q hq)
          · intro p hp'
            obtain ⟨_, h2, h3⟩ := hl p (List.mem_cons_of_mem _ hp')
            have := hs'.1 p hp'
            simp only at this
            exact ⟨by omega, by omega, h3⟩
          · intro j hj1 hj2 hj3 hj4
            obtain ⟨p, hp1, hp2⟩ := hbits j (by omega) (by omega) hj3 hj4
            rcases List.mem_cons.mp hp1 with rfl | hp1
            · simp only at hp2; omega
            · exact ⟨p, hp1, hp2⟩
          · rw [← List.drop_drop, hsrc, List.take_append, List.take_of_length_le (by omega),
              List.drop_left]

/-- **what the base Unpack decodes from a truncated packed message**: for a coherent spec and
in-domain content whose packed bytes are a Go slice, every data element that Unpack of
`bs.take o` decodes before it fails is the canonical form of a populated element of `m`
(same structure as `MessageRT.message_truncationB_of_fields`) -/
theorem unpackPre_truncated (spec : MsgSpec) (m : Msg) (bs : Bytes) (o : Nat)
    (hc : spec.coherent = true) (hd : spec.inDomain m = true) (hp : spec.pack m = .ok bs)
    (hlen : bs.length ≤ maxInt) (ho : o < bs.length) :
    ∀ q ∈ unpackPre spec (bs.take o), ∃ p ∈ m.fields, q = MessageRT.canonEntry spec p := by
  have hmti : FieldRT.FieldRoundTripB (.prim spec.mti) false :=
    FieldRT.field_roundtrip C01.prim_field_roundtrip _ false
  have hmtiPF : FieldPrefix.FieldPrefixFailsB (.prim spec.mti) :=
    FieldPrefix.field_prefix_failsB C19.prim_prefix_fails _
  have hf : ∀ id f, (id, f) ∈ spec.fields → FieldRT.FieldRoundTripB f false :=
    fun _ f _ => FieldRT.field_roundtrip C01.prim_field_roundtrip f false
  have hpf : ∀ id f, (id, f) ∈ spec.fields → FieldPrefix.FieldPrefixFailsB f :=
    fun _ f _ => FieldPrefix.field_prefix_failsB C19.prim_prefix_fails f
  obtain ⟨cmti, ⟨fam, hpref⟩, henc, _, hfields⟩ := coherent_facts spec hc
  have hent := entry_factsB spec m bs hc hd hp hlen hf
  obtain ⟨hfle, hmle⟩ := packed_field_le spec m bs hc hd hp
  have hd' := hd
  simp only [MsgSpec.inDomain, Bool.and_eq_true, List.all_eq_true] at hd'
  obtain ⟨⟨hdm, hdd⟩, hdf⟩ := hd'
  cases hm : m.mti with
  | none => rw [hm] at hdm; cases hdm
  | some v =>
    rw [hm] at hdm
    simp only at hdm
    obtain ⟨bm, mb, bb, fb, hsb, hmb, hbb, hfb, rfl⟩ := pack_inv spec m v bs hm hp
    obtain ⟨hbits, _, hinv, hbl, hau⟩ := C05.setBits_bits_eq_present _ _ _ bm hsb
    have hasc : Asc (sortBy idLess m.fields) := sortBy_sorted m.fields hdd
    have hmem : ∀ p, p ∈ sortBy idLess m.fields ↔ p ∈ m.fields := fun p => mem_sortBy _ p _
    have hnp : ∀ p ∈ sortBy idLess m.fields, bm.isPresenceBit p.1 = false := by
      intro p hp'
      apply not_presence
      rw [hbl, hau]
      exact (hent p ((hmem p).mp hp')).2.1
    have hnp0 : ∀ p ∈ sortBy idLess m.fields,
        (reset spec.bitmap.specLen spec.bitmap.auto).isPresenceBit p.1 = false := by
      intro p hp'
      rw [← C05.isPresenceBit_congr bm _ (by rw [hbl]; rfl) (by rw [hau]; rfl)]
      exact hnp p hp'
    rw [packFields_no_presence spec bm _ hnp] at hfb
    have hmpk : (Field.prim spec.mti).pack v = .ok mb := by rw [prim_pack_eq]; exact hmb
    intro q hq
    by_cases h0 : o < mb.length
    · -- the cut is inside the MTI: nothing is decoded
      obtain ⟨q', hq'⟩ := hmtiPF v mb o cmti hdm hmpk (Nat.le_trans (hmle v mb hm hmb) hlen) h0
      have := prim_unpack_err hq'
      rw [List.append_assoc, List.take_append_of_le_length (by omega)] at hq
      simp only [unpackPre, this] at hq
      cases hq
    · have hmu : ∀ tail, spec.mti.unpack (mb ++ tail) = .ok (spec.mti.canon v, mb.length) := by
        intro tail
        have := (hmti v tail mb cmti hdm hmpk (Nat.le_trans (hmle v mb hm hmb) hlen) (tailOK_of_coherent _ _ cmti)).1
        have := prim_unpack_ok this
        rw [prim_canon_eq] at this
        exact this
      have hnr : ∀ tail : Bytes, ¬ mb.length > (mb ++ tail).length := by
        intro tail; simp only [List.length_append]; omega
      by_cases h1 : o - mb.length < bb.length
      · -- the cut is inside the bitmap: nothing is decoded
        have hb := bitmap_prefix_fails spec.bitmap.enc henc fam spec.bitmap.specLen spec.bitmap.auto _ bm bb
          (o - mb.length) hsb hbb h1
        rw [List.append_assoc, List.take_append, List.take_of_length_le (by omega),
          List.take_append_of_le_length (by omega)] at hq
        simp only [unpackPre, hmu, hnr, ite_false, List.drop_left, hpref, hb] at hq
        cases hq
      · -- the cut is inside the body
        simp only [List.length_append] at ho
        have hsplit : (mb ++ bb ++ fb).take o = mb ++ (bb ++ fb.take (o - mb.length - bb.length)) := by
          rw [List.append_assoc, List.take_append, List.take_of_length_le (by omega), List.take_append,
            List.take_of_length_le (by omega)]
        have hbu := bitmap_roundtrip spec.bitmap.enc henc fam spec.bitmap.specLen spec.bitmap.auto _ bm bb
          (fb.take (o - mb.length - bb.length)) hsb hbb
        rw [hsplit] at hq
        simp only [unpackPre, hmu, hnr, ite_false, List.drop_left, hpref, hbu] at hq
        have := scanPre_truncated spec bm (bm.len - 1) 2 (sortBy idLess m.fields)
          (mb ++ (bb ++ fb.take (o - mb.length - bb.length))) (mb.length + bb.length) fb
          (o - mb.length - bb.length) hasc
          (by
            intro p hp'
            have hpm := (hmem p).mp hp'
            obtain ⟨h2, _, hrt⟩ := hent p hpm
            have hset : bm.isSet p.1 = true :=
              (hbits p.1 (hnp0 p hp')).mpr ⟨List.mem_map.mpr ⟨p, hp', rfl⟩, h2⟩
            have := (isSet_bounds bm p.1 hset).2
            refine ⟨h2, by omega, hnp p hp', hset, hrt, ?_⟩
            intro f hlk bs' o' hpk' ho'
            have hmemf := lookupId_mem p.1 spec.fields f hlk
            have hdp := hdf p hpm
            rw [hlk] at hdp
            exact hpf p.1 f hmemf p.2 bs' o' (hfields p.1 f hmemf).2.2 hdp hpk'
              (Nat.le_trans (hfle p hpm f bs' hlk hpk') hlen) ho')
          (by
            intro j _ _ hj3 hj4
            have hj3' : (reset spec.bitmap.specLen spec.bitmap.auto).isPresenceBit j = false := by
              rw [← C05.isPresenceBit_congr bm _ (by rw [hbl]; rfl) (by rw [hau]; rfl)]; exact hj3
            obtain ⟨h1', _⟩ := (hbits j hj3').mp hj4
            obtain ⟨p, hp1, hp2⟩ := List.mem_map.mp h1'
            exact ⟨p, hp1, hp2⟩)
          hfb
          (by simp only [List.length_append]; omega)
          (by rw [← List.drop_drop, List.drop_left, List.drop_left])
          q hq
        obtain ⟨p, hp1, hp2⟩ := List.mem_map.mp this
        exact ⟨p, (hmem p).mp hp1, hp2.symm⟩

/-! ## (2) truncation attribution for messages with track fields -/

/-- the side condition of `unpack_err_of_base` on a truncated packed message: every element
the base Unpack decodes before the failing one is the packed text of an in-domain value in
canonical form, which the parser of a fresh track object accepts (`lift_canon`, i.e.
`TrackVal.unpackRaw_packText`) -/
theorem truncated_lifts (spec : TMsgSpec) (m : TMsg) (bs : Bytes) (o : Nat)
    (hc : spec.coherent = true) (hd : spec.inDomain m = true) (hpb : spec.base.pack m.textify = .ok bs)
    (hlen : bs.length ≤ maxInt) (ho : o < bs.length) :
    ∀ q ∈ unpackPre spec.base (bs.take o), ∀ f, lookupId q.1 spec.fields = some f → lift f q.2 ≠ none := by
  obtain ⟨hbd, hall⟩ := inDomain_entries spec m hd
  intro q hq f hlf
  obtain ⟨p, hp, rfl⟩ := unpackPre_truncated spec.base m.textify bs o hc hbd hpb hlen ho q hq
  rw [textify_fields] at hp
  obtain ⟨p', hp', rfl⟩ := List.mem_map.mp hp
  obtain ⟨f', hl', hd'⟩ := hall p' hp'
  have hb : lookupId p'.1 spec.base.fields = some f'.base := by rw [base_fields, lookup_base, hl']; rfl
  have hce : MessageRT.canonEntry spec.base (tx p') = (p'.1, (f'.canon p'.2).textify) := by
    simp only [MessageRT.canonEntry, tx, hb,
      field_canon_base f' p'.2 (coherent_entry spec hc p'.1 f' hl') hd']
  rw [hce] at hlf ⊢
  simp only at hlf ⊢
  rw [hl'] at hlf
  simp only [Option.some.injEq] at hlf
  subst hlf
  rw [lift_canon f' p'.2 hd']
  simp

/-- **C19 for messages with track fields** (the property at full strength): for every
coherent spec (`TMsgSpec.coherent`), every in-domain content (`TMsgSpec.inDomain`) on which
Pack succeeds with bytes that are a Go slice, and every cut `o` inside the packed bytes: the
cut lies in the byte range of an element `k` of the layout (0 = MTI, 1 = bitmap, then the
populated data elements ascending — a track element's segment is its packed text behind its
length prefix, exactly what Pack emitted for it), and Unpack of the first `o` bytes into a
new message fails with a field-id path whose head is `k`. -/
theorem tmsg_truncation_attribution (spec : TMsgSpec) (m : TMsg) (bs : Bytes) (o : Nat)
    (hc : spec.coherent = true) (hd : spec.inDomain m = true) (hp : spec.pack m = .ok bs)
    (hlen : bs.length ≤ maxInt) (ho : o < bs.length) :
    ∃ k rest, ownerAt (layout spec.base m.textify) o = some k ∧
      spec.unpack (bs.take o) = .err (natToDec k :: rest) := by
  obtain ⟨hbd, hall⟩ := inDomain_entries spec m hd
  have hw : WellSorted spec m.fields := by
    intro p hp' f hl
    obtain ⟨f', hl', hd'⟩ := hall p hp'
    rw [hl] at hl'
    simp only [Option.some.injEq] at hl'
    subst hl'
    exact sortOK_of_inDomain f p.2 hd'
  have hpb : spec.base.pack m.textify = .ok bs := by rw [← tpack_eq_base spec m hw]; exact hp
  obtain ⟨k, rest, hk, hu⟩ := C19.truncation_attribution_all spec.base m.textify bs o hc hbd hpb hlen ho
  exact ⟨k, rest, hk, unpack_err_of_base spec (bs.take o) _ hu (truncated_lifts spec m bs o hc hd hpb hlen ho)⟩

/-- the bytes of the layout are the packed message (so `ownerAt` speaks about `bs`) -/
theorem tmsg_packed_is_layout (spec : TMsgSpec) (m : TMsg) (bs : Bytes)
    (hd : spec.inDomain m = true) (hp : spec.pack m = .ok bs) :
    flat (layout spec.base m.textify) = bs := by
  obtain ⟨_, hall⟩ := inDomain_entries spec m hd
  have hw : WellSorted spec m.fields := by
    intro p hp' f hl
    obtain ⟨f', hl', hd'⟩ := hall p hp'
    rw [hl] at hl'
    simp only [Option.some.injEq] at hl'
    subst hl'
    exact sortOK_of_inDomain f p.2 hd'
  exact pack_layout spec.base m.textify bs (by rw [← tpack_eq_base spec m hw]; exact hp)

/-! ## Non-vacuity: the demo message of C01TrackMsg, truncated -/

def errHd {α : Type} : UR α → Option Bytes
  | .err (k :: _) => some k
  | _ => none

def errPath {α : Type} : UR α → Option (List Bytes)
  | .err p => some p
  | _ => none

/-- the layout of the demo message: MTI 4 bytes, bitmap 8, field 2 6, field 35 (Track2) 29,
field 45 (Track1) 29 -/
example : (layout C01TrackMsg.demoSpec.base C01TrackMsg.demoMsg.textify).map (fun s => (s.1, s.2.length)) =
    [(0, 4), (1, 8), (2, 6), (35, 29), (45, 29)] := by decide

/-- a cut inside field 2 (offsets 12 … 17) -/
example : ownerAt (layout C01TrackMsg.demoSpec.base C01TrackMsg.demoMsg.textify) 15 = some 2 ∧
    errHd (C01TrackMsg.demoSpec.unpack (C01TrackMsg.demoBytes.take 15)) = some (natToDec 2) ∧ natToDec 2 = [50] := by decide

/-- a cut inside the Track2 element, field 35 (offsets 18 … 46) -/
example : ownerAt (layout C01TrackMsg.demoSpec.base C01TrackMsg.demoMsg.textify) 30 = some 35 ∧
    errHd (C01TrackMsg.demoSpec.unpack (C01TrackMsg.demoBytes.take 30)) = some (natToDec 35) ∧ natToDec 35 = [51, 53] := by decide

/-- a cut inside the Track1 element, field 45: fields 2 and 35 before it are decoded (the
Track2 parser accepts the complete text), the failure is attributed to 45 -/
example : ownerAt (layout C01TrackMsg.demoSpec.base C01TrackMsg.demoMsg.textify) 60 = some 45 ∧
    errPath (C01TrackMsg.demoSpec.unpack (C01TrackMsg.demoBytes.take 60)) = some [natToDec 45] := by decide

/-- the theorem applies to the demo message, at every cut -/
example (o : Nat) (ho : o < 76) :
    ∃ k rest, ownerAt (layout C01TrackMsg.demoSpec.base C01TrackMsg.demoMsg.textify) o = some k ∧
      C01TrackMsg.demoSpec.unpack (C01TrackMsg.demoBytes.take o) = .err (natToDec k :: rest) :=
  tmsg_truncation_attribution C01TrackMsg.demoSpec C01TrackMsg.demoMsg C01TrackMsg.demoBytes o (by decide) (by decide) (by decide) (by decide) ho

/-- the side condition of the simulation is needed: a complete Track2 element whose text
the parser rejects ("12" is not a track), followed by a truncated field 45 — the base Unpack
blames 45, the Unpack with track fields stops at 35 -/
example :
    errHd (C01TrackMsg.demoSpec.base.unpack ([48,49,48,48, 0,0,0,0,32,8,0,0, 48,50, 49,50, 50,55, 66])) = some (natToDec 45) ∧
    errHd (C01TrackMsg.demoSpec.unpack ([48,49,48,48, 0,0,0,0,32,8,0,0, 48,50, 49,50, 50,55, 66])) = some (natToDec 35) := by
  decide

end Iso8583.C19TrackMsg
