/-
C08, decision logic tied by TRANSLATION: the two integer conditions under which
`Composite.Unpack` rejects its input — the announced length is negative or exceeds the bytes that
remain after the length prefix; the subfields consumed another number of bytes than announced —
rendered from /repo/field/composite.go on every run (`Gen/GuardsComposite.lean`), are the model's.
-/
import Iso8583.Gen.GuardsComposite
import Iso8583.Model.Field
import Iso8583.Lemmas.GuardTactics

namespace Iso8583.GuardsComposite
open Iso8583 Iso8583.Gen.Guards

/-- the source's two conditions as one proposition (over `Int`: `len(data)-offset` may be negative) -/
theorem composite_guards_iff (dataLen offset dlen read : Int) :
    (composite_Unpack_guards dataLen offset dlen read).any id = true ↔
      (dataLen < 0 ∨ dataLen > dlen - offset ∨ dataLen ≠ read) := by
  unfold composite_Unpack_guards; guards_to_prop <;> guards_done

/-- the announced length exceeds what remains after the prefix ⇒ rejected (no subfield is read) -/
theorem composite_unpack_bound_guarded (s : CompSpec) (subs : List (Tag × Field)) (data : Bytes)
    (dataLen offset : Nat) (hd : s.pref.decodeLength s.len data = .ok (dataLen, offset))
    (ho : ¬ offset > data.length)
    (hg : (composite_Unpack_guards dataLen offset data.length dataLen).any id = true) :
    Field.unpack (.comp s subs) data = .err [] := by
  have h := (composite_guards_iff _ _ _ _).mp hg
  have hgt : dataLen > data.length - offset := by omega
  simp only [Field.unpack, hd, ho, if_false, hgt, if_true]

/-- whatever `Composite.Unpack` accepts passed both conditions of the source: the announced
length fits the remaining bytes and equals the number of bytes the subfields consumed -/
theorem composite_unpack_ok_guards_false (s : CompSpec) (subs : List (Tag × Field)) (data : Bytes)
    (v : Value) (n : Nat) (h : Field.unpack (.comp s subs) data = .ok (v, n)) :
    ∃ dataLen offset read, s.pref.decodeLength s.len data = .ok (dataLen, offset) ∧ n = offset + read ∧
      (composite_Unpack_guards dataLen offset data.length read).any id = false := by
  simp only [Field.unpack] at h
  split at h
  · cases h
  · cases h
  · rename_i dataLen offset hd
    split at h
    · cases h
    · rename_i ho
      split at h
      · cases h
      · rename_i hfit
        split at h
        · cases h
        · cases h
        · rename_i vals read hres
          split at h
          · cases h
          · rename_i heq
            simp only [UR.ok.injEq, Prod.mk.injEq] at h
            refine ⟨dataLen, offset, read, hd, h.2.symm, ?_⟩
            have heq' : dataLen = read := by simpa using heq
            have hno : ¬ ((composite_Unpack_guards dataLen offset data.length read).any id = true) := by
              intro hh
              have := (composite_guards_iff _ _ _ _).mp hh
              omega
            simpa using hno

example : (composite_Unpack_guards 5 2 6 5).any id = true ∧ (composite_Unpack_guards 4 2 6 4).any id = false ∧
    (composite_Unpack_guards 4 2 6 3).any id = true := by decide

end Iso8583.GuardsComposite
