/-
C01 for messages that contain track fields (field.Track1 / Track2 / Track3): Pack then
Unpack reproduces the message. Model: Model/TrackMessage.lean (`TMsgSpec`, `TMsg`).

The proof reduces the new model to the message model without track fields:

  * `tpack_eq_base`: packing a message is packing its textified content (every track value
    replaced by its packed text) under the base spec (every track field replaced by the
    String primitive of its wire layer);
  * `scan_sim`: the scan of `unpack` simulates the base scan — when the base scan succeeds
    and the track parsers accept every text it produced, the scan succeeds with the parsed
    values and the same offset;
  * `C01.pack_unpack` on the base spec, `TrackVal.unpackRaw_packText`, `packText_ne_nil`,
    `packText_canon` for the track texts.

`tmsg_pack_unpack` is the property at full strength: no hypothesis beyond `coherent`,
`inDomain`, `pack = ok` and "the packed bytes are a Go slice".
-/
import Iso8583.Props.C01
import Iso8583.Props.C01Tracks
import Iso8583.Model.TrackMessage

set_option linter.unusedSimpArgs false
set_option linter.unusedVariables false

namespace Iso8583.C01TrackMsg
open Iso8583 TrackLemmas

/-! ## insertion sort and maps that keep the key -/

theorem insertSorted_map {α β : Type} (g : α → β) (less : α → α → Bool) (less' : β → β → Bool)
    (h : ∀ a b, less' (g a) (g b) = less a b) (x : α) :
    ∀ l : List α, insertSorted less' (g x) (l.map g) = (insertSorted less x l).map g := by
  intro l
  induction l with
  | nil => rfl
  | cons z zs ih =>
    simp only [List.map_cons, insertSorted, h]
    split
    · rfl
    · simp only [List.map_cons, ih]

theorem sortBy_map {α β : Type} (g : α → β) (less : α → α → Bool) (less' : β → β → Bool)
    (h : ∀ a b, less' (g a) (g b) = less a b) :
    ∀ l : List α, sortBy less' (l.map g) = (sortBy less l).map g := by
  intro l
  induction l with
  | nil => rfl
  | cons x xs ih => simp only [List.map_cons, sortBy, ih, insertSorted_map g less less' h]

theorem mem_sortBy {α : Type} (less : α → α → Bool) (l : List α) (y : α) : y ∈ sortBy less l ↔ y ∈ l :=
  (MessageRT.sortBy_perm less l).mem_iff

/-! ## the reduction maps on entries -/

/-- a content entry with its value textified -/
def tx (p : Nat × MValue) : Nat × Value := (p.1, p.2.textify)

/-- a spec entry with its field replaced by the base field -/
def bf (p : Nat × MField) : Nat × Field := (p.1, p.2.base)

theorem textify_fields (m : TMsg) : m.textify.fields = m.fields.map tx := rfl
theorem textify_mti (m : TMsg) : m.textify.mti = m.mti := rfl
theorem base_fields (spec : TMsgSpec) : spec.base.fields = spec.fields.map bf := rfl

theorem map_tx_fst (l : List (Nat × MValue)) : (l.map tx).map (·.1) = l.map (·.1) := by
  induction l with
  | nil => rfl
  | cons p ps ih => simp only [List.map_cons, ih, tx]

theorem sort_tx (l : List (Nat × MValue)) :
    sortBy (fun a b => decide (a.1 < b.1)) (l.map tx) = (sortBy (fun a b => decide (a.1 < b.1)) l).map tx :=
  sortBy_map tx _ _ (fun _ _ => rfl) l

theorem lookup_base (i : Nat) (l : List (Nat × MField)) :
    lookupId i (l.map bf) = (lookupId i l).map MField.base := by
  induction l with
  | nil => rfl
  | cons p ps ih =>
    obtain ⟨k, f⟩ := p
    simp only [List.map_cons, bf, lookupId]
    split
    · rfl
    · exact ih

/-! ## Pack -/

/-- the value has the sort (ordinary / track) of the field -/
def sortOK : MField → MValue → Bool
  | .plain _, .plain _ => true
  | .track _, .track _ => true
  | _, _ => false

/-- every value whose id is declared has the sort of its field -/
def WellSorted (spec : TMsgSpec) (l : List (Nat × MValue)) : Prop :=
  ∀ p ∈ l, ∀ f, lookupId p.1 spec.fields = some f → sortOK f p.2 = true

/-- `Pack` of a track field is `Pack` of the String primitive on the packed text -/
theorem track_pack_base (s : TrackSpec) (v : TrackVal) :
    (Field.prim s.prim).pack (.str v.packText) = s.pack v := by
  rw [MessageRT.prim_pack_eq]
  simp only [PrimSpec.pack, PrimSpec.valueBytes, TrackSpec.prim, TrackSpec.pack]

theorem field_pack_base (f : MField) (v : MValue) (h : sortOK f v = true) :
    f.pack v = f.base.pack v.textify := by
  cases f with
  | plain f =>
    cases v with
    | plain v => rfl
    | track v => simp [sortOK] at h
  | track s =>
    cases v with
    | plain v => simp [sortOK] at h
    | track v =>
      simp only [MField.pack, MField.base, MValue.textify]
      exact (track_pack_base s v).symm

theorem packFields_eq_base (spec : TMsgSpec) (bm : Bitmap) :
    ∀ l : List (Nat × MValue), WellSorted spec l →
      spec.packFields bm l = spec.base.packFields bm (l.map tx) := by
  intro l
  induction l with
  | nil => intro _; rfl
  | cons p ps ih =>
    intro hw
    obtain ⟨i, v⟩ := p
    have hps : WellSorted spec ps := fun q hq => hw q (List.mem_cons_of_mem _ hq)
    have ih' := ih hps
    simp only [List.map_cons, tx, TMsgSpec.packFields, MsgSpec.packFields, base_fields, lookup_base]
    rw [← ih']
    by_cases hp : bm.isPresenceBit i = true
    · simp only [hp, ite_true]
    · simp only [hp, ite_false, Bool.false_eq_true]
      cases hl : lookupId i spec.fields with
      | none => rfl
      | some f =>
        have hs := hw (i, v) (List.mem_cons_self ..) f hl
        simp only [Option.map_some, field_pack_base f v hs]
        rfl

/-- **Pack reduces to the base model**: for well-sorted content, packing the message is
packing the textified content under the base spec. -/
theorem tpack_eq_base (spec : TMsgSpec) (m : TMsg) (hw : WellSorted spec m.fields) :
    spec.pack m = spec.base.pack m.textify := by
  have hws : WellSorted spec (sortBy (fun a b => decide (a.1 < b.1)) m.fields) :=
    fun p hp => hw p ((mem_sortBy _ _ p).mp hp)
  simp only [TMsgSpec.pack, MsgSpec.pack, textify_fields, textify_mti, sort_tx, map_tx_fst,
    packFields_eq_base spec _ _ hws]
  rfl

/-! ## Unpack of one field -/

/-- what `Unpack` of the field stores for the value `v` that the base field unpacked: an
ordinary field stores `v` itself; a track field hands the text its wire layer returned to
its parser (`none` = the parser rejects it), an empty text clears the components -/
def lift : MField → Value → Option MValue
  | .plain _, v => some (.plain v)
  | .track s, .str raw =>
    if raw.isEmpty then some (.track s.fresh.cleared)
    else match s.fresh.unpackRaw raw with
      | (new, true) => some (.track new)
      | (_, false) => none
  | .track _, _ => none

/-- **Unpack of a field is Unpack of the base field followed by `lift`** -/
theorem field_unpack_base (f : MField) (data : Bytes) :
    f.unpack data =
      match f.base.unpack data with
      | .ok (v, r) => (match lift f v with | some mv => .ok (mv, r) | none => .err [])
      | .err p => .err p
      | .panic => .panic := by
  cases f with
  | plain f =>
    simp only [MField.unpack, MField.base, lift]
    cases f.unpack data with
    | ok r => rfl
    | err p => rfl
    | panic => rfl
  | track s =>
    simp only [MField.unpack, MField.base, Field.unpack, PrimSpec.unpack, TrackSpec.unpack]
    cases hu : s.prim.unpackBytes data with
    | err => rfl
    | panic => rfl
    | ok r =>
      obtain ⟨raw, read⟩ := r
      have hk : s.prim.kind = .string := rfl
      simp only [PrimSpec.setBytes, hk, lift]
      by_cases he : raw.isEmpty = true
      · simp only [he, ite_true]
      · simp only [he, ite_false]
        cases hr : s.fresh.unpackRaw raw with
        | mk new b => cases b <;> rfl

/-! ## The scan -/

/-- `lift` over a list of unpacked entries: every id is declared and every value lifts -/
def liftAll (fields : List (Nat × MField)) : List (Nat × Value) → Option (List (Nat × MValue))
  | [] => some []
  | (i, v) :: rest =>
    match lookupId i fields with
    | none => none
    | some f =>
      match lift f v with
      | none => none
      | some mv =>
        match liftAll fields rest with
        | none => none
        | some r => some ((i, mv) :: r)

theorem liftAll_cons (fields : List (Nat × MField)) (i : Nat) (v : Value) (rest : List (Nat × Value))
    (t : List (Nat × MValue)) (h : liftAll fields ((i, v) :: rest) = some t) :
    ∃ f mv r, lookupId i fields = some f ∧ lift f v = some mv ∧ liftAll fields rest = some r ∧
      t = (i, mv) :: r := by
  simp only [liftAll] at h
  cases hl : lookupId i fields with
  | none => simp [hl] at h
  | some f =>
    cases hv : lift f v with
    | none => simp [hl, hv] at h
    | some mv =>
      cases hr : liftAll fields rest with
      | none => simp [hl, hv, hr] at h
      | some r =>
        simp only [hl, hv, hr, Option.some.injEq] at h
        exact ⟨f, mv, r, rfl, hv, rfl, h.symm⟩

theorem tscan_skip (spec : TMsgSpec) (bm : Bitmap) (n i : Nat) (src : Bytes) (off : Nat)
    (acc : List (Nat × MValue)) (h : bm.isPresenceBit i = true ∨ bm.isSet i = false) :
    spec.scan bm (n + 1) i src off acc = spec.scan bm n (i + 1) src off acc := by
  rw [TMsgSpec.scan]
  rcases h with h | h
  · simp only [h, ite_true]
  · cases hp : bm.isPresenceBit i with
    | true => simp only [ite_true]
    | false => simp only [h, Bool.false_eq_true, ite_false]

theorem tscan_field (spec : TMsgSpec) (bm : Bitmap) (n i : Nat) (src : Bytes) (off : Nat)
    (acc : List (Nat × MValue)) (f : MField) (hp : bm.isPresenceBit i = false) (hs : bm.isSet i = true)
    (hl : lookupId i spec.fields = some f) (ho : off ≤ src.length) :
    spec.scan bm (n + 1) i src off acc =
      match f.unpack (src.drop off) with
      | .err p => .err (natToDec i :: p)
      | .panic => .panic
      | .ok (v, read) => spec.scan bm n (i + 1) src (off + read) (acc ++ [(i, v)]) := by
  rw [TMsgSpec.scan]
  have : ¬ off > src.length := by omega
  simp only [hp, hs, hl, this, Bool.false_eq_true, ite_false, ite_true]
  cases f.unpack (src.drop off) with
  | err p => rfl
  | panic => rfl
  | ok r => rfl

/-- **The scan simulates the base scan**: if the base scan succeeds, adding the entries `new`
to its accumulator, and every one of them lifts (its id is declared; for a track field the
parser accepts the text the wire layer returned), then the scan succeeds from the same
offset with any accumulator, adds the lifted entries and stops at the same offset. -/
theorem scan_sim (spec : TMsgSpec) (bm : Bitmap) :
    ∀ (n i : Nat) (src : Bytes) (off : Nat) (acc new : List (Nat × Value)) (off' : Nat),
      spec.base.scan bm n i src off acc = .ok (acc ++ new, off') →
      ∀ tnew, liftAll spec.fields new = some tnew →
      ∀ tacc : List (Nat × MValue), spec.scan bm n i src off tacc = .ok (tacc ++ tnew, off') := by
  intro n
  induction n with
  | zero =>
    intro i src off acc new off' h tnew hl tacc
    simp only [MsgSpec.scan, UR.ok.injEq, Prod.mk.injEq] at h
    obtain ⟨h1, rfl⟩ := h
    have hn : new = [] := by
      have : (acc ++ new).length = acc.length := by rw [← h1]
      simp only [List.length_append] at this
      exact List.eq_nil_of_length_eq_zero (by omega)
    subst hn
    simp only [liftAll, Option.some.injEq] at hl
    subst hl
    simp only [TMsgSpec.scan, List.append_nil]
  | succ n ih =>
    intro i src off acc new off' h tnew hl tacc
    by_cases hp : bm.isPresenceBit i = true
    · rw [MessageRT.scan_skip spec.base bm n i src off acc (Or.inl hp)] at h
      rw [tscan_skip spec bm n i src off tacc (Or.inl hp)]
      exact ih (i + 1) src off acc new off' h tnew hl tacc
    · have hpf : bm.isPresenceBit i = false := by simpa using hp
      by_cases hs : bm.isSet i = true
      · cases hlk : lookupId i spec.fields with
        | none =>
          have hb : lookupId i spec.base.fields = none := by rw [base_fields, lookup_base, hlk]; rfl
          rw [MsgSpec.scan] at h
          simp [hpf, hs, hb] at h
        | some f =>
          have hb : lookupId i spec.base.fields = some f.base := by rw [base_fields, lookup_base, hlk]; rfl
          by_cases ho : off > src.length
          · rw [MsgSpec.scan] at h
            simp [hpf, hs, hb, ho] at h
          · rw [MessageRT.scan_field spec.base bm n i src off acc f.base hpf hs hb (by omega)] at h
            rw [tscan_field spec bm n i src off tacc f hpf hs hlk (by omega), field_unpack_base]
            cases hu : f.base.unpack (src.drop off) with
            | err q => simp [hu] at h
            | panic => simp [hu] at h
            | ok r =>
              obtain ⟨v, read⟩ := r
              simp only [hu] at h ⊢
              obtain ⟨new', hn, _⟩ := Scan.scan_ok_only_set_bits spec.base bm n (i + 1) src (off + read) _ _ off' h
              have hnew : new = (i, v) :: new' := by
                rw [List.append_assoc] at hn
                exact List.append_cancel_left hn
              subst hnew
              obtain ⟨f', mv, r, h1, h2, h3, rfl⟩ := liftAll_cons spec.fields i v new' tnew hl
              rw [hlk] at h1
              simp only [Option.some.injEq] at h1
              subst h1
              simp only [h2]
              have h' : spec.base.scan bm n (i + 1) src (off + read) (acc ++ [(i, v)]) =
                  .ok ((acc ++ [(i, v)]) ++ new', off') := by
                rw [h]; simp only [List.append_assoc, List.singleton_append]
              have := ih (i + 1) src (off + read) (acc ++ [(i, v)]) new' off' h' r h3 (tacc ++ [(i, mv)])
              rw [this]
              simp only [List.append_assoc, List.singleton_append]
      · have hsf : bm.isSet i = false := by simpa using hs
        rw [MessageRT.scan_skip spec.base bm n i src off acc (Or.inr hsf)] at h
        rw [tscan_skip spec bm n i src off tacc (Or.inr hsf)]
        exact ih (i + 1) src off acc new off' h tnew hl tacc

/-! ## One field: canonical forms and what the parser stores -/

theorem sortOK_of_inDomain (f : MField) (v : MValue) (h : f.inDomain v = true) : sortOK f v = true := by
  cases f <;> cases v <;> first | rfl | simp [MField.inDomain] at h

theorem sortOK_canon (f : MField) (v : MValue) : sortOK f (f.canon v) = sortOK f v := by
  cases f <;> cases v <;> rfl

/-- the packed text of an in-domain track value is its own canonical form as a value of the
String primitive of the wire layer -/
theorem track_text_canon (s : TrackSpec) (v : TrackVal) (hc : s.prim.coherent false = true)
    (hd : s.inDomain v = true) : s.prim.canon (.str v.packText) = .str v.packText := by
  simp only [TrackSpec.inDomain, Bool.and_eq_true, bne_iff_ne, ne_eq] at hd
  obtain ⟨⟨⟨⟨_, _⟩, hfd⟩, hhex⟩, hcanon⟩ := hd
  have hhex' : (s.prim.enc == Enc.hexToBytes) = false := by
    simp only [TrackSpec.prim, beq_eq_false_iff_ne, ne_eq]; exact hhex
  simp only [PrimSpec.canon, hhex', Bool.false_eq_true, ite_false, Value.str.injEq]
  cases hpk : s.packer with
  | default =>
    simp only [hpk, beq_iff_eq] at hcanon
    exact hcanon
  | track2 =>
    have hpk' : s.prim.packer = .track2 := hpk
    obtain ⟨_, _, _, ht2⟩ := PrimSpec.inDomain_str hfd
    obtain ⟨_, hedge⟩ := ht2 hpk'
    obtain ⟨_, c, hch⟩ := coh_track2 hc hpk'
    rcases char?_some hch with h | h
    · rw [h] at hedge ⊢
      exact C20.unpad_pad_left c _ _ (fun x hx hxc => hedge (by rw [hx, hxc]))
    · rw [h] at hedge ⊢
      exact C20.unpad_pad_right c _ _ (fun x hx hxc => hedge (by rw [hx, hxc]))

/-- canonical forms commute with the reduction -/
theorem field_canon_base (f : MField) (v : MValue) (hc : f.base.coherent false = true)
    (hd : f.inDomain v = true) : f.base.canon v.textify = (f.canon v).textify := by
  cases f with
  | plain f =>
    cases v with
    | plain v => rfl
    | track v => simp [MField.inDomain] at hd
  | track s =>
    cases v with
    | plain v => simp [MField.inDomain] at hd
    | track v =>
      simp only [MField.base, MField.canon, MValue.textify, MessageRT.prim_canon_eq,
        TrackVal.packText_canon]
      exact track_text_canon s v (by simpa [MField.base, Field.coherent] using hc) hd

/-- what the base field unpacks for a canonical value lifts to that value: the parser of a
fresh track object accepts the packed text of an in-domain value and stores its canonical form -/
theorem lift_canon (f : MField) (v : MValue) (hd : f.inDomain v = true) :
    lift f (f.canon v).textify = some (f.canon v) := by
  cases f with
  | plain f =>
    cases v with
    | plain v => rfl
    | track v => simp [MField.inDomain] at hd
  | track s =>
    cases v with
    | plain v => simp [MField.inDomain] at hd
    | track v =>
      obtain ⟨hvk, hvd⟩ := inDomain_parts s v hd
      have hne := TrackVal.packText_ne_nil v hvd
      have hraw := TrackVal.unpackRaw_packText s.fresh v (by rw [TrackSpec.fresh_kind, hvk])
        (TrackSpec.fresh_fixedLength s) hvd
      simp only [MField.canon, MValue.textify, lift, TrackVal.packText_canon, hne, hraw,
        Bool.false_eq_true, ite_false]

/-! ## The whole message -/

/-- one entry of `TMsgSpec.canon` -/
def canonEntry (spec : TMsgSpec) (p : Nat × MValue) : Nat × MValue :=
  match lookupId p.1 spec.fields with
  | some f => (p.1, f.canon p.2)
  | none => p

theorem canon_fields (spec : TMsgSpec) (m : TMsg) :
    (spec.canon m).fields = (sortBy (fun a b => decide (a.1 < b.1)) m.fields).map (canonEntry spec) := rfl

/-- every entry of in-domain content is declared and in the domain of its field -/
theorem inDomain_entries (spec : TMsgSpec) (m : TMsg) (hd : spec.inDomain m = true) :
    spec.base.inDomain m.textify = true ∧
    ∀ p ∈ m.fields, ∃ f, lookupId p.1 spec.fields = some f ∧ f.inDomain p.2 = true := by
  simp only [TMsgSpec.inDomain, Bool.and_eq_true, List.all_eq_true] at hd
  refine ⟨hd.1, fun p hp => ?_⟩
  have := hd.2 p hp
  cases hl : lookupId p.1 spec.fields with
  | none => simp [hl] at this
  | some f => rw [hl] at this; exact ⟨f, rfl, this⟩

/-- every declared field of a coherent spec has a coherent base field -/
theorem coherent_entry (spec : TMsgSpec) (hc : spec.coherent = true) (i : Nat) (f : MField)
    (hl : lookupId i spec.fields = some f) : f.base.coherent false = true := by
  have hmem : (i, f.base) ∈ spec.base.fields := by
    rw [base_fields]
    exact List.mem_map.mpr ⟨(i, f), MessageRT.lookupId_mem i _ f hl, rfl⟩
  exact ((MessageRT.coherent_facts spec.base hc).2.2.2.2 i f.base hmem).2.2

theorem canon_textify (spec : TMsgSpec) (m : TMsg) (hc : spec.coherent = true)
    (hall : ∀ p ∈ m.fields, ∃ f, lookupId p.1 spec.fields = some f ∧ f.inDomain p.2 = true) :
    spec.base.canon m.textify = (spec.canon m).textify := by
  have hf : (spec.base.canon m.textify).fields = (spec.canon m).textify.fields := by
    simp only [MsgSpec.canon, textify_fields, canon_fields, sort_tx, List.map_map]
    apply List.map_congr_left
    intro p hp
    obtain ⟨f, hl, hd⟩ := hall p ((mem_sortBy _ _ p).mp hp)
    have hb : lookupId p.1 spec.base.fields = some f.base := by rw [base_fields, lookup_base, hl]; rfl
    simp only [Function.comp, tx, canonEntry, hl, hb, field_canon_base f p.2 (coherent_entry spec hc p.1 f hl) hd]
  have hm : (spec.base.canon m.textify).mti = (spec.canon m).textify.mti := rfl
  cases h1 : spec.base.canon m.textify with
  | mk a b =>
    cases h2 : (spec.canon m).textify with
    | mk c d =>
      rw [h1] at hf hm
      rw [h2] at hf hm
      simp only at hf hm
      rw [hf, hm]

theorem liftAll_tx (fields : List (Nat × MField)) :
    ∀ l : List (Nat × MValue),
      (∀ p ∈ l, ∃ f, lookupId p.1 fields = some f ∧ lift f p.2.textify = some p.2) →
      liftAll fields (l.map tx) = some l := by
  intro l
  induction l with
  | nil => intro _; rfl
  | cons p ps ih =>
    intro h
    obtain ⟨f, hl, hv⟩ := h p (List.mem_cons_self ..)
    have := ih (fun q hq => h q (List.mem_cons_of_mem _ hq))
    obtain ⟨i, v⟩ := p
    simp only [List.map_cons, tx, liftAll] at hl hv ⊢
    simp only [hl, hv, this]

/-- the entries of the canonical content lift from their textified forms -/
theorem canon_lifts (spec : TMsgSpec) (m : TMsg)
    (hall : ∀ p ∈ m.fields, ∃ f, lookupId p.1 spec.fields = some f ∧ f.inDomain p.2 = true) :
    liftAll spec.fields ((spec.canon m).fields.map tx) = some (spec.canon m).fields := by
  apply liftAll_tx
  intro p hp
  rw [canon_fields] at hp
  obtain ⟨q, hq, rfl⟩ := List.mem_map.mp hp
  obtain ⟨f, hl, hd⟩ := hall q ((mem_sortBy _ _ q).mp hq)
  refine ⟨f, ?_, ?_⟩
  · simp only [canonEntry, hl]
  · simp only [canonEntry, hl]
    exact lift_canon f q.2 hd

theorem canon_wellSorted (spec : TMsgSpec) (m : TMsg)
    (hall : ∀ p ∈ m.fields, ∃ f, lookupId p.1 spec.fields = some f ∧ f.inDomain p.2 = true) :
    WellSorted spec (spec.canon m).fields := by
  intro p hp f' hl'
  rw [canon_fields] at hp
  obtain ⟨q, hq, rfl⟩ := List.mem_map.mp hp
  obtain ⟨f, hl, hd⟩ := hall q ((mem_sortBy _ _ q).mp hq)
  simp only [canonEntry, hl] at hl' ⊢
  simp only [Option.some.injEq] at hl'
  subst hl'
  rw [sortOK_canon]
  exact sortOK_of_inDomain f q.2 hd

/-- **Unpack reduces to the base model** on what the base model accepts with liftable
entries: same MTI, same bitmap, the scan by `scan_sim`. -/
theorem tunpack_of_base (spec : TMsgSpec) (src : Bytes) (bm0 : Msg) (tm : TMsg) (n : Nat)
    (hu : spec.base.unpack src = .ok (bm0, n)) (hm : bm0.mti = tm.mti)
    (hl : liftAll spec.fields bm0.fields = some tm.fields) :
    spec.unpack src = .ok (tm, n) := by
  obtain ⟨v, read, bm, bread, fields, h1, h2, h3, h4, rfl⟩ := MessageRT.unpack_inv spec.base src bm0 n hu
  have h4' : spec.base.scan bm (bm.len - 1) 2 src (read + bread) [] = .ok ([] ++ fields, n) := h4
  have hs := scan_sim spec bm (bm.len - 1) 2 src (read + bread) [] fields n h4' tm.fields hl []
  have hr : ¬ read > src.length := by omega
  have h1' : spec.mti.unpack src = .ok (v, read) := h1
  have h3' : Bitmap.unpack spec.bitmap.enc spec.bitmap.pref
      (Bitmap.reset spec.bitmap.specLen spec.bitmap.auto) (src.drop read) = .ok (bm, bread) := h3
  simp only [TMsgSpec.unpack, h1', hr, ite_false, h3', hs, List.nil_append]
  cases tm with
  | mk a b =>
    simp only at hm
    rw [← hm]

/-- **C01 for messages with track fields** (the property at full strength): for every
coherent spec (`TMsgSpec.coherent`: the base spec — every track field read as the String
primitive of its wire layer — is a coherent message spec), every in-domain content
(`TMsgSpec.inDomain`) on which Pack succeeds with bytes that are a Go slice, and whatever
bytes follow: Unpack of `bs ++ tail` into a new message yields exactly the canonical
content (fields ascending, every ordinary value in canonical form, every track value with
the Track2 separator defaulted), having consumed `bs.length` bytes, and packing the
canonical content returns the identical bytes. -/
theorem tmsg_pack_unpack (spec : TMsgSpec) (m : TMsg) (tail bs : Bytes)
    (hc : spec.coherent = true) (hd : spec.inDomain m = true) (hp : spec.pack m = .ok bs)
    (hlen : bs.length ≤ maxInt) :
    spec.unpack (bs ++ tail) = .ok (spec.canon m, bs.length) ∧ spec.pack (spec.canon m) = .ok bs := by
  obtain ⟨hbd, hall⟩ := inDomain_entries spec m hd
  have hw : WellSorted spec m.fields := by
    intro p hp' f hl
    obtain ⟨f', hl', hd'⟩ := hall p hp'
    rw [hl] at hl'
    simp only [Option.some.injEq] at hl'
    subst hl'
    exact sortOK_of_inDomain f p.2 hd'
  have hpb : spec.base.pack m.textify = .ok bs := by rw [← tpack_eq_base spec m hw]; exact hp
  obtain ⟨hub, hrb⟩ := C01.pack_unpack spec.base m.textify tail bs hc hbd hpb hlen
  have hct := canon_textify spec m hc hall
  rw [hct] at hub hrb
  refine ⟨?_, ?_⟩
  · exact tunpack_of_base spec (bs ++ tail) _ (spec.canon m) bs.length hub rfl
      (by rw [textify_fields]; exact canon_lifts spec m hall)
  · rw [tpack_eq_base spec (spec.canon m) (canon_wellSorted spec m hall)]
    exact hrb

/-! ## Non-vacuity: the hypotheses are satisfiable on concrete data -/

/-- MTI (ASCII, 4 fixed), bitmap of 8 bytes, field 2 String LL, field 35 Track2 (default
packer, ASCII, LL — the spec of the library's tests), field 45 Track1 (ASCII, LL) -/
def demoSpec : TMsgSpec :=
  { mti := { kind := .string, len := 4, enc := .ascii, pref := .fixed .ascii, pad := .nil },
    bitmap := { specLen := 8, enc := .binary, pref := .fixed .binary, auto := true },
    fields := [ (2, .plain (.prim { kind := .string, len := 19, enc := .ascii, pref := .var .ascii 2, pad := .nil })),
                (35, .track C01Tracks.demoSpec2),
                (45, .track { kind := .t1, len := 76, enc := .ascii, pref := .var .ascii 2, pad := .nil }) ] }

/-- "0100", 45 = B4242^SMITH/JOHN Q^6912^X Y, 2 = "4242", 35 = 4242424242424242=2408201123
(separator not set), given out of order -/
def demoMsg : TMsg :=
  { mti := some (.str [48,49,48,48]),
    fields := [ (45, .track C01Tracks.demoVal1), (2, .plain (.str [52,50,52,50])), (35, .track C01Tracks.demoVal2) ] }

def demoBytes : Bytes :=
  [48,49,48,48,  64,0,0,0,32,8,0,0,  48,52, 52,50,52,50,
   50,55, 52,50,52,50,52,50,52,50,52,50,52,50,52,50,52,50,61,50,52,48,56,50,48,49,49,50,51,
   50,55, 66,52,50,52,50,94,83,77,73,84,72,47,74,79,72,78,32,81,94,54,57,49,50,94,88,32,89]

example : demoSpec.coherent = true := by decide
example : demoSpec.inDomain demoMsg = true := by decide
example : demoSpec.pack demoMsg = .ok demoBytes := by decide
example : demoBytes.length = 76 ∧ demoBytes.length ≤ maxInt := by decide

/-- the content is not canonical: the fields are out of order and the Track2 separator is unset -/
example : (demoSpec.canon demoMsg).fields.map (·.1) = [2, 35, 45] ∧ demoMsg.fields.map (·.1) = [45, 2, 35] := by
  decide

/-- `tmsg_pack_unpack` applies to the demo message, with any tail -/
example (tail : Bytes) :
    demoSpec.unpack (demoBytes ++ tail) = .ok (demoSpec.canon demoMsg, 76) ∧
    demoSpec.pack (demoSpec.canon demoMsg) = .ok demoBytes :=
  tmsg_pack_unpack demoSpec demoMsg tail demoBytes (by decide) (by decide) (by decide) (by decide)

end Iso8583.C01TrackMsg
