/-
C05 — Bitmap bits, continuation bits and message body always agree.
Property theorems about the model of /repo/field/bitmap.go (Model/Bitmap.lean), the bit
loops of Message.pack (Model/Message.lean) and Composite.packByBitmap (Model/Field.lean),
for ALL block sizes ≥ 1, all indices and all index lists. Helper lemmas: Lemmas/Bitmap.lean.
-/
import Iso8583.Lemmas.Bitmap
import Iso8583.Props.C07
import Iso8583.Spec.Coherent

namespace Iso8583.C05
open Iso8583 Bitmap Enc MsgSpec

/-! ## Invariant: the data is a positive number of whole blocks -/

/-- `Reset` / `NewBitmap` builds one block (block size ≥ 1 whatever the spec length: 0 means
the regenerated default) -/
theorem inv_reset (specLen : Nat) (auto : Bool) :
    Inv (reset specLen auto) ∧ (reset specLen auto).data.length = (reset specLen auto).blockLen := by
  refine ⟨⟨blockLenOf_pos specLen, 1, by omega, ?_⟩, ?_⟩ <;> simp [reset]

/-- `Set` keeps the invariant, the block size and the mode, for every index -/
theorem inv_set (bm : Bitmap) (n : Nat) (h : Inv bm) :
    Inv (bm.set n) ∧ (bm.set n).blockLen = bm.blockLen ∧ (bm.set n).auto = bm.auto := by
  refine ⟨?_, set_blockLen bm n, set_auto bm n⟩
  obtain ⟨hbl, k, hk, hlen⟩ := h
  refine ⟨by rw [set_blockLen]; exact hbl, ?_⟩
  rw [set_blockLen]
  by_cases hn : n = 0
  · subst hn; rw [set_zero]; exact ⟨k, hk, hlen⟩
  · by_cases hr : n ≤ bm.data.length * 8
    · rw [set_data_inrange bm n (by omega) hr]
      exact ⟨k, hk, by simp only [orAt_length]; exact hlen⟩
    · cases ha : bm.auto with
      | false => rw [set_fixed_beyond bm n ha (by omega)]; exact ⟨k, hk, hlen⟩
      | true => exact ⟨_, Nat.le_add_left 1 _, set_length_expand bm n k hbl hlen ha (by omega)⟩

/-- a fixed bitmap (`DisableAutoExpand`) never changes its length -/
theorem set_fixed_length (bm : Bitmap) (n : Nat) (ha : bm.auto = false) :
    (bm.set n).data.length = bm.data.length := by
  by_cases hn : n = 0
  · subst hn; rw [set_zero]
  · by_cases hr : n ≤ bm.data.length * 8
    · rw [set_data_inrange bm n (by omega) hr]; simp [orAt_length]
    · rw [set_fixed_beyond bm n ha (by omega)]

/-! ## Set / IsSet -/

/-- after `Set(n)` (n ≥ 1, and the bitmap expands or n is within its length) bit n reads back set -/
theorem set_isSet_self (bm : Bitmap) (n : Nat) (h : Inv bm) (hn : 1 ≤ n)
    (hr : bm.auto = true ∨ n ≤ bm.len) : (bm.set n).isSet n = true := by
  obtain ⟨hbl, k, hk, hlen⟩ := h
  rw [isSet_eq_bit _ _ hn]
  by_cases hin : n ≤ bm.data.length * 8
  · rw [bit_set_inrange bm n hn hin n hn]; simp
  · have ha : bm.auto = true := by
      rcases hr with h | h
      · exact h
      · exact absurd h hin
    exact (bit_set_expand bm n k hbl hk hlen ha (by omega) n hn).mpr (Or.inl rfl)

/-- `Set(n)` changes no other bit `m ≠ n`, except continuation bits when it expands: a bit
that is not a continuation position (or any bit, when `n` is within the current length)
keeps its previous value; in particular a bit beyond the old length reads false. -/
theorem set_isSet_other (bm : Bitmap) (n m : Nat) (h : Inv bm) (hmn : m ≠ n)
    (hc : bm.isPresenceBit m = false ∨ n ≤ bm.len) : (bm.set n).isSet m = bm.isSet m := by
  obtain ⟨hbl, k, hk, hlen⟩ := h
  by_cases hm : m = 0
  · subst hm; simp [isSet_zero]
  by_cases hn : n = 0
  · subst hn; rw [set_zero]
  rw [isSet_eq_bit _ _ (by omega), isSet_eq_bit _ _ (by omega)]
  by_cases hin : n ≤ bm.data.length * 8
  · rw [bit_set_inrange bm n (by omega) hin m (by omega)]; simp [hmn]
  · cases ha : bm.auto with
    | false => rw [set_fixed_beyond bm n ha (by omega)]
    | true =>
      have hnp : m % (bm.blockLen * 8) ≠ 1 := by
        rcases hc with hc | hc
        · intro h1
          simp [isPresenceBit, ha, h1] at hc
          omega
        · exact absurd hc hin
      have key := bit_set_expand bm n k hbl hk hlen ha (by omega) m (by omega)
      cases hb : bit bm.data m with
      | true => exact key.mpr (Or.inr (Or.inl hb))
      | false =>
        cases hb' : bit (bm.set n).data m with
        | false => rfl
        | true =>
          rcases key.mp hb' with h1 | h1 | ⟨b, _, _, h3⟩
          · exact absurd h1 hmn
          · rw [hb] at h1; cases h1
          · exact absurd (by rw [h3]; exact cont_mod _ b hbl) hnp

/-- a bit beyond the old length that is neither `n` nor a continuation bit reads false -/
theorem set_isSet_beyond (bm : Bitmap) (n m : Nat) (h : Inv bm) (hmn : m ≠ n) (hm : m > bm.len)
    (hc : bm.isPresenceBit m = false) : (bm.set n).isSet m = false := by
  rw [set_isSet_other bm n m h hmn (Or.inl hc)]
  unfold len at hm
  simp [isSet]; omega

/-- bits are never cleared by `Set` -/
theorem set_monotone (bm : Bitmap) (n m : Nat) (h : Inv bm) (hs : bm.isSet m = true) :
    (bm.set n).isSet m = true := by
  obtain ⟨hbl, k, hk, hlen⟩ := h
  by_cases hm : m = 0
  · subst hm; simp [isSet_zero] at hs
  by_cases hn : n = 0
  · subst hn; rw [set_zero]; exact hs
  rw [isSet_eq_bit _ _ (by omega)] at hs ⊢
  by_cases hin : n ≤ bm.data.length * 8
  · rw [bit_set_inrange bm n (by omega) hin m (by omega), hs]; simp
  · cases ha : bm.auto with
    | false => rw [set_fixed_beyond bm n ha (by omega)]; exact hs
    | true => exact (bit_set_expand bm n k hbl hk hlen ha (by omega) m (by omega)).mpr (Or.inr (Or.inl hs))

/-- **fixed bitmap, index beyond the length**: `Set` is a no-op and the bit reads false — this
is what `Message.pack` / `packByBitmap` detect to refuse the field -/
theorem set_noop_fixed (bm : Bitmap) (n : Nat) (ha : bm.auto = false) (hn : n > bm.len) :
    bm.set n = bm ∧ (bm.set n).isSet n = false := by
  unfold len at hn
  rw [set_fixed_beyond bm n ha hn]
  refine ⟨rfl, ?_⟩
  simp [isSet]; omega

/-! ## Expansion -/

/-- `⌈n / (8·bl)⌉`: the number of blocks needed to hold bit `n` -/
def blocksFor (bl n : Nat) : Nat := (n + bl * 8 - 1) / (bl * 8)

/-- `blocksFor` is the ceiling: the least block count whose bits reach `n` -/
theorem blocksFor_spec (bl n c : Nat) (hbl : 1 ≤ bl) : blocksFor bl n ≤ c ↔ n ≤ c * (bl * 8) := by
  unfold blocksFor
  rw [Nat.div_le_iff_le_mul_add_pred (by omega), Nat.mul_comm c]
  generalize bl * 8 * c = x
  omega

theorem blocksFor_eq (bl n : Nat) (hbl : 1 ≤ bl) (hn : 1 ≤ n) : blocksFor bl n = (n - 1) / (bl * 8) + 1 := by
  unfold blocksFor
  rw [← Nat.add_div_right _ (by omega : 0 < bl * 8)]
  congr 1; omega

/-- **minimal expansion** (auto-expanding bitmap, every `n`): afterwards the bitmap has exactly
`max(old blocks, ⌈n/(8·blockLen)⌉)` blocks -/
theorem expansion_minimal (bm : Bitmap) (n : Nat) (h : Inv bm) (ha : bm.auto = true) :
    (bm.set n).data.length =
      bm.blockLen * max (bm.data.length / bm.blockLen) (blocksFor bm.blockLen n) := by
  obtain ⟨hbl, k, hk, hlen⟩ := h
  have hkdiv : bm.data.length / bm.blockLen = k := by rw [hlen]; exact Nat.mul_div_cancel k (by omega)
  rw [hkdiv]
  by_cases hin : n ≤ bm.data.length * 8
  · have hle : blocksFor bm.blockLen n ≤ k := by
      rw [blocksFor_spec _ _ _ hbl, ← Nat.mul_assoc, ← hlen]; exact hin
    rw [Nat.max_eq_left hle, Nat.mul_comm, ← hlen]
    by_cases hn : n = 0
    · subst hn; rw [set_zero]
    · rw [set_data_inrange bm n (by omega) hin]; simp [orAt_length]
  · have hn : 1 ≤ n := by omega
    rw [set_length_expand bm n k hbl hlen ha (by omega), blocksFor_eq _ _ hbl hn]
    obtain ⟨hkN, _⟩ := expand_arith bm.blockLen k n hbl (by rw [← hlen]; omega)
    rw [Nat.max_eq_right (by omega), Nat.mul_comm]


/-- **continuation bits written by an expansion**: growing from `old` to `new` blocks sets the
first bit of every block from the old last one up to the new last-but-one; the first bit of
the new last block is not set by the expansion (it is set only if it is `n` itself) -/
theorem set_continuation (bm : Bitmap) (n : Nat) (h : Inv bm) (ha : bm.auto = true) (hn : n > bm.len) :
    bm.data.length / bm.blockLen < (bm.set n).data.length / bm.blockLen ∧
    (∀ b, bm.data.length / bm.blockLen ≤ b + 1 → b + 1 < (bm.set n).data.length / bm.blockLen →
      (bm.set n).isSet (b * (bm.blockLen * 8) + 1) = true) ∧
    (bm.set n).isSet (((bm.set n).data.length / bm.blockLen - 1) * (bm.blockLen * 8) + 1) =
      decide (n = ((bm.set n).data.length / bm.blockLen - 1) * (bm.blockLen * 8) + 1) := by
  obtain ⟨hbl, k, hk, hlen⟩ := h
  unfold len at hn
  have hkdiv : bm.data.length / bm.blockLen = k := by rw [hlen]; exact Nat.mul_div_cancel k (by omega)
  have hnew : (bm.set n).data.length / bm.blockLen = (n - 1) / (bm.blockLen * 8) + 1 := by
    rw [set_length_expand bm n k hbl hlen ha hn]; exact Nat.mul_div_cancel _ (by omega)
  obtain ⟨hkN, _⟩ := expand_arith bm.blockLen k n hbl (by rw [← hlen]; omega)
  rw [hkdiv, hnew]
  have key := bit_set_expand bm n k hbl hk hlen ha hn
  refine ⟨by omega, ?_, ?_⟩
  · intro b hb1 hb2
    rw [isSet_eq_bit _ _ (by omega)]
    exact (key _ (by omega)).mpr (Or.inr (Or.inr ⟨b, hb1, by omega, rfl⟩))
  · rw [isSet_eq_bit _ _ (by omega), Nat.add_sub_cancel]
    generalize hQ : (n - 1) / (bm.blockLen * 8) = Q at *
    have hbeyond : bit bm.data (Q * (bm.blockLen * 8) + 1) = false := by
      apply bit_beyond
      have : k * (bm.blockLen * 8) ≤ Q * (bm.blockLen * 8) := Nat.mul_le_mul_right _ hkN
      rw [hlen, Nat.mul_assoc]; omega
    have key' := key (Q * (bm.blockLen * 8) + 1) (by omega)
    by_cases hnq : n = Q * (bm.blockLen * 8) + 1
    · rw [decide_eq_true hnq]; exact key'.mpr (Or.inl hnq.symm)
    · rw [decide_eq_false hnq]
      cases hb : bit (bm.set n).data (Q * (bm.blockLen * 8) + 1) with
      | false => rfl
      | true =>
        rcases key'.mp hb with h1 | h1 | ⟨b, _, hb2, hb3⟩
        · exact absurd h1.symm hnq
        · rw [hbeyond] at h1; cases h1
        · have := cont_inj _ _ _ hbl hb3; omega

/-! ## Bit numbering -/

/-- **MSB-first numbering**: bit `n` lives in byte `(n-1)/8` with weight `2^(7 - (n-1) mod 8)` -/
theorem mask_msb_first (bm : Bitmap) (n : Nat) (hn : 1 ≤ n) :
    mask n = UInt8.ofNat (2 ^ (7 - (n - 1) % 8)) ∧
    bm.isSet n = decide ((bm.data.getD ((n - 1) / 8) 0).toNat / 2 ^ (7 - (n - 1) % 8) % 2 = 1) := by
  refine ⟨rfl, ?_⟩
  rw [isSet_eq_bit _ _ hn]
  unfold bit
  have := and_mask_ne_zero_iff (bm.data.getD ((n - 1) / 8) 0) ((n - 1) % 8) (by omega)
  rw [mask_eq]
  by_cases hd : (bm.data.getD ((n - 1) / 8) 0).toNat / 2 ^ (7 - (n - 1) % 8) % 2 = 1
  · rw [decide_eq_true hd]; simpa using this.mpr hd
  · rw [decide_eq_false hd]
    have := mt this.mp hd
    simpa using this

/-- `Set(n)` within the length ORs exactly that weight into exactly that byte -/
theorem set_byte_inrange (bm : Bitmap) (n : Nat) (hn : 1 ≤ n) (hr : n ≤ bm.len) (j : Nat) :
    (bm.set n).data.getD j 0 =
      if j = (n - 1) / 8 then bm.data.getD j 0 ||| UInt8.ofNat (2 ^ (7 - (n - 1) % 8)) else bm.data.getD j 0 := by
  unfold len at hr
  rw [set_data_inrange bm n hn hr]
  simp only [getD_orAt, mask_eq]
  by_cases hj : j = (n - 1) / 8
  · subst hj; rw [if_pos ⟨rfl, by omega⟩, if_pos rfl]
  · rw [if_neg (fun h => hj h.1), if_neg hj]

/-- the Go shift amount `uint(7-(n-1)) % 8`, computed with 64-bit unsigned wrap-around, is the
model's `7 - (n-1) mod 8` (because `2^64 ≡ 0 mod 8`) -/
theorem go_shift_amount (n : Nat) (hb : n - 1 ≤ 2 ^ 63) :
    ((2 ^ 64 + 7 - (n - 1)) % 2 ^ 64) % 8 = 7 - (n - 1) % 8 := by omega

/-- the same on `Int` (conversion to `uint64` = remainder modulo `2^64`), for every `n ≥ 1` -/
theorem go_shift_amount_int (n : Int) :
    ((7 - (n - 1)) % 2 ^ 64) % 8 = 7 - (n - 1) % 8 := by omega

theorem mask_eq_go_expr (n : Nat) (hb : n - 1 ≤ 2 ^ 63) :
    mask n = UInt8.ofNat (2 ^ (((2 ^ 64 + 7 - (n - 1)) % 2 ^ 64) % 8)) := by
  rw [go_shift_amount n hb]; rfl


/-! ## The chain invariant of bitmaps built by `Reset` and `Set` -/

/-- the data of `bm` is a well-formed chain: every block but the last announces a successor -/
def Chained (bm : Bitmap) : Prop := IsChain bm.blockLen (bm.data.length / bm.blockLen) bm.data

theorem chained_reset (specLen : Nat) (auto : Bool) : Chained (reset specLen auto) := by
  have hbl := blockLenOf_pos specLen
  unfold Chained
  simp only [reset, List.length_replicate, Nat.div_self (by omega : 0 < blockLenOf specLen)]
  refine ⟨by omega, by simp, ?_⟩
  intro b hb
  rw [getD_replicate_zero]
  constructor
  · intro h; exact absurd h (by decide)
  · intro h; omega

/-- `Set(n)` for an index that is not a continuation position keeps the chain well-formed
(both modes): expansion marks exactly the blocks that get a successor -/
theorem chained_set (bm : Bitmap) (n : Nat) (h : Inv bm) (hc : Chained bm)
    (hnp : n % (bm.blockLen * 8) ≠ 1) : Chained (bm.set n) := by
  obtain ⟨hbl, k, hk, hlen⟩ := h
  have hkdiv : bm.data.length / bm.blockLen = k := by rw [hlen]; exact Nat.mul_div_cancel k (by omega)
  unfold Chained at hc ⊢
  rw [hkdiv] at hc
  obtain ⟨_, _, hc⟩ := hc
  rw [set_blockLen]
  have hne : ∀ b, b * (bm.blockLen * 8) + 1 ≠ n := by
    intro b hb; rw [← hb] at hnp; exact hnp (cont_mod _ b hbl)
  by_cases hn : n = 0
  · subst hn; rw [set_zero, hkdiv]; exact ⟨hk, hlen, hc⟩
  by_cases hin : n ≤ bm.data.length * 8
  · have hl : (bm.set n).data.length = bm.data.length := by
      rw [set_data_inrange bm n (by omega) hin]; simp [orAt_length]
    rw [hl, hkdiv]
    refine ⟨hk, by rw [hl]; exact hlen, ?_⟩
    intro b hb
    rw [top_iff_bit, bit_set_inrange bm n (by omega) hin _ (by omega), decide_eq_false (hne b),
      Bool.false_or, ← top_iff_bit]
    exact hc b hb
  · cases ha : bm.auto with
    | false => rw [set_fixed_beyond bm n ha (by omega), hkdiv]; exact ⟨hk, hlen, hc⟩
    | true =>
      have hl := set_length_expand bm n k hbl hlen ha (by omega)
      obtain ⟨hkN, _⟩ := expand_arith bm.blockLen k n hbl (by rw [← hlen]; omega)
      have key := bit_set_expand bm n k hbl hk hlen ha (by omega)
      rw [hl, Nat.mul_div_cancel _ (by omega : 0 < bm.blockLen)]
      generalize hQ : (n - 1) / (bm.blockLen * 8) = Q at *
      refine ⟨by omega, hl, ?_⟩
      intro b hb
      rw [top_iff_bit, key _ (by omega)]
      constructor
      · rintro (h1 | h1 | ⟨b', _, hb2, hb3⟩)
        · exact absurd h1 (hne b)
        · by_cases hbk : b < k
          · have := (hc b hbk).mp ((top_iff_bit _ _ _).mpr h1); omega
          · have hbeyond : bit bm.data (b * (bm.blockLen * 8) + 1) = false := by
              apply bit_beyond
              have : k * (bm.blockLen * 8) ≤ b * (bm.blockLen * 8) := Nat.mul_le_mul_right _ (by omega)
              rw [hlen, Nat.mul_assoc]; omega
            rw [hbeyond] at h1; cases h1
        · have := cont_inj _ _ _ hbl hb3; omega
      · intro hb1
        by_cases hbk : b + 1 < k
        · exact Or.inr (Or.inl ((top_iff_bit _ _ _).mp ((hc b (by omega)).mpr hbk)))
        · exact Or.inr (Or.inr ⟨b, by omega, by omega, rfl⟩)

/-- `Reset` followed by any list of `Set`s -/
def setAll (bm : Bitmap) (ns : List Nat) : Bitmap := ns.foldl Bitmap.set bm

theorem setAll_inv_chained (ns : List Nat) : ∀ (bm : Bitmap), Inv bm → Chained bm →
    (∀ n ∈ ns, n % (bm.blockLen * 8) ≠ 1) →
    Inv (setAll bm ns) ∧ Chained (setAll bm ns) ∧ (setAll bm ns).blockLen = bm.blockLen ∧
      (setAll bm ns).auto = bm.auto := by
  induction ns with
  | nil => intro bm h hc _; exact ⟨h, hc, rfl, rfl⟩
  | cons n rest ih =>
    intro bm h hc hnp
    obtain ⟨h1, h2, h3⟩ := inv_set bm n h
    have := ih (bm.set n) h1 (chained_set bm n h hc (hnp n (by simp)))
      (by intro m hm; rw [h2]; exact hnp m (by simp [hm]))
    simp only [setAll, List.foldl_cons] at this ⊢
    rw [h2, h3] at this
    exact this


/-! ## Unpack: the chain of blocks -/

/-- `wire` is the text of `data` in the bitmap's encoding: the bytes themselves (Binary) or
any hex text of them, either case (BytesToASCIIHex) -/
def Wire : Enc → Bytes → Bytes → Prop
  | .binary, wire, data => wire = data
  | .bytesToHex, wire, data => hexDecode wire = some data
  | _, _, _ => False

/-- wire bytes per bitmap byte -/
def unit : Enc → Nat
  | .bytesToHex => 2
  | _ => 1

theorem wire_binary (data : Bytes) : Wire .binary data data := rfl
theorem wire_hex (data : Bytes) : Wire .bytesToHex (hexEncodeUpper data) data := hexDecode_hexEncodeUpper data

theorem wire_length {enc : Enc} {wire data : Bytes} (h : Wire enc wire data) :
    wire.length = unit enc * data.length := by
  cases enc <;> simp only [Wire] at h
  · subst h; simp [unit]
  · simpa [unit] using hexDecode_length wire data h

theorem wire_split {enc : Enc} {wire data : Bytes} (h : Wire enc wire data) (j : Nat) :
    Wire enc (wire.take (unit enc * j)) (data.take j) ∧ Wire enc (wire.drop (unit enc * j)) (data.drop j) := by
  cases enc <;> simp only [Wire] at h
  · subst h; simp [unit, Wire]
  · simpa [unit, Wire] using hexDecode_take_drop j wire data h

theorem wire_decode {enc : Enc} {w1 blk : Bytes} (h : Wire enc w1 blk) (rest : Bytes) :
    decodeNat enc (w1 ++ rest) blk.length = .ok (blk, w1.length) := by
  have hl := wire_length h
  cases enc <;> simp only [Wire] at h
  · subst h
    simp [decodeNat]
  · simp only [unit] at hl
    have h1 : ¬ blk.length > (w1 ++ rest).length / 2 := by simp; omega
    simp only [decodeNat, h1, ite_false, ← hl, List.take_left' rfl, h]

theorem wire_short (enc : Enc) (he : enc = .binary ∨ enc = .bytesToHex) (rest : Bytes) (n : Nat)
    (h : rest.length < unit enc * n) : decodeNat enc rest n = .err := by
  rcases he with rfl | rfl
  · simp only [unit] at h; simp [decodeNat]; omega
  · simp only [unit] at h
    have : n > rest.length / 2 := by omega
    simp [decodeNat, this]

theorem first_of_getD (data : Bytes) (h : 1 ≤ data.length) :
    ∃ first rest, data = first :: rest ∧ data.getD 0 0 = first := by
  cases data with
  | nil => simp at h
  | cons a r => exact ⟨a, r, rfl, rfl⟩

/-- the loop on a well-formed chain followed by anything: reads exactly the chain -/
theorem unpackLoop_chain (enc : Enc) (bl : Nat) (hbl : 1 ≤ bl) : ∀ (k : Nat) (data : Bytes), IsChain bl (k + 1) data →
    ∀ (wire tail acc : Bytes) (read fuel : Nat), Wire enc wire data → k + 1 ≤ fuel →
    unpackLoop enc bl true fuel (wire ++ tail) acc read = .ok (acc ++ data, read + wire.length) := by
  intro k
  induction k with
  | zero =>
    intro data hc wire tail acc read fuel hw hf
    obtain ⟨hlen, hlt⟩ := isChain_one bl data hc
    obtain ⟨first, rest, hd, hf0⟩ := first_of_getD data (by omega)
    obtain ⟨f, rfl⟩ : ∃ f, fuel = f + 1 := ⟨fuel - 1, by omega⟩
    have hdec := wire_decode hw tail
    rw [hlen] at hdec
    simp only [unpackLoop, decode_natCast, hdec]
    rw [hf0] at hlt
    subst hd
    simp [hlt]
  | succ k ih =>
    intro data hc wire tail acc read fuel hw hf
    obtain ⟨hle, hge, hrest⟩ := isChain_succ bl k data hc
    obtain ⟨f, rfl⟩ : ∃ f, fuel = f + 1 := ⟨fuel - 1, by omega⟩
    obtain ⟨hw1, hw2⟩ := wire_split hw bl
    have htl : (data.take bl).length = bl := by simp; omega
    have hwl := wire_length hw
    have hw1l := wire_length hw1
    rw [htl] at hw1l
    obtain ⟨first, rest, hd, hf0⟩ := first_of_getD (data.take bl) (by omega)
    rw [getD_take _ _ _ (by omega)] at hf0
    have hdec := wire_decode hw1 (wire.drop (unit enc * bl) ++ tail)
    rw [← List.append_assoc, List.take_append_drop, htl] at hdec
    simp only [unpackLoop, decode_natCast, hdec]
    rw [hd]
    simp only
    rw [hf0] at hge
    have hcont : ¬ ((!true || first.toNat < 128) = true) := by simp; omega
    have hdrop : (wire ++ tail).drop (wire.take (unit enc * bl)).length = wire.drop (unit enc * bl) ++ tail := by
      rw [hw1l, List.drop_append_of_le_length (by rw [hwl]; exact Nat.mul_le_mul_left _ hle)]
    rw [if_neg hcont, hdrop, ← hd, ih (data.drop bl) hrest _ tail _ _ f hw2 (by omega)]
    have hl : wire.length = (wire.take (unit enc * bl)).length + (wire.drop (unit enc * bl)).length := by
      rw [← List.length_append, List.take_append_drop]
    rw [List.append_assoc, List.take_append_drop, hl, Nat.add_assoc]

/-- a fixed bitmap (`DisableAutoExpand`) reads exactly one block whatever its bits say -/
theorem unpackLoop_fixed_one (enc : Enc) (bl : Nat) (hbl : 1 ≤ bl) (blk wire tail acc : Bytes) (read fuel : Nat)
    (hlen : blk.length = bl) (hw : Wire enc wire blk) :
    unpackLoop enc bl false (fuel + 1) (wire ++ tail) acc read = .ok (acc ++ blk, read + wire.length) := by
  obtain ⟨first, rest, hd, _⟩ := first_of_getD blk (by omega)
  have hdec := wire_decode hw tail
  rw [hlen] at hdec
  simp only [unpackLoop, decode_natCast, hdec]
  subst hd
  simp

/-- `k` whole blocks that all announce a successor -/
def AllCont (bl k : Nat) (data : Bytes) : Prop :=
  data.length = k * bl ∧ ∀ b, b < k → 128 ≤ (data.getD (b * bl) 0).toNat

/-- the chain runs off the input (the last block present still announces a successor and
fewer than one block of text follows): error, whatever the fuel -/
theorem unpackLoop_runs_off (enc : Enc) (he : enc = .binary ∨ enc = .bytesToHex) (bl : Nat) (hbl : 1 ≤ bl) :
    ∀ (k : Nat) (data : Bytes), AllCont bl k data →
    ∀ (wire short acc : Bytes) (read fuel : Nat), Wire enc wire data → short.length < unit enc * bl →
    unpackLoop enc bl true fuel (wire ++ short) acc read = .err := by
  intro k
  induction k with
  | zero =>
    intro data ⟨hl, _⟩ wire short acc read fuel hw hs
    have hwl := wire_length hw
    have : data.length = 0 := by omega
    rw [this] at hwl
    have hwn : wire = [] := List.eq_nil_of_length_eq_zero (by omega)
    subst hwn
    cases fuel with
    | zero => rfl
    | succ f => simp only [unpackLoop, decode_natCast, List.nil_append, wire_short enc he short bl hs]
  | succ k ih =>
    intro data ⟨hl, hall⟩ wire short acc read fuel hw hs
    cases fuel with
    | zero => rfl
    | succ f =>
      have hle : bl ≤ data.length := by rw [hl, Nat.succ_mul]; omega
      obtain ⟨hw1, hw2⟩ := wire_split hw bl
      have htl : (data.take bl).length = bl := by simp; omega
      have hwl := wire_length hw
      have hw1l := wire_length hw1
      rw [htl] at hw1l
      obtain ⟨first, rest, hd, hf0⟩ := first_of_getD (data.take bl) (by omega)
      rw [getD_take _ _ _ (by omega)] at hf0
      have hdec := wire_decode hw1 (wire.drop (unit enc * bl) ++ short)
      rw [← List.append_assoc, List.take_append_drop, htl] at hdec
      simp only [unpackLoop, decode_natCast, hdec]
      rw [hd]
      simp only
      have hge := hall 0 (by omega)
      simp only [Nat.zero_mul] at hge
      rw [hf0] at hge
      have hcont : ¬ ((!true || first.toNat < 128) = true) := by simp; omega
      have hdrop : (wire ++ short).drop (wire.take (unit enc * bl)).length = wire.drop (unit enc * bl) ++ short := by
        rw [hw1l, List.drop_append_of_le_length (by rw [hwl]; exact Nat.mul_le_mul_left _ hle)]
      rw [if_neg hcont, hdrop]
      refine ih (data.drop bl) ⟨?_, ?_⟩ _ short _ _ f hw2 hs
      · rw [List.length_drop, hl, Nat.succ_mul]; omega
      · intro b hb
        have := hall (b + 1) (by omega)
        rw [getD_drop, Nat.add_comm bl, ← Nat.succ_mul]; exact this


theorem decodeNat_ne_panic (e : Enc) (d : Bytes) (n : Nat) : decodeNat e d n ≠ .panic := by
  cases e <;> simp only [decodeNat] <;> (repeat' split) <;> simp

theorem cp1047DecodeBytes_ne_nil (d : Bytes) (h : d ≠ []) : cp1047DecodeBytes d ≠ [] := by
  cases d with
  | nil => exact absurd rfl h
  | cons x xs =>
    simp only [cp1047DecodeBytes, List.flatMap_cons, utf8OfRune]
    split <;> simp

/-- a successful decode of `n ≥ 1` units consumed between 1 and all of the bytes and returned
a non-empty value (every encoder) -/
theorem decode_progress (e : Enc) (d v : Bytes) (n r : Nat) (hn : 1 ≤ n)
    (h : decodeNat e d n = .ok (v, r)) : 1 ≤ r ∧ r ≤ d.length ∧ v ≠ [] := by
  by_cases he : e = .berTag
  · subst he
    obtain ⟨h1, h2, h3⟩ := C07.berTag_read_bounds d v (n : Int) r h
    refine ⟨h1, h2, ?_⟩
    intro hv
    have := hexEncodeUpper_length (d.take r)
    rw [← h3, hv] at this
    simp at this; omega
  · obtain ⟨h1, h2, h3, h4, h5, h6, h7⟩ := C07.decode_ok_sound e d v n r he h
    have hr : 1 ≤ r := by
      rw [h1]; cases e <;> simp only [C07.needed] <;> omega
    refine ⟨hr, h2, ?_⟩
    have htake : (d.take r).length = r := by simp; omega
    cases e with
    | berTag => exact absurd rfl he
    | ascii => intro hv; have := (h3 rfl).1; rw [hv] at this; rw [← this] at htake; simp at htake; omega
    | binary => intro hv; have := h4 rfl; rw [hv] at this; rw [← this] at htake; simp at htake; omega
    | bcd => intro hv; have := (h5 (Or.inl rfl)).1; rw [hv] at this; simp at this; omega
    | lbcd => intro hv; have := (h5 (Or.inr rfl)).1; rw [hv] at this; simp at this; omega
    | bytesToHex => intro hv; have := (h6 rfl).1; rw [hv] at this; simp at this; omega
    | hexToBytes =>
      intro hv
      have := hexEncodeUpper_length (d.take r)
      rw [← h7 rfl, hv] at this; simp at this; omega
    | ebcdic =>
      simp only [decodeNat] at h
      split at h
      · cases h
      · simp only [Res.ok.injEq, Prod.mk.injEq] at h
        rename_i hlt
        intro hv; rw [← h.1] at hv
        have h0 : (d.take n).length = 0 := by simpa using congrArg List.length hv
        have hn' : (d.take n).length = n := by rw [List.length_take]; omega
        omega
    | ebcdic1047 =>
      simp only [decodeNat] at h
      split at h
      · cases h
      · simp only [Res.ok.injEq, Prod.mk.injEq] at h
        rw [← h.1]
        apply cp1047DecodeBytes_ne_nil
        rename_i hlt
        intro hv
        have h0 : (d.take n).length = 0 := by rw [hv]; rfl
        have hn' : (d.take n).length = n := by rw [List.length_take]; omega
        omega


/-- **the fuel `data.length + 1` always suffices** (block size ≥ 1, every encoder): with any
larger fuel the loop returns the same result, so the fuel-exhausted branch is never the
reason for an error — every iteration that continues has consumed at least one byte -/
theorem unpackLoop_fuel_enough (enc : Enc) (minLen : Nat) (h : 1 ≤ minLen) (auto : Bool) :
    ∀ (fuel : Nat) (rest acc : Bytes) (read : Nat), rest.length + 1 ≤ fuel →
      unpackLoop enc minLen auto fuel rest acc read =
        unpackLoop enc minLen auto (rest.length + 1) rest acc read := by
  intro fuel
  induction fuel using Nat.strongRecOn with
  | _ fuel ih =>
    intro rest acc read hf
    obtain ⟨f, rfl⟩ : ∃ f, fuel = f + 1 := ⟨fuel - 1, by omega⟩
    simp only [unpackLoop, decode_natCast]
    cases hdec : decodeNat enc rest minLen with
    | err => rfl
    | panic => rfl
    | ok p =>
      obtain ⟨decoded, r⟩ := p
      obtain ⟨hr1, hr2, _⟩ := decode_progress enc rest decoded minLen r h hdec
      cases decoded with
      | nil => rfl
      | cons first tl =>
        simp only
        split
        · rfl
        · have hl : (rest.drop r).length + 1 ≤ rest.length := by rw [List.length_drop]; omega
          rw [ih f (by omega) _ _ _ (by omega), ih rest.length (by omega) _ _ _ hl]

theorem unpackLoop_ne_panic (enc : Enc) (minLen : Nat) (h : 1 ≤ minLen) (auto : Bool) :
    ∀ (fuel : Nat) (rest acc : Bytes) (read : Nat), unpackLoop enc minLen auto fuel rest acc read ≠ .panic := by
  intro fuel
  induction fuel with
  | zero => intro rest acc read; simp [unpackLoop]
  | succ f ih =>
    intro rest acc read
    simp only [unpackLoop, decode_natCast]
    cases hdec : decodeNat enc rest minLen with
    | err => simp
    | panic => exact absurd hdec (decodeNat_ne_panic _ _ _)
    | ok p =>
      obtain ⟨decoded, r⟩ := p
      obtain ⟨_, _, hne⟩ := decode_progress enc rest decoded minLen r h hdec
      cases decoded with
      | nil => exact absurd rfl hne
      | cons first tl =>
        simp only
        split
        · simp
        · exact ih _ _ _

/-- **Unpack never panics** for a block size ≥ 1 (fixed-length prefix, every encoder, any input) -/
theorem unpack_no_panic (enc : Enc) (f : Fam) (bm : Bitmap) (data : Bytes) (h : 1 ≤ bm.blockLen) :
    Bitmap.unpack enc (.fixed f) bm data ≠ .panic := by
  have := unpackLoop_ne_panic enc bm.blockLen h bm.auto (data.length + 1) data [] 0
  simp only [Bitmap.unpack, Pref.decodeLength]
  split
  · simp
  · simp
  · rename_i heq; exact absurd heq this

theorem unit_pos (enc : Enc) : 1 ≤ unit enc := by cases enc <;> simp [unit]

/-- **Unpack consumes exactly the chain announced by the continuation bits**: on the text of
a chain of `k ≥ 1` blocks followed by arbitrary bytes an auto-expanding bitmap reads exactly
the `k` blocks (`k·blockLen` bytes in Binary, `2·k·blockLen` characters in BytesToASCIIHex) -/
theorem unpack_chain (enc : Enc) (f : Fam) (bm : Bitmap) (k : Nat) (data wire tail : Bytes)
    (hbl : 1 ≤ bm.blockLen) (ha : bm.auto = true) (hc : IsChain bm.blockLen k data) (hw : Wire enc wire data) :
    Bitmap.unpack enc (.fixed f) bm (wire ++ tail) = .ok ({ bm with data := data }, wire.length) ∧
    wire.length = unit enc * (k * bm.blockLen) := by
  obtain ⟨hk, hlen, _⟩ := id hc
  have hwl := wire_length hw
  rw [hlen] at hwl
  refine ⟨?_, hwl⟩
  obtain ⟨k', rfl⟩ : ∃ k', k = k' + 1 := ⟨k - 1, by omega⟩
  have h1 : k' + 1 ≤ (k' + 1) * bm.blockLen := Nat.le_mul_of_pos_right _ hbl
  have h2 : (k' + 1) * bm.blockLen ≤ unit enc * ((k' + 1) * bm.blockLen) := Nat.le_mul_of_pos_left _ (unit_pos enc)
  have := unpackLoop_chain enc bm.blockLen hbl k' data hc wire tail [] 0 ((wire ++ tail).length + 1) hw
    (by rw [List.length_append, hwl]; omega)
  simp only [Bitmap.unpack, Pref.decodeLength, ha, this, List.nil_append, Nat.zero_add]

/-- with `DisableAutoExpand` exactly one block is read, whatever its first bit says -/
theorem unpack_fixed_one_block (enc : Enc) (f : Fam) (bm : Bitmap) (blk wire tail : Bytes)
    (hbl : 1 ≤ bm.blockLen) (ha : bm.auto = false) (hlen : blk.length = bm.blockLen) (hw : Wire enc wire blk) :
    Bitmap.unpack enc (.fixed f) bm (wire ++ tail) = .ok ({ bm with data := blk }, wire.length) ∧
    wire.length = unit enc * bm.blockLen := by
  have hwl := wire_length hw
  rw [hlen] at hwl
  refine ⟨?_, hwl⟩
  have := unpackLoop_fixed_one enc bm.blockLen hbl blk wire tail [] 0 (wire ++ tail).length hlen hw
  simp only [Bitmap.unpack, Pref.decodeLength, ha, this, List.nil_append, Nat.zero_add]

/-- **the chain runs off the input** ⇒ error: `k ≥ 0` complete blocks that all announce a
successor, followed by less than one block of text -/
theorem unpack_runs_off (enc : Enc) (he : enc = .binary ∨ enc = .bytesToHex) (f : Fam) (bm : Bitmap) (k : Nat)
    (data wire short : Bytes) (hbl : 1 ≤ bm.blockLen) (ha : bm.auto = true)
    (hc : AllCont bm.blockLen k data) (hw : Wire enc wire data) (hs : short.length < unit enc * bm.blockLen) :
    Bitmap.unpack enc (.fixed f) bm (wire ++ short) = .err := by
  have := unpackLoop_runs_off enc he bm.blockLen hbl k data hc wire short [] 0 ((wire ++ short).length + 1) hw hs
  simp only [Bitmap.unpack, Pref.decodeLength, ha, this]

/-- a fixed bitmap on less than one block of text: error -/
theorem unpack_fixed_short (enc : Enc) (he : enc = .binary ∨ enc = .bytesToHex) (f : Fam) (bm : Bitmap)
    (short : Bytes) (hs : short.length < unit enc * bm.blockLen) :
    Bitmap.unpack enc (.fixed f) bm short = .err := by
  simp only [Bitmap.unpack, Pref.decodeLength, unpackLoop, decode_natCast, wire_short enc he short _ hs]


/-! ## Pack then Unpack -/

theorem setAll_fixed_length (ns : List Nat) : ∀ (bm : Bitmap), bm.auto = false →
    (setAll bm ns).data.length = bm.data.length := by
  induction ns with
  | nil => intro bm _; rfl
  | cons n rest ih =>
    intro bm ha
    simp only [setAll, List.foldl_cons]
    have := ih (bm.set n) (by rw [set_auto]; exact ha)
    simp only [setAll] at this
    rw [this, set_fixed_length bm n ha]

theorem pack_wire (enc : Enc) (he : enc = .binary ∨ enc = .bytesToHex) (bm : Bitmap) :
    ∃ packed, bm.pack enc = .ok packed ∧ Wire enc packed bm.data := by
  rcases he with rfl | rfl
  · exact ⟨bm.data, rfl, wire_binary _⟩
  · exact ⟨hexEncodeUpper bm.data, rfl, wire_hex _⟩

/-- **Pack then Unpack**: a bitmap built by `Reset` and any list of `Set`s (none of them at a
continuation position when the bitmap expands) packs to bytes from which `Unpack` — on any
bitmap field `rx` of the same block size and mode, whatever follows the bitmap on the wire —
recovers exactly the same data and consumes exactly the packed bytes. -/
theorem pack_unpack (enc : Enc) (he : enc = .binary ∨ enc = .bytesToHex) (f : Fam) (specLen : Nat)
    (auto : Bool) (ns : List Nat) (tail : Bytes) (rx : Bitmap)
    (hnp : auto = true → ∀ n ∈ ns, n % (blockLenOf specLen * 8) ≠ 1)
    (hrx : rx.blockLen = blockLenOf specLen ∧ rx.auto = auto) :
    ∃ packed, (setAll (reset specLen auto) ns).pack enc = .ok packed ∧
      packed.length = unit enc * (setAll (reset specLen auto) ns).data.length ∧
      Bitmap.unpack enc (.fixed f) rx (packed ++ tail) =
        .ok ({ rx with data := (setAll (reset specLen auto) ns).data }, packed.length) := by
  obtain ⟨hinv, hlen0⟩ := inv_reset specLen auto
  obtain ⟨packed, hp, hw⟩ := pack_wire enc he (setAll (reset specLen auto) ns)
  refine ⟨packed, hp, wire_length hw, ?_⟩
  have hbl := blockLenOf_pos specLen
  cases auto with
  | false =>
    have hl := setAll_fixed_length ns (reset specLen false) rfl
    rw [hlen0] at hl
    exact (unpack_fixed_one_block enc f rx _ packed tail (by rw [hrx.1]; exact hbl) hrx.2
      (by rw [hl, hrx.1]; rfl) hw).1
  | true =>
    obtain ⟨_, hch, hb, _⟩ := setAll_inv_chained ns (reset specLen true) hinv (chained_reset specLen true)
      (hnp rfl)
    unfold Chained at hch
    rw [hb] at hch
    exact (unpack_chain enc f rx _ _ packed tail (by rw [hrx.1]; exact hbl) hrx.2
      (by rw [hrx.1]; exact hch) hw).1


/-! ## Message level: the bits set by `Message.pack` -/

theorem isPresenceBit_congr (a b : Bitmap) (h1 : a.blockLen = b.blockLen) (h2 : a.auto = b.auto) (i : Nat) :
    a.isPresenceBit i = b.isPresenceBit i := by simp [isPresenceBit, h1, h2]

theorem presence_false_mod (bm : Bitmap) (i : Nat) (hi : 2 ≤ i) (ha : bm.auto = true)
    (h : bm.isPresenceBit i = false) : i % (bm.blockLen * 8) ≠ 1 := by
  intro h1
  simp [isPresenceBit, ha, h1] at h
  omega

/-- the first loop of `Message.pack`, from any bitmap satisfying the invariant -/
theorem setBits_spec (ids : List Nat) : ∀ (bm bm' : Bitmap), Inv bm → setBits ids bm = .ok bm' →
    Inv bm' ∧ bm'.blockLen = bm.blockLen ∧ bm'.auto = bm.auto ∧
    (∀ i, bm.isPresenceBit i = false → (bm'.isSet i = true ↔ bm.isSet i = true ∨ (i ∈ ids ∧ 2 ≤ i))) ∧
    (bm.auto = true → Chained bm → Chained bm') ∧
    (bm.auto = false → bm'.data.length = bm.data.length) := by
  induction ids with
  | nil =>
    intro bm bm' hinv h
    simp only [setBits, Res.ok.injEq] at h
    subst h
    exact ⟨hinv, rfl, rfl, by simp, fun _ h => h, fun _ => rfl⟩
  | cons id rest ih =>
    intro bm bm' hinv h
    simp only [setBits] at h
    split at h
    · rename_i hskip
      obtain ⟨i1, i2, i3, i4, i5, i6⟩ := ih bm bm' hinv h
      refine ⟨i1, i2, i3, ?_, i5, i6⟩
      intro i hi
      rw [i4 i hi]
      apply or_congr Iff.rfl
      constructor
      · rintro ⟨h1, h2⟩; exact ⟨List.mem_cons_of_mem _ h1, h2⟩
      · rintro ⟨h1, h2⟩
        rcases List.mem_cons.mp h1 with rfl | h1
        · simp only [Bool.or_eq_true, decide_eq_true_eq] at hskip
          rcases hskip with hs | hs
          · omega
          · rw [hi] at hs; cases hs
        · exact ⟨h1, h2⟩
    · rename_i hskip
      simp only [Bool.or_eq_true, decide_eq_true_eq, not_or, Nat.not_lt, Bool.not_eq_true] at hskip
      obtain ⟨hid2, hidp⟩ := hskip
      split at h
      · cases h
      · rename_i hset
        have hset' : (bm.set id).isSet id = true := by
          cases hb : (bm.set id).isSet id with
          | true => rfl
          | false => simp [hb] at hset
        obtain ⟨j1, j2, j3⟩ := inv_set bm id hinv
        obtain ⟨i1, i2, i3, i4, i5, i6⟩ := ih (bm.set id) bm' j1 h
        refine ⟨i1, by rw [i2, j2], by rw [i3, j3], ?_, ?_, ?_⟩
        · intro i hi
          rw [i4 i (by rw [isPresenceBit_congr _ bm j2 j3]; exact hi)]
          by_cases hii : i = id
          · subst hii
            simp [hset', hid2]
          · rw [set_isSet_other bm id i hinv hii (Or.inl hi)]
            apply or_congr Iff.rfl
            constructor
            · rintro ⟨h1, h2⟩; exact ⟨List.mem_cons_of_mem _ h1, h2⟩
            · rintro ⟨h1, h2⟩
              rcases List.mem_cons.mp h1 with rfl | h1
              · exact absurd rfl hii
              · exact ⟨h1, h2⟩
        · intro ha hc
          exact i5 (by rw [j3]; exact ha) (chained_set bm id hinv hc (presence_false_mod bm id hid2 ha hidp))
        · intro ha
          rw [i6 (by rw [j3]; exact ha), set_fixed_length bm id ha]

theorem isSet_reset (specLen : Nat) (auto : Bool) (i : Nat) : (reset specLen auto).isSet i = false := by
  by_cases hi : i = 0
  · subst hi; exact isSet_zero _
  · rw [isSet_eq_bit _ _ (by omega)]
    unfold bit
    simp only [reset]
    rw [getD_replicate_zero, zero_and]; rfl

/-- **bits = present fields**: when the first loop of `Message.pack` succeeds, every bit that
is not a continuation position is set iff its number is one of the populated ids ≥ 2; the
continuation bits are set exactly for the blocks that are followed by another block. -/
theorem setBits_bits_eq_present (specLen : Nat) (auto : Bool) (ids : List Nat) (bm : Bitmap)
    (h : setBits ids (reset specLen auto) = .ok bm) :
    (∀ i, (reset specLen auto).isPresenceBit i = false → (bm.isSet i = true ↔ i ∈ ids ∧ 2 ≤ i)) ∧
    (∀ b, b < bm.data.length / bm.blockLen →
      (bm.isSet (b * (bm.blockLen * 8) + 1) = true ↔ b + 1 < bm.data.length / bm.blockLen)) ∧
    Inv bm ∧ bm.blockLen = blockLenOf specLen ∧ bm.auto = auto := by
  obtain ⟨hinv, hlen0⟩ := inv_reset specLen auto
  obtain ⟨i1, i2, i3, i4, i5, i6⟩ := setBits_spec ids _ bm hinv h
  have hbits : ∀ i, (reset specLen auto).isPresenceBit i = false → (bm.isSet i = true ↔ i ∈ ids ∧ 2 ≤ i) := by
    intro i hi
    rw [i4 i hi, isSet_reset]; simp
  refine ⟨hbits, ?_, i1, i2, i3⟩
  cases auto with
  | true =>
    obtain ⟨_, _, hc⟩ := i5 rfl (chained_reset specLen true)
    intro b hb
    rw [isSet_eq_bit _ _ (by omega), ← top_iff_bit]
    exact hc b hb
  | false =>
    have hl := i6 rfl
    rw [hlen0, ← i2] at hl
    have hbl := i1.1
    rw [hl, Nat.div_self (by omega)]
    intro b hb
    have hb0 : b = 0 := by omega
    subst hb0
    have := hbits 1 (by simp [isPresenceBit, reset])
    simp only [Nat.zero_mul, Nat.zero_add]
    rw [this]; omega


/-! ## An unrepresentable element makes Pack fail -/

/-- the first loop fails on a fixed bitmap as soon as one populated id ≥ 2 lies beyond it -/
theorem setBits_unrepresentable (ids : List Nat) : ∀ (bm : Bitmap), bm.auto = false →
    (∃ id ∈ ids, 2 ≤ id ∧ id > bm.len) → setBits ids bm = .err := by
  induction ids with
  | nil => intro bm _ ⟨id, h, _⟩; simp at h
  | cons id rest ih =>
    intro bm ha ⟨w, hw, hw2, hwl⟩
    have hp : bm.isPresenceBit id = false := by simp [isPresenceBit, ha]
    simp only [setBits, hp, Bool.or_false]
    by_cases hid : id < 2
    · simp only [hid, decide_true, ite_true]
      rcases List.mem_cons.mp hw with rfl | hw'
      · omega
      · exact ih bm ha ⟨w, hw', hw2, hwl⟩
    · simp only [hid, decide_false, Bool.false_eq_true, ite_false]
      split
      · rfl
      · rename_i hset
        rcases List.mem_cons.mp hw with rfl | hw'
        · exact absurd (by rw [(set_noop_fixed bm w ha hwl).2]; rfl) hset
        · refine ih (bm.set id) (by rw [set_auto]; exact ha) ⟨w, hw', hw2, ?_⟩
          unfold len at hwl ⊢
          rw [set_fixed_length bm id ha]; exact hwl

/-- **an unrepresentable data element makes `Message.Pack` fail**: with a fixed bitmap
(`DisableAutoExpand`) and a populated id ≥ 2 beyond its `8·blockLen` bits, Pack returns an
error — the field is neither emitted unannounced nor silently dropped. -/
theorem unrepresentable_fails (spec : MsgSpec) (m : Msg) (ha : spec.bitmap.auto = false)
    (h : ∃ p ∈ m.fields, 2 ≤ p.1 ∧ p.1 > 8 * blockLenOf spec.bitmap.specLen) :
    spec.pack m = .err := by
  obtain ⟨p, hp, hp2, hpl⟩ := h
  have : setBits ((sortBy (fun a b => decide (a.1 < b.1)) m.fields).map (·.1))
      (reset spec.bitmap.specLen spec.bitmap.auto) = .err := by
    apply setBits_unrepresentable
    · rw [ha]; rfl
    · refine ⟨p.1, List.mem_map.mpr ⟨p, (mem_sortBy _ p _).mpr hp, rfl⟩, hp2, ?_⟩
      simp only [len, reset, List.length_replicate]; omega
  simp only [MsgSpec.pack, this]

/-- the same for bitmapped composites: `packByBitmap` on a fixed bitmap never succeeds when a
populated subfield number lies beyond the bitmap -/
theorem packByBitmap_unrepresentable (subs : List (Tag × Field)) (vals : List (Tag × Value)) :
    ∀ (bm : Bitmap), bm.auto = false →
    (∃ tag f v idInt, (tag, f) ∈ subs ∧ lookup tag vals = some v ∧ atoi? tag = some idInt ∧ idInt.toNat > bm.len) →
    ∀ r, packByBitmap subs vals bm ≠ .ok r := by
  induction subs with
  | nil => intro bm _ ⟨_, _, _, _, h, _⟩; simp at h
  | cons hd rest ih =>
    obtain ⟨tag0, f0⟩ := hd
    intro bm ha ⟨tag, f, v, idInt, hmem, hlk, hat, hbig⟩ r
    rw [packByBitmap]
    have inRest : (tag, f) ∈ rest → ∀ bm', bm'.auto = false → bm'.len = bm.len → ∀ r, packByBitmap rest vals bm' ≠ .ok r := by
      intro hm bm' ha' hl'
      exact ih bm' ha' ⟨tag, f, v, idInt, hm, hlk, hat, by rw [hl']; exact hbig⟩
    cases hl0 : lookup tag0 vals with
    | none =>
      simp only
      rcases List.mem_cons.mp hmem with heq | hm
      · simp only [Prod.mk.injEq] at heq; rw [heq.1, hl0] at hlk; cases hlk
      · exact inRest hm bm ha rfl r
    | some v0 =>
      simp only
      cases hat0 : atoi? tag0 with
      | none => simp
      | some id0 =>
        simp only
        have hbm' : (if id0 ≤ 0 then bm else bm.set id0.toNat).auto = false ∧
            (if id0 ≤ 0 then bm else bm.set id0.toNat).len = bm.len := by
          split
          · exact ⟨ha, rfl⟩
          · exact ⟨by rw [set_auto]; exact ha, by unfold len; rw [set_fixed_length bm _ ha]⟩
        have hself : tag = tag0 → (if id0 ≤ 0 then bm else bm.set id0.toNat).isSet id0.toNat = false := by
          intro ht
          rw [ht, hat0] at hat
          have e : id0 = idInt := Option.some.inj hat
          rw [e]
          have hpos : ¬ idInt ≤ 0 := by omega
          rw [if_neg hpos]; exact (set_noop_fixed bm _ ha hbig).2
        generalize (if id0 ≤ 0 then bm else bm.set id0.toNat) = bm' at hbm' hself ⊢
        cases hs : bm'.isSet id0.toNat with
        | false => simp
        | true =>
          simp only [Bool.not_true, Bool.false_eq_true, ite_false]
          rcases List.mem_cons.mp hmem with heq | hm
          · simp only [Prod.mk.injEq] at heq
            rw [hself heq.1] at hs; cases hs
          · cases f0.pack v0 with
            | err => simp
            | panic => simp
            | ok pb =>
              simp only
              have := inRest hm _ hbm'.1 hbm'.2
              cases hrec : packByBitmap rest vals bm' with
              | err => simp
              | panic => simp
              | ok r' => exact absurd hrec (this r')

theorem composite_unrepresentable_fails (s : CompSpec) (subs : List (Tag × Field)) (vals : List (Tag × Value))
    (b : BitmapSpec) (hm : s.mode = .bitmapped b) (ha : b.auto = false)
    (h : ∃ tag f v idInt, (tag, f) ∈ subs ∧ lookup tag vals = some v ∧ atoi? tag = some idInt ∧
      idInt.toNat > 8 * blockLenOf b.specLen) :
    ∀ r, (Field.comp s subs).pack (.comp vals) ≠ .ok r := by
  intro r
  rw [Field.pack]
  simp only [hm]
  obtain ⟨tag, f, v, idInt, h1, h2, h3, h4⟩ := h
  have := packByBitmap_unrepresentable subs vals (reset b.specLen b.auto) (by rw [ha]; rfl)
    ⟨tag, f, v, idInt, h1, h2, h3, by simp only [len, reset, List.length_replicate]; omega⟩
  cases hrec : packByBitmap subs vals (reset b.specLen b.auto) with
  | err => simp
  | panic => simp
  | ok r' => exact absurd hrec (this r')


/-! ## Minimality at message level and the body -/

/-- the ids the first loop of `Message.pack` announces -/
def announcedIds (bm : Bitmap) (ids : List Nat) : List Nat :=
  ids.filter (fun id => !(decide (id < 2) || bm.isPresenceBit id))

/-- **minimal bitmap in a packed message** (auto-expanding): the number of blocks is the
maximum of 1 and `⌈id/(8·blockLen)⌉` over the announced ids -/
theorem setBits_blocks (ids : List Nat) : ∀ (bm bm' : Bitmap), Inv bm → bm.auto = true →
    setBits ids bm = .ok bm' →
    bm'.data.length = bm.blockLen *
      (announcedIds bm ids).foldl (fun acc id => max acc (blocksFor bm.blockLen id)) (bm.data.length / bm.blockLen) := by
  induction ids with
  | nil =>
    intro bm bm' hinv _ h
    simp only [setBits, Res.ok.injEq] at h
    subst h
    obtain ⟨hbl, k, _, hlen⟩ := hinv
    simp only [announcedIds, List.filter_nil, List.foldl_nil]
    rw [hlen, Nat.mul_div_cancel _ (by omega : 0 < bm.blockLen), Nat.mul_comm]
  | cons id rest ih =>
    intro bm bm' hinv ha h
    simp only [setBits] at h
    simp only [announcedIds, List.filter_cons]
    split at h
    · rename_i hskip
      simp only [hskip, Bool.not_true, Bool.false_eq_true, ite_false]
      exact ih bm bm' hinv ha h
    · rename_i hskip
      have hskip' : (decide (id < 2) || bm.isPresenceBit id) = false := by
        cases hb : (decide (id < 2) || bm.isPresenceBit id) with
        | true => exact absurd hb hskip
        | false => rfl
      simp only [hskip', Bool.not_false, ite_true, List.foldl_cons]
      split at h
      · cases h
      · obtain ⟨j1, j2, j3⟩ := inv_set bm id hinv
        have := ih (bm.set id) bm' j1 (by rw [j3]; exact ha) h
        rw [this, j2, expansion_minimal bm id hinv ha]
        have hbl := hinv.1
        rw [Nat.mul_div_cancel_left _ (by omega : 0 < bm.blockLen)]
        have hcongr : announcedIds (bm.set id) rest = announcedIds bm rest := by
          simp only [announcedIds, isPresenceBit_congr _ bm j2 j3]
        rw [hcongr]
        rfl

/-- pack every field of a list, in order (reference for the body of a message) -/
def packAll (spec : MsgSpec) : List (Nat × Value) → Res Bytes
  | [] => .ok []
  | (i, v) :: rest =>
    match lookupId i spec.fields with
    | none => .err
    | some f =>
      match f.pack v with
      | .ok b =>
        match packAll spec rest with
        | .ok more => .ok (b ++ more)
        | .err => .err
        | .panic => .panic
      | .err => .err
      | .panic => .panic

/-- what the second loop of `Message.pack` emits: exactly the packed images of the populated
fields that are not at a continuation position, in order — nothing else, nothing dropped -/
theorem packFields_body (spec : MsgSpec) (bm : Bitmap) : ∀ (l : List (Nat × Value)),
    packFields spec bm l = packAll spec (l.filter (fun p => !bm.isPresenceBit p.1)) := by
  intro l
  induction l with
  | nil => rfl
  | cons hd rest ih =>
    obtain ⟨i, v⟩ := hd
    simp only [packFields, List.filter_cons]
    cases hp : bm.isPresenceBit i with
    | true => simp only [ite_true, Bool.not_true, Bool.false_eq_true, ite_false]; exact ih
    | false =>
      simp only [Bool.false_eq_true, ite_false, Bool.not_false, ite_true, packAll, ih]
      cases lookupId i spec.fields with
      | none => rfl
      | some f =>
        simp only
        cases f.pack v with
        | ok b =>
          simp only
          cases packAll spec (List.filter (fun p => !bm.isPresenceBit p.fst) rest) <;> rfl
        | err => rfl
        | panic => rfl

/-- **every field in the body is announced, every announced bit has its field**: when
`Message.Pack` succeeds the output is MTI ++ bitmap ++ body where the body consists exactly
of the packed populated fields outside continuation positions, each of which (id ≥ 2) has its
bit set in the packed bitmap, and every set non-continuation bit is the id of a populated
field. (That `Unpack` then *visits* exactly these ids needs the field round trip: C01.) -/
theorem pack_only_announced (spec : MsgSpec) (m : Msg) (bytes : Bytes) (h : spec.pack m = .ok bytes) :
    ∃ (bm : Bitmap) (mb bb body : Bytes),
      setBits ((sortBy (fun a b => decide (a.1 < b.1)) m.fields).map (·.1))
        (reset spec.bitmap.specLen spec.bitmap.auto) = .ok bm ∧
      bm.pack spec.bitmap.enc = .ok bb ∧
      bytes = mb ++ bb ++ body ∧
      packAll spec ((sortBy (fun a b => decide (a.1 < b.1)) m.fields).filter (fun p => !bm.isPresenceBit p.1)) = .ok body ∧
      (∀ p ∈ m.fields, 2 ≤ p.1 → bm.isPresenceBit p.1 = false → bm.isSet p.1 = true) ∧
      (∀ i, bm.isPresenceBit i = false → bm.isSet i = true → 2 ≤ i ∧ ∃ p ∈ m.fields, p.1 = i) := by
  simp only [MsgSpec.pack] at h
  cases hsb : setBits ((sortBy (fun a b => decide (a.1 < b.1)) m.fields).map (·.1))
      (reset spec.bitmap.specLen spec.bitmap.auto) with
  | err => simp [hsb] at h
  | panic => simp [hsb] at h
  | ok bm =>
    simp only [hsb] at h
    obtain ⟨hbits, _, _, hb, hau⟩ := setBits_bits_eq_present _ _ _ bm hsb
    have hpres : ∀ i, bm.isPresenceBit i = (reset spec.bitmap.specLen spec.bitmap.auto).isPresenceBit i := by
      intro i; apply isPresenceBit_congr
      · rw [hb]; rfl
      · rw [hau]; rfl
    split at h
    · cases h
    · cases h
    · rename_i mb hmb
      split at h
      · cases h
      · cases h
      · rename_i bb hbb
        split at h
        · rename_i fb hfb
          simp only [Res.ok.injEq] at h
          rw [packFields_body] at hfb
          refine ⟨bm, mb, bb, fb, rfl, hbb, h.symm, hfb, ?_, ?_⟩
          · intro p hp hp2 hpp
            rw [hbits p.1 (by rw [← hpres]; exact hpp)]
            exact ⟨List.mem_map.mpr ⟨p, (mem_sortBy _ p _).mpr hp, rfl⟩, hp2⟩
          · intro i hi hs
            obtain ⟨h1, h2⟩ := (hbits i (by rw [← hpres]; exact hi)).mp hs
            obtain ⟨p, hp, rfl⟩ := List.mem_map.mp h1
            exact ⟨h2, p, (mem_sortBy _ p _).mp hp, rfl⟩
        · cases h
        · cases h


/-! ## Non-vacuity -/

example : Inv (reset 3 true) ∧ Chained (reset 3 true) := ⟨(inv_reset 3 true).1, chained_reset 3 true⟩
example : ((reset 0 true).set 70).data = [0x80, 0, 0, 0, 0, 0, 0, 0, 0x04, 0, 0, 0, 0, 0, 0, 0] := by decide
example : ((reset 0 true).set 70).isSet 70 = true ∧ ((reset 0 true).set 70).isSet 1 = true ∧
    ((reset 0 true).set 70).isSet 65 = false ∧ ((reset 0 true).set 70).isSet 71 = false := by decide
example : ((reset 3 true).set 49).data.length = 3 * max 1 (blocksFor 3 49) := by decide
example : blocksFor 3 48 = 2 ∧ blocksFor 3 49 = 3 ∧ blocksFor 8 64 = 1 ∧ blocksFor 8 66 = 2 := by decide
example : (reset 2 false).set 20 = reset 2 false ∧ ((reset 2 false).set 20).isSet 20 = false := by decide
example : ∀ n ∈ [2, 70, 130], n % (blockLenOf 0 * 8) ≠ 1 := by decide
example : (setAll (reset 0 true) [2, 70, 130]).data.length = 24 := by decide
example : IsChain 2 2 [0x80, 0x01, 0x00, 0x02] := by unfold IsChain; decide
example : AllCont 2 2 [0x80, 0x01, 0xC0, 0x02] := by unfold AllCont; decide
example : Wire .bytesToHex [0x38, 0x30, 0x30, 0x31] [0x80, 0x01] := by unfold Wire; decide
example : Bitmap.unpack .binary (.fixed .binary) (reset 2 true) [0x80, 0x01, 0x00, 0x02, 0xFF] =
    .ok ({ reset 2 true with data := [0x80, 0x01, 0x00, 0x02] }, 4) := by decide
example : Bitmap.unpack .binary (.fixed .binary) (reset 2 false) [0x80, 0x01, 0x00, 0x02, 0xFF] =
    .ok ({ reset 2 false with data := [0x80, 0x01] }, 2) := by decide
example : Bitmap.unpack .binary (.fixed .binary) (reset 2 true) [0x80, 0x01, 0xC0, 0x02, 0xFF] = .err := by decide
example : setBits [2, 20] (reset 2 false) = .err := by decide
example : (match setBits [2, 20] (reset 2 true) with | .ok bm => bm.data | _ => []) = [0xC0, 0x00, 0x10, 0x00] := by decide

/-- a coherent message spec with a fixed 2-byte bitmap and a field 20 it can not announce -/
def demoSpec : MsgSpec :=
  { mti := { kind := .string, len := 4, enc := .ascii, pref := .fixed .ascii, pad := .nil },
    bitmap := { specLen := 2, enc := .binary, pref := .fixed .binary, auto := false },
    fields := [(2, .prim { kind := .string, len := 4, enc := .ascii, pref := .var .ascii 2, pad := .nil }),
               (20, .prim { kind := .string, len := 4, enc := .ascii, pref := .var .ascii 2, pad := .nil })] }

def demoMsg : Msg := { mti := some (.str [0x30, 0x31, 0x30, 0x30]), fields := [(20, .str [0x41, 0x42])] }

example : demoSpec.coherent = true := by decide
example : demoSpec.inDomain demoMsg = true := by decide
example : demoSpec.pack demoMsg = .err :=
  unrepresentable_fails demoSpec demoMsg rfl ⟨_, List.Mem.head _, by decide, by decide⟩
example : ({ demoSpec with bitmap := { demoSpec.bitmap with auto := true } } : MsgSpec).pack demoMsg =
    .ok [0x30, 0x31, 0x30, 0x30, 0x80, 0x00, 0x10, 0x00, 0x30, 0x32, 0x41, 0x42] := by decide


end Iso8583.C05
