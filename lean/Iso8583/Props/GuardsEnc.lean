/-
C07, decision logic tied by TRANSLATION: `Gen/GuardsEnc.lean` holds the conditions under which
`Decode` (and ASCII `Encode`) of the value encoders return an error, rendered from the function
bodies of /repo/encoding/*.go on every run. For every input and every requested length — negative
ones included — the hand-written model (`Model/Encoding.lean`) takes exactly those decisions.
-/
import Iso8583.Gen.GuardsEnc
import Iso8583.Model.Encoding
import Iso8583.Lemmas.GuardTactics

namespace Iso8583.GuardsEnc
open Iso8583 Iso8583.Gen.Guards Enc

theorem negSucc_lt (k : Nat) : (Int.negSucc k < 0) := by omega

theorem decode_neg (e : Enc) (he : e ≠ .berTag) (data : Bytes) (l : Int) (h : l < 0) : decode e data l = .err := by
  cases l with
  | ofNat n => rw [Int.ofNat_eq_natCast] at h; omega
  | negSucc k => simp [decode, he]

theorem decode_nonneg (e : Enc) (data : Bytes) (l : Int) (h : ¬ l < 0) :
    decode e data l = decodeNat e data l.toNat := by
  have hl : (l.toNat : Int) = l := by omega
  have := decode_natCast e data l.toNat
  rw [hl] at this
  exact this

/-- a two-condition decoder: negative length, or not enough data -/
theorem decode_two (e : Enc) (he : e ≠ .berTag) (data : Bytes) (length : Int)
    (guards : Int → Int → Int → Int → List Bool) (val : Nat → Bytes)
    (hm : ∀ n : Nat, decodeNat e data n = if data.length < n then .err else .ok (val n, n))
    (hany : ∀ l d : Int, (guards l d 0 0).any id = true ↔ (l < 0 ∨ d < l)) :
    decode e data length =
      if (guards length data.length 0 0).any id then .err else .ok (val length.toNat, length.toNat) := by
  have hany := hany length data.length
  by_cases hneg : length < 0
  · rw [decode_neg e he data length hneg, if_pos (hany.mpr (Or.inl hneg))]
  · rw [decode_nonneg e data length hneg, hm]
    by_cases hl : data.length < length.toNat
    · rw [if_pos hl, if_pos (hany.mpr (Or.inr (by omega)))]
    · have : ¬ ((guards length data.length 0 0).any id = true) := fun h => by
        rcases hany.mp h with x | x <;> omega
      rw [if_neg hl, if_neg this]

theorem ebcdic_iff (l d : Int) : (ebcdic_Decode_guards l d 0 0).any id = true ↔ (l < 0 ∨ d < l) := by
  unfold ebcdic_Decode_guards; guards_to_prop <;> guards_done
theorem ebcdic1047_iff (l d : Int) : (ebcdic1047_Decode_guards l d 0 0).any id = true ↔ (l < 0 ∨ d < l) := by
  unfold ebcdic1047_Decode_guards; guards_to_prop <;> guards_done
theorem binary_iff (l d : Int) : (binary_Decode_guards l d 0 0).any id = true ↔ (l < 0 ∨ d < l) := by
  unfold binary_Decode_guards; guards_to_prop <;> guards_done
theorem hexToBytes_iff (l d : Int) : (hexToBytes_Decode_guards l d 0 0).any id = true ↔ (l < 0 ∨ d < l) := by
  unfold hexToBytes_Decode_guards; guards_to_prop <;> guards_done
theorem ascii_len_iff (l d : Int) : (ascii_Decode_guards l d 0 0).any id = true ↔ (l < 0 ∨ d < l) := by
  unfold ascii_Decode_guards; guards_to_prop <;> guards_done
theorem ascii_byte_iff (r : Nat) : (ascii_Decode_guards 0 0 0 r).any id = true ↔ r > 127 := by
  unfold ascii_Decode_guards; guards_to_prop <;> guards_done
theorem ascii_enc_byte_iff (r : Nat) : (ascii_Encode_guards r).any id = true ↔ r > 127 := by
  unfold ascii_Encode_guards; guards_to_prop <;> guards_done
theorem bcd_iff (l d n : Int) : (bcd_Decode_guards l d n 0).any id = true ↔ (l < 0 ∨ d < l / 2 + l % 2 ∨ n ≠ 2 * (l / 2 + l % 2)) := by
  unfold bcd_Decode_guards; guards_to_prop <;> guards_done
theorem lbcd_iff (l d n : Int) : (lbcd_Decode_guards l d n 0).any id = true ↔ (l < 0 ∨ d < l / 2 + l % 2 ∨ n ≠ 2 * (l / 2 + l % 2)) := by
  unfold lbcd_Decode_guards; guards_to_prop <;> guards_done
theorem bytesToHex_iff (l d : Int) : (bytesToHex_Decode_guards l d 0 0).any id = true ↔ (l < 0 ∨ l > d / 2) := by
  unfold bytesToHex_Decode_guards; guards_to_prop <;> guards_done

/-- `ebcdicEncoder.Decode` -/
theorem ebcdic_decode_guarded (data : Bytes) (length : Int) :
    decode .ebcdic data length =
      if (ebcdic_Decode_guards length data.length 0 0).any id then .err
      else .ok ((data.take length.toNat).map (tbl Gen.ebcdicToAscii), length.toNat) :=
  decode_two .ebcdic (by decide) data length ebcdic_Decode_guards
    (fun n => (data.take n).map (tbl Gen.ebcdicToAscii)) (fun _ => rfl) ebcdic_iff

/-- `ebcdic1047Encoder.Decode` (the x/text decoder never fails on bytes) -/
theorem ebcdic1047_decode_guarded (data : Bytes) (length : Int) :
    decode .ebcdic1047 data length =
      if (ebcdic1047_Decode_guards length data.length 0 0).any id then .err
      else .ok (cp1047DecodeBytes (data.take length.toNat), length.toNat) :=
  decode_two .ebcdic1047 (by decide) data length ebcdic1047_Decode_guards
    (fun n => cp1047DecodeBytes (data.take n)) (fun _ => rfl) ebcdic1047_iff

/-- `binaryEncoder.Decode` -/
theorem binary_decode_guarded (data : Bytes) (length : Int) :
    decode .binary data length =
      if (binary_Decode_guards length data.length 0 0).any id then .err
      else .ok (data.take length.toNat, length.toNat) :=
  decode_two .binary (by decide) data length binary_Decode_guards (fun n => data.take n)
    (fun n => by simp only [decodeNat, gt_iff_lt]) binary_iff

/-- `asciiToHexEncoder.Decode` -/
theorem hexToBytes_decode_guarded (data : Bytes) (length : Int) :
    decode .hexToBytes data length =
      if (hexToBytes_Decode_guards length data.length 0 0).any id then .err
      else .ok (hexEncodeUpper (data.take length.toNat), length.toNat) :=
  decode_two .hexToBytes (by decide) data length hexToBytes_Decode_guards (fun n => hexEncodeUpper (data.take n))
    (fun n => by simp only [decodeNat, gt_iff_lt]) hexToBytes_iff

/-- `asciiEncoder.Decode`: the two length conditions, then the per-byte condition of its loop
(`r > 127`) over the bytes it reads -/
theorem ascii_decode_guarded (data : Bytes) (length : Int) :
    decode .ascii data length =
      if (ascii_Decode_guards length data.length 0 0).any id ||
         (data.take length.toNat).any (fun r => (ascii_Decode_guards 0 0 0 r.toNat).any id)
      then .err else .ok (data.take length.toNat, length.toNat) := by
  have hr : ∀ r : Byte, (ascii_Decode_guards 0 0 0 r.toNat).any id = decide (r.toNat > 127) := by
    intro r
    by_cases h : r.toNat > 127
    · rw [(ascii_byte_iff r.toNat).mpr h]; simp [h]
    · have : ¬ ((ascii_Decode_guards 0 0 0 r.toNat).any id = true) := fun x => h ((ascii_byte_iff r.toNat).mp x)
      simp [h, this]
  have hok : ∀ bs : Bytes, asciiOK bs = !(bs.any (fun r => decide (r.toNat > 127))) := by
    intro bs
    induction bs with
    | nil => rfl
    | cons b bs ih =>
      simp only [asciiOK, List.all_cons, List.any_cons] at ih ⊢
      rw [ih]
      by_cases hb : b.toNat ≤ 127
      · have : ¬ (b.toNat > 127) := by omega
        simp [hb, this]
      · have : b.toNat > 127 := by omega
        simp [hb, this]
  simp only [hr]
  have hg := ascii_len_iff length data.length
  by_cases hneg : length < 0
  · rw [decode_neg .ascii (by decide) data length hneg]
    have := hg.mpr (Or.inl hneg)
    simp [this]
  · rw [decode_nonneg .ascii data length hneg]
    simp only [decodeNat, hok]
    by_cases hl : data.length < length.toNat
    · have := hg.mpr (Or.inr (by omega))
      simp [hl, this]
    · have : ¬ ((ascii_Decode_guards length data.length 0 0).any id = true) := fun h => by
        rcases hg.mp h with x | x <;> omega
      simp only [hl, if_false]
      cases hb : (data.take length.toNat).any (fun r => decide (r.toNat > 127)) <;> simp [this, hb]

/-- `asciiEncoder.Encode`: fails exactly when some byte satisfies its loop's condition -/
theorem ascii_encode_guarded (data : Bytes) :
    asciiOK data = !(data.any (fun r => (ascii_Encode_guards r.toNat).any id)) := by
  induction data with
  | nil => rfl
  | cons b bs ih =>
    simp only [asciiOK, List.all_cons, List.any_cons] at ih ⊢
    rw [ih]
    by_cases hb : b.toNat ≤ 127
    · have : ¬ ((ascii_Encode_guards b.toNat).any id = true) := fun x => by
        have := (ascii_enc_byte_iff b.toNat).mp x; omega
      simp [hb, this]
    · have : (ascii_Encode_guards b.toNat).any id = true := (ascii_enc_byte_iff b.toNat).mpr (by omega)
      simp [hb, this]

/-- `bcdEncoder.Decode` when the BCD digits decode without a filler nibble (`n = decodedLen`) -/
theorem bcd_decode_guarded (data : Bytes) (n : Nat) (ds : Bytes)
    (hu : bcdUnpack (data.take (n / 2 + n % 2)) = some ds) :
    decode .bcd data n =
      if (bcd_Decode_guards n data.length (2 * ((n / 2 + n % 2 : Nat) : Int)) 0).any id then .err
      else .ok (ds.drop (2 * (n / 2 + n % 2) - n), n / 2 + n % 2) := by
  have hg := bcd_iff n data.length (2 * ((n / 2 + n % 2 : Nat) : Int))
  simp only [decode_natCast, decodeNat]
  by_cases hl : data.length < n / 2 + n % 2
  · rw [if_pos hl, if_pos (hg.mpr (by omega))]
  · have : ¬ ((bcd_Decode_guards n data.length (2 * ((n / 2 + n % 2 : Nat) : Int)) 0).any id = true) := fun h => by
      have := hg.mp h; omega
    rw [if_neg hl, if_neg this, hu]

/-- `lBCDEncoder.Decode`, likewise -/
theorem lbcd_decode_guarded (data : Bytes) (n : Nat) (ds : Bytes)
    (hu : bcdUnpack (data.take (n / 2 + n % 2)) = some ds) :
    decode .lbcd data n =
      if (lbcd_Decode_guards n data.length (2 * ((n / 2 + n % 2 : Nat) : Int)) 0).any id then .err
      else .ok (ds.take n, n / 2 + n % 2) := by
  have hg := lbcd_iff n data.length (2 * ((n / 2 + n % 2 : Nat) : Int))
  simp only [decode_natCast, decodeNat]
  by_cases hl : data.length < n / 2 + n % 2
  · rw [if_pos hl, if_pos (hg.mpr (by omega))]
  · have : ¬ ((lbcd_Decode_guards n data.length (2 * ((n / 2 + n % 2 : Nat) : Int)) 0).any id = true) := fun h => by
      have := hg.mp h; omega
    rw [if_neg hl, if_neg this, hu]

/-- every BCD / LBCD / hex decoder rejects a negative length (first condition of the source) -/
theorem negative_length_rejected (k : Nat) (d : Int) :
    (bcd_Decode_guards (Int.negSucc k) d 0 0).any id = true ∧ (lbcd_Decode_guards (Int.negSucc k) d 0 0).any id = true ∧
    (bytesToHex_Decode_guards (Int.negSucc k) d 0 0).any id = true ∧
    decode .bcd [] (Int.negSucc k) = .err ∧ decode .lbcd [] (Int.negSucc k) = .err ∧
    decode .bytesToHex [] (Int.negSucc k) = .err := by
  refine ⟨(bcd_iff _ _ _).mpr (Or.inl (negSucc_lt k)), (lbcd_iff _ _ _).mpr (Or.inl (negSucc_lt k)),
    (bytesToHex_iff _ _).mpr (Or.inl (negSucc_lt k)), ?_, ?_, ?_⟩ <;> simp [decode]

/-- `hexToASCIIEncoder.Decode`: `length > len(data)/2` -/
theorem bytesToHex_decode_guarded (data : Bytes) (n : Nat) :
    decode .bytesToHex data n =
      if (bytesToHex_Decode_guards n data.length 0 0).any id then .err
      else match hexDecode (data.take (2 * n)) with
        | none => .err
        | some bs => .ok (bs, 2 * n) := by
  have hg := bytesToHex_iff n data.length
  simp only [decode_natCast, decodeNat]
  by_cases h : n > data.length / 2
  · rw [if_pos h, if_pos (hg.mpr (by omega))]
  · have : ¬ ((bytesToHex_Decode_guards n data.length 0 0).any id = true) := fun x => by
      have := hg.mp x; omega
    rw [if_neg h, if_neg this]
    cases hexDecode (data.take (2 * n)) <;> rfl

/-! non-vacuity -/
example : (binary_Decode_guards 3 3 0 0).any id = false ∧ (binary_Decode_guards 4 3 0 0).any id = true ∧
    (binary_Decode_guards (-1) 3 0 0).any id = true := by decide

end Iso8583.GuardsEnc
