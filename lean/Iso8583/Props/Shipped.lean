/-
The message specs that SHIP with the library (iso8583.Spec87, specs.Spec87ASCII,
specs.Spec87Hex, examples.Spec, exp/emv.MessageSpec) — `Gen/Shipped.lean`, regenerated on every
run from the live Go values — under the general theorems:

* C04 for every shipped spec as it is (well-formed or not): Unpack never panics;
* their well-formed parts (`MsgSpec.restrict`: the data elements that satisfy the per-element
  clauses of `Coherent`) are coherent specs, hence C01 (pack-then-unpack) and C02 (whatever
  Unpack accepts re-packs; re-encoding is a fixed point) hold for "the shipped specs restricted
  to their well-formed fields" — C02's own quantifier;
* exp/emv is coherent as a whole: in particular the model's `StringsByHex` order of its 128 EMV
  tags is the order the library's own sort function produced when the file was generated
  (`Field.coherent` requires `orderSubs … = subs`), and every tag is a valid BER tag.

Spec87Hex has no well-formed part: its MTI is a `BytesToASCIIHex` value under `Hex.Fixed`
(K1: digits on encode, bytes on decode), so it can not pack any message — proved below as
`spec87hex_mti_incoherent`, and shown on the implementation by channel MS.
-/
import Iso8583.Gen.Shipped
import Iso8583.Lemmas.Shipped
import Iso8583.Props.C02Fields
import Iso8583.Props.C04

namespace Iso8583.Shipped
open Iso8583 Iso8583.Gen MessageRT FieldRepackAll

/-- **C04, shipped specs**: decoding any bytes under any shipped spec never panics -/
theorem shipped_unpack_no_panic (name : String) (spec : MsgSpec) (_ : (name, spec) ∈ shippedSpecs)
    (src : Bytes) : spec.unpack src ≠ .panic :=
  C04.msg_unpack_no_panic spec src

/-- **the well-formed part of every restrictable shipped spec is a coherent spec** -/
theorem shipped_restrict_coherent (name : String) (spec : MsgSpec) (h : (name, spec) ∈ restrictable) :
    spec.restrict.coherent = true :=
  Gen.shipped_restrict_coherent name spec h

/-- **C01, shipped specs restricted to their well-formed fields**: Pack then Unpack reproduces
the canonical content, consumes exactly the produced bytes whatever follows, and re-packs to the
identical bytes -/
theorem shipped_pack_unpack (name : String) (spec : MsgSpec) (h : (name, spec) ∈ restrictable)
    (m : Msg) (tail bs : Bytes)
    (hd : spec.restrict.inDomain m = true) (hp : spec.restrict.pack m = .ok bs) (hlen : bs.length ≤ maxInt) :
    spec.restrict.unpack (bs ++ tail) = .ok (spec.restrict.canon m, bs.length) ∧
      spec.restrict.pack (spec.restrict.canon m) = .ok bs :=
  C01.pack_unpack spec.restrict m tail bs (shipped_restrict_coherent name spec h) hd hp hlen

/-- **C02, shipped specs restricted to their well-formed fields**: whatever Unpack accepts (with
accepted content: no open finding KF2 / KF8 involved) is in-domain canonical content on which
Pack succeeds, and the re-packed bytes unpack to the same content -/
theorem shipped_repack (name : String) (spec : MsgSpec) (h : (name, spec) ∈ restrictable)
    (b : Bytes) (m : Msg) (n : Nat) (hu : spec.restrict.unpack b = .ok (m, n))
    (haccM : ∀ v, m.mti = some v → AcceptedAll (.prim spec.restrict.mti) v)
    (haccF : ∀ p ∈ m.fields, ∀ f, lookupId p.1 spec.restrict.fields = some f → AcceptedAll f p.2) :
    spec.restrict.inDomain m = true ∧ spec.restrict.canon m = m ∧
    ∃ b', spec.restrict.pack m = .ok b' ∧ (b'.length ≤ maxInt → spec.restrict.unpack b' = .ok (m, b'.length)) :=
  C02Fields.message_repack_all spec.restrict b m n (shipped_restrict_coherent name spec h) hu haccM haccF

/-! ### which shipped specs these theorems reach (regenerated data, decided by the kernel) -/

/-- every shipped spec but Spec87Hex has a coherent MTI / bitmap definition and distinct ids -/
theorem restrictable_names :
    restrictable.map (·.1) = (shippedSpecs.map (·.1)).filter (· != "spec87hex") := by decide +kernel

/-- Spec87Hex: the MTI definition itself is incoherent (K1), there is no well-formed part -/
theorem spec87hex_mti_incoherent : shipped_spec87hex.mti.coherent false = false := by decide +kernel

/-- exp/emv is coherent as it stands (no restriction needed): 128 valid, pairwise distinct BER
tags whose model sort order is the library's -/
theorem emv_coherent : shipped_emv.coherent = true := by decide +kernel

theorem emv_restrict_all : shipped_emv.restrict.fields.length = shipped_emv.fields.length := by decide +kernel

/-- in every shipped spec, every composite data element lists its subfields in the order the
MODEL's sort function gives for the composite's comparator — i.e. the model's `orderSubs` agrees
with the library's own sort (which produced the order in `Gen/Shipped.lean`) on the real tag sets -/
def subsInModelOrder : Field → Bool
  | .prim _ => true
  | .comp s subs =>
    (orderSubs (match s.mode with | .tagged t => t.sort | .bitmapped _ => .byInt) subs).map (·.1) == subs.map (·.1)

theorem shipped_subfields_in_model_order :
    shippedSpecs.all (fun p => p.2.fields.all (fun q => subsInModelOrder q.2)) = true := by decide +kernel

/-! ### non-vacuity: the well-formed parts are most of each spec -/
example : restrictable.any (fun p => p.1 == "spec87") = true := by decide +kernel
example : 2 * shipped_spec87.fields.length ≤ 3 * shipped_spec87.restrict.fields.length := by decide +kernel
example : 2 * shipped_spec87ascii.fields.length ≤ 3 * shipped_spec87ascii.restrict.fields.length := by decide +kernel
example : 2 * shipped_examples.fields.length ≤ 3 * shipped_examples.restrict.fields.length := by decide +kernel
example : (lookupId 55 shipped_examples.restrict.fields).isSome = true := by decide +kernel
example : (lookupId 2 shipped_spec87.restrict.fields).isSome = true := by decide +kernel

end Iso8583.Shipped
