/-
C15 (tie T) — every iteration over a Go map in the library, and what it does with the order.

`Gen.mapRanges` is regenerated from /repo on every run (harness/cmd/extract/mapranges.go):
one row per `for … range X` with `X` of map type in the non-test code of every package of
the module (plus, fail-closed, ranges over iterator functions / type parameters / untyped
operands and calls of maps.Keys / reflect MapKeys …, always `unknown`). The class of a row is
computed by syntactic rules over the loop body and the statements after the loop; what no
rule covers is `unknown`. The theorems below are `decide`s over the WHOLE table:

* `no_order_visible_range` — outside `cmd/` no row is `order-visible` or `unknown`;
* `pack_json_describe_sources_sorted` — the four places from which Pack, JSON encoding and
  Describe take their field order collect the keys of a map and sort that slice with the
  named sorter before anything else looks at it (remove the sort, sort a sub-slice, use the
  slice first, rename the function: the theorem fails, it does not pass vacuously);
* `table_counts`, `anchor_files_shape` — a map range added to (or removed from) the library
  changes the counts and forces a look.

What the rules do NOT see (trusted, see DESIGN §6): the functions called from a loop body
are not analysed (a callee that itself accumulates in call order would be missed; calls with
an io.Writer operand, or made only for their effect on outer state, are flagged); a sort is
taken to produce one order (the `less` of sort.Slice must be total on the keys: `StringsByInt`
is not on keys that alias as integers, "1" / "01" — rows marked `derived-key` are the loops
that build such keys). The model-level theorems of Props/C15.lean quantify over the iteration
order at exactly the loops listed here.
-/
import Iso8583.Gen.MapRanges

namespace Iso8583.C15Maps
open Iso8583.Gen

/-- classes whose result does not depend on the iteration order (on success) -/
def safeBase (c : String) : Bool :=
  c == "collect-then-sort" || c == "build-map-or-set" || c == "per-key-independent"

/-- a safe row: a safe class, or `first-error-wins` over a safe base class; a
`collect-then-sort` base names its sorter -/
def safeRow (r : MapRange) : Bool :=
  (r.cls == r.base || r.cls == "first-error-wins") && safeBase r.base &&
    (r.base != "collect-then-sort" || r.sorter != "")

def inLibrary (r : MapRange) : Bool := r.scope != "cmd"

/-- (a) No map range of the library (every package except the `cmd/` binaries) lets the
iteration order reach an output, and none was left unclassified. -/
theorem no_order_visible_range :
    (mapRanges.filter inLibrary).all safeRow = true := by decide +kernel

/-- the same, spelled as the two forbidden classes -/
theorem no_order_visible_or_unknown_class :
    (mapRanges.filter inLibrary).all
      (fun r => r.cls != "order-visible" && r.cls != "unknown" &&
                r.base != "order-visible" && r.base != "unknown") = true := by decide +kernel

/-- Outside the library there is exactly the known one: the `-spec` help text of the
`iso8583` command lists the built-in spec names in map order (cmd/iso8583/main.go, `main`:
`specNames` is joined unsorted). Not on any Pack / JSON / Describe path. -/
def knownCmdRow (r : MapRange) : Bool :=
  r.scope == "cmd" && r.file == "cmd/iso8583/main.go" && r.fn == "main" && r.expr == "availableSpecs"

theorem only_known_outside_library :
    mapRanges.all (fun r => safeRow r || knownCmdRow r) = true := by decide +kernel

/-- `(file, function, sorter)` has a `collect-then-sort` row (class and base: no early return) -/
def sortedAt (file fn sorter : String) : Bool :=
  mapRanges.any fun r =>
    r.file == file && r.fn == fn && r.cls == "collect-then-sort" && r.base == "collect-then-sort" &&
      r.sorter == sorter && r.scope == "lib"

/-- every row of `file` in function `fn` is `collect-then-sort` (a second, unsorted loop in the
same function does not hide behind the first) -/
def onlySortedIn (file fn : String) : Bool :=
  (mapRanges.filter fun r => r.file == file && r.fn == fn).all fun r => r.cls == "collect-then-sort"

/-- (b) The sources of field order on the Pack, JSON and Describe paths:
* `Message.packableFieldIDs` (message.go) — ids of `m.fieldsMap`, `sort.Ints`;
* `orderedKeys` (field/composite.go; the composite's `orderedSpecFieldTags`, set once per
  `SetSpec`) — tags of `spec.Subfields`, sorted by the spec's `sort.StringSlice` function value;
* `OrderedMap.MarshalJSON` (field/ordered_map.go; message and composite JSON) — `StringsByInt`;
* `sortFieldIDs` (describe.go; called by `describeFieldContainer`) — `StringsByInt`. -/
theorem pack_json_describe_sources_sorted :
    sortedAt "message.go" "(*Message).packableFieldIDs" "sort.Ints" = true ∧
    sortedAt "field/composite.go" "orderedKeys"
      "value sorter of type github.com/moov-io/iso8583/sort.StringSlice" = true ∧
    sortedAt "field/ordered_map.go" "(OrderedMap).MarshalJSON"
      "github.com/moov-io/iso8583/sort.StringsByInt" = true ∧
    sortedAt "describe.go" "sortFieldIDs" "github.com/moov-io/iso8583/sort.StringsByInt" = true ∧
    onlySortedIn "message.go" "(*Message).packableFieldIDs" = true ∧
    onlySortedIn "field/composite.go" "orderedKeys" = true ∧
    onlySortedIn "field/ordered_map.go" "(OrderedMap).MarshalJSON" = true ∧
    onlySortedIn "describe.go" "sortFieldIDs" = true := by decide +kernel

def countCls (c : String) : Nat := (mapRanges.filter fun r => r.cls == c).length
def countBase (c : String) : Nat := (mapRanges.filter fun r => r.base == c).length

/-- (c) Expected size of the table: a new `range` over a map anywhere in the module (or the
removal of one) fails here and forces a look at its row. -/
theorem table_counts :
    mapRanges.length = 19 ∧ (mapRanges.filter inLibrary).length = 18 ∧
    countCls "collect-then-sort" = 4 ∧ countCls "build-map-or-set" = 6 ∧
    countCls "per-key-independent" = 0 ∧ countCls "first-error-wins" = 8 ∧
    countCls "order-visible" = 1 ∧ countCls "unknown" = 0 ∧
    countBase "collect-then-sort" = 5 ∧ countBase "build-map-or-set" = 12 ∧
    countBase "per-key-independent" = 1 := by decide +kernel

/-- the packages the translator walked (a package that disappears from the scan would
silently shrink the table) -/
theorem packages_scanned :
    mapRangePackages = [".", "cmd/iso8583", "encoding", "errors", "examples", "exp/emv", "field",
      "network", "padding", "prefix", "sort", "specs", "utils"] ∧
    mapRangeSkipped.all (fun d => d == "test" || d == "docs" || d == "testdata" ||
      d == "encoding/testdata" || d == ".git" || d == ".github") = true := by decide +kernel

def shapeOf (files : List String) : List (String × String × String × String) :=
  (mapRanges.filter fun r => files.contains r.file).map fun r => (r.file, r.fn, r.cls, r.base)

/-- every map range of the four anchored files, in file / line order -/
theorem anchor_files_shape :
    shapeOf ["message.go", "field/composite.go", "field/ordered_map.go", "describe.go"] =
      [("describe.go", "(*MessageWrapper).GetSubfields", "build-map-or-set", "build-map-or-set"),
       ("describe.go", "sortFieldIDs", "collect-then-sort", "collect-then-sort"),
       ("field/composite.go", "(*Composite).getSubfields", "build-map-or-set", "build-map-or-set"),
       ("field/composite.go", "(*Composite).UnmarshalJSON", "first-error-wins", "build-map-or-set"),
       ("field/composite.go", "orderedKeys", "collect-then-sort", "collect-then-sort"),
       ("field/ordered_map.go", "(OrderedMap).MarshalJSON", "collect-then-sort", "collect-then-sort"),
       ("message.go", "(*Message).getFields", "build-map-or-set", "build-map-or-set"),
       ("message.go", "(*Message).MarshalJSON", "build-map-or-set", "build-map-or-set"),
       ("message.go", "(*Message).UnmarshalJSON", "first-error-wins", "build-map-or-set"),
       ("message.go", "(*Message).packableFieldIDs", "collect-then-sort", "collect-then-sort")] := by
  decide +kernel

/-- Recorded separately: loops that stop at the first key whose processing fails. WHICH error
comes back (and, for the two `UnmarshalJSON`s, which fields were already filled in when it
does) depends on the iteration order; no byte of a successful result does. None of them is on
the Pack / JSON-encode / Describe path: they decode JSON, validate a spec or import / export one. -/
theorem first_error_wins_rows :
    (mapRanges.filter fun r => r.cls == "first-error-wins").map (fun r => (r.file, r.fn, r.base)) =
      [("field/composite.go", "(*Composite).UnmarshalJSON", "build-map-or-set"),
       ("field/spec.go", "(*Spec).Validate", "per-key-independent"),
       ("message.go", "(*Message).UnmarshalJSON", "build-map-or-set"),
       ("specs/builder.go", "importField", "build-map-or-set"),
       ("specs/builder.go", "(*messageSpecBuilder).ImportJSON", "build-map-or-set"),
       ("specs/builder.go", "exportField", "build-map-or-set"),
       ("specs/builder.go", "(*messageSpecBuilder).ExportJSON", "build-map-or-set"),
       ("specs/builder.go", "(orderedFieldMap).MarshalJSON", "collect-then-sort")] := by
  decide +kernel

/-- Loops that write a map under a key COMPUTED from the loop key (`strconv.Itoa(id)`,
`strconv.Atoi(key)`): order-independent exactly when that computation is injective on the keys
present. `Itoa` is; `Atoi` is not ("1" and "01"): `Message.UnmarshalJSON` and `ImportJSON` then
keep whichever the map yields last (recorded as an assumption of C12 / C17, not a C15 output). -/
theorem derived_key_rows :
    (mapRanges.filter fun r => r.note == "derived-key").map (fun r => (r.file, r.fn)) =
      [("describe.go", "(*MessageWrapper).GetSubfields"),
       ("message.go", "(*Message).MarshalJSON"),
       ("message.go", "(*Message).UnmarshalJSON"),
       ("specs/builder.go", "(*messageSpecBuilder).ImportJSON"),
       ("specs/builder.go", "(*messageSpecBuilder).ExportJSON")] := by decide +kernel

/-! ## Non-vacuity -/

example : mapRanges ≠ [] := by decide +kernel
example : (mapRanges.filter inLibrary).length > 0 := by decide +kernel
example : mapRanges.any (fun r => inLibrary r && r.cls == "collect-then-sort") = true := by decide +kernel
example : mapRanges.any (fun r => inLibrary r && r.cls == "build-map-or-set") = true := by decide +kernel
example : mapRanges.any (fun r => inLibrary r && r.cls == "first-error-wins") = true := by decide +kernel
/-- the classifier does say `order-visible` when it should (the one row outside the library) -/
example : mapRanges.any (fun r => r.cls == "order-visible" && !safeRow r) = true := by decide +kernel
/-- `safeRow` rejects the forbidden classes -/
example : safeRow ⟨".", "lib", "x.go", "f", 1, "m", "order-visible", "order-visible", "", "", ""⟩ = false := by decide
example : safeRow ⟨".", "lib", "x.go", "f", 1, "m", "unknown", "unknown", "", "", ""⟩ = false := by decide
example : safeRow ⟨".", "lib", "x.go", "f", 1, "m", "first-error-wins", "order-visible", "", "", ""⟩ = false := by decide
example : safeRow ⟨".", "lib", "x.go", "f", 1, "m", "collect-then-sort", "collect-then-sort", "s", "", ""⟩ = false := by decide

end Iso8583.C15Maps
