/-
C19 for the shipped specs restricted to their well-formed fields (`Gen/Shipped.lean`, regenerated
from the live Go values; `Lemmas/Shipped.lean`): cutting a packed message at any offset inside
element `k` makes Unpack fail with a field-id path that starts with `k`.
-/
import Iso8583.Lemmas.Shipped
import Iso8583.Props.C19

namespace Iso8583.C19Shipped
open Iso8583 Iso8583.Gen MsgSpec MessageRT

theorem shipped_truncation_attribution (name : String) (spec : MsgSpec) (h : (name, spec) ∈ restrictable)
    (m : Msg) (bs : Bytes) (o : Nat)
    (hd : spec.restrict.inDomain m = true) (hp : spec.restrict.pack m = .ok bs)
    (hlen : bs.length ≤ maxInt) (ho : o < bs.length) :
    ∃ k rest, ownerAt (layout spec.restrict m) o = some k ∧
      spec.restrict.unpack (bs.take o) = .err (natToDec k :: rest) :=
  C19.truncation_attribution_all spec.restrict m bs o (shipped_restrict_coherent name spec h) hd hp hlen ho

/-- non-vacuity: four of the five shipped specs are restrictable -/
example : restrictable.length = 4 := by decide +kernel

end Iso8583.C19Shipped
