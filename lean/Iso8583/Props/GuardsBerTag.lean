/-
C07, the BER-TLV tag rule tied by TRANSLATION: "a tag continues while the first byte's low five
bits are all set and following bytes have their top bit set". `Gen/GuardsEnc.lean` holds, rendered
from `berTLVEncoderTag.Decode` (/repo/encoding/bertlv.go) on every run, the condition under which
the flag `shouldReadSubsequentByte` is switched on (after the first byte) and off (after a
following byte), and the loop condition (the flag). The model's `berTagLen` / `berTagMore` take
exactly those decisions. `bits.TrailingZeros8(^b)` / `bits.LeadingZeros8(b)` are `GuardFns.tz8` /
`lz8`, whose meaning on bytes is proved over all 256 values (`tz8_not_ge5_iff`, `lz8_pos_iff`).
-/
import Iso8583.Gen.GuardsEnc
import Iso8583.Model.Encoding
import Iso8583.Lemmas.GuardTactics

namespace Iso8583.GuardsBerTag
open Iso8583 Iso8583.Gen.Guards Iso8583.GuardFns Enc

theorem byte_lt (x : Byte) : x.toNat < 256 := x.toNat_lt

/-- after the first byte the flag is switched on exactly when its low five bits are all set -/
theorem first_iff (x : Byte) (b : Int) (m : Bool) :
    (berTag_Decode_shouldReadSubsequentByte_true x.toNat b m).any id = true ↔ x.toNat % 32 = 31 := by
  have h := tz8_not_ge5_iff ⟨x.toNat, byte_lt x⟩
  unfold berTag_Decode_shouldReadSubsequentByte_true
  cases m <;> guards_to_prop <;> first | exact h | omega

/-- after a following byte the flag is switched off exactly when its top bit is clear -/
theorem stop_iff (f : Int) (b : Byte) (m : Bool) :
    (berTag_Decode_shouldReadSubsequentByte_false f b.toNat m).any id = true ↔ b.toNat < 128 := by
  have h := lz8_pos_iff ⟨b.toNat, byte_lt b⟩
  unfold berTag_Decode_shouldReadSubsequentByte_false
  cases m <;> guards_to_prop <;> first | exact h | omega

/-- the loop runs while the flag is on -/
theorem loop_iff (f b : Int) (m : Bool) : (berTag_Decode_loops f b m).all id = true ↔ m = true := by
  unfold berTag_Decode_loops
  cases m <;> guards_to_prop

/-- **the model's first-byte decision is the source's** -/
theorem berTagLen_translated (x : Byte) (rest : Bytes) :
    berTagLen (x :: rest) =
      if (berTag_Decode_shouldReadSubsequentByte_true x.toNat 0 false).any id then (berTagMore rest).map (· + 1)
      else some 1 := by
  simp only [berTagLen]
  by_cases h : x.toNat % 32 = 31
  · rw [if_pos h, if_pos ((first_iff x 0 false).mpr h)]
  · rw [if_neg h, if_neg (fun y => h ((first_iff x 0 false).mp y))]

/-- **the model's continuation decision is the source's** -/
theorem berTagMore_translated (b : Byte) (rest : Bytes) :
    berTagMore (b :: rest) =
      if (berTag_Decode_shouldReadSubsequentByte_false 0 b.toNat true).any id then some 1
      else (berTagMore rest).map (· + 1) := by
  simp only [berTagMore]
  by_cases h : b.toNat < 128
  · rw [if_pos h, if_pos ((stop_iff 0 b true).mpr h)]
  · rw [if_neg h, if_neg (fun y => h ((stop_iff 0 b true).mp y))]

example : (berTag_Decode_shouldReadSubsequentByte_true 0x9F 0 false).any id = true ∧
    (berTag_Decode_shouldReadSubsequentByte_true 0x9A 0 false).any id = false ∧
    (berTag_Decode_shouldReadSubsequentByte_false 0 0x80 true).any id = false ∧
    (berTag_Decode_shouldReadSubsequentByte_false 0 0x02 true).any id = true := by decide

end Iso8583.GuardsBerTag
