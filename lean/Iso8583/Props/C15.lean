/-
C15 — Packing is deterministic and free of side effects; clones are independent.

About the object model of Model/Object.lean (mirror of /repo/message.go after the `fix:`
commits). Wherever the Go code ranges over a map the model takes the iteration order as an
explicit list; the theorems quantify over every permutation of it.

* `pack_order_independent` — the packed bytes (and the bitmap left in the message) are the
  same for every iteration order of `fieldsMap` (`packableFieldIDs` sorts);
* `obs_of_equiv` — GetFields, values, Pack and JSON depend only on the logical state (which
  ids are marked, which object each id holds), not on the order in which the maps were
  filled (`sort.Ints`, `OrderedMap` + `sort.StringsByInt`);
* `population_order_independent` — populating the same fields in any order gives the same
  observation;
* `readonly_ops_pure` — full strength, no hypothesis: at every point of every history Pack,
  MarshalJSON, Describe, Clone and GetFields change nothing that any later history observes
  through GetFields, values, Pack and JSON (the bitmap field is marked from `NewMessage` on:
  `marked_run`); `readonly_ops_describe_ids` — nor the field list Describe prints;
* `readonly_ops_describeStatement` / `describe_stale_bitmap_witness` /
  `readonly_ops_describe_partial` — what remains (KF10): the bitmap lines of Describe show
  the bitmap object as the last Pack / Unpack left it, so a Pack changes them unless the
  message was packed since its last write;
* `clone_independent` — a clone shares nothing with its original.
-/
import Iso8583.Props.C14

namespace Iso8583.C15
open Iso8583

/-! ### logical state -/

/-- same logical state: the same object under every id, the same ids marked (in any
order), the same bitmap cache -/
structure Equiv (o o' : MsgObj) : Prop where
  fields : ∀ j, lookupId j o.fields = lookupId j o'.fields
  present : o.present.Perm o'.present
  cached : o.cachedBitmap = o'.cachedBitmap
  bitmap : o.bitmap = o'.bitmap

theorem Equiv.refl (o : MsgObj) : Equiv o o := ⟨fun _ => rfl, List.Perm.refl _, rfl, rfl⟩

theorem Equiv.symm {o o' : MsgObj} (h : Equiv o o') : Equiv o' o :=
  ⟨fun j => (h.fields j).symm, h.present.symm, h.cached.symm, h.bitmap.symm⟩

theorem Equiv.trans {a b c : MsgObj} (h₁ : Equiv a b) (h₂ : Equiv b c) : Equiv a c :=
  ⟨fun j => (h₁.fields j).trans (h₂.fields j), h₁.present.trans h₂.present,
   h₁.cached.trans h₂.cached, h₁.bitmap.trans h₂.bitmap⟩

theorem Equiv.get {o o' : MsgObj} (h : Equiv o o') (j : Nat) (f : Field) : o.get j f = o'.get j f := by
  unfold MsgObj.get; rw [h.fields j]

theorem Equiv.contains {o o' : MsgObj} (h : Equiv o o') (j : Nat) :
    o.present.contains j = o'.present.contains j := h.present.contains_eq

/-! ### sorting makes the iteration order irrelevant -/

theorem sortedIds_perm {l₁ l₂ : List Nat} (hp : l₁.Perm l₂) :
    sortBy (fun a b => decide (a < b)) l₁ = sortBy (fun a b => decide (a < b)) l₂ :=
  sortBy_eq_of_perm _ (fun a => a) hp (fun _ _ _ _ => rfl) (fun _ _ _ _ h => h)

/-- the entries of the content are determined by their id -/
theorem content_fields_mem (spec : MsgSpec) (o : MsgObj) (ord : List Nat) (p : Nat × Value)
    (hp : p ∈ (o.content spec ord).fields) :
    ∃ f, lookupId p.1 spec.fields = some f ∧ p.2 = f.valueOf (o.get p.1 f) := by
  simp only [MsgObj.content, List.mem_filterMap, List.mem_filter] at hp
  obtain ⟨i, _, hi⟩ := hp
  cases hf : lookupId i spec.fields with
  | none => simp [hf] at hi
  | some f =>
    simp only [hf, Option.map_some, Option.some.injEq] at hi
    subst hi
    exact ⟨f, hf, rfl⟩

theorem content_perm (spec : MsgSpec) {o o' : MsgObj} (h : Equiv o o') {ord ord' : List Nat}
    (hp : ord.Perm ord') :
    (o.content spec ord).mti = (o'.content spec ord').mti ∧
    ((o.content spec ord).fields).Perm ((o'.content spec ord').fields) := by
  constructor
  · simp only [MsgObj.content, hp.contains_eq, h.get]
  · simp only [MsgObj.content]
    have : (fun i => (lookupId i spec.fields).map fun f => (i, f.valueOf (o.get i f))) =
        (fun i => (lookupId i spec.fields).map fun f => (i, f.valueOf (o'.get i f))) := by
      funext i; simp only [h.get]
    rw [this]
    exact (hp.filter _).filterMap _

/-- `MsgSpec.pack` only looks at the fields through their sorted list -/
theorem msgPack_perm (spec : MsgSpec) (m m' : Msg) (hm : m.mti = m'.mti) (hp : m.fields.Perm m'.fields)
    (hkey : ∀ a b, a ∈ m.fields → b ∈ m.fields → a.1 = b.1 → a = b) :
    spec.pack m = spec.pack m' ∧
    sortBy (fun a b => decide (a.1 < b.1)) m.fields = sortBy (fun a b => decide (a.1 < b.1)) m'.fields := by
  have hs : sortBy (fun a b => decide (a.1 < b.1)) m.fields = sortBy (fun a b => decide (a.1 < b.1)) m'.fields :=
    sortBy_eq_of_perm _ (fun a => a.1) hp (fun _ _ _ _ => rfl) hkey
  refine ⟨?_, hs⟩
  unfold MsgSpec.pack
  rw [hs, hm]

theorem packOrd_congr (spec : MsgSpec) {o o' : MsgObj} (h : Equiv o o') {ord ord' : List Nat}
    (hp : ord.Perm ord') :
    (o.packOrd spec ord).2 = (o'.packOrd spec ord').2 ∧
    (o.packOrd spec ord).1.bitmap = (o'.packOrd spec ord').1.bitmap := by
  obtain ⟨hm, hf⟩ := content_perm spec h hp
  have hkey : ∀ a b, a ∈ (o.content spec ord).fields → b ∈ (o.content spec ord).fields → a.1 = b.1 → a = b := by
    intro a b ha hb hab
    obtain ⟨f, hf1, hf2⟩ := content_fields_mem spec o ord a ha
    obtain ⟨g, hg1, hg2⟩ := content_fields_mem spec o ord b hb
    rw [hab, hg1] at hf1
    cases hf1
    cases a; cases b
    simp only at hab hf2 hg2
    subst hab
    rw [hf2, hg2]
  obtain ⟨h1, h2⟩ := msgPack_perm spec _ _ hm hf hkey
  unfold MsgObj.packOrd
  exact ⟨h1, by simp only [h2]⟩

/-- **Pack does not depend on the map iteration order.** Whatever order `range m.fieldsMap`
yields (`ord`: any permutation of the marked ids), Pack returns the same bytes (or fails
alike) and leaves the same bitmap in the message. -/
theorem pack_order_independent (spec : MsgSpec) (o : MsgObj) (ord : List Nat) (hp : ord.Perm o.present) :
    (o.packOrd spec ord).2 = (o.packOrd spec o.present).2 ∧
    (o.packOrd spec ord).1.bitmap = (o.packOrd spec o.present).1.bitmap :=
  packOrd_congr spec (Equiv.refl o) hp

/-! ### observations depend on the logical state only -/

theorem markId_perm {l l' : List Nat} (hp : l.Perm l') (i : Nat) : (markId i l).Perm (markId i l') := by
  unfold markId
  rw [hp.contains_eq]
  split
  · exact hp
  · exact List.Perm.cons i hp

theorem touchBitmap_congr (spec : MsgSpec) {o o' : MsgObj} (h : Equiv o o') :
    Equiv (o.touchBitmap spec) (o'.touchBitmap spec) := by
  unfold MsgObj.touchBitmap
  rw [← h.cached]
  split
  · exact h
  · exact ⟨h.fields, markId_perm h.present 1, rfl, rfl⟩

theorem pack_congr (spec : MsgSpec) {o o' : MsgObj} (h : Equiv o o') :
    (o.pack spec).2 = (o'.pack spec).2 ∧ Equiv (o.pack spec).1 (o'.pack spec).1 := by
  have ht := touchBitmap_congr spec h
  have := packOrd_congr spec ht ht.present
  unfold MsgObj.pack
  refine ⟨this.1, ⟨?_, ?_, ?_, this.2⟩⟩
  · exact ht.fields
  · exact ht.present
  · exact ht.cached

theorem jsonAt_congr (spec : MsgSpec) {o o' : MsgObj} (h : Equiv o o') (i : Nat) :
    MsgObj.jsonAt spec o i = MsgObj.jsonAt spec o' i := by
  unfold MsgObj.jsonAt
  simp only [h.bitmap, h.get]

theorem jsonAt_key (spec : MsgSpec) (o : MsgObj) (i : Nat) (p : Bytes × JVal)
    (h : MsgObj.jsonAt spec o i = some p) : p.1 = natToDec i := by
  unfold MsgObj.jsonAt at h
  by_cases h1 : i = 1
  · simp [h1] at h; rw [← h, h1]
  · simp only [h1, if_false] at h
    cases hf : spec.fieldOf i with
    | none => simp [hf] at h
    | some f => simp [hf] at h; rw [← h]

/-- key of a JSON member of a message: the field id its decimal key stands for -/
def memberKey (p : Bytes × JVal) : Nat := ((atoi? p.1).getD 0).toNat

theorem memberKey_natToDec (i : Nat) (v : JVal) : memberKey (natToDec i, v) = i := by
  simp [memberKey, atoi_natToDec]

theorem json_congr (spec : MsgSpec) {o o' : MsgObj} (h : Equiv o o') :
    (o.json spec).2 = (o'.json spec).2 := by
  obtain ⟨hb, he⟩ := pack_congr spec h
  unfold MsgObj.json
  dsimp only
  rw [← hb]
  cases (o.pack spec).2 with
  | ok bytes =>
    simp only
    congr 2
    unfold orderJson
    have hfun : MsgObj.jsonAt spec (o.pack spec).1 = MsgObj.jsonAt spec (o'.pack spec).1 := by
      funext i; exact jsonAt_congr spec he i
    rw [← hfun]
    have hmem : ∀ p, p ∈ (o.pack spec).1.present.filterMap (MsgObj.jsonAt spec (o.pack spec).1) →
        ∃ i, MsgObj.jsonAt spec (o.pack spec).1 i = some p ∧ p.1 = natToDec i := by
      intro p hp
      obtain ⟨i, _, hi⟩ := List.mem_filterMap.mp hp
      exact ⟨i, hi, jsonAt_key spec _ i p hi⟩
    apply sortBy_eq_of_perm _ memberKey (he.present.filterMap _)
    · intro a b ha hb'
      obtain ⟨i, _, hi⟩ := hmem a ha
      obtain ⟨j, _, hj⟩ := hmem b hb'
      cases a; cases b
      simp only at hi hj
      subst hi; subst hj
      simp only [byInt_less_natToDec, memberKey_natToDec]
    · intro a b ha hb' hk
      obtain ⟨i, hi1, hi⟩ := hmem a ha
      obtain ⟨j, hj1, hj⟩ := hmem b hb'
      have hij : i = j := by
        cases a; cases b
        simp only at hi hj
        subst hi; subst hj
        simpa [memberKey_natToDec] using hk
      subst hij
      rw [hi1] at hj1
      exact Option.some.inj hj1
  | err => rfl
  | panic => rfl

/-- **The observation is a function of the logical state**: which ids are marked and which
object each id holds — not of the order in which the presence map or the field map were
filled, nor of the order in which Go iterates them. -/
theorem obs_of_equiv (spec : MsgSpec) {o o' : MsgObj} (h : Equiv o o') : o.obs spec = o'.obs spec := by
  have hs : o.sortedIds = o'.sortedIds := sortedIds_perm h.present
  unfold MsgObj.obs
  rw [hs, (pack_congr spec h).1, json_congr spec h]
  congr 1
  simp only [MsgObj.content, h.get]

/-! ### population order -/

/-- what a populating operation does to the object of its target field (`none`: the
operation is refused and changes nothing) -/
def popEffect (f : Field) : Op → Option (FieldObj → FieldObj)
  | .mti s => some fun x => (f.setBytesInto x s).1
  | .setField _ b => some fun x => (f.setBytesInto x b).1
  | .marshalField _ v => if f.shapeOK v then some fun x => f.marshalInto x v else none
  | _ => none

/-- the field a populating operation writes -/
def popTarget : Op → Option Nat
  | .mti _ => some 0
  | .setField id _ => some id
  | .marshalField id _ => some id
  | _ => none

/-- `op` populates field `t` of the spec (a data element or the MTI; not the bitmap field) -/
def Populates (spec : MsgSpec) (op : Op) (t : Nat) : Prop :=
  popTarget op = some t ∧ (spec.fieldOf t).isSome = true

theorem pop_form (spec : MsgSpec) (op : Op) (t : Nat) (f : Field) (ht : popTarget op = some t)
    (hf : spec.fieldOf t = some f) (o : MsgObj) :
    (o.step spec op).1 =
      match popEffect f op with
      | some g => { o with fields := setId t (g (o.get t f)) o.fields, present := markId t o.present }
      | none => o := by
  have h1 := fieldOf_ne_one hf
  cases op with
  | mti s =>
    simp only [popTarget, Option.some.injEq] at ht; subst ht
    simp [MsgObj.step, MsgObj.setField, hf, popEffect]
  | setField id b =>
    simp only [popTarget, Option.some.injEq] at ht; subst ht
    simp [MsgObj.step, MsgObj.setField, hf, popEffect, h1]
  | marshalField id v =>
    simp only [popTarget, Option.some.injEq] at ht; subst ht
    by_cases hs : f.shapeOK v = true
    · simp [MsgObj.step, MsgObj.marshalField, hf, popEffect, hs]
    · simp [MsgObj.step, MsgObj.marshalField, hf, popEffect, hs]
  | jsonDecode _ => simp [popTarget] at ht
  | unpack _ => simp [popTarget] at ht
  | unsetField _ => simp [popTarget] at ht
  | unsetPath _ _ => simp [popTarget] at ht
  | pack => simp [popTarget] at ht
  | getFields => simp [popTarget] at ht
  | json => simp [popTarget] at ht
  | clone => simp [popTarget] at ht
  | describe => simp [popTarget] at ht

theorem upd_congr {o o' : MsgObj} (h : Equiv o o') (t : Nat) (x : FieldObj) :
    Equiv { o with fields := setId t x o.fields, present := markId t o.present }
          { o' with fields := setId t x o'.fields, present := markId t o'.present } :=
  ⟨fun j => by simp only [lookupId_setId, h.fields j], markId_perm h.present t, h.cached, h.bitmap⟩

/-- a populating step respects the logical state -/
theorem pop_congr (spec : MsgSpec) (op : Op) (t : Nat) (hp : Populates spec op t) {o o' : MsgObj}
    (h : Equiv o o') : Equiv (o.step spec op).1 (o'.step spec op).1 := by
  obtain ⟨ht, hf⟩ := hp
  obtain ⟨f, hf⟩ := Option.isSome_iff_exists.mp hf
  rw [pop_form spec op t f ht hf o, pop_form spec op t f ht hf o']
  cases popEffect f op with
  | none => exact h
  | some g => rw [h.get t f]; exact upd_congr h t _

theorem markId_comm (a b : Nat) (l : List Nat) : (markId a (markId b l)).Perm (markId b (markId a l)) := by
  by_cases hab : a = b
  · subst hab; exact List.Perm.refl _
  · have hba : ¬ b = a := fun e => hab e.symm
    by_cases ha : a ∈ l <;> by_cases hb : b ∈ l
    · simp [markId, ha, hb]
    · simp [markId, ha, hb, hba]
    · simp [markId, ha, hb, hab]
    · simp only [markId, List.contains_iff_mem, ha, hb, List.mem_cons, hab, hba, or_false, if_false]
      exact List.Perm.swap _ _ _

/-- two populating steps on different fields commute -/
theorem pop_comm (spec : MsgSpec) (a b : Op) (ta tb : Nat) (ha : Populates spec a ta)
    (hb : Populates spec b tb) (hne : ta ≠ tb) (o : MsgObj) :
    Equiv ((o.step spec a).1.step spec b).1 ((o.step spec b).1.step spec a).1 := by
  obtain ⟨hta, hfa⟩ := ha
  obtain ⟨fa, hfa⟩ := Option.isSome_iff_exists.mp hfa
  obtain ⟨htb, hfb⟩ := hb
  obtain ⟨fb, hfb⟩ := Option.isSome_iff_exists.mp hfb
  have hne' : ¬ tb = ta := fun e => hne e.symm
  rw [pop_form spec b tb fb htb hfb, pop_form spec a ta fa hta hfa o,
      pop_form spec a ta fa hta hfa, pop_form spec b tb fb htb hfb o]
  cases popEffect fa a with
  | none =>
    cases popEffect fb b with
    | none => exact Equiv.refl o
    | some gb => exact Equiv.refl _
  | some ga =>
    cases popEffect fb b with
    | none => exact Equiv.refl _
    | some gb =>
      refine ⟨fun j => ?_, markId_comm tb ta o.present, rfl, rfl⟩
      simp only [MsgObj.get, lookupId_setId, hne, hne', if_false]
      by_cases hja : j = ta
      · subst hja; simp [hne]
      · by_cases hjb : j = tb
        · subst hjb; simp [hja]
        · simp [hja, hjb]

/-- all operations of the history populate spec fields -/
def AllPopulate (spec : MsgSpec) (h : List Op) : Prop := ∀ op, op ∈ h → ∃ t, Populates spec op t

/-- the histories' operations write pairwise different fields -/
def DistinctTargets (h : List Op) : Prop := h.Pairwise (fun a b => popTarget a ≠ popTarget b)

theorem run_congr (spec : MsgSpec) (h : List Op) (hall : AllPopulate spec h) :
    ∀ {o o' : MsgObj}, Equiv o o' → Equiv (MsgObj.run spec o h) (MsgObj.run spec o' h) := by
  induction h with
  | nil => intro o o' he; exact he
  | cons op rest ih =>
    intro o o' he
    obtain ⟨t, ht⟩ := hall op List.mem_cons_self
    exact ih (fun q hq => hall q (List.mem_cons_of_mem _ hq)) (pop_congr spec op t ht he)

theorem run_perm (spec : MsgSpec) {h₁ h₂ : List Op} (hp : h₁.Perm h₂) :
    AllPopulate spec h₁ → DistinctTargets h₁ →
    ∀ {o o' : MsgObj}, Equiv o o' → Equiv (MsgObj.run spec o h₁) (MsgObj.run spec o' h₂) := by
  induction hp with
  | nil => intro _ _ o o' he; exact he
  | cons x _ ih =>
    intro hall hd o o' he
    obtain ⟨t, ht⟩ := hall x List.mem_cons_self
    exact ih (fun q hq => hall q (List.mem_cons_of_mem _ hq)) (List.pairwise_cons.mp hd).2
      (pop_congr spec x t ht he)
  | swap x y l =>
    intro hall hd o o' he
    obtain ⟨tx, hx⟩ := hall x (by simp)
    obtain ⟨ty, hy⟩ := hall y (by simp)
    have hne : ty ≠ tx := by
      have := (List.pairwise_cons.mp hd).1 x (by simp)
      intro e; apply this; rw [hy.1, hx.1, e]
    have hrest : AllPopulate spec l := fun q hq => hall q (by simp [hq])
    simp only [MsgObj.run]
    apply run_congr spec l hrest
    exact (pop_comm spec y x ty tx hy hx hne o).trans
      (pop_congr spec y ty hy (pop_congr spec x tx hx he))
  | trans hp₁ _ ih₁ ih₂ =>
    intro hall hd o o' he
    have hall₂ := fun q hq => hall q (hp₁.mem_iff.mpr hq)
    have hd₂ := hd.perm hp₁ (fun h e => h e.symm)
    exact (ih₁ hall hd (Equiv.refl o)).trans (ih₂ hall₂ hd₂ he)

/-- **Population order does not matter.** Two histories that write the same fields (MTI,
`Field`/`BinaryField`, `Marshal`; each field once) in different orders leave messages with
the same observation — GetFields, values, packed bytes, JSON — from any starting state. -/
theorem population_order_independent (spec : MsgSpec) (o : MsgObj) (h₁ h₂ : List Op) (hp : h₁.Perm h₂)
    (hall : AllPopulate spec h₁) (hd : DistinctTargets h₁) :
    (MsgObj.run spec o h₁).obs spec = (MsgObj.run spec o h₂).obs spec :=
  obs_of_equiv spec (run_perm spec hp hall hd (Equiv.refl o))

/-! ### read-only operations -/

/-- the operations the property calls read-only -/
def IsReadOnly : Op → Prop
  | .pack | .json | .describe | .clone | .getFields => True
  | _ => False

/-- the bitmap field is marked: true of a new message and kept by every operation
(`marked_step`, `marked_run`) -/
def Marked1 (o : MsgObj) : Prop := o.present.contains 1 = true

/-- equal except for the bitmap *object*: whether it is cached, and its bytes (which every
Pack recomputes before they are used, and which only `Describe` shows as they are) -/
def SameButBitmap (o o' : MsgObj) : Prop := o.fields = o'.fields ∧ o.present = o'.present

theorem SameButBitmap.refl (o : MsgObj) : SameButBitmap o o := ⟨rfl, rfl⟩

theorem markId_of_contains {i : Nat} {l : List Nat} (h : l.contains i = true) : markId i l = l := by
  unfold markId; rw [h]; rfl

/-- Pack does not look at the bitmap object it finds: it caches it, resets it and fills it -/
theorem pack_mk (spec : MsgSpec) (fs : List (Nat × FieldObj)) (pr : List Nat) (h1 : pr.contains 1 = true)
    (cb cb' : Bool) (bm bm' : Bytes) :
    (⟨fs, pr, cb, bm⟩ : MsgObj).pack spec = (⟨fs, pr, cb', bm'⟩ : MsgObj).pack spec := by
  cases cb <;> cases cb' <;>
    simp [MsgObj.pack, MsgObj.touchBitmap, MsgObj.packOrd, MsgObj.content, MsgObj.get, markId_of_contains h1]

theorem pack_eq_of_same (spec : MsgSpec) {o o' : MsgObj} (h : SameButBitmap o o') (h1 : Marked1 o) :
    o'.pack spec = o.pack spec := by
  obtain ⟨fs, pr, cb, bm⟩ := o
  obtain ⟨fs', pr', cb', bm'⟩ := o'
  obtain ⟨hf, hp⟩ := h
  simp only at hf hp
  subst hf; subst hp
  exact pack_mk spec fs pr h1 cb' cb bm' bm

theorem obs_of_same (spec : MsgSpec) {o o' : MsgObj} (h : SameButBitmap o o') (h1 : Marked1 o) :
    o'.obs spec = o.obs spec := by
  have hp := pack_eq_of_same spec h h1
  unfold MsgObj.obs MsgObj.json MsgObj.sortedIds
  rw [hp]
  simp only [MsgObj.content, MsgObj.get, h.1, h.2]

theorem jsonDecode_same (spec : MsgSpec) (doc : List (Nat × Value)) :
    ∀ (fs : List (Nat × FieldObj)) (pr : List Nat) (cb cb' : Bool) (bm bm' : Bytes),
      SameButBitmap ((⟨fs, pr, cb, bm⟩ : MsgObj).jsonDecode spec doc).1
        ((⟨fs, pr, cb', bm'⟩ : MsgObj).jsonDecode spec doc).1 := by
  induction doc with
  | nil => intro fs pr cb cb' bm bm'; exact ⟨rfl, rfl⟩
  | cons p rest ih =>
    intro fs pr cb cb' bm bm'
    obtain ⟨id, v⟩ := p
    unfold MsgObj.jsonDecode
    by_cases hid : id = 1
    · subst hid
      simp only [if_true]
      cases v with
      | bin d => exact ih _ _ _ _ _ _
      | str _ => exact ⟨rfl, rfl⟩
      | num _ => exact ⟨rfl, rfl⟩
      | hexv _ => exact ⟨rfl, rfl⟩
      | comp _ => exact ⟨rfl, rfl⟩
    · simp only [hid, if_false]
      unfold MsgObj.marshalField MsgObj.get
      cases spec.fieldOf id with
      | none => exact ⟨rfl, rfl⟩
      | some f =>
        dsimp only
        by_cases hs : f.shapeOK v = true
        · simp only [hs, if_true]
          exact ih _ _ _ _ _ _
        · simp only [hs, Bool.false_eq_true, if_false]
          exact ⟨rfl, rfl⟩

theorem step_same_mk (spec : MsgSpec) (op : Op) (fs : List (Nat × FieldObj)) (pr : List Nat)
    (h1 : pr.contains 1 = true) (cb cb' : Bool) (bm bm' : Bytes) :
    SameButBitmap ((⟨fs, pr, cb, bm⟩ : MsgObj).step spec op).1 ((⟨fs, pr, cb', bm'⟩ : MsgObj).step spec op).1 := by
  cases op with
  | mti s =>
    simp only [MsgObj.step, MsgObj.setField, MsgObj.get]
    cases spec.fieldOf 0 <;> exact ⟨rfl, rfl⟩
  | setField id b =>
    simp only [MsgObj.step, MsgObj.setField, MsgObj.get]
    by_cases hid : id = 1
    · simp only [hid, if_true]; exact ⟨rfl, rfl⟩
    · simp only [hid, if_false]
      cases spec.fieldOf id <;> exact ⟨rfl, rfl⟩
  | marshalField id v =>
    simp only [MsgObj.step, MsgObj.marshalField, MsgObj.get]
    cases spec.fieldOf id with
    | none => exact ⟨rfl, rfl⟩
    | some f =>
      dsimp only
      by_cases hs : f.shapeOK v = true
      · simp only [hs, if_true]; exact ⟨rfl, rfl⟩
      · simp only [hs, Bool.false_eq_true, if_false]; exact ⟨rfl, rfl⟩
  | jsonDecode doc => exact jsonDecode_same spec doc fs pr cb cb' bm bm'
  | unpack b => exact SameButBitmap.refl _
  | unsetField id =>
    simp only [MsgObj.step, MsgObj.unsetField]
    split
    · split <;> exact ⟨rfl, rfl⟩
    · exact ⟨rfl, rfl⟩
  | unsetPath id path =>
    simp only [MsgObj.step, MsgObj.unsetPath, MsgObj.unsetField, MsgObj.get]
    by_cases hp : pr.contains id = true
    · simp only [hp, if_true]
      by_cases hpe : path.isEmpty = true
      · simp only [hpe, if_true]; split <;> exact ⟨rfl, rfl⟩
      · simp only [hpe, Bool.false_eq_true, if_false]
        cases spec.fieldOf id with
        | none => exact ⟨rfl, rfl⟩
        | some f =>
          dsimp only
          cases f.unsetSubs ((lookupId id fs).getD f.fresh) path <;> exact ⟨rfl, rfl⟩
    · simp only [hp, Bool.false_eq_true, if_false]; exact ⟨rfl, rfl⟩
  | pack =>
    simp only [MsgObj.step, pack_mk spec fs pr h1 cb cb' bm bm']; exact SameButBitmap.refl _
  | getFields => exact ⟨rfl, rfl⟩
  | json =>
    simp only [MsgObj.step, json_fst, pack_mk spec fs pr h1 cb cb' bm bm']; exact SameButBitmap.refl _
  | clone =>
    simp only [MsgObj.step, clone_fst, pack_mk spec fs pr h1 cb cb' bm bm']; exact SameButBitmap.refl _
  | describe =>
    simp only [MsgObj.step, MsgObj.describe, MsgObj.touchBitmap]
    cases cb <;> cases cb' <;> simp [SameButBitmap, markId_of_contains h1]

/-- every operation treats two messages that differ only in the bitmap object alike -/
theorem step_same (spec : MsgSpec) (op : Op) {o o' : MsgObj} (h : SameButBitmap o o') (h1 : Marked1 o) :
    SameButBitmap (o.step spec op).1 (o'.step spec op).1 := by
  obtain ⟨fs, pr, cb, bm⟩ := o
  obtain ⟨fs', pr', cb', bm'⟩ := o'
  obtain ⟨hf, hp⟩ := h
  simp only at hf hp
  subst hf; subst hp
  exact step_same_mk spec op fs pr h1 cb cb' bm bm'

/-! #### the bitmap field stays marked -/

theorem scanInto_marked (spec : MsgSpec) (bm : Bitmap) (remaining : Nat) :
    ∀ (i : Nat) (src : Bytes) (off : Nat) (fs : List (Nat × FieldObj)) (pr : List Nat),
      pr.contains 1 = true → (MsgSpec.scanInto spec bm remaining i src off fs pr).2.contains 1 = true := by
  induction remaining with
  | zero => intro i src off fs pr h; simpa [MsgSpec.scanInto] using h
  | succ n ih =>
    intro i src off fs pr h
    unfold MsgSpec.scanInto
    split
    · exact ih _ _ _ _ _ h
    · split
      · split
        · exact h
        · split
          · exact h
          · dsimp only
            split
            · apply ih
              rw [markId_contains, h]; simp
            · exact h
      · exact ih _ _ _ _ _ h

theorem unpackObj_marked (spec : MsgSpec) (b : Bytes) : Marked1 (spec.unpackObj b).1 := by
  have hres : Marked1 (spec.unpackResidue b) := by
    unfold MsgSpec.unpackResidue Marked1
    split
    · split
      · rfl
      · split
        · exact scanInto_marked spec _ _ _ _ _ _ _ rfl
        · rfl
    · rfl
  unfold MsgSpec.unpackObj
  split
  · unfold Marked1 MsgSpec.objOfMsg
    simp only [List.contains_append, List.contains_cons, beq_self_eq_true, Bool.true_or, Bool.or_true]
  · exact hres
  · exact hres

theorem pack_marked (spec : MsgSpec) (o : MsgObj) (h : Marked1 o) : Marked1 (o.pack spec).1 := by
  obtain ⟨fs, pr, cb, bm⟩ := o
  unfold Marked1 at h ⊢
  simp only at h
  cases cb <;> simp only [MsgObj.pack, MsgObj.touchBitmap, MsgObj.packOrd, markId_of_contains h] <;> exact h

theorem jsonDecode_marked (spec : MsgSpec) (doc : List (Nat × Value)) :
    ∀ o : MsgObj, Marked1 o → Marked1 (o.jsonDecode spec doc).1 := by
  induction doc with
  | nil => intro o h; exact h
  | cons p rest ih =>
    intro o h
    obtain ⟨id, v⟩ := p
    unfold MsgObj.jsonDecode
    by_cases hid : id = 1
    · subst hid
      simp only [if_true]
      cases v with
      | bin d =>
        apply ih
        show (markId 1 o.present).contains 1 = true
        rw [markId_contains]; simp
      | str _ => exact h
      | num _ => exact h
      | hexv _ => exact h
      | comp _ => exact h
    · simp only [hid, if_false]
      have hm : Marked1 (o.marshalField spec id v).1 := by
        unfold MsgObj.marshalField
        cases spec.fieldOf id with
        | none => exact h
        | some f =>
          dsimp only
          split
          · show (markId id o.present).contains 1 = true
            rw [markId_contains, h]; simp
          · exact h
      generalize o.marshalField spec id v = r at hm
      obtain ⟨o', st⟩ := r
      cases st with
      | ok u => exact ih o' hm
      | err => exact hm
      | panic => exact hm

/-- the bitmap field stays marked through every operation -/
theorem marked_step (spec : MsgSpec) (o : MsgObj) (op : Op) (h : Marked1 o) : Marked1 (o.step spec op).1 := by
  have hmark : ∀ id, (markId id o.present).contains 1 = true := by
    intro id; rw [markId_contains, h]; simp
  cases op with
  | mti s =>
    simp only [MsgObj.step, MsgObj.setField]
    cases spec.fieldOf 0 with
    | none => simpa using h
    | some f => simpa [Marked1] using hmark 0
  | setField id b =>
    simp only [MsgObj.step, MsgObj.setField]
    split
    · exact hmark 1
    · cases spec.fieldOf id with
      | none => exact h
      | some f => exact hmark id
  | marshalField id v =>
    simp only [MsgObj.step, MsgObj.marshalField]
    cases spec.fieldOf id with
    | none => exact h
    | some f =>
      dsimp only
      split
      · exact hmark id
      · exact h
  | jsonDecode doc => exact jsonDecode_marked spec doc o h
  | unpack b => exact unpackObj_marked spec b
  | unsetField id =>
    simp only [MsgObj.step, MsgObj.unsetField]
    split
    · split
      · exact h
      · rename_i hne
        show (o.present.filter (fun i => i != id)).contains 1 = true
        rw [List.contains_iff_mem, List.mem_filter]
        exact ⟨List.contains_iff_mem.mp h, by simpa using Ne.symm hne⟩
    · exact h
  | unsetPath id path =>
    simp only [MsgObj.step, MsgObj.unsetPath, MsgObj.unsetField]
    split
    · split
      · split
        · exact h
        · rename_i hne
          show (o.present.filter (fun i => i != id)).contains 1 = true
          rw [List.contains_iff_mem, List.mem_filter]
          exact ⟨List.contains_iff_mem.mp h, by simpa using Ne.symm hne⟩
      · cases spec.fieldOf id with
        | none => exact h
        | some f =>
          dsimp only
          cases f.unsetSubs (o.get id f) path <;> exact h
    · exact h
  | pack => exact pack_marked spec o h
  | getFields => exact h
  | json => simp only [MsgObj.step, json_fst]; exact pack_marked spec o h
  | clone => simp only [MsgObj.step, clone_fst]; exact pack_marked spec o h
  | describe =>
    simp only [MsgObj.step, MsgObj.describe, MsgObj.touchBitmap]
    split
    · exact h
    · exact hmark 1

theorem marked_run (spec : MsgSpec) (h : List Op) : ∀ o : MsgObj, Marked1 o → Marked1 (MsgObj.run spec o h) := by
  induction h with
  | nil => intro o ho; exact ho
  | cons op rest ih => intro o ho; exact ih _ (marked_step spec o op ho)

theorem marked_newMsg (spec : MsgSpec) : Marked1 spec.newMsg := rfl

theorem run_same (spec : MsgSpec) (later : List Op) :
    ∀ {o o' : MsgObj}, SameButBitmap o o' → Marked1 o →
      SameButBitmap (MsgObj.run spec o later) (MsgObj.run spec o' later) ∧ Marked1 (MsgObj.run spec o later) := by
  induction later with
  | nil => intro o o' h h1; exact ⟨h, h1⟩
  | cons op rest ih => intro o o' h h1; exact ih (step_same spec op h h1) (marked_step spec o op h1)

/-- a read-only operation changes at most the bitmap object (cached or not, its bytes) -/
theorem readonly_state (spec : MsgSpec) (o : MsgObj) (op : Op) (hro : IsReadOnly op) (h1 : Marked1 o) :
    SameButBitmap o (o.step spec op).1 := by
  have hpack : SameButBitmap o (o.pack spec).1 := by
    obtain ⟨fs, pr, cb, bm⟩ := o
    unfold Marked1 at h1
    simp only at h1
    cases cb <;> simp [SameButBitmap, MsgObj.pack, MsgObj.touchBitmap, MsgObj.packOrd, markId_of_contains h1]
  cases op with
  | pack => exact hpack
  | json => simp only [MsgObj.step, json_fst]; exact hpack
  | clone => simp only [MsgObj.step, clone_fst]; exact hpack
  | describe =>
    obtain ⟨fs, pr, cb, bm⟩ := o
    unfold Marked1 at h1
    simp only at h1
    cases cb <;> simp [SameButBitmap, MsgObj.step, MsgObj.describe, MsgObj.touchBitmap, markId_of_contains h1]
  | getFields => exact SameButBitmap.refl o
  | mti _ => exact absurd hro (by simp [IsReadOnly])
  | setField _ _ => exact absurd hro (by simp [IsReadOnly])
  | marshalField _ _ => exact absurd hro (by simp [IsReadOnly])
  | jsonDecode _ => exact absurd hro (by simp [IsReadOnly])
  | unpack _ => exact absurd hro (by simp [IsReadOnly])
  | unsetField _ => exact absurd hro (by simp [IsReadOnly])
  | unsetPath _ _ => exact absurd hro (by simp [IsReadOnly])

/-- **Read-only operations are pure** (from any message in which the bitmap field is marked):
Pack, MarshalJSON, Describe, Clone and GetFields change nothing that any later history
observes through GetFields, values, Pack and JSON. -/
theorem readonly_ops_pure_from (spec : MsgSpec) (o : MsgObj) (h1 : Marked1 o) (op : Op) (hro : IsReadOnly op)
    (later : List Op) :
    (MsgObj.run spec (o.step spec op).1 later).obs spec = (MsgObj.run spec o later).obs spec := by
  have hr := run_same spec later (readonly_state spec o op hro h1) h1
  exact obs_of_same spec hr.1 hr.2

/-- the full-strength statement: at every point of every history, a read-only operation
changes nothing that is observed afterwards (GetFields, values, Pack, JSON) -/
def readonly_ops_pureStatement : Prop :=
  ∀ (spec : MsgSpec) (h : List Op) (op : Op), IsReadOnly op → ∀ later : List Op,
    (MsgObj.run spec ((MsgObj.run spec spec.newMsg h).step spec op).1 later).obs spec =
      (MsgObj.run spec (MsgObj.run spec spec.newMsg h) later).obs spec

/-- **Read-only operations are pure**, full strength: for every spec, every history, every
read-only operation and every later history — no hypothesis. (Before the repair of KF9 the
first Pack / MarshalJSON / Describe / Clone marked the bitmap field and so changed what
GetFields reported.) -/
theorem readonly_ops_pure : readonly_ops_pureStatement := by
  intro spec h op hro later
  exact readonly_ops_pure_from spec _ (marked_run spec h _ (marked_newMsg spec)) op hro later

/-! #### what `Describe` prints (KF10) -/

def describedBitmap : Out → Bytes
  | .described bm _ => bm
  | _ => []

def describedIds : Out → List Nat
  | .described _ ids => ids
  | _ => []

/-- the field list Describe prints is not affected by a read-only operation either … -/
theorem readonly_ops_describe_ids (spec : MsgSpec) (o : MsgObj) (h1 : Marked1 o) (op : Op) (hro : IsReadOnly op)
    (later : List Op) :
    describedIds ((MsgObj.run spec (o.step spec op).1 later).step spec .describe).2 =
      describedIds ((MsgObj.run spec o later).step spec .describe).2 := by
  obtain ⟨hs, hm⟩ := run_same spec later (readonly_state spec o op hro h1) h1
  generalize MsgObj.run spec o later = a at hs hm
  generalize MsgObj.run spec (o.step spec op).1 later = b at hs
  obtain ⟨fs, pr, cb, bm⟩ := a
  obtain ⟨fs', pr', cb', bm'⟩ := b
  obtain ⟨hf, hp⟩ := hs
  simp only at hf hp
  subst hf; subst hp
  unfold Marked1 at hm
  simp only at hm
  cases cb <;> cases cb' <;>
    simp [MsgObj.step, MsgObj.describe, MsgObj.touchBitmap, describedIds, markId_of_contains hm]

/-- … but its bitmap lines are: the full statement including everything Describe prints -/
def readonly_ops_describeStatement : Prop :=
  ∀ (spec : MsgSpec) (h : List Op) (op : Op), IsReadOnly op → ∀ later : List Op,
    describedBitmap ((MsgObj.run spec ((MsgObj.run spec spec.newMsg h).step spec op).1 later).step spec .describe).2 =
      describedBitmap ((MsgObj.run spec (MsgObj.run spec spec.newMsg h) later).step spec .describe).2

/-- **KF10, what does hold.** On a message that has been packed since it was last written
(its bitmap object is cached and holds what Pack computes), a read-only operation changes
nothing at all — the state is the same, so Describe prints the same too. -/
theorem readonly_ops_describe_partial (spec : MsgSpec) (o : MsgObj) (op : Op) (hro : IsReadOnly op)
    (hcb : o.cachedBitmap = true) (hbm : (o.pack spec).1.bitmap = o.bitmap) :
    (o.step spec op).1 = o := by
  have hpack : (o.pack spec).1 = o := by
    obtain ⟨fs, pr, cb, bm⟩ := o
    simp only at hcb
    subst hcb
    simp only [MsgObj.pack, MsgObj.touchBitmap, MsgObj.packOrd] at hbm ⊢
    simp only [if_true] at hbm ⊢
    rw [hbm]
  cases op with
  | pack => exact hpack
  | json => simp only [MsgObj.step, json_fst]; exact hpack
  | clone => simp only [MsgObj.step, clone_fst]; exact hpack
  | describe => simp [MsgObj.step, MsgObj.describe, MsgObj.touchBitmap, hcb]
  | getFields => rfl
  | mti _ => exact absurd hro (by simp [IsReadOnly])
  | setField _ _ => exact absurd hro (by simp [IsReadOnly])
  | marshalField _ _ => exact absurd hro (by simp [IsReadOnly])
  | jsonDecode _ => exact absurd hro (by simp [IsReadOnly])
  | unpack _ => exact absurd hro (by simp [IsReadOnly])
  | unsetField _ => exact absurd hro (by simp [IsReadOnly])
  | unsetPath _ _ => exact absurd hro (by simp [IsReadOnly])

/-! ### clones -/

inductive Side where
  | orig | clone
deriving DecidableEq, Repr

/-- a history over an original and its clone: each operation is applied to one of the two -/
def runPair (spec : MsgSpec) : MsgObj × MsgObj → List (Side × Op) → MsgObj × MsgObj
  | p, [] => p
  | (o, c), (.orig, op) :: rest => runPair spec ((o.step spec op).1, c) rest
  | (o, c), (.clone, op) :: rest => runPair spec (o, (c.step spec op).1) rest

def opsOf (s : Side) (l : List (Side × Op)) : List Op := (l.filter (fun p => p.1 == s)).map (·.2)

/-- **Clones are independent.** Whatever is done to the clone, the original ends in the
state its own operations alone lead to (so all its observations are those), and vice
versa: the two share no state. (In the model this is structural — values are not shared;
that the real `Clone` shares no pointer is checked by channel H with clone-then-mutate
scripts on both sides.) -/
theorem clone_independent (spec : MsgSpec) (l : List (Side × Op)) :
    ∀ o c : MsgObj, runPair spec (o, c) l =
      (MsgObj.run spec o (opsOf .orig l), MsgObj.run spec c (opsOf .clone l)) := by
  induction l with
  | nil => intro o c; rfl
  | cons p rest ih =>
    intro o c
    obtain ⟨s, op⟩ := p
    cases s with
    | orig => simp only [runPair, ih]; rfl
    | clone => simp only [runPair, ih]; rfl

/-- what a clone is: the message obtained by unpacking the original's packed bytes into a
new message and packing it once -/
theorem clone_is_repacked (spec : MsgSpec) (o c : MsgObj) (h : (o.clone spec).2 = some c) :
    ∃ bytes, (o.pack spec).2 = .ok bytes ∧ c = ((spec.unpackObj bytes).1.pack spec).1 := by
  unfold MsgObj.clone at h
  dsimp only at h
  cases hp : (o.pack spec).2 with
  | ok bytes =>
    simp only [hp] at h
    refine ⟨bytes, rfl, ?_⟩
    cases hc : ((spec.unpackObj bytes).1.pack spec).2 with
    | ok b2 => simp only [hc, Option.some.injEq] at h; exact h.symm
    | err => simp [hc] at h
    | panic => simp [hc] at h
  | err => simp [hp] at h
  | panic => simp [hp] at h

/-- the clone's content is exactly what the packed bytes decode to (when they decode: for
coherent specs and in-domain values that is C01) -/
theorem clone_content (spec : MsgSpec) (hs : spec.tagsOK = true) (o c : MsgObj)
    (h : (o.clone spec).2 = some c) (bytes : Bytes) (hb : (o.pack spec).2 = .ok bytes)
    (m : Msg) (n : Nat) (hu : spec.unpack bytes = .ok (m, n)) :
    c.abs spec = absOfMsg spec m ∧ c.Clean spec := by
  obtain ⟨b', hb', hc⟩ := clone_is_repacked spec o c h
  rw [hb] at hb'; cases hb'
  have hr := C14.unpack_refines spec hs m (spec.wireBitmapOf bytes)
  have hobj : (spec.unpackObj bytes).1 = spec.objOfMsg m (spec.wireBitmapOf bytes) := by
    simp [MsgSpec.unpackObj, hu]
  have hp := C14.pack_refines spec _ hr.2
  rw [hc, hobj]
  refine ⟨?_, hp.2⟩
  rw [hp.1, hr.1]

/-! ### caller memory -/

/-- The byte slice a caller hands to `BinaryField` / `SetBytes` is kept by the field and
later given to the packer, whose first step is the padder: it returns the padded value in
fresh memory and leaves the caller's backing array (spare capacity included) as it was.
(Memory effects of the encoders and of `append(prefix, …)` are exercised on the real code
by the C15 oracle with sentinel-filled spare capacity; the padder model is tied by
channel D, see C20.) -/
theorem pack_pad_leaves_caller_slice (sp : PrimSpec) (s : GoSlice) :
    (Pad.padMem sp.pad s sp.len).2 = s.arr ∧ (Pad.padMem sp.pad s sp.len).1 = sp.pad.pad s.data sp.len := by
  simp [Pad.padMem]

/-! ### what remains: Describe shows the bitmap object as it is (KF10) -/
section Witness
open ObjDemo

/-- **Witness (KF10, Describe shows a stale bitmap).** MTI and field 2 set: Describe prints an
all-zero bitmap; after one Pack — a read-only operation — it prints the real one. Describe
shows the bitmap object as the last Pack / Unpack left it. -/
theorem describe_stale_bitmap_witness : ¬ readonly_ops_describeStatement := by
  intro h
  have h1 := h spec [.mti [48, 49, 48, 48], .setField 2 [52]] .pack trivial []
  revert h1
  decide

end Witness

/-! ### non-vacuity -/
section Examples
open ObjDemo

-- two populating histories that are permutations of each other, on distinct spec fields
example : AllPopulate spec [.mti [48,49,48,48], .setField 2 [52]] := by
  intro op hop
  simp only [List.mem_cons, List.not_mem_nil, or_false] at hop
  rcases hop with rfl | rfl
  · exact ⟨0, rfl, by decide⟩
  · exact ⟨2, rfl, by decide⟩
example : DistinctTargets [.mti [48,49,48,48], .setField 2 [52]] := by
  simp [DistinctTargets, popTarget]
example : ([Op.mti [48,49,48,48], .setField 2 [52]]).Perm [.setField 2 [52], .mti [48,49,48,48]] :=
  List.Perm.swap _ _ _
-- repaired behaviour (KF9): GetFields lists the bitmap field before and after the first Pack
example : (MsgObj.run spec spec.newMsg [.mti [48, 49, 48, 48]]).sortedIds = [0, 1] ∧
    ((MsgObj.run spec spec.newMsg [.mti [48, 49, 48, 48]]).step spec .pack).1.sortedIds = [0, 1] := by decide
-- … and UnsetField(1) keeps it listed while dropping the cached bitmap object
example : (MsgObj.run spec spec.newMsg [.pack, .unsetField 1]).sortedIds = [1] ∧
    (MsgObj.run spec spec.newMsg [.pack, .unsetField 1]).cachedBitmap = false := by decide
-- a message packed since its last write (hypotheses of `readonly_ops_describe_partial`), with content
example : (MsgObj.run spec spec.newMsg (populate ++ [.pack])).cachedBitmap = true ∧
    ((MsgObj.run spec spec.newMsg (populate ++ [.pack])).pack spec).1.bitmap =
      (MsgObj.run spec spec.newMsg (populate ++ [.pack])).bitmap := by decide
example : (match ((MsgObj.run spec spec.newMsg populate).pack spec).2 with | .ok _ => true | _ => false) = true := by
  decide
-- a clone exists and packs to the same bytes as its original
example : (match ((MsgObj.run spec spec.newMsg populate).clone spec).2 with
    | some c => decide ((c.pack spec).2 = ((MsgObj.run spec spec.newMsg populate).pack spec).2)
    | none => false) = true := by decide

end Examples

end Iso8583.C15
