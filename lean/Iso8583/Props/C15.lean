/-
C15 — Packing is deterministic and free of side effects; clones are independent.

About the object model of Model/Object.lean (mirror of /repo/message.go after the `fix:`
commits). Wherever the Go code ranges over a map the model takes the iteration order as an
explicit list; the theorems quantify over every permutation of it.

* `pack_order_independent` — the packed bytes (and the bitmap left in the message) are the
  same for every iteration order of `fieldsMap` (`packableFieldIDs` sorts);
* `obs_of_equiv` — GetFields, values, Pack and JSON depend only on the logical state (which
  ids are marked, which object each id holds), not on the order in which the maps were
  filled (`sort.Ints`, `OrderedMap` + `sort.StringsByInt`);
* `population_order_independent` — populating the same fields in any order gives the same
  observation;
* `readonly_ops_pure_partial` / `readonly_ops_pure_witness` — Pack, MarshalJSON, Describe,
  Clone and GetFields leave every observation alone once the bitmap field has been
  materialised; the *first* of them on a message that has not packed or unpacked yet adds
  field 1 to what GetFields reports (the full statement is false in the model and in the
  code: known finding, see KNOWN_FINDINGS.txt);
* `clone_independent` — a clone shares nothing with its original.
-/
import Iso8583.Props.C14

namespace Iso8583.C15
open Iso8583

/-! ### logical state -/

/-- same logical state: the same object under every id, the same ids marked (in any
order), the same bitmap cache -/
structure Equiv (o o' : MsgObj) : Prop where
  fields : ∀ j, lookupId j o.fields = lookupId j o'.fields
  present : o.present.Perm o'.present
  cached : o.cachedBitmap = o'.cachedBitmap
  bitmap : o.bitmap = o'.bitmap

theorem Equiv.refl (o : MsgObj) : Equiv o o := ⟨fun _ => rfl, List.Perm.refl _, rfl, rfl⟩

theorem Equiv.symm {o o' : MsgObj} (h : Equiv o o') : Equiv o' o :=
  ⟨fun j => (h.fields j).symm, h.present.symm, h.cached.symm, h.bitmap.symm⟩

theorem Equiv.trans {a b c : MsgObj} (h₁ : Equiv a b) (h₂ : Equiv b c) : Equiv a c :=
  ⟨fun j => (h₁.fields j).trans (h₂.fields j), h₁.present.trans h₂.present,
   h₁.cached.trans h₂.cached, h₁.bitmap.trans h₂.bitmap⟩

theorem Equiv.get {o o' : MsgObj} (h : Equiv o o') (j : Nat) (f : Field) : o.get j f = o'.get j f := by
  unfold MsgObj.get; rw [h.fields j]

theorem Equiv.contains {o o' : MsgObj} (h : Equiv o o') (j : Nat) :
    o.present.contains j = o'.present.contains j := h.present.contains_eq

/-! ### sorting makes the iteration order irrelevant -/

theorem sortedIds_perm {l₁ l₂ : List Nat} (hp : l₁.Perm l₂) :
    sortBy (fun a b => decide (a < b)) l₁ = sortBy (fun a b => decide (a < b)) l₂ :=
  sortBy_eq_of_perm _ (fun a => a) hp (fun _ _ _ _ => rfl) (fun _ _ _ _ h => h)

/-- the entries of the content are determined by their id -/
theorem content_fields_mem (spec : MsgSpec) (o : MsgObj) (ord : List Nat) (p : Nat × Value)
    (hp : p ∈ (o.content spec ord).fields) :
    ∃ f, lookupId p.1 spec.fields = some f ∧ p.2 = f.valueOf (o.get p.1 f) := by
  simp only [MsgObj.content, List.mem_filterMap, List.mem_filter] at hp
  obtain ⟨i, _, hi⟩ := hp
  cases hf : lookupId i spec.fields with
  | none => simp [hf] at hi
  | some f =>
    simp only [hf, Option.map_some, Option.some.injEq] at hi
    subst hi
    exact ⟨f, hf, rfl⟩

theorem content_perm (spec : MsgSpec) {o o' : MsgObj} (h : Equiv o o') {ord ord' : List Nat}
    (hp : ord.Perm ord') :
    (o.content spec ord).mti = (o'.content spec ord').mti ∧
    ((o.content spec ord).fields).Perm ((o'.content spec ord').fields) := by
  constructor
  · simp only [MsgObj.content, hp.contains_eq, h.get]
  · simp only [MsgObj.content]
    have : (fun i => (lookupId i spec.fields).map fun f => (i, f.valueOf (o.get i f))) =
        (fun i => (lookupId i spec.fields).map fun f => (i, f.valueOf (o'.get i f))) := by
      funext i; simp only [h.get]
    rw [this]
    exact (hp.filter _).filterMap _

/-- `MsgSpec.pack` only looks at the fields through their sorted list -/
theorem msgPack_perm (spec : MsgSpec) (m m' : Msg) (hm : m.mti = m'.mti) (hp : m.fields.Perm m'.fields)
    (hkey : ∀ a b, a ∈ m.fields → b ∈ m.fields → a.1 = b.1 → a = b) :
    spec.pack m = spec.pack m' ∧
    sortBy (fun a b => decide (a.1 < b.1)) m.fields = sortBy (fun a b => decide (a.1 < b.1)) m'.fields := by
  have hs : sortBy (fun a b => decide (a.1 < b.1)) m.fields = sortBy (fun a b => decide (a.1 < b.1)) m'.fields :=
    sortBy_eq_of_perm _ (fun a => a.1) hp (fun _ _ _ _ => rfl) hkey
  refine ⟨?_, hs⟩
  unfold MsgSpec.pack
  rw [hs, hm]

theorem packOrd_congr (spec : MsgSpec) {o o' : MsgObj} (h : Equiv o o') {ord ord' : List Nat}
    (hp : ord.Perm ord') :
    (o.packOrd spec ord).2 = (o'.packOrd spec ord').2 ∧
    (o.packOrd spec ord).1.bitmap = (o'.packOrd spec ord').1.bitmap := by
  obtain ⟨hm, hf⟩ := content_perm spec h hp
  have hkey : ∀ a b, a ∈ (o.content spec ord).fields → b ∈ (o.content spec ord).fields → a.1 = b.1 → a = b := by
    intro a b ha hb hab
    obtain ⟨f, hf1, hf2⟩ := content_fields_mem spec o ord a ha
    obtain ⟨g, hg1, hg2⟩ := content_fields_mem spec o ord b hb
    rw [hab, hg1] at hf1
    cases hf1
    cases a; cases b
    simp only at hab hf2 hg2
    subst hab
    rw [hf2, hg2]
  obtain ⟨h1, h2⟩ := msgPack_perm spec _ _ hm hf hkey
  unfold MsgObj.packOrd
  exact ⟨h1, by simp only [h2]⟩

/-- **Pack does not depend on the map iteration order.** Whatever order `range m.fieldsMap`
yields (`ord`: any permutation of the marked ids), Pack returns the same bytes (or fails
alike) and leaves the same bitmap in the message. -/
theorem pack_order_independent (spec : MsgSpec) (o : MsgObj) (ord : List Nat) (hp : ord.Perm o.present) :
    (o.packOrd spec ord).2 = (o.packOrd spec o.present).2 ∧
    (o.packOrd spec ord).1.bitmap = (o.packOrd spec o.present).1.bitmap :=
  packOrd_congr spec (Equiv.refl o) hp

/-! ### observations depend on the logical state only -/

theorem markId_perm {l l' : List Nat} (hp : l.Perm l') (i : Nat) : (markId i l).Perm (markId i l') := by
  unfold markId
  rw [hp.contains_eq]
  split
  · exact hp
  · exact List.Perm.cons i hp

theorem touchBitmap_congr (spec : MsgSpec) {o o' : MsgObj} (h : Equiv o o') :
    Equiv (o.touchBitmap spec) (o'.touchBitmap spec) := by
  unfold MsgObj.touchBitmap
  rw [← h.cached]
  split
  · exact h
  · exact ⟨h.fields, markId_perm h.present 1, rfl, rfl⟩

theorem pack_congr (spec : MsgSpec) {o o' : MsgObj} (h : Equiv o o') :
    (o.pack spec).2 = (o'.pack spec).2 ∧ Equiv (o.pack spec).1 (o'.pack spec).1 := by
  have ht := touchBitmap_congr spec h
  have := packOrd_congr spec ht ht.present
  unfold MsgObj.pack
  refine ⟨this.1, ⟨?_, ?_, ?_, this.2⟩⟩
  · exact ht.fields
  · exact ht.present
  · exact ht.cached

theorem jsonAt_congr (spec : MsgSpec) {o o' : MsgObj} (h : Equiv o o') (i : Nat) :
    MsgObj.jsonAt spec o i = MsgObj.jsonAt spec o' i := by
  unfold MsgObj.jsonAt
  simp only [h.bitmap, h.get]

theorem jsonAt_key (spec : MsgSpec) (o : MsgObj) (i : Nat) (p : Bytes × JVal)
    (h : MsgObj.jsonAt spec o i = some p) : p.1 = natToDec i := by
  unfold MsgObj.jsonAt at h
  by_cases h1 : i = 1
  · simp [h1] at h; rw [← h, h1]
  · simp only [h1, if_false] at h
    cases hf : spec.fieldOf i with
    | none => simp [hf] at h
    | some f => simp [hf] at h; rw [← h]

/-- key of a JSON member of a message: the field id its decimal key stands for -/
def memberKey (p : Bytes × JVal) : Nat := ((atoi? p.1).getD 0).toNat

theorem memberKey_natToDec (i : Nat) (v : JVal) : memberKey (natToDec i, v) = i := by
  simp [memberKey, atoi_natToDec]

theorem json_congr (spec : MsgSpec) {o o' : MsgObj} (h : Equiv o o') :
    (o.json spec).2 = (o'.json spec).2 := by
  obtain ⟨hb, he⟩ := pack_congr spec h
  unfold MsgObj.json
  dsimp only
  rw [← hb]
  cases (o.pack spec).2 with
  | ok bytes =>
    simp only
    congr 2
    unfold orderJson
    have hfun : MsgObj.jsonAt spec (o.pack spec).1 = MsgObj.jsonAt spec (o'.pack spec).1 := by
      funext i; exact jsonAt_congr spec he i
    rw [← hfun]
    have hmem : ∀ p, p ∈ (o.pack spec).1.present.filterMap (MsgObj.jsonAt spec (o.pack spec).1) →
        ∃ i, MsgObj.jsonAt spec (o.pack spec).1 i = some p ∧ p.1 = natToDec i := by
      intro p hp
      obtain ⟨i, _, hi⟩ := List.mem_filterMap.mp hp
      exact ⟨i, hi, jsonAt_key spec _ i p hi⟩
    apply sortBy_eq_of_perm _ memberKey (he.present.filterMap _)
    · intro a b ha hb'
      obtain ⟨i, _, hi⟩ := hmem a ha
      obtain ⟨j, _, hj⟩ := hmem b hb'
      cases a; cases b
      simp only at hi hj
      subst hi; subst hj
      simp only [byInt_less_natToDec, memberKey_natToDec]
    · intro a b ha hb' hk
      obtain ⟨i, hi1, hi⟩ := hmem a ha
      obtain ⟨j, hj1, hj⟩ := hmem b hb'
      have hij : i = j := by
        cases a; cases b
        simp only at hi hj
        subst hi; subst hj
        simpa [memberKey_natToDec] using hk
      subst hij
      rw [hi1] at hj1
      exact Option.some.inj hj1
  | err => rfl
  | panic => rfl

/-- **The observation is a function of the logical state**: which ids are marked and which
object each id holds — not of the order in which the presence map or the field map were
filled, nor of the order in which Go iterates them. -/
theorem obs_of_equiv (spec : MsgSpec) {o o' : MsgObj} (h : Equiv o o') : o.obs spec = o'.obs spec := by
  have hs : o.sortedIds = o'.sortedIds := sortedIds_perm h.present
  unfold MsgObj.obs
  rw [hs, (pack_congr spec h).1, json_congr spec h]
  congr 1
  simp only [MsgObj.content, h.get]

/-! ### population order -/

/-- what a populating operation does to the object of its target field (`none`: the
operation is refused and changes nothing) -/
def popEffect (f : Field) : Op → Option (FieldObj → FieldObj)
  | .mti s => some fun x => (f.setBytesInto x s).1
  | .setField _ b => some fun x => (f.setBytesInto x b).1
  | .marshalField _ v => if f.shapeOK v then some fun x => f.marshalInto x v else none
  | _ => none

/-- the field a populating operation writes -/
def popTarget : Op → Option Nat
  | .mti _ => some 0
  | .setField id _ => some id
  | .marshalField id _ => some id
  | _ => none

/-- `op` populates field `t` of the spec (a data element or the MTI; not the bitmap field) -/
def Populates (spec : MsgSpec) (op : Op) (t : Nat) : Prop :=
  popTarget op = some t ∧ (spec.fieldOf t).isSome = true

theorem pop_form (spec : MsgSpec) (op : Op) (t : Nat) (f : Field) (ht : popTarget op = some t)
    (hf : spec.fieldOf t = some f) (o : MsgObj) :
    (o.step spec op).1 =
      match popEffect f op with
      | some g => { o with fields := setId t (g (o.get t f)) o.fields, present := markId t o.present }
      | none => o := by
  have h1 := fieldOf_ne_one hf
  cases op with
  | mti s =>
    simp only [popTarget, Option.some.injEq] at ht; subst ht
    simp [MsgObj.step, MsgObj.setField, hf, popEffect]
  | setField id b =>
    simp only [popTarget, Option.some.injEq] at ht; subst ht
    simp [MsgObj.step, MsgObj.setField, hf, popEffect, h1]
  | marshalField id v =>
    simp only [popTarget, Option.some.injEq] at ht; subst ht
    by_cases hs : f.shapeOK v = true
    · simp [MsgObj.step, MsgObj.marshalField, hf, popEffect, hs]
    · simp [MsgObj.step, MsgObj.marshalField, hf, popEffect, hs]
  | jsonDecode _ => simp [popTarget] at ht
  | unpack _ => simp [popTarget] at ht
  | unsetField _ => simp [popTarget] at ht
  | unsetPath _ _ => simp [popTarget] at ht
  | pack => simp [popTarget] at ht
  | getFields => simp [popTarget] at ht
  | json => simp [popTarget] at ht
  | clone => simp [popTarget] at ht
  | describe => simp [popTarget] at ht

theorem upd_congr {o o' : MsgObj} (h : Equiv o o') (t : Nat) (x : FieldObj) :
    Equiv { o with fields := setId t x o.fields, present := markId t o.present }
          { o' with fields := setId t x o'.fields, present := markId t o'.present } :=
  ⟨fun j => by simp only [lookupId_setId, h.fields j], markId_perm h.present t, h.cached, h.bitmap⟩

/-- a populating step respects the logical state -/
theorem pop_congr (spec : MsgSpec) (op : Op) (t : Nat) (hp : Populates spec op t) {o o' : MsgObj}
    (h : Equiv o o') : Equiv (o.step spec op).1 (o'.step spec op).1 := by
  obtain ⟨ht, hf⟩ := hp
  obtain ⟨f, hf⟩ := Option.isSome_iff_exists.mp hf
  rw [pop_form spec op t f ht hf o, pop_form spec op t f ht hf o']
  cases popEffect f op with
  | none => exact h
  | some g => rw [h.get t f]; exact upd_congr h t _

theorem markId_comm (a b : Nat) (l : List Nat) : (markId a (markId b l)).Perm (markId b (markId a l)) := by
  by_cases hab : a = b
  · subst hab; exact List.Perm.refl _
  · have hba : ¬ b = a := fun e => hab e.symm
    by_cases ha : a ∈ l <;> by_cases hb : b ∈ l
    · simp [markId, ha, hb]
    · simp [markId, ha, hb, hba]
    · simp [markId, ha, hb, hab]
    · simp only [markId, List.contains_iff_mem, ha, hb, List.mem_cons, hab, hba, or_false, if_false]
      exact List.Perm.swap _ _ _

/-- two populating steps on different fields commute -/
theorem pop_comm (spec : MsgSpec) (a b : Op) (ta tb : Nat) (ha : Populates spec a ta)
    (hb : Populates spec b tb) (hne : ta ≠ tb) (o : MsgObj) :
    Equiv ((o.step spec a).1.step spec b).1 ((o.step spec b).1.step spec a).1 := by
  obtain ⟨hta, hfa⟩ := ha
  obtain ⟨fa, hfa⟩ := Option.isSome_iff_exists.mp hfa
  obtain ⟨htb, hfb⟩ := hb
  obtain ⟨fb, hfb⟩ := Option.isSome_iff_exists.mp hfb
  have hne' : ¬ tb = ta := fun e => hne e.symm
  rw [pop_form spec b tb fb htb hfb, pop_form spec a ta fa hta hfa o,
      pop_form spec a ta fa hta hfa, pop_form spec b tb fb htb hfb o]
  cases popEffect fa a with
  | none =>
    cases popEffect fb b with
    | none => exact Equiv.refl o
    | some gb => exact Equiv.refl _
  | some ga =>
    cases popEffect fb b with
    | none => exact Equiv.refl _
    | some gb =>
      refine ⟨fun j => ?_, markId_comm tb ta o.present, rfl, rfl⟩
      simp only [MsgObj.get, lookupId_setId, hne, hne', if_false]
      by_cases hja : j = ta
      · subst hja; simp [hne]
      · by_cases hjb : j = tb
        · subst hjb; simp [hja]
        · simp [hja, hjb]

/-- all operations of the history populate spec fields -/
def AllPopulate (spec : MsgSpec) (h : List Op) : Prop := ∀ op, op ∈ h → ∃ t, Populates spec op t

/-- the histories' operations write pairwise different fields -/
def DistinctTargets (h : List Op) : Prop := h.Pairwise (fun a b => popTarget a ≠ popTarget b)

theorem run_congr (spec : MsgSpec) (h : List Op) (hall : AllPopulate spec h) :
    ∀ {o o' : MsgObj}, Equiv o o' → Equiv (MsgObj.run spec o h) (MsgObj.run spec o' h) := by
  induction h with
  | nil => intro o o' he; exact he
  | cons op rest ih =>
    intro o o' he
    obtain ⟨t, ht⟩ := hall op List.mem_cons_self
    exact ih (fun q hq => hall q (List.mem_cons_of_mem _ hq)) (pop_congr spec op t ht he)

theorem run_perm (spec : MsgSpec) {h₁ h₂ : List Op} (hp : h₁.Perm h₂) :
    AllPopulate spec h₁ → DistinctTargets h₁ →
    ∀ {o o' : MsgObj}, Equiv o o' → Equiv (MsgObj.run spec o h₁) (MsgObj.run spec o' h₂) := by
  induction hp with
  | nil => intro _ _ o o' he; exact he
  | cons x _ ih =>
    intro hall hd o o' he
    obtain ⟨t, ht⟩ := hall x List.mem_cons_self
    exact ih (fun q hq => hall q (List.mem_cons_of_mem _ hq)) (List.pairwise_cons.mp hd).2
      (pop_congr spec x t ht he)
  | swap x y l =>
    intro hall hd o o' he
    obtain ⟨tx, hx⟩ := hall x (by simp)
    obtain ⟨ty, hy⟩ := hall y (by simp)
    have hne : ty ≠ tx := by
      have := (List.pairwise_cons.mp hd).1 x (by simp)
      intro e; apply this; rw [hy.1, hx.1, e]
    have hrest : AllPopulate spec l := fun q hq => hall q (by simp [hq])
    simp only [MsgObj.run]
    apply run_congr spec l hrest
    exact (pop_comm spec y x ty tx hy hx hne o).trans
      (pop_congr spec y ty hy (pop_congr spec x tx hx he))
  | trans hp₁ _ ih₁ ih₂ =>
    intro hall hd o o' he
    have hall₂ := fun q hq => hall q (hp₁.mem_iff.mpr hq)
    have hd₂ := hd.perm hp₁ (fun h e => h e.symm)
    exact (ih₁ hall hd (Equiv.refl o)).trans (ih₂ hall₂ hd₂ he)

/-- **Population order does not matter.** Two histories that write the same fields (MTI,
`Field`/`BinaryField`, `Marshal`; each field once) in different orders leave messages with
the same observation — GetFields, values, packed bytes, JSON — from any starting state. -/
theorem population_order_independent (spec : MsgSpec) (o : MsgObj) (h₁ h₂ : List Op) (hp : h₁.Perm h₂)
    (hall : AllPopulate spec h₁) (hd : DistinctTargets h₁) :
    (MsgObj.run spec o h₁).obs spec = (MsgObj.run spec o h₂).obs spec :=
  obs_of_equiv spec (run_perm spec hp hall hd (Equiv.refl o))

/-! ### read-only operations -/

/-- the operations the property calls read-only -/
def IsReadOnly : Op → Prop
  | .pack | .json | .describe | .clone | .getFields => True
  | _ => False

/-- equal except for the byte content of the bitmap field object (which every Pack
recomputes before it is used) -/
def SameButBitmap (o o' : MsgObj) : Prop :=
  o.fields = o'.fields ∧ o.present = o'.present ∧ o.cachedBitmap = o'.cachedBitmap

theorem SameButBitmap.refl (o : MsgObj) : SameButBitmap o o := ⟨rfl, rfl, rfl⟩

theorem same_eq {o o' : MsgObj} (h : SameButBitmap o o') : o' = { o with bitmap := o'.bitmap } := by
  obtain ⟨h1, h2, h3⟩ := h
  cases o; cases o'; simp_all

theorem pack_bitmap_irrelevant (spec : MsgSpec) (o : MsgObj) (b : Bytes) :
    ({ o with bitmap := b } : MsgObj).pack spec = o.pack spec := by
  obtain ⟨fs, pr, cb, bm⟩ := o
  cases cb <;> rfl

theorem pack_eq_of_same (spec : MsgSpec) {o o' : MsgObj} (h : SameButBitmap o o') :
    o'.pack spec = o.pack spec := by
  rw [same_eq h]; exact pack_bitmap_irrelevant spec o _

theorem obs_of_same (spec : MsgSpec) {o o' : MsgObj} (h : SameButBitmap o o') : o'.obs spec = o.obs spec := by
  have hp := pack_eq_of_same spec h
  unfold MsgObj.obs MsgObj.json MsgObj.sortedIds
  rw [hp]
  simp only [MsgObj.content, MsgObj.get, h.1, h.2.1]

theorem jsonDecode_same (spec : MsgSpec) (doc : List (Nat × Value)) :
    ∀ (fs : List (Nat × FieldObj)) (pr : List Nat) (cb : Bool) (bm bm' : Bytes),
      SameButBitmap ((⟨fs, pr, cb, bm⟩ : MsgObj).jsonDecode spec doc).1
        ((⟨fs, pr, cb, bm'⟩ : MsgObj).jsonDecode spec doc).1 := by
  induction doc with
  | nil => intro fs pr cb bm bm'; exact ⟨rfl, rfl, rfl⟩
  | cons p rest ih =>
    intro fs pr cb bm bm'
    obtain ⟨id, v⟩ := p
    unfold MsgObj.jsonDecode
    by_cases hid : id = 1
    · subst hid
      simp only [if_true]
      cases v with
      | bin d => exact ih _ _ _ _ _
      | str _ => exact ⟨rfl, rfl, rfl⟩
      | num _ => exact ⟨rfl, rfl, rfl⟩
      | hexv _ => exact ⟨rfl, rfl, rfl⟩
      | comp _ => exact ⟨rfl, rfl, rfl⟩
    · simp only [hid, if_false]
      unfold MsgObj.marshalField MsgObj.get
      cases spec.fieldOf id with
      | none => exact ⟨rfl, rfl, rfl⟩
      | some f =>
        dsimp only
        by_cases hs : f.shapeOK v = true
        · simp only [hs, if_true]
          exact ih _ _ _ _ _
        · simp only [hs, Bool.false_eq_true, if_false]
          exact ⟨rfl, rfl, rfl⟩

theorem step_same_mk (spec : MsgSpec) (op : Op) (fs : List (Nat × FieldObj)) (pr : List Nat) (cb : Bool)
    (bm bm' : Bytes) :
    SameButBitmap ((⟨fs, pr, cb, bm⟩ : MsgObj).step spec op).1 ((⟨fs, pr, cb, bm'⟩ : MsgObj).step spec op).1 := by
  cases op with
  | mti s =>
    simp only [MsgObj.step, MsgObj.setField, MsgObj.get]
    cases spec.fieldOf 0 <;> exact ⟨rfl, rfl, rfl⟩
  | setField id b =>
    simp only [MsgObj.step, MsgObj.setField, MsgObj.get]
    by_cases hid : id = 1
    · simp only [hid, if_true]; exact ⟨rfl, rfl, rfl⟩
    · simp only [hid, if_false]
      cases spec.fieldOf id <;> exact ⟨rfl, rfl, rfl⟩
  | marshalField id v =>
    simp only [MsgObj.step, MsgObj.marshalField, MsgObj.get]
    cases spec.fieldOf id with
    | none => exact ⟨rfl, rfl, rfl⟩
    | some f =>
      dsimp only
      by_cases hs : f.shapeOK v = true
      · simp only [hs, if_true]; exact ⟨rfl, rfl, rfl⟩
      · simp only [hs, Bool.false_eq_true, if_false]; exact ⟨rfl, rfl, rfl⟩
  | jsonDecode doc => exact jsonDecode_same spec doc fs pr cb bm bm'
  | unpack b => exact SameButBitmap.refl _
  | unsetField id =>
    simp only [MsgObj.step, MsgObj.unsetField]
    split <;> exact ⟨rfl, rfl, rfl⟩
  | unsetPath id path =>
    simp only [MsgObj.step, MsgObj.unsetPath, MsgObj.unsetField, MsgObj.get]
    by_cases hp : pr.contains id = true
    · simp only [hp, if_true]
      by_cases hpe : path.isEmpty = true
      · simp only [hpe, if_true]; exact ⟨rfl, rfl, rfl⟩
      · simp only [hpe, Bool.false_eq_true, if_false]
        cases spec.fieldOf id with
        | none => exact ⟨rfl, rfl, rfl⟩
        | some f =>
          dsimp only
          cases f.unsetSubs ((lookupId id fs).getD f.fresh) path <;> exact ⟨rfl, rfl, rfl⟩
    · simp only [hp, Bool.false_eq_true, if_false]; exact ⟨rfl, rfl, rfl⟩
  | pack =>
    have := pack_bitmap_irrelevant spec ⟨fs, pr, cb, bm⟩ bm'
    simp only [MsgObj.step] at this ⊢
    rw [this]; exact SameButBitmap.refl _
  | getFields => exact ⟨rfl, rfl, rfl⟩
  | json =>
    have := pack_bitmap_irrelevant spec ⟨fs, pr, cb, bm⟩ bm'
    simp only [MsgObj.step, json_fst] at this ⊢
    rw [this]; exact SameButBitmap.refl _
  | clone =>
    have := pack_bitmap_irrelevant spec ⟨fs, pr, cb, bm⟩ bm'
    simp only [MsgObj.step, clone_fst] at this ⊢
    rw [this]; exact SameButBitmap.refl _
  | describe =>
    simp only [MsgObj.step, MsgObj.describe, MsgObj.touchBitmap]
    cases cb <;> exact ⟨rfl, rfl, rfl⟩

/-- every operation treats two messages that differ only in the bitmap object's bytes
alike -/
theorem step_same (spec : MsgSpec) (op : Op) {o o' : MsgObj} (h : SameButBitmap o o') :
    SameButBitmap (o.step spec op).1 (o'.step spec op).1 := by
  rw [same_eq h]
  obtain ⟨fs, pr, cb, bm⟩ := o
  exact step_same_mk spec op fs pr cb bm _

theorem run_same (spec : MsgSpec) (later : List Op) :
    ∀ {o o' : MsgObj}, SameButBitmap o o' →
      SameButBitmap (MsgObj.run spec o later) (MsgObj.run spec o' later) := by
  induction later with
  | nil => intro o o' h; exact h
  | cons op rest ih => intro o o' h; exact ih (step_same spec op h)

/-- a read-only operation on a message whose bitmap is already cached changes at most the
bytes of the bitmap object -/
theorem readonly_state (spec : MsgSpec) (o : MsgObj) (op : Op) (hro : IsReadOnly op)
    (hcb : o.cachedBitmap = true) : SameButBitmap o (o.step spec op).1 := by
  have htouch : o.touchBitmap spec = o := by simp [MsgObj.touchBitmap, hcb]
  have hpack : SameButBitmap o (o.pack spec).1 := by
    unfold MsgObj.pack; rw [htouch]; exact ⟨rfl, rfl, rfl⟩
  cases op with
  | pack => exact hpack
  | json => simp only [MsgObj.step, json_fst]; exact hpack
  | clone => simp only [MsgObj.step, clone_fst]; exact hpack
  | describe => simp only [MsgObj.step, MsgObj.describe, htouch]; exact SameButBitmap.refl o
  | getFields => exact SameButBitmap.refl o
  | mti _ => exact absurd hro (by simp [IsReadOnly])
  | setField _ _ => exact absurd hro (by simp [IsReadOnly])
  | marshalField _ _ => exact absurd hro (by simp [IsReadOnly])
  | jsonDecode _ => exact absurd hro (by simp [IsReadOnly])
  | unpack _ => exact absurd hro (by simp [IsReadOnly])
  | unsetField _ => exact absurd hro (by simp [IsReadOnly])
  | unsetPath _ _ => exact absurd hro (by simp [IsReadOnly])

/-- the full-strength statement: Pack / MarshalJSON / Describe / Clone / GetFields never
change what is observed afterwards -/
def readonly_ops_pureStatement : Prop :=
  ∀ (spec : MsgSpec) (o : MsgObj) (op : Op), IsReadOnly op →
    ∀ later : List Op, (MsgObj.run spec (o.step spec op).1 later).obs spec = (MsgObj.run spec o later).obs spec

/-- **Read-only operations are pure** — on every message whose bitmap field has been
materialised (it has packed, unpacked, been cloned, described or JSON-encoded before):
Pack, MarshalJSON, Describe, Clone and GetFields change nothing that any later history can
observe through GetFields, values, Pack and JSON. -/
theorem readonly_ops_pure_partial (spec : MsgSpec) (o : MsgObj) (op : Op) (hro : IsReadOnly op)
    (hcb : o.cachedBitmap = true) (later : List Op) :
    (MsgObj.run spec (o.step spec op).1 later).obs spec = (MsgObj.run spec o later).obs spec :=
  obs_of_same spec (run_same spec later (readonly_state spec o op hro hcb))

/-- … and on *every* message the packed bytes and the JSON are unaffected; the one thing
the first of these operations changes is that the bitmap field (id 1) becomes marked. -/
theorem readonly_ops_pack_json (spec : MsgSpec) (o : MsgObj) (op : Op) (hro : IsReadOnly op) :
    ((o.step spec op).1.obs spec).packed = (o.obs spec).packed ∧
    ((o.step spec op).1.obs spec).json = (o.obs spec).json ∧
    (o.step spec op).1.fields = o.fields ∧
    (∀ j, (o.step spec op).1.present.contains j = true → j = 1 ∨ o.present.contains j = true) := by
  have hpp : ((o.pack spec).1).pack spec = o.pack spec := by
    obtain ⟨fs, pr, cb, bm⟩ := o
    cases cb <;> rfl
  have htp : (o.touchBitmap spec).pack spec = o.pack spec := by
    obtain ⟨fs, pr, cb, bm⟩ := o
    cases cb <;> rfl
  have hpres : ∀ j, (o.touchBitmap spec).present.contains j = true → j = 1 ∨ o.present.contains j = true := by
    intro j hj
    unfold MsgObj.touchBitmap at hj
    cases hc : o.cachedBitmap with
    | true => simp only [hc, if_true] at hj; exact Or.inr hj
    | false =>
      simp only [hc, Bool.false_eq_true, if_false, markId_contains, Bool.or_eq_true, beq_iff_eq] at hj
      exact hj
  have hpk : ((o.pack spec).1.obs spec).packed = (o.obs spec).packed ∧
      ((o.pack spec).1.obs spec).json = (o.obs spec).json ∧ (o.pack spec).1.fields = o.fields ∧
      (∀ j, (o.pack spec).1.present.contains j = true → j = 1 ∨ o.present.contains j = true) := by
    refine ⟨by simp only [MsgObj.obs, hpp], by simp only [MsgObj.obs, MsgObj.json, hpp], ?_, ?_⟩
    · obtain ⟨fs, pr, cb, bm⟩ := o
      cases cb <;> rfl
    · intro j hj
      apply hpres j
      unfold MsgObj.pack MsgObj.packOrd at hj
      exact hj
  cases op with
  | pack => exact hpk
  | json => simp only [MsgObj.step, json_fst]; exact hpk
  | clone => simp only [MsgObj.step, clone_fst]; exact hpk
  | describe =>
    simp only [MsgObj.step, MsgObj.describe]
    refine ⟨by simp only [MsgObj.obs, htp], by simp only [MsgObj.obs, MsgObj.json, htp], ?_, hpres⟩
    obtain ⟨fs, pr, cb, bm⟩ := o
    cases cb <;> rfl
  | getFields => exact ⟨rfl, rfl, rfl, fun j hj => Or.inr hj⟩
  | mti _ => exact absurd hro (by simp [IsReadOnly])
  | setField _ _ => exact absurd hro (by simp [IsReadOnly])
  | marshalField _ _ => exact absurd hro (by simp [IsReadOnly])
  | jsonDecode _ => exact absurd hro (by simp [IsReadOnly])
  | unpack _ => exact absurd hro (by simp [IsReadOnly])
  | unsetField _ => exact absurd hro (by simp [IsReadOnly])
  | unsetPath _ _ => exact absurd hro (by simp [IsReadOnly])

/-! ### clones -/

inductive Side where
  | orig | clone
deriving DecidableEq, Repr

/-- a history over an original and its clone: each operation is applied to one of the two -/
def runPair (spec : MsgSpec) : MsgObj × MsgObj → List (Side × Op) → MsgObj × MsgObj
  | p, [] => p
  | (o, c), (.orig, op) :: rest => runPair spec ((o.step spec op).1, c) rest
  | (o, c), (.clone, op) :: rest => runPair spec (o, (c.step spec op).1) rest

def opsOf (s : Side) (l : List (Side × Op)) : List Op := (l.filter (fun p => p.1 == s)).map (·.2)

/-- **Clones are independent.** Whatever is done to the clone, the original ends in the
state its own operations alone lead to (so all its observations are those), and vice
versa: the two share no state. (In the model this is structural — values are not shared;
that the real `Clone` shares no pointer is checked by channel H with clone-then-mutate
scripts on both sides.) -/
theorem clone_independent (spec : MsgSpec) (l : List (Side × Op)) :
    ∀ o c : MsgObj, runPair spec (o, c) l =
      (MsgObj.run spec o (opsOf .orig l), MsgObj.run spec c (opsOf .clone l)) := by
  induction l with
  | nil => intro o c; rfl
  | cons p rest ih =>
    intro o c
    obtain ⟨s, op⟩ := p
    cases s with
    | orig => simp only [runPair, ih]; rfl
    | clone => simp only [runPair, ih]; rfl

/-- what a clone is: the message obtained by unpacking the original's packed bytes into a
new message and packing it once -/
theorem clone_is_repacked (spec : MsgSpec) (o c : MsgObj) (h : (o.clone spec).2 = some c) :
    ∃ bytes, (o.pack spec).2 = .ok bytes ∧ c = ((spec.unpackObj bytes).1.pack spec).1 := by
  unfold MsgObj.clone at h
  dsimp only at h
  cases hp : (o.pack spec).2 with
  | ok bytes =>
    simp only [hp] at h
    refine ⟨bytes, rfl, ?_⟩
    cases hc : ((spec.unpackObj bytes).1.pack spec).2 with
    | ok b2 => simp only [hc, Option.some.injEq] at h; exact h.symm
    | err => simp [hc] at h
    | panic => simp [hc] at h
  | err => simp [hp] at h
  | panic => simp [hp] at h

/-- the clone's content is exactly what the packed bytes decode to (when they decode: for
coherent specs and in-domain values that is C01) -/
theorem clone_content (spec : MsgSpec) (hs : spec.tagsOK = true) (o c : MsgObj)
    (h : (o.clone spec).2 = some c) (bytes : Bytes) (hb : (o.pack spec).2 = .ok bytes)
    (m : Msg) (n : Nat) (hu : spec.unpack bytes = .ok (m, n)) :
    c.abs spec = absOfMsg spec m ∧ c.Clean spec := by
  obtain ⟨b', hb', hc⟩ := clone_is_repacked spec o c h
  rw [hb] at hb'; cases hb'
  have hr := C14.unpack_refines spec hs m (spec.wireBitmapOf bytes)
  have hobj : (spec.unpackObj bytes).1 = spec.objOfMsg m (spec.wireBitmapOf bytes) := by
    simp [MsgSpec.unpackObj, hu]
  have hp := C14.pack_refines spec _ hr.2
  rw [hc, hobj]
  refine ⟨?_, hp.2⟩
  rw [hp.1, hr.1]
  funext j
  by_cases hj : j = 1
  · subst hj; simp [AbsState.set, absOfMsg]
  · simp [AbsState.set, hj]

/-! ### caller memory -/

/-- The byte slice a caller hands to `BinaryField` / `SetBytes` is kept by the field and
later given to the packer, whose first step is the padder: it returns the padded value in
fresh memory and leaves the caller's backing array (spare capacity included) as it was.
(Memory effects of the encoders and of `append(prefix, …)` are exercised on the real code
by the C15 oracle with sentinel-filled spare capacity; the padder model is tied by
channel D, see C20.) -/
theorem pack_pad_leaves_caller_slice (sp : PrimSpec) (s : GoSlice) :
    (Pad.padMem sp.pad s sp.len).2 = s.arr ∧ (Pad.padMem sp.pad s sp.len).1 = sp.pad.pad s.data sp.len := by
  simp [Pad.padMem]

/-! ### the first read-only operation is not pure: witnesses -/
section Witness
open ObjDemo

/-- **Witness (known finding).** On a message that has only been populated, `GetFields`
reports `[0]`; after one `Pack` it reports `[0, 1]`: Pack (like MarshalJSON, Describe,
Clone, Bitmap()) marks the bitmap field as set when it first caches it. -/
theorem readonly_ops_pure_witness : ¬ readonly_ops_pureStatement := by
  intro h
  have h1 := h spec (MsgObj.run spec spec.newMsg [.mti [48, 49, 48, 48]]) .pack trivial []
  have h2 := congrArg Obs.ids h1
  revert h2
  decide

def describedBitmap : Out → Bytes
  | .described bm _ => bm
  | _ => []

/-- **Witness (Describe shows a stale bitmap).** Two messages with the same logical content
— MTI and field 2 set — are described differently depending on whether Pack ran since the
last write: Describe prints the bitmap object as the last Pack / Unpack left it, here all
zero although field 2 is set. -/
theorem describe_stale_bitmap_witness :
    describedBitmap ((MsgObj.run spec spec.newMsg [.mti [48,49,48,48], .setField 2 [52]]).step spec .describe).2 ≠
    describedBitmap ((MsgObj.run spec spec.newMsg [.mti [48,49,48,48], .setField 2 [52], .pack]).step spec .describe).2 := by
  decide

end Witness

/-! ### non-vacuity -/
section Examples
open ObjDemo

-- two populating histories that are permutations of each other, on distinct spec fields
example : AllPopulate spec [.mti [48,49,48,48], .setField 2 [52]] := by
  intro op hop
  simp only [List.mem_cons, List.not_mem_nil, or_false] at hop
  rcases hop with rfl | rfl
  · exact ⟨0, rfl, by decide⟩
  · exact ⟨2, rfl, by decide⟩
example : DistinctTargets [.mti [48,49,48,48], .setField 2 [52]] := by
  simp [DistinctTargets, popTarget]
example : ([Op.mti [48,49,48,48], .setField 2 [52]]).Perm [.setField 2 [52], .mti [48,49,48,48]] :=
  List.Perm.swap _ _ _
-- a message whose bitmap is cached (hypothesis of `readonly_ops_pure_partial`), with content
example : (MsgObj.run spec spec.newMsg (populate ++ [.pack])).cachedBitmap = true := by decide
example : (match ((MsgObj.run spec spec.newMsg populate).pack spec).2 with | .ok _ => true | _ => false) = true := by
  decide
-- a clone exists and packs to the same bytes as its original
example : (match ((MsgObj.run spec spec.newMsg populate).clone spec).2 with
    | some c => decide ((c.pack spec).2 = ((MsgObj.run spec spec.newMsg populate).pack spec).2)
    | none => false) = true := by decide

end Examples

end Iso8583.C15
