/-
C07 — Value encodings are exact inverses with the standard byte layouts.
Property theorems (helper lemmas live in Lemmas/Encoding.lean).
-/
import Iso8583.Lemmas.Encoding
import Iso8583.Spec.EbcdicRef

namespace Iso8583.C07
open Iso8583 Enc

/-! ## Domains, units and canonical forms per encoder -/

/-- the encoder's source alphabet -/
def InDomain : Enc → Bytes → Prop
  | .ascii, x => ∀ c ∈ x, isAscii c
  | .ebcdic1047, x => ∀ c ∈ x, isAscii c
  | .ebcdic, _ => True
  | .binary, _ => True
  | .bytesToHex, _ => True
  | .bcd, x => ∀ c ∈ x, isDigit c
  | .lbcd, x => ∀ c ∈ x, isDigit c
  | .hexToBytes, x => x.length % 2 = 0 ∧ ∀ c ∈ x, isHexChar c
  | .berTag, x => x.length % 2 = 0 ∧ ∀ c ∈ x, isHexChar c

/-- number of units `Decode` must be asked for to get `x` back from `y = Encode x` -/
def units : Enc → Bytes → Bytes → Nat
  | .hexToBytes, _, y => y.length
  | .berTag, _, y => y.length
  | _, x, _ => x.length

/-- canonical form of a value (hex text is upper-cased) -/
def canon : Enc → Bytes → Bytes
  | .hexToBytes, x => x.map upperHex
  | .berTag, x => x.map upperHex
  | _, x => x

/-- a valid BER tag: one byte whose low five bits are not all set, or a first byte with
them set, continuation bytes with the top bit set and a last byte with it clear -/
def ValidBerTag (y : Bytes) : Prop :=
  (∃ x, y = [x] ∧ x.toNat % 32 ≠ 31) ∨
  (∃ x mid last, y = x :: (mid ++ [last]) ∧ x.toNat % 32 = 31 ∧ (∀ m ∈ mid, 128 ≤ m.toNat) ∧ last.toNat < 128)

/-! ## Table facts (regenerated tables, checked over all 256 entries by kernel evaluation) -/

theorem ebcdic_tables_length : Gen.asciiToEbcdic.length = 256 ∧ Gen.ebcdicToAscii.length = 256 := by
  decide +kernel

/-- the two EBCDIC tables are mutually inverse bijections of the 256 byte values -/
theorem ebcdic_bijective :
    ∀ i : Fin 256, Gen.ebcdicToAscii.getD (Gen.asciiToEbcdic.getD i.val 0) 0 = i.val ∧
      Gen.asciiToEbcdic.getD (Gen.ebcdicToAscii.getD i.val 0) 0 = i.val ∧
      Gen.asciiToEbcdic.getD i.val 0 < 256 ∧ Gen.ebcdicToAscii.getD i.val 0 < 256 := by
  decide +kernel

/-- the EBCDIC table agrees with code pages 500/1047 on letters, digits and common punctuation -/
theorem ebcdic_agrees_reference :
    ∀ p ∈ Spec.ebcdicRef, Gen.asciiToEbcdic.getD p.1 0 = p.2 := by
  decide +kernel

/-- the dumped CP1047 decode/encode tables are mutually inverse on all 256 values -/
theorem cp1047_bijective :
    ∀ i : Fin 256, Gen.cp1047Decode.getD i.val 65533 < 256 ∧
      Gen.cp1047Encode.getD (Gen.cp1047Decode.getD i.val 65533) 256 = i.val ∧
      Gen.cp1047Encode.getD i.val 256 < 256 ∧
      Gen.cp1047Decode.getD (Gen.cp1047Encode.getD i.val 256) 65533 = i.val := by
  decide +kernel

/-- CP1047 maps ASCII to single bytes that decode back to ASCII (runes < 128) -/
theorem cp1047_ascii_roundtrip :
    ∀ i : Fin 128, Gen.cp1047Encode.getD i.val 256 < 256 ∧
      Gen.cp1047Decode.getD (Gen.cp1047Encode.getD i.val 256) 65533 = i.val := by
  decide +kernel

theorem cp1047_agrees_reference :
    ∀ p ∈ Spec.ebcdicRef, Gen.cp1047Encode.getD p.1 256 = p.2 := by
  decide +kernel

/-! ## decode ∘ encode = id, consuming exactly the encoded bytes, whatever follows -/

theorem tbl_ebcdic_inv (c : Byte) : tbl Gen.ebcdicToAscii (tbl Gen.asciiToEbcdic c) = c := by
  have h := ebcdic_bijective ⟨c.toNat, byte_toNat_lt c⟩
  simp only at h
  apply byte_ext
  unfold tbl
  rw [ofNat_toNat_lt h.2.2.1, h.1]
  exact ofNat_toNat_lt (byte_toNat_lt c)

theorem ascii_decode_encode (x tail : Bytes) (h : ∀ c ∈ x, isAscii c) :
    encode .ascii x = .ok x ∧ decode .ascii (x ++ tail) x.length = .ok (x, x.length) := by
  have hall : asciiOK x = true := by
    simp only [asciiOK, List.all_eq_true, decide_eq_true_eq]; exact h
  simp [encode, decodeNat, hall]

theorem binary_decode_encode (x tail : Bytes) :
    encode .binary x = .ok x ∧ decode .binary (x ++ tail) x.length = .ok (x, x.length) := by
  simp [encode, decodeNat]

theorem ebcdic_decode_encode (x tail : Bytes) :
    ∃ y, encode .ebcdic x = .ok y ∧ y.length = x.length ∧
      decode .ebcdic (y ++ tail) x.length = .ok (x, y.length) := by
  refine ⟨x.map (tbl Gen.asciiToEbcdic), rfl, by simp, ?_⟩
  have : (List.map (tbl Gen.ebcdicToAscii ∘ tbl Gen.asciiToEbcdic) x) = x := by
    conv => rhs; rw [← List.map_id x]
    apply List.map_congr_left
    intro c _; exact tbl_ebcdic_inv c
  simp [decodeNat, List.take_left', this]

theorem cp1047_encode_ascii : ∀ (x : Bytes), (∀ c ∈ x, isAscii c) →
    ∃ y, cp1047EncodeBytes x = some y ∧ y.length = x.length ∧ cp1047DecodeBytes y = x := by
  intro x
  induction x with
  | nil => intro _; exact ⟨[], rfl, rfl, rfl⟩
  | cons c cs ih =>
    intro h
    have hc : c.toNat < 128 := by have := h c (by simp); unfold isAscii at this; omega
    obtain ⟨y, hy, hl, hd⟩ := ih (fun d hd => h d (by simp [hd]))
    have ht := cp1047_ascii_roundtrip ⟨c.toNat, hc⟩
    simp only at ht
    refine ⟨UInt8.ofNat (Gen.cp1047Encode.getD c.toNat 256) :: y, ?_, by simp [hl], ?_⟩
    · have hlt : Gen.cp1047Encode.getD c.toNat 256 < 256 := ht.1
      show cp1047EncodeBytes (c :: cs) = _
      rw [cp1047EncodeBytes.eq_def]
      simp only [hc, ite_true, hlt, hy, Option.map_some]
    · have hu : utf8OfRune c.toNat = [c] := by simp [utf8OfRune, hc]
      simp only [cp1047DecodeBytes, List.flatMap_cons]
      rw [ofNat_toNat_lt ht.1, ht.2, hu]
      simp only [cp1047DecodeBytes] at hd
      simp only [List.singleton_append, hd]

theorem ebcdic1047_decode_encode (x tail : Bytes) (h : ∀ c ∈ x, isAscii c) :
    ∃ y, encode .ebcdic1047 x = .ok y ∧ y.length = x.length ∧
      decode .ebcdic1047 (y ++ tail) x.length = .ok (x, y.length) := by
  obtain ⟨y, hy, hl, hd⟩ := cp1047_encode_ascii x h
  refine ⟨y, by simp [encode, hy, Res.ofOption], hl, ?_⟩
  simp [decodeNat, ← hl, hd]

theorem bcd_decode_encode (x tail : Bytes) (h : ∀ c ∈ x, isDigit c) :
    ∃ y, encode .bcd x = .ok y ∧ y.length = (x.length + 1) / 2 ∧
      decode .bcd (y ++ tail) x.length = .ok (x, y.length) := by
  by_cases hodd : x.length % 2 = 1
  · have h0 : isDigit (48 : Byte) := by decide
    obtain ⟨y, hy, hl, hu⟩ := bcdPack_roundtrip (48 :: x)
      (by intro c hc; simp only [List.mem_cons] at hc; rcases hc with rfl | hc; exact h0; exact h c hc)
      (by simp; omega)
    refine ⟨y, by simp [encode, hodd, hy, Res.ofOption], by simp at hl; omega, ?_⟩
    have hr : x.length / 2 + x.length % 2 = y.length := by simp at hl; omega
    have hdrop : 2 * y.length - x.length = 1 := by simp at hl; omega
    simp [decodeNat, hr, hu, hdrop]
  · have hev : x.length % 2 = 0 := by omega
    obtain ⟨y, hy, hl, hu⟩ := bcdPack_roundtrip x h hev
    have hne : ¬ x.length % 2 = 1 := hodd
    refine ⟨y, by simp [encode, hne, hy, Res.ofOption], by omega, ?_⟩
    have hr : x.length / 2 + x.length % 2 = y.length := by omega
    have hdrop : 2 * y.length - x.length = 0 := by omega
    simp [decodeNat, hr, hu, hdrop]

theorem lbcd_decode_encode (x tail : Bytes) (h : ∀ c ∈ x, isDigit c) :
    ∃ y, encode .lbcd x = .ok y ∧ y.length = (x.length + 1) / 2 ∧
      decode .lbcd (y ++ tail) x.length = .ok (x, y.length) := by
  by_cases hodd : x.length % 2 = 1
  · have h0 : isDigit (48 : Byte) := by decide
    obtain ⟨y, hy, hl, hu⟩ := bcdPack_roundtrip (x ++ [48])
      (by intro c hc; simp only [List.mem_append, List.mem_singleton] at hc; rcases hc with hc | rfl; exact h c hc; exact h0)
      (by simp; omega)
    refine ⟨y, by simp [encode, hodd, hy, Res.ofOption], by simp at hl; omega, ?_⟩
    have hr : x.length / 2 + x.length % 2 = y.length := by simp at hl; omega
    simp [decodeNat, hr, hu]
  · have hev : x.length % 2 = 0 := by omega
    obtain ⟨y, hy, hl, hu⟩ := bcdPack_roundtrip x h hev
    have hne : ¬ x.length % 2 = 1 := hodd
    refine ⟨y, by simp [encode, hne, hy, Res.ofOption], by omega, ?_⟩
    have hr : x.length / 2 + x.length % 2 = y.length := by omega
    simp [decodeNat, hr, hu]

theorem bytesToHex_decode_encode (x tail : Bytes) :
    ∃ y, encode .bytesToHex x = .ok y ∧ y.length = 2 * x.length ∧
      decode .bytesToHex (y ++ tail) x.length = .ok (x, y.length) := by
  refine ⟨hexEncodeUpper x, rfl, hexEncodeUpper_length x, ?_⟩
  have hl := hexEncodeUpper_length x
  have h1 : ¬ (x.length > ((hexEncodeUpper x).length + tail.length) / 2) := by omega
  simp only [decode_natCast, decodeNat, List.length_append]
  simp [h1, ← hl, hexDecode_hexEncodeUpper]

theorem hexToBytes_decode_encode (x tail : Bytes) (hlen : x.length % 2 = 0) (h : ∀ c ∈ x, isHexChar c) :
    ∃ y, encode .hexToBytes x = .ok y ∧ 2 * y.length = x.length ∧
      decode .hexToBytes (y ++ tail) y.length = .ok (x.map upperHex, y.length) := by
  obtain ⟨y, hy⟩ := hexDecode_of_hexChars x hlen h
  refine ⟨y, by simp [encode, hy, Res.ofOption], (hexDecode_length x y hy).symm, ?_⟩
  simp [decodeNat, hexEncodeUpper_hexDecode x y hy]

/-- BER tag: the decoder reads exactly a valid tag and returns its upper-case hex text,
whatever follows and whatever length it is asked for -/
theorem berTag_decode_valid (y tail : Bytes) (n : Int) (hv : ValidBerTag y) :
    decode .berTag (y ++ tail) n = .ok (hexEncodeUpper y, y.length) := by
  have hd : decode .berTag (y ++ tail) n = decodeNat .berTag (y ++ tail) 0 := by
    cases n <;> simp [decode, decodeNat]
  rw [hd]
  rcases hv with ⟨x, rfl, hx⟩ | ⟨x, mid, last, rfl, hx, hmid, hlast⟩
  · simp [decodeNat, berTagLen, hx]
  · have := berTagMore_spec mid last tail hmid hlast
    simp only [decodeNat, berTagLen, List.cons_append, List.append_assoc, List.nil_append, hx, ite_true]
    rw [this]
    have e : x :: (mid ++ last :: tail) = (x :: (mid ++ [last])) ++ tail := by simp
    simp only [Option.map_some]
    rw [e, List.take_left' (by simp)]
    simp

theorem berTag_decode_encode (x tail : Bytes) (n : Int) (hlen : x.length % 2 = 0) (h : ∀ c ∈ x, isHexChar c) :
    ∃ y, encode .berTag x = .ok y ∧ (ValidBerTag y →
      decode .berTag (y ++ tail) n = .ok (x.map upperHex, y.length)) := by
  obtain ⟨y, hy⟩ := hexDecode_of_hexChars x hlen h
  refine ⟨y, by simp [encode, hy, Res.ofOption], ?_⟩
  intro hv
  rw [berTag_decode_valid y tail n hv, hexEncodeUpper_hexDecode x y hy]

/-- The property in one statement: for each encoding and every value in its domain,
decoding the encoding for the value's number of units returns the value (in canonical
form) and reports consuming exactly the encoded length, ignoring any bytes that follow. -/
theorem decode_encode (e : Enc) (x tail : Bytes) (h : InDomain e x) :
    ∃ y, encode e x = .ok y ∧
      ((e = .berTag → ValidBerTag y) →
        decode e (y ++ tail) (units e x y) = .ok (canon e x, y.length)) := by
  cases e with
  | ascii => exact ⟨x, (ascii_decode_encode x tail h).1, fun _ => (ascii_decode_encode x tail h).2⟩
  | binary => exact ⟨x, (binary_decode_encode x tail).1, fun _ => (binary_decode_encode x tail).2⟩
  | ebcdic =>
    obtain ⟨y, h1, _, h3⟩ := ebcdic_decode_encode x tail
    exact ⟨y, h1, fun _ => h3⟩
  | ebcdic1047 =>
    obtain ⟨y, h1, _, h3⟩ := ebcdic1047_decode_encode x tail h
    exact ⟨y, h1, fun _ => h3⟩
  | bcd =>
    obtain ⟨y, h1, _, h3⟩ := bcd_decode_encode x tail h
    exact ⟨y, h1, fun _ => h3⟩
  | lbcd =>
    obtain ⟨y, h1, _, h3⟩ := lbcd_decode_encode x tail h
    exact ⟨y, h1, fun _ => h3⟩
  | bytesToHex =>
    obtain ⟨y, h1, _, h3⟩ := bytesToHex_decode_encode x tail
    exact ⟨y, h1, fun _ => h3⟩
  | hexToBytes =>
    obtain ⟨y, h1, _, h3⟩ := hexToBytes_decode_encode x tail h.1 h.2
    exact ⟨y, h1, fun _ => h3⟩
  | berTag =>
    obtain ⟨y, h1, h3⟩ := berTag_decode_encode x tail (units .berTag x []) h.1 h.2
    refine ⟨y, h1, fun hv => ?_⟩
    have := berTag_decode_valid y tail (units .berTag x y) (hv rfl)
    rw [this]
    obtain ⟨y', hy'⟩ := hexDecode_of_hexChars x h.1 h.2
    have : y = y' := by simp [encode, hy', Res.ofOption] at h1; exact h1.symm
    subst this
    simp [canon, hexEncodeUpper_hexDecode x y hy']

/-! ## Layouts -/

/-- packed BCD is two digits per byte, high nibble first; an odd count is zero-filled on
the left: with `d = '0' :: x` (odd) or `x` (even), byte `i` is `16·d[2i] + d[2i+1]` -/
theorem bcd_layout (x y : Bytes) (h : encode .bcd x = .ok y) :
    let d := if x.length % 2 = 1 then (48 : Byte) :: x else x
    ∀ i, i < y.length →
      (y.getD i 0).toNat = ((d.getD (2 * i) 0).toNat - 48) * 16 + ((d.getD (2 * i + 1) 0).toNat - 48) := by
  intro d i hi
  simp only [encode] at h
  cases hp : bcdPack (if x.length % 2 = 1 then 48 :: x else x) with
  | none => simp [hp, Res.ofOption] at h
  | some bs =>
    simp [hp, Res.ofOption] at h; subst h
    exact bcdPack_layout _ _ hp i hi

/-- left-aligned BCD: an odd count is zero-filled on the right -/
theorem lbcd_layout (x y : Bytes) (h : encode .lbcd x = .ok y) :
    let d := if x.length % 2 = 1 then x ++ [(48 : Byte)] else x
    ∀ i, i < y.length →
      (y.getD i 0).toNat = ((d.getD (2 * i) 0).toNat - 48) * 16 + ((d.getD (2 * i + 1) 0).toNat - 48) := by
  intro d i hi
  simp only [encode] at h
  cases hp : bcdPack (if x.length % 2 = 1 then x ++ [48] else x) with
  | none => simp [hp, Res.ofOption] at h
  | some bs =>
    simp [hp, Res.ofOption] at h; subst h
    exact bcdPack_layout _ _ hp i hi

/-- hex is upper case, two characters per byte, high nibble first -/
theorem hex_layout (x : Bytes) :
    encode .bytesToHex x = .ok (hexEncodeUpper x) ∧
    (hexEncodeUpper x).length = 2 * x.length ∧
    (∀ c ∈ hexEncodeUpper x, isUpperHexChar c) ∧
    (∀ (a : Byte) (rest : Bytes), hexEncodeUpper (a :: rest) =
      hexDigitUpper (a.toNat / 16) :: hexDigitUpper (a.toNat % 16) :: hexEncodeUpper rest) :=
  ⟨rfl, hexEncodeUpper_length x, hexEncodeUpper_upper x, hexEncodeUpper_cons⟩

/-! ## Rejections: negative length, short input, out-of-domain → error, never a wrong value -/

theorem decode_negative (e : Enc) (d : Bytes) (n : Int) (he : e ≠ .berTag) (hn : n < 0) :
    decode e d n = .err := by
  cases n with
  | ofNat k => exact absurd hn (by simp)
  | negSucc k => simp [decode, he]

/-- bytes a decode of `n` units must consume -/
def needed : Enc → Nat → Nat
  | .bcd, n => n / 2 + n % 2
  | .lbcd, n => n / 2 + n % 2
  | .bytesToHex, n => 2 * n
  | _, n => n

theorem decode_short (e : Enc) (d : Bytes) (n : Nat) (he : e ≠ .berTag) (hs : d.length < needed e n) :
    decode e d n = .err := by
  cases e <;> simp_all [decodeNat, needed] <;> omega

theorem encode_out_of_domain_bcd (x : Bytes) (h : ∃ c ∈ x, ¬ isDigit c) :
    encode .bcd x = .err ∧ encode .lbcd x = .err := by
  obtain ⟨c, hc, hnd⟩ := h
  have h0 : isDigit (48 : Byte) := by decide
  constructor
  · simp only [encode]
    split
    · rw [bcdPack_none_of_nondigit _ (by simp; omega) ⟨c, by simp [hc], hnd⟩]; rfl
    · rw [bcdPack_none_of_nondigit _ (by omega) ⟨c, hc, hnd⟩]; rfl
  · simp only [encode]
    split
    · rw [bcdPack_none_of_nondigit _ (by simp; omega) ⟨c, by simp [hc], hnd⟩]; rfl
    · rw [bcdPack_none_of_nondigit _ (by omega) ⟨c, hc, hnd⟩]; rfl

theorem encode_out_of_domain_ascii (x : Bytes) (h : ∃ c ∈ x, ¬ isAscii c) : encode .ascii x = .err := by
  obtain ⟨c, hc, hna⟩ := h
  have : asciiOK x = false := by
    simp only [asciiOK, List.all_eq_false, decide_eq_true_eq]
    exact ⟨c, hc, hna⟩
  simp [encode, this]

theorem encode_out_of_domain_hex (x : Bytes) (h : x.length % 2 = 1 ∨ ∃ c ∈ x, ¬ isHexChar c) :
    encode .hexToBytes x = .err ∧ encode .berTag x = .err := by
  have : hexDecode x = none := by
    rcases h with h | h
    · exact hexDecode_none_of_odd x h
    · exact hexDecode_none_of_bad x h
  simp [encode, this, Res.ofOption]

/-- a successful decode was asked for a non-negative length -/
theorem decode_ok_nonneg (e : Enc) (d v : Bytes) (n : Int) (r : Nat) (he : e ≠ .berTag)
    (h : decode e d n = .ok (v, r)) : ∃ k : Nat, n = k ∧ decodeNat e d k = .ok (v, r) := by
  cases n with
  | ofNat k => exact ⟨k, rfl, h⟩
  | negSucc k => simp [decode, he] at h

/-- a successful decode consumed exactly `needed e n` bytes, which were available, and
returned a value of the right size made of the encoder's alphabet -/
theorem decode_ok_sound (e : Enc) (d v : Bytes) (n : Nat) (r : Nat) (he : e ≠ .berTag)
    (h : decodeNat e d n = .ok (v, r)) :
    r = needed e n ∧ r ≤ d.length ∧
    (e = .ascii → v = d.take r ∧ ∀ c ∈ v, isAscii c) ∧
    (e = .binary → v = d.take r) ∧
    ((e = .bcd ∨ e = .lbcd) → v.length = n ∧ ∀ c ∈ v, isDigit c) ∧
    (e = .bytesToHex → v.length = n ∧ hexDecode (d.take r) = some v) ∧
    (e = .hexToBytes → v = hexEncodeUpper (d.take r)) := by
  cases e with
  | berTag => exact absurd rfl he
  | ascii =>
    simp only [decodeNat] at h
    split at h
    · cases h
    · split at h
      · rename_i h1 h2
        cases h
        refine ⟨rfl, by omega, ?_, by simp, by simp, by simp, by simp⟩
        intro _
        refine ⟨rfl, ?_⟩
        simp only [asciiOK, List.all_eq_true, decide_eq_true_eq] at h2
        exact h2
      · cases h
  | binary =>
    simp only [decodeNat] at h
    split at h
    · cases h
    · cases h; exact ⟨rfl, by omega, by simp, by simp, by simp, by simp, by simp⟩
  | ebcdic =>
    simp only [decodeNat] at h
    split at h
    · cases h
    · cases h; exact ⟨rfl, by omega, by simp, by simp, by simp, by simp, by simp⟩
  | ebcdic1047 =>
    simp only [decodeNat] at h
    split at h
    · cases h
    · cases h; exact ⟨rfl, by omega, by simp, by simp, by simp, by simp, by simp⟩
  | bcd =>
    simp only [decodeNat] at h
    split at h
    · cases h
    · rename_i h1
      cases hu : bcdUnpack (d.take (n / 2 + n % 2)) with
      | none => simp [hu] at h
      | some ds =>
        simp [hu] at h
        obtain ⟨hv, hr⟩ := h
        subst hv; subst hr
        obtain ⟨hl, hd⟩ := bcdUnpack_sound _ _ hu
        have hlt : (d.take (n / 2 + n % 2)).length = n / 2 + n % 2 := by
          simp; omega
        refine ⟨rfl, by omega, by simp, by simp, ?_, by simp, by simp⟩
        intro _
        refine ⟨by simp [hl, hlt]; omega, ?_⟩
        intro c hc; exact hd c (List.mem_of_mem_drop hc)
  | lbcd =>
    simp only [decodeNat] at h
    split at h
    · cases h
    · rename_i h1
      cases hu : bcdUnpack (d.take (n / 2 + n % 2)) with
      | none => simp [hu] at h
      | some ds =>
        simp [hu] at h
        obtain ⟨hv, hr⟩ := h
        subst hv; subst hr
        obtain ⟨hl, hd⟩ := bcdUnpack_sound _ _ hu
        have hlt : (d.take (n / 2 + n % 2)).length = n / 2 + n % 2 := by
          simp; omega
        refine ⟨rfl, by omega, by simp, by simp, ?_, by simp, by simp⟩
        intro _
        refine ⟨by simp [hl, hlt]; omega, ?_⟩
        intro c hc; exact hd c (List.mem_of_mem_take hc)
  | bytesToHex =>
    simp only [decodeNat] at h
    split at h
    · cases h
    · rename_i h1
      cases hu : hexDecode (d.take (2 * n)) with
      | none => simp [hu] at h
      | some bs =>
        simp [hu] at h
        obtain ⟨hv, hr⟩ := h
        subst hv; subst hr
        have hl := hexDecode_length _ _ hu
        have hlt : (d.take (2 * n)).length = 2 * n := by simp; omega
        refine ⟨rfl, by omega, by simp, by simp, by simp, ?_, by simp⟩
        intro _
        exact ⟨by omega, hu⟩
  | hexToBytes =>
    simp only [decodeNat] at h
    split at h
    · cases h
    · cases h; exact ⟨rfl, by omega, by simp, by simp, by simp, by simp, by simp⟩

/-! ## BER tag continuation rule -/

theorem berTag_rule_single (x : Byte) (rest : Bytes) (n : Int) (h : x.toNat % 32 ≠ 31) :
    decode .berTag (x :: rest) n = .ok (hexEncodeUpper [x], 1) := by
  have := berTag_decode_valid [x] rest n (Or.inl ⟨x, rfl, h⟩)
  simpa using this

theorem berTag_rule_multi (x : Byte) (mid : Bytes) (last : Byte) (rest : Bytes) (n : Int)
    (h : x.toNat % 32 = 31) (hmid : ∀ m ∈ mid, 128 ≤ m.toNat) (hlast : last.toNat < 128) :
    decode .berTag (x :: (mid ++ last :: rest)) n =
      .ok (hexEncodeUpper (x :: (mid ++ [last])), mid.length + 2) := by
  have := berTag_decode_valid (x :: (mid ++ [last])) rest n (Or.inr ⟨x, mid, last, rfl, h, hmid, hlast⟩)
  simpa using this

theorem berTag_rule_short (x : Byte) (mid : Bytes) (n : Int)
    (h : x.toNat % 32 = 31) (hmid : ∀ m ∈ mid, 128 ≤ m.toNat) :
    decode .berTag (x :: mid) n = .err ∧ decode .berTag [] n = .err := by
  cases n <;> simp [decode, decodeNat, berTagLen, h, berTagMore_none mid hmid]

/-- whatever the tag decoder accepts is a valid tag prefix of the input: the read count
follows the continuation rule -/
theorem berTag_read_bounds (d v : Bytes) (n : Int) (r : Nat) (h : decode .berTag d n = .ok (v, r)) :
    1 ≤ r ∧ r ≤ d.length ∧ v = hexEncodeUpper (d.take r) := by
  have h : decodeNat .berTag d 0 = .ok (v, r) := by
    cases n <;> simpa [decode, decodeNat] using h
  simp only [decodeNat] at h
  cases hk : berTagLen d with
  | none => simp [hk] at h
  | some k =>
    simp [hk] at h
    obtain ⟨hv, hr⟩ := h
    subst hv; subst hr
    refine ⟨?_, ?_, rfl⟩
    · cases d with
      | nil => simp [berTagLen] at hk
      | cons x rest =>
        simp only [berTagLen] at hk
        split at hk
        · cases hm : berTagMore rest with
          | none => simp [hm] at hk
          | some j => simp [hm] at hk; omega
        · cases hk; omega
    · cases d with
      | nil => simp [berTagLen] at hk
      | cons x rest =>
        simp only [berTagLen] at hk
        split at hk
        · cases hm : berTagMore rest with
          | none => simp [hm] at hk
          | some j =>
            simp [hm] at hk
            have := berTagMore_le rest j hm
            simp; omega
        · cases hk; simp

/-! ## Non-vacuity -/
example : InDomain .bcd [49, 50, 51] := by simp [InDomain, isDigit]
example : encode .bcd [49, 50, 51] = .ok [0x01, 0x23] := by decide
example : decode .bcd [0x01, 0x23, 0xFF] 3 = .ok ([49, 50, 51], 2) := by decide
example : decode .lbcd [0x12, 0x30, 0xFF] 3 = .ok ([49, 50, 51], 2) := by decide
example : decode .bcd [0x4F] 2 = .err := by decide
example : ValidBerTag [0x9F, 0x02] := Or.inr ⟨0x9F, [], 0x02, rfl, by decide, by simp, by decide⟩
example : decode .berTag [0x9F, 0x02, 0x06] 0 = .ok ([57, 70, 48, 50], 2) := by decide

end Iso8583.C07
