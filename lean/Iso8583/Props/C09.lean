/-
C09 — TLV composites: order-insensitive decode, exact skipping, canonical encode; and the
composite step of the C01 round trip for tagged composites.

Property theorems only (helper lemmas live in Lemmas/Tlv.lean). The theorems are stated for
ONE level of a tagged composite `(.comp s subs)` with `s.mode = .tagged t`, `t.enc = some enc`;
the subfields (primitives or composites of any depth) enter through the hypothesis that they
are *self-delimiting* (`SelfDelim`), which is exactly the induction hypothesis of the C01
round trip, so the results chain through any nesting depth.
-/
import Iso8583.Lemmas.Tlv
import Iso8583.Lemmas.Composite

namespace Iso8583.C09
open Iso8583 Tlv

/-! ## Vocabulary -/

/-- a subfield spec/value pair is self-delimiting: unpacking its packed form followed by
arbitrary bytes returns the canonical value and consumes exactly the packed form -/
def SelfDelim (f : Field) (v : Value) : Prop :=
  ∀ packed, f.pack v = .ok packed → ∀ tail, f.unpack (packed ++ tail) = .ok (f.canon v, packed.length)

/-- `e` is an element of the tagged composite `(t, enc, subs)`: its tag is a coherent (K5)
tag of the spec, `e.tb` is the padded + encoded tag, `e.pk` the packed value, and the
subfield is self-delimiting -/
structure ElemWF (t : TagSpec) (enc : Enc) (subs : List (Tag × Field)) (e : Elem) : Prop where
  spec : lookup e.tag subs = some e.f
  tagOK : t.tagOK e.tag = true
  tagBytes : encodeTag t enc e.tag = .ok e.tb
  packed : e.f.pack e.v = .ok e.pk
  selfDelim : SelfDelim e.f e.v

/-- the dispatcher and tag test that `Field.unpack` hands to the TLV loop -/
abbrev dispatchOf (subs : List (Tag × Field)) : Tag → Bytes → UR (Value × Nat) :=
  fun tag d => unpackTagged subs tag d

/-- `pre` is a length prefix announcing exactly `body` inside `pre ++ body ++ tail` -/
def Announces (s : CompSpec) (pre body tail : Bytes) : Prop :=
  s.pref.decodeLength s.len (pre ++ (body ++ tail)) = .ok (body.length, pre.length)

/-- the value `Field.unpack` reports for a set of elements: tag ↦ canonical value, presented
in the spec's subfield order -/
def valueOf (subs : List (Tag × Field)) (elems : List Elem) : Value :=
  .comp (orderBySpec subs (insertAll [] (valuesOf elems)))

/-! ## K5: tag round trip -/

/-- a tag satisfying `TagSpec.tagOK` (fixed-width ASCII / EBCDIC / BCD / hex tags and BER
tags) survives pad → encode → decode → unpad: the decoder reads exactly the encoded bytes,
whatever follows, and at least one byte -/
theorem tag_roundtrip (t : TagSpec) (enc : Enc) (tag : Tag) (he : t.enc = some enc)
    (hok : t.tagOK tag = true) :
    ∃ tb, encodeTag t enc tag = .ok tb ∧ 1 ≤ tb.length ∧
      ∀ tail, ∃ raw, Enc.decode enc (tb ++ tail) t.len = .ok (raw, tb.length) ∧ t.pad.unpad raw = tag :=
  Tlv.tag_roundtrip t enc tag he hok

theorem elem_item_ok (t : TagSpec) (enc : Enc) (isBer : Bool) (subs : List (Tag × Field)) (e : Elem)
    (he : t.enc = some enc) (h : ElemWF t enc subs e) :
    (e.item).OK t enc isBer (lookupField subs) (dispatchOf subs) := by
  obtain ⟨tb, h1, h2⟩ := Tlv.tag_roundtrip t enc e.tag he h.tagOK
  rw [h.tagBytes] at h1
  cases h1
  refine ⟨h2, by rw [lookupField_eq, h.spec]; rfl, ?_⟩
  intro tail
  show unpackTagged subs e.tag (e.pk ++ tail) = _
  rw [unpackTagged_eq subs e.tag e.f _ h.spec]
  exact h.selfDelim e.pk h.packed tail

/-! ## Decode: any order of the elements -/

/-- a body that is the concatenation of elements with pairwise distinct known tags, in ANY
order: the loop consumes exactly the whole body and returns the map tag ↦ canonical value -/
theorem tlv_unpack_elements (t : TagSpec) (enc : Enc) (subs : List (Tag × Field)) (elems : List Elem)
    (he : t.enc = some enc) (hwf : ∀ e ∈ elems, ElemWF t enc subs e)
    (hd : (elems.map (·.tag)).Nodup) :
    tlvLoop t enc (enc == Enc.berTag) (lookupField subs) (dispatchOf subs)
        ((elemsWire elems).length + 1) (elemsWire elems) 0 []
      = .ok (insertAll [] (valuesOf elems), (elemsWire elems).length) ∧
    (∀ e ∈ elems, lookup e.tag (insertAll [] (valuesOf elems)) = some (e.f.canon e.v)) ∧
    (∀ tg, tg ∉ elems.map (·.tag) → lookup tg (insertAll [] (valuesOf elems)) = none) := by
  have hok : ∀ i ∈ elems.map Elem.item, i.OK t enc (enc == Enc.berTag) (lookupField subs) (dispatchOf subs) := by
    intro i hi
    obtain ⟨e, hem, rfl⟩ := List.mem_map.mp hi
    exact elem_item_ok t enc _ subs e he (hwf e hem)
  have hkeys : (valuesOf elems).map (·.1) = elems.map (·.tag) := by
    simp [valuesOf, List.map_map, Function.comp_def]
  have hd' : ((valuesOf elems).map (·.1)).Nodup := by rw [hkeys]; exact hd
  refine ⟨?_, ?_, ?_⟩
  · have := tlvLoop_items t enc (enc == Enc.berTag) (lookupField subs) (dispatchOf subs) _ hok []
    rw [wireOf_items, foldl_apply_items] at this
    exact this
  · intro e hem
    rw [lookup_insertAll _ _ _ hd']
    have : lookup e.tag (valuesOf elems) = some (e.f.canon e.v) :=
      lookup_of_mem _ _ _ hd' (List.mem_map.mpr ⟨e, hem, rfl⟩)
    rw [this]
  · intro tg htg
    rw [lookup_insertAll _ _ _ hd', lookup_eq_none_of_not_mem tg _ (by rw [hkeys]; exact htg)]
    rfl

/-- **Permutation invariance**: for ANY permutation `elems'` of an element list with pairwise
distinct tags, `Field.unpack` of `prefix ++ body ++ tail` yields the same value — determined
by `elems` alone — and consumes exactly prefix + announced body length -/
theorem unpack_perm_invariant (s : CompSpec) (subs : List (Tag × Field)) (t : TagSpec) (enc : Enc)
    (hm : s.mode = .tagged t) (he : t.enc = some enc)
    (elems elems' : List Elem) (hp : elems'.Perm elems)
    (hwf : ∀ e ∈ elems, ElemWF t enc subs e) (hd : (elems.map (·.tag)).Nodup)
    (pre tail : Bytes) (hpre : Announces s pre (elemsWire elems') tail) :
    Field.unpack (.comp s subs) (pre ++ (elemsWire elems' ++ tail)) =
      .ok (valueOf subs elems, pre.length + (elemsWire elems).length) := by
  have hwf' : ∀ e ∈ elems', ElemWF t enc subs e := fun e h => hwf e (hp.mem_iff.mp h)
  have hd' : (elems'.map (·.tag)).Nodup := ((hp.map (·.tag)).nodup_iff).mpr hd
  rw [unpack_tagged_eq s subs t enc hm he pre _ tail hpre,
    (tlv_unpack_elements t enc subs elems' he hwf' hd').1]
  simp only [finish, ne_eq, not_true_eq_false, if_false, valueOf]
  rw [elemsWire_length_perm elems' elems hp]
  have hvp : (valuesOf elems').Perm (valuesOf elems) := hp.map _
  have hkeys : ((valuesOf elems').map (·.1)).Nodup := by
    have : (valuesOf elems').map (·.1) = elems'.map (·.tag) := by
      simp [valuesOf, List.map_map, Function.comp_def]
    rw [this]; exact hd'
  rw [orderBySpec_congr subs _ (insertAll [] (valuesOf elems))
    (fun p _ => lookup_insertAll_perm p.1 _ _ [] hvp hkeys)]

/-- two orderings of the same elements unpack to the same value and read count -/
theorem unpack_perm_same (s : CompSpec) (subs : List (Tag × Field)) (t : TagSpec) (enc : Enc)
    (hm : s.mode = .tagged t) (he : t.enc = some enc)
    (elems elems' : List Elem) (hp : elems'.Perm elems)
    (hwf : ∀ e ∈ elems, ElemWF t enc subs e) (hd : (elems.map (·.tag)).Nodup)
    (pre tail tail' : Bytes) (h1 : Announces s pre (elemsWire elems) tail)
    (h2 : Announces s pre (elemsWire elems') tail') :
    Field.unpack (.comp s subs) (pre ++ (elemsWire elems' ++ tail')) =
      Field.unpack (.comp s subs) (pre ++ (elemsWire elems ++ tail)) := by
  rw [unpack_perm_invariant s subs t enc hm he elems elems' hp hwf hd pre tail' h2,
    unpack_perm_invariant s subs t enc hm he elems elems (List.Perm.refl _) hwf hd pre tail h1]

/-! ## Unknown tags -/

/-- **skipping disabled**: if, after any run of elements, the body continues with a tag the
spec does not define, `Field.unpack` fails and the error path is exactly that (unpadded) tag
— what `UnpackError.FieldIDs` reports below this composite. (`TagDecodes`: the tag decoder
reads `tb` as the tag `u`; `tag_roundtrip` provides this for every K5-shaped tag.) -/
theorem unknown_tag_error (s : CompSpec) (subs : List (Tag × Field)) (t : TagSpec) (enc : Enc)
    (hm : s.mode = .tagged t) (he : t.enc = some enc)
    (hoff : skipOn t (enc == Enc.berTag) = false)
    (before : List Elem) (hwf : ∀ e ∈ before, ElemWF t enc subs e)
    (u : Tag) (tb rest : Bytes) (hu : lookupField subs u = false) (hdec : TagDecodes t enc u tb)
    (pre tail : Bytes) (hpre : Announces s pre (elemsWire before ++ (tb ++ rest)) tail) :
    Field.unpack (.comp s subs) (pre ++ ((elemsWire before ++ (tb ++ rest)) ++ tail)) = .err [u] := by
  have hok : ∀ i ∈ before.map Elem.item, i.OK t enc (enc == Enc.berTag) (lookupField subs) (dispatchOf subs) := by
    intro i hi
    obtain ⟨e, hem, rfl⟩ := List.mem_map.mp hi
    exact elem_item_ok t enc _ subs e he (hwf e hem)
  rw [unpack_tagged_eq s subs t enc hm he pre _ tail hpre]
  have hle := length_le_wireOf _ hok
  rw [wireOf_items] at hle
  simp only [List.length_map] at hle
  have hpos := hdec.1
  have e : (elemsWire before ++ (tb ++ rest)).length + 1 =
      (before.map Elem.item).length + (((elemsWire before ++ (tb ++ rest)).length - before.length) + 1) := by
    simp only [List.length_append, List.length_map]; omega
  rw [e, tlvLoop_prefix t enc _ _ _ _ hok _ 0 [] _ (tb ++ rest) (by rw [wireOf_items]; rfl)]
  rw [tlvLoop_unknown_err t enc _ _ _ _ _ _ _ u tb rest
    (by rw [wireOf_items, Nat.zero_add, List.drop_left' rfl]) hdec hu hoff]
  rfl

/-- the general statement behind exact skipping: a body made of well-formed items — known
elements and skipped unknown elements in any arrangement — unpacks to the map of the known
elements only, and the bytes consumed are exactly those of all items -/
theorem unpack_items (s : CompSpec) (subs : List (Tag × Field)) (t : TagSpec) (enc : Enc)
    (hm : s.mode = .tagged t) (he : t.enc = some enc) (items : List Item)
    (hok : ∀ i ∈ items, i.OK t enc (enc == Enc.berTag) (lookupField subs) (dispatchOf subs))
    (pre tail : Bytes) (hpre : Announces s pre (wireOf items) tail) :
    Field.unpack (.comp s subs) (pre ++ (wireOf items ++ tail)) =
      .ok (.comp (orderBySpec subs (items.foldl Item.apply [])), pre.length + (wireOf items).length) := by
  rw [unpack_tagged_eq s subs t enc hm he pre _ tail hpre, tlvLoop_items t enc _ _ _ items hok []]
  simp [finish]

/-- **skipping enabled** (BER tags, or `PrefUnknownTLV` given): an unknown element
`encTag(u) ++ lenPrefix(k) ++ k value bytes` inserted at ANY position between elements is
skipped: the result is exactly the result without it (second equation, for the prefix `pre'`
announcing the shorter body) and the bytes consumed grow by exactly tag + prefix + k -/
theorem unknown_tag_skip_exact (s : CompSpec) (subs : List (Tag × Field)) (t : TagSpec) (enc : Enc)
    (hm : s.mode = .tagged t) (he : t.enc = some enc)
    (before after : List Elem) (hwf : ∀ e ∈ before ++ after, ElemWF t enc subs e)
    (u : Tag) (tb lp vb : Bytes)
    (hunk : (Item.skip u tb lp vb).OK t enc (enc == Enc.berTag) (lookupField subs) (dispatchOf subs))
    (pre pre' tail : Bytes)
    (hpre : Announces s pre (elemsWire before ++ ((tb ++ (lp ++ vb)) ++ elemsWire after)) tail)
    (hpre' : Announces s pre' (elemsWire before ++ elemsWire after) tail) :
    Field.unpack (.comp s subs)
        (pre ++ ((elemsWire before ++ ((tb ++ (lp ++ vb)) ++ elemsWire after)) ++ tail)) =
      .ok (valueOf subs (before ++ after),
           pre.length + ((elemsWire before).length + (tb.length + lp.length + vb.length) + (elemsWire after).length)) ∧
    Field.unpack (.comp s subs) (pre' ++ ((elemsWire before ++ elemsWire after) ++ tail)) =
      .ok (valueOf subs (before ++ after),
           pre'.length + ((elemsWire before).length + (elemsWire after).length)) := by
  have hokE : ∀ l : List Elem, (∀ e ∈ l, ElemWF t enc subs e) →
      ∀ i ∈ l.map Elem.item, i.OK t enc (enc == Enc.berTag) (lookupField subs) (dispatchOf subs) := by
    intro l hl i hi
    obtain ⟨e, hem, rfl⟩ := List.mem_map.mp hi
    exact elem_item_ok t enc _ subs e he (hl e hem)
  constructor
  · let items := before.map Elem.item ++ (Item.skip u tb lp vb :: after.map Elem.item)
    have hw : wireOf items = elemsWire before ++ ((tb ++ (lp ++ vb)) ++ elemsWire after) := by
      simp [items, wireOf_append, wireOf, wireOf_items, Item.wire]
    have hok : ∀ i ∈ items, i.OK t enc (enc == Enc.berTag) (lookupField subs) (dispatchOf subs) := by
      intro i hi
      simp only [items, List.mem_append, List.mem_cons] at hi
      rcases hi with hi | rfl | hi
      · exact hokE before (fun e h => hwf e (List.mem_append_left _ h)) i hi
      · exact hunk
      · exact hokE after (fun e h => hwf e (List.mem_append_right _ h)) i hi
    have := unpack_items s subs t enc hm he items hok pre tail (by rw [hw]; exact hpre)
    rw [hw] at this
    rw [this]
    have hf : items.foldl Item.apply [] = insertAll [] (valuesOf (before ++ after)) := by
      simp only [items, List.foldl_append, List.foldl_cons, Item.apply]
      rw [foldl_apply_items, foldl_apply_items]
      simp [insertAll, valuesOf, List.foldl_append]
    simp only [hf, valueOf, List.length_append]
    congr 2; omega
  · have hw : wireOf ((before ++ after).map Elem.item) = elemsWire before ++ elemsWire after := by
      rw [wireOf_items, elemsWire_append]
    have := unpack_items s subs t enc hm he _ (hokE _ hwf) pre' tail (by rw [hw]; exact hpre')
    rw [hw, foldl_apply_items] at this
    rw [this]
    simp [valueOf]

/-- **skipping enabled, overrun**: an unknown element whose announced length `k` exceeds the
bytes `rest` that remain in the composite body is an error naming the tag — never accepted,
never a panic — wherever it stands -/
theorem unknown_tag_overrun_error (s : CompSpec) (subs : List (Tag × Field)) (t : TagSpec) (enc : Enc)
    (hm : s.mode = .tagged t) (he : t.enc = some enc)
    (hon : skipOn t (enc == Enc.berTag) = true)
    (before : List Elem) (hwf : ∀ e ∈ before, ElemWF t enc subs e)
    (u : Tag) (tb lp rest : Bytes) (k : Nat)
    (hu : lookupField subs u = false) (hdec : TagDecodes t enc u tb)
    (hlp : (skipPref t).decodeLength (skipMax t) (lp ++ rest) = .ok (k, lp.length))
    (hover : rest.length < k)
    (pre tail : Bytes) (hpre : Announces s pre (elemsWire before ++ (tb ++ (lp ++ rest))) tail) :
    Field.unpack (.comp s subs) (pre ++ ((elemsWire before ++ (tb ++ (lp ++ rest))) ++ tail)) = .err [u] := by
  have hok : ∀ i ∈ before.map Elem.item, i.OK t enc (enc == Enc.berTag) (lookupField subs) (dispatchOf subs) := by
    intro i hi
    obtain ⟨e, hem, rfl⟩ := List.mem_map.mp hi
    exact elem_item_ok t enc _ subs e he (hwf e hem)
  rw [unpack_tagged_eq s subs t enc hm he pre _ tail hpre]
  have hle := length_le_wireOf _ hok
  rw [wireOf_items] at hle
  simp only [List.length_map] at hle
  have hpos := hdec.1
  have e : (elemsWire before ++ (tb ++ (lp ++ rest))).length + 1 =
      (before.map Elem.item).length + (((elemsWire before ++ (tb ++ (lp ++ rest))).length - before.length) + 1) := by
    simp only [List.length_append, List.length_map]; omega
  rw [e, tlvLoop_prefix t enc _ _ _ _ hok _ 0 [] _ (tb ++ (lp ++ rest)) (by rw [wireOf_items]; rfl)]
  rw [tlvLoop_overrun_err t enc _ _ _ _ _ _ _ u tb lp rest k
    (by rw [wireOf_items, Nat.zero_add, List.drop_left' rfl]) hdec hu hon hlp hover]
  rfl

/-- **no input makes the TLV decoder panic**: on ANY bytes (truncated tags, huge or cut-off
length fields, overrunning elements) `Field.unpack` of a tagged composite returns `ok` or an
error, provided its subfields never panic -/
theorem unpack_tagged_never_panics (s : CompSpec) (subs : List (Tag × Field)) (t : TagSpec) (enc : Enc)
    (hm : s.mode = .tagged t) (he : t.enc = some enc)
    (hsub : ∀ tg f, (tg, f) ∈ subs → ∀ d, f.unpack d ≠ .panic) (data : Bytes) :
    Field.unpack (.comp s subs) data ≠ .panic :=
  Tlv.unpack_tagged_ne_panic s subs t enc hm he hsub data

/-! ## Encode: canonical emission -/

/-- the set subfields in spec order are exactly the spec entries that have a value -/
theorem setSubs_spec (subs : List (Tag × Field)) (vals : List (Tag × Value)) :
    setSubs subs vals = subs.filterMap fun p => (lookup p.1 vals).map fun v => (p.1, p.2, v) := by
  induction subs with
  | nil => rfl
  | cons p rest ih =>
    obtain ⟨tg, f⟩ := p
    simp only [setSubs, List.filterMap_cons]
    cases lookup tg vals with
    | none => simpa using ih
    | some v => simp [ih]

/-- **canonical emission**: a successful `Pack` of a tagged composite is the length prefix
followed by one element per *set* subfield — each exactly once, in the order of `subs` (the
spec's sort order), each as `encode (pad tag) ++ pack value`; unset subfields contribute
nothing -/
theorem pack_canonical (s : CompSpec) (subs : List (Tag × Field)) (t : TagSpec) (enc : Enc)
    (hm : s.mode = .tagged t) (he : t.enc = some enc) (vals : List (Tag × Value)) (packed : Bytes)
    (h : Field.pack (.comp s subs) (.comp vals) = .ok packed) :
    ∃ (pre : Bytes) (elems : List Elem),
      packed = pre ++ elemsWire elems ∧
      s.pref.encodeLength s.len (elemsWire elems).length = .ok pre ∧
      packByTag t subs vals = .ok (elemsWire elems) ∧
      elems.map (fun e => (e.tag, e.f, e.v)) = setSubs subs vals ∧
      ∀ e ∈ elems, encodeTag t enc e.tag = .ok e.tb ∧ e.f.pack e.v = .ok e.pk := by
  rw [Field.pack] at h
  simp only [hm] at h
  cases hb : packByTag t subs vals with
  | err => simp [hb] at h
  | panic => simp [hb] at h
  | ok body =>
    simp only [hb] at h
    cases hp : s.pref.encodeLength s.len body.length with
    | err => simp [hp] at h
    | panic => simp [hp] at h
    | ok pre =>
      simp only [hp, Res.ok.injEq] at h
      obtain ⟨elems, h1, h2, h3⟩ := packByTag_elems t enc he subs vals body hb
      subst h3
      exact ⟨pre, elems, h.symm, hp, rfl, h1, h2⟩

/-- **order independence of Pack**: two value lists that agree as maps (same `lookup` for
every tag) pack to identical bytes — population order is invisible (tagged and bitmapped) -/
theorem pack_order_independent (s : CompSpec) (subs : List (Tag × Field)) (vals vals' : List (Tag × Value))
    (h : ∀ tg, lookup tg vals = lookup tg vals') :
    Field.pack (.comp s subs) (.comp vals) = Field.pack (.comp s subs) (.comp vals') := by
  rw [Field.pack, Field.pack]
  cases s.mode with
  | tagged t => simp only [packByTag_congr t subs vals vals' (fun p _ => h p.1)]
  | bitmapped b => simp only [packByBitmap_congr subs vals vals' (fun p _ => h p.1)]

/-! ## The composite step of the C01 round trip (tagged mode) -/

/-- **tagged composites are self-delimiting when their subfields are**: for a coherent tagged
composite and a value all of whose set subfields are self-delimiting,
`unpack (pack v ++ tail) = (canon v, |pack v|)`. `InDomain` of the composite value is not
even needed (a successful Pack and self-delimiting subfields suffice; `lookup`, `Pack` and
`canon` all read the first entry of a key). Extra hypotheses beyond Coherent: the packed
length is a Go `int` (`hlen`: a slice can not be longer), and nothing follows a
`None`-prefixed composite (`hnone`; K7 allows that prefix only in last position of a
positional parent, whose body is cut to the announced length). -/
theorem composite_roundtrip_tagged (s : CompSpec) (subs : List (Tag × Field)) (t : TagSpec) (enc : Enc)
    (lastPos : Bool) (hm : s.mode = .tagged t) (he : t.enc = some enc)
    (hcoh : (Field.comp s subs).coherent lastPos = true)
    (vals : List (Tag × Value))
    (hsd : ∀ tg f v, (tg, f) ∈ subs → lookup tg vals = some v → SelfDelim f v)
    (packed tail : Bytes) (hpack : Field.pack (.comp s subs) (.comp vals) = .ok packed)
    (hlen : packed.length ≤ maxInt) (hnone : s.pref = .none → tail = []) :
    Field.unpack (.comp s subs) (packed ++ tail) =
      .ok (Field.canon (.comp s subs) (.comp vals), packed.length) := by
  obtain ⟨pre, elems, hpk, hpre, _, hmap, hparts⟩ := pack_canonical s subs t enc hm he vals packed hpack
  -- facts from coherence
  rw [Field.coherent] at hcoh
  simp only [hm, he, Bool.and_eq_true] at hcoh
  obtain ⟨⟨⟨⟨hexp, hprefOK⟩, hkeysOK⟩, _hsorted⟩, ⟨htags, _⟩⟩ := hcoh
  have hnodup : (subs.map (·.1)).Nodup := by
    simp only [sortKeysOK, Bool.and_eq_true] at hkeysOK
    exact allDistinct_nodup _ hkeysOK.1.1
  have hnehex : s.pref ≠ .fixed .hex := by
    intro e; rw [e] at hprefOK; simp at hprefOK
  -- every element is well formed
  have hmem : ∀ e ∈ elems, (e.tag, e.f, e.v) ∈ setSubs subs vals := by
    intro e hem
    rw [← hmap]; exact List.mem_map.mpr ⟨e, hem, rfl⟩
  have hwf : ∀ e ∈ elems, ElemWF t enc subs e := by
    intro e hem
    obtain ⟨h1, h2⟩ := setSubs_mem subs vals _ _ _ (hmem e hem)
    have htag : t.tagOK e.tag = true := by
      have := List.all_eq_true.mp htags (e.tag, e.f) h1
      exact this
    exact ⟨lookup_of_mem _ _ _ hnodup h1, htag, (hparts e hem).1, (hparts e hem).2, hsd _ _ _ h1 h2⟩
  have hkeys : elems.map (·.tag) = (setSubs subs vals).map (·.1) := by
    rw [← hmap]; simp [List.map_map, Function.comp_def]
  have hd : (elems.map (·.tag)).Nodup := by
    rw [hkeys]; exact hnodup.sublist (setSubs_keys_sublist subs vals)
  -- the prefix announces the body
  have hbody : (elemsWire elems).length ≤ maxInt := by
    rw [hpk] at hlen; simp only [List.length_append] at hlen; omega
  have hann : Announces s pre (elemsWire elems) tail := by
    apply decodeLength_of_encodeLength s.pref s.len _ pre _ hexp hnehex hbody hpre
    intro hn; rw [hnone hn]; simp
  rw [hpk, List.append_assoc,
    unpack_perm_invariant s subs t enc hm he elems elems (List.Perm.refl _) hwf hd pre tail hann]
  -- the value is the canonical one
  have hvals : valuesOf elems = Field.canonSubs subs vals := by
    rw [canonSubs_eq_map, ← hmap]; simp [valuesOf, List.map_map, Function.comp_def]
  have hcan : orderBySpec subs (insertAll [] (valuesOf elems)) = Field.canonSubs subs vals := by
    apply orderBySpec_eq_canonSubs
    intro p hp
    rw [lookup_insertAll _ _ _ (by rw [hvals]; exact canonSubs_keys_nodup subs vals hnodup), hvals,
      lookup_canonSubs subs vals hnodup p.1 p.2 hp]
    cases lookup p.1 vals <;> rfl
  simp only [valueOf, hcan, Field.canon, List.length_append]

/-! ## The composite step of the C01 round trip (positional mode) -/

theorem prefix_nonempty_of_var (p : Pref) (maxLen n : Nat) (pre rest : Bytes)
    (hexp : p.exportedB = true)
    (hnf : ∀ f, p ≠ .fixed f) (hnn : p ≠ .none)
    (hdec : p.decodeLength maxLen (pre ++ rest) = .ok (n, pre.length)) : pre.length ≠ 0 := by
  obtain ⟨_, hr⟩ := C06.dec_range p maxLen (pre ++ rest)
  obtain ⟨_, _, hber, hw⟩ := hr n pre.length hdec
  cases p with
  | fixed f => exact absurd rfl (hnf f)
  | none => exact absurd rfl hnn
  | berTLV => have := (hber rfl).2; omega
  | var f d =>
    have hd : 1 ≤ d := by simp only [Pref.exportedB, decide_eq_true_eq] at hexp; exact hexp.1
    have := hw (by simp)
    rw [this]
    cases f <;> simp only [C06.width] <;> omega

/-- **positional composites are self-delimiting when their subfields are**: coherent
positional composite (`Tag.Enc = nil`), in-domain value (fixed / `None` prefix: every
subfield set; variable prefix: a non-empty leading run whose last element packs to at least
one byte). Subfield hypotheses: every set subfield is self-delimiting when nothing follows
(`hend`), and every set subfield that is not the last one of the spec is self-delimiting
before arbitrary bytes (`hany`) — the `None`-prefixed subfield K7 allows in last position
only ever sees the end of the body, which is cut to the announced length. Extra hypotheses
beyond Coherent/InDomain: `hlen` (the packed length is a Go int) and `hnone`. -/
theorem composite_roundtrip_positional (s : CompSpec) (subs : List (Tag × Field)) (t : TagSpec)
    (lastPos : Bool) (hm : s.mode = .tagged t) (he : t.enc = none)
    (hcoh : (Field.comp s subs).coherent lastPos = true)
    (vals : List (Tag × Value)) (hdom : (Field.comp s subs).inDomain (.comp vals) = true)
    (hend : ∀ tg f v, (tg, f) ∈ subs → lookup tg vals = some v → SelfDelimEnd f v)
    (hany : ∀ init last tg f v, subs = init ++ [last] → (tg, f) ∈ init → lookup tg vals = some v →
      SelfDelim f v)
    (packed tail : Bytes) (hpack : Field.pack (.comp s subs) (.comp vals) = .ok packed)
    (hlen : packed.length ≤ maxInt) (hnone : s.pref = .none → tail = []) :
    Field.unpack (.comp s subs) (packed ++ tail) =
      .ok (Field.canon (.comp s subs) (.comp vals), packed.length) := by
  -- Pack = prefix ++ body
  rw [Field.pack] at hpack
  simp only [hm] at hpack
  cases hb : packByTag t subs vals with
  | err => simp [hb] at hpack
  | panic => simp [hb] at hpack
  | ok body =>
    simp only [hb] at hpack
    cases hp : s.pref.encodeLength s.len body.length with
    | err => simp [hp] at hpack
    | panic => simp [hp] at hpack
    | ok pre =>
      simp only [hp, Res.ok.injEq] at hpack
      subst hpack
      -- coherence
      rw [Field.coherent] at hcoh
      simp only [hm, he, Bool.and_eq_true] at hcoh
      obtain ⟨⟨⟨⟨hexp, hprefOK⟩, hkeysOK⟩, _hsorted⟩, _⟩ := hcoh
      have hnodup : (subs.map (·.1)).Nodup := by
        simp only [sortKeysOK, Bool.and_eq_true] at hkeysOK
        exact allDistinct_nodup _ hkeysOK.1.1
      have hnehex : s.pref ≠ .fixed .hex := by
        intro e; rw [e] at hprefOK; simp at hprefOK
      have hbody : body.length ≤ maxInt := by
        simp only [List.length_append] at hlen; omega
      have hann : Announces s pre body tail := by
        apply decodeLength_of_encodeLength s.pref s.len _ pre _ hexp hnehex hbody hp
        intro hn; rw [hnone hn]; simp
      -- the value domain
      rw [Field.inDomain] at hdom
      simp only [hm, he, Bool.and_eq_true] at hdom
      obtain ⟨⟨⟨_, _⟩, hvalsIn⟩, hshape⟩ := hdom
      have hfix : (pre.length != 0) = false → ∀ p ∈ subs, (lookup p.1 vals).isSome = true := by
        intro hz
        have hz' : pre.length = 0 := by simpa using hz
        cases hpf : s.pref with
        | fixed f =>
          rw [hpf] at hshape
          simp only [List.all_map, List.all_eq_true] at hshape
          intro p hpm; simpa using hshape p hpm
        | none =>
          rw [hpf] at hshape
          simp only [List.all_map, List.all_eq_true] at hshape
          intro p hpm; simpa using hshape p hpm
        | berTLV =>
          exact absurd hz' (prefix_nonempty_of_var s.pref s.len _ pre _ hexp
            (by rw [hpf]; intro f; simp) (by rw [hpf]; simp) hann)
        | var f d =>
          exact absurd hz' (prefix_nonempty_of_var s.pref s.len _ pre _ hexp
            (by rw [hpf]; intro f; simp) (by rw [hpf]; simp) hann)
      have hvar : (pre.length != 0) = true → leadingRun subs vals = true ∧ LastNonEmpty subs vals ∧
          ∃ p ∈ subs, (lookup p.1 vals).isSome = true := by
        intro hnz
        have hnz' : pre.length ≠ 0 := by simpa using hnz
        have hshape' : (!vals.isEmpty && ((subs.map fun p => (lookup p.1 vals).isSome).dropWhile id).all (fun b => !b) &&
            (match (orderBySpec subs vals).getLast? with
              | some (t, v) =>
                (match lookup t subs with
                 | some f => (match f.pack v with | .ok bs => !bs.isEmpty | _ => true)
                 | none => true)
              | none => true)) = true := by
          cases hpf : s.pref with
          | fixed f =>
            rw [hpf] at hp
            have : pre = [] := by
              cases f <;> simp only [Pref.encodeLength] at hp <;> split at hp <;> simp_all
            rw [this] at hnz'; exact absurd rfl hnz'
          | none =>
            rw [hpf] at hp
            simp only [Pref.encodeLength, Res.ok.injEq] at hp
            rw [← hp] at hnz'; exact absurd rfl hnz'
          | berTLV => rw [hpf] at hshape; exact hshape
          | var f d => rw [hpf] at hshape; exact hshape
        simp only [Bool.and_eq_true] at hshape'
        obtain ⟨⟨hne, hrun⟩, hlast⟩ := hshape'
        rw [leadingRun_of_dropWhile] at hrun
        refine ⟨hrun, ?_, ?_⟩
        · -- the last set subfield packs to at least one byte
          intro init tg f rest v pk hsub hlk habs hpk
          have hord : orderBySpec subs vals = orderBySpec init vals ++ [(tg, v)] := by
            rw [hsub, orderBySpec_append]
            simp only [orderBySpec, hlk, orderBySpec_all_absent rest vals habs]
          have hmem : (tg, f) ∈ subs := by rw [hsub]; simp
          rw [hord, List.getLast?_append] at hlast
          simp only [List.getLast?_singleton, Option.some_or, lookup_of_mem tg f subs hnodup hmem, hpk] at hlast
          intro e; rw [e] at hlast; simp at hlast
        · cases vals with
          | nil => simp at hne
          | cons kv more =>
            obtain ⟨k, v⟩ := kv
            simp only [List.all_cons, Bool.and_eq_true] at hvalsIn
            have hk := hvalsIn.1
            rw [lookupField_eq] at hk
            cases hf : lookup k subs with
            | none => simp [hf] at hk
            | some f =>
              exact ⟨(k, f), lookup_some_mem k f subs hf, by simp [lookup]⟩
      have hrun := unpackPositional_run t he vals (pre.length != 0) subs body body 0 [] hb (by simp) (by simp)
        hend hany hfix hvar
      rw [List.append_assoc, unpack_positional_eq s subs t hm he pre body tail hann, hrun]
      have hcan : orderBySpec subs (Field.canonSubs subs vals) = Field.canonSubs subs vals := by
        apply orderBySpec_eq_canonSubs
        intro p hp'
        exact lookup_canonSubs subs vals hnodup p.1 p.2 hp'
      simp [finish, hcan, Field.canon]

/-! ## The composite step of the C01 round trip (bitmapped mode) -/

/-- a freshly reset bitmap has no bit set -/
theorem reset_isSet (specLen : Nat) (auto : Bool) (m : Nat) : (Bitmap.reset specLen auto).isSet m = false := by
  unfold Bitmap.isSet Bitmap.reset
  split
  · rfl
  · rename_i h
    simp only [List.length_replicate, not_or, Nat.not_lt] at h
    have hlt : (m - 1) / 8 < Bitmap.blockLenOf specLen := by omega
    simp [List.getD_eq_getElem?_getD, hlt]

/-- the bitmap fact the bitmapped step rests on: on a bitmap that does not auto-expand
(composite bitmaps, K4), `Set n` leaves every other bit as it was -/
theorem set_leaves_other_bits (bm : Bitmap) (n m : Nat) (hauto : bm.auto = false) (hne : m ≠ n) :
    (bm.set n).isSet m = bm.isSet m :=
  Tlv.set_leaves_other_bits bm n m hauto hne

/-- the subfield list is in ascending id order (what `orderedSpecFieldTags` is for a
bitmapped composite: sorted by `StringsByInt`). NOT part of `Field.coherent`. -/
def IdsAscending (subs : List (Tag × Field)) : Prop :=
  subs.Pairwise (fun a b => ∀ ia ib : Int, atoi? a.1 = some ia → atoi? b.1 = some ib → ia < ib)

/-- **bitmapped composites are self-delimiting when their subfields are**. Hypotheses beyond
Coherent: `hasc` (subfields listed in ascending id order — the invariant of `Field.comp`'s
`subs` = `orderedSpecFieldTags` that Coherent does not state; Pack emits in list order,
Unpack scans bits in ascending order), `hlen`, `hnone`. No bitmap fact is assumed: the two
needed (`set_leaves_other_bits`, `reset_isSet`) and the one-block Pack/Unpack round trip of
the bitmap (`Tlv.bitmap_unpack_pack`) are proved here. -/
theorem composite_roundtrip_bitmapped (s : CompSpec) (subs : List (Tag × Field)) (b : BitmapSpec)
    (lastPos : Bool) (hm : s.mode = .bitmapped b)
    (hcoh : (Field.comp s subs).coherent lastPos = true)
    (hasc : IdsAscending subs)
    (vals : List (Tag × Value))
    (hsd : ∀ tg f v, (tg, f) ∈ subs → lookup tg vals = some v → SelfDelim f v)
    (packed tail : Bytes) (hpack : Field.pack (.comp s subs) (.comp vals) = .ok packed)
    (hlen : packed.length ≤ maxInt) (hnone : s.pref = .none → tail = []) :
    Field.unpack (.comp s subs) (packed ++ tail) =
      .ok (Field.canon (.comp s subs) (.comp vals), packed.length) := by
  -- coherence
  rw [Field.coherent] at hcoh
  simp only [hm, Bool.and_eq_true] at hcoh
  obtain ⟨⟨⟨⟨hexp, hprefOK⟩, hkeysOK⟩, _hsorted⟩, ⟨⟨⟨⟨⟨hauto, hblk⟩, hbpref⟩, hbenc⟩, hids⟩, _⟩⟩ := hcoh
  have hauto' : b.auto = false := by simpa using hauto
  have hnodup : (subs.map (·.1)).Nodup := by
    simp only [sortKeysOK, Bool.and_eq_true] at hkeysOK
    exact allDistinct_nodup _ hkeysOK.1.1
  have hnehex : s.pref ≠ .fixed .hex := by
    intro e; rw [e] at hprefOK; simp at hprefOK
  have hblk' : 1 ≤ Bitmap.blockLenOf b.specLen := by
    simp only [decide_eq_true_eq] at hblk; exact hblk.1
  have hbpref' : ∃ f, b.pref = .fixed f := by
    cases hbp : b.pref with
    | fixed f => exact ⟨f, rfl⟩
    | var f d => rw [hbp] at hbpref; simp at hbpref
    | berTLV => rw [hbp] at hbpref; simp at hbpref
    | none => rw [hbp] at hbpref; simp at hbpref
  have hbenc' : b.enc = .binary ∨ b.enc = .bytesToHex := by
    cases hbe : b.enc <;> rw [hbe] at hbenc <;> simp at hbenc ⊢
  -- Pack = prefix ++ bitmap ++ fields
  rw [Field.pack] at hpack
  simp only [hm] at hpack
  cases hb : packByBitmap subs vals (Bitmap.reset b.specLen b.auto) with
  | err => simp [hb] at hpack
  | panic => simp [hb] at hpack
  | ok r =>
    obtain ⟨bm, w⟩ := r
    simp only [hb] at hpack
    cases hpbm : bm.pack b.enc with
    | err => simp [hpbm] at hpack
    | panic => simp [hpbm] at hpack
    | ok pbm =>
      simp only [hpbm] at hpack
      cases hp : s.pref.encodeLength s.len (pbm ++ w).length with
      | err => rw [hp] at hpack; cases hpack
      | panic => rw [hp] at hpack; cases hpack
      | ok pre =>
        rw [hp] at hpack
        simp only [Res.ok.injEq] at hpack
        subst hpack
        rw [hauto'] at hb
        obtain ⟨es, h1, h2, h3, h4, h5, h6, h7, h8⟩ :=
          packByBitmap_spec Tlv.set_leaves_other_bits vals subs (Bitmap.reset b.specLen false) bm w rfl hasc hb
        have hdl : bm.data.length = Bitmap.blockLenOf b.specLen := by
          rw [h6]; simp [Bitmap.reset]
        have hbl : bm.blockLen = Bitmap.blockLenOf b.specLen := by rw [h7]; rfl
        have hbody : (pbm ++ w).length ≤ maxInt := by
          simp only [List.length_append] at hlen ⊢; omega
        have hann : Announces s pre (pbm ++ w) tail := by
          apply decodeLength_of_encodeLength s.pref s.len _ pre _ hexp hnehex hbody hp
          intro hn; rw [hnone hn]; simp
        have hunb := bitmap_unpack_pack b bm pbm w hbenc' hbpref' h8 hbl (by rw [hdl, hbl]) (by rw [hbl]; exact hblk') hpbm
        rw [List.append_assoc, unpack_bitmapped_eq s subs b hm pre (pbm ++ w) tail hann, hauto', hunb]
        -- the scan
        have hbitsF : ∀ j, 1 ≤ j → (bm.isSet j = true ↔ ∃ p ∈ es, p.1 = j) := by
          intro j _
          rw [h4 j, reset_isSet]
          simp
        have hrange : ∀ p ∈ es, 1 ≤ p.1 ∧ p.1 ≤ bm.data.length * 8 := by
          intro p hp'
          exact isSet_bounds bm p.1 ((h4 p.1).mpr (Or.inr ⟨p, hp', rfl⟩))
        have hmemS : ∀ p ∈ es, (p.2.tag, p.2.f) ∈ subs ∧ lookup p.2.tag vals = some p.2.v := by
          intro p hp'
          have : (p.2.tag, p.2.f, p.2.v) ∈ setSubs subs vals := by
            rw [← h1]; exact List.mem_map.mpr ⟨p, hp', rfl⟩
          exact setSubs_mem subs vals _ _ _ this
        have htagOf : ∀ p ∈ es, natToDec p.1 = p.2.tag := by
          intro p hp'
          have hcd := List.all_eq_true.mp hids (p.2.tag, p.2.f) (hmemS p hp').1
          simp only [Bool.and_eq_true] at hcd
          obtain ⟨n, hn1, hn2⟩ := natToDec_atoi p.2.tag hcd.1
          rw [(h2 p hp').1] at hn1
          have : p.1 = n := by
            have h' : ((p.1 : Nat) : Int) = (n : Int) := by simpa using hn1
            omega
          rw [this]; exact hn2
        have hdisp : ∀ p ∈ es, ∀ tl, (fun tag d => unpackTaggedOpt subs tag d) (natToDec p.1) (p.2.pk ++ tl) =
            some (.ok (p.2.f.canon p.2.v, p.2.pk.length)) := by
          intro p hp' tl
          obtain ⟨hm1, hm2⟩ := hmemS p hp'
          simp only
          rw [htagOf p hp', unpackTaggedOpt_eq subs p.2.tag p.2.f _ (lookup_of_mem _ _ _ hnodup hm1)]
          rw [hsd _ _ _ hm1 hm2 p.2.pk (h2 p hp').2.2 tl]
        have hscan := scan_elems bm (fun tag d => unpackTaggedOpt subs tag d) (pbm ++ w) (bm.data.length * 8)
          es 1 pbm.length [] h5 hrange hbitsF (by rw [List.drop_left' rfl, h3])
          (by rw [← h3]; simp) hdisp (by omega)
        have elen : bm.len = bm.data.length * 8 + 1 - 1 := by simp [Bitmap.len]
        simp only []
        rw [elen, hscan]
        -- the value
        have hvals : es.map (fun p => (natToDec p.1, p.2.f.canon p.2.v)) = Field.canonSubs subs vals := by
          rw [canonSubs_eq_map, ← h1, List.map_map]
          apply List.map_congr_left
          intro p hp'
          simp [htagOf p hp']
        have hcan : orderBySpec subs (Field.canonSubs subs vals) = Field.canonSubs subs vals := by
          apply orderBySpec_eq_canonSubs
          intro p hp'
          exact lookup_canonSubs subs vals hnodup p.1 p.2 hp'
        simp [finish, hvals, hcan, Field.canon]

/-! ## Sorting -/

/-- insertion sort (the model of `sort.Slice`) returns a sorted permutation -/
theorem sortBy_sorted_perm {α : Type} (less : α → α → Bool) (P : α → Prop) (h : StrictTotalOn less P)
    (l : List α) (hl : ∀ a ∈ l, P a) : Sorted less (sortBy less l) ∧ (sortBy less l).Perm l :=
  Tlv.sortBy_sorted_perm less P h l hl

/-- two sorted permutations of a list on which `less` is a strict total order are equal -/
theorem sorted_perm_unique {α : Type} (less : α → α → Bool) (P : α → Prop) (h : StrictTotalOn less P)
    (l1 l2 : List α) (hP : ∀ a ∈ l1, P a) (hp : l1.Perm l2) (h1 : Sorted less l1) (h2 : Sorted less l2) :
    l1 = l2 :=
  Tlv.sorted_perm_unique less P h l1 l2 hP hp h1 h2

/-- hence whatever sorted permutation `sort.Slice` returns, it is the model's `sortBy` -/
theorem sort_slice_is_sortBy {α : Type} (less : α → α → Bool) (P : α → Prop) (h : StrictTotalOn less P)
    (l out : List α) (hl : ∀ a ∈ l, P a) (hp : out.Perm l) (hs : Sorted less out) :
    out = sortBy less l := by
  obtain ⟨h1, h2⟩ := Tlv.sortBy_sorted_perm less P h l hl
  exact Tlv.sorted_perm_unique less P h out (sortBy less l)
    (fun a ha => hl a (hp.mem_iff.mp ha)) (hp.trans h2.symm) hs h1

/-- Go string comparison (`sort.Strings`) is a strict total order on all tags -/
theorem strings_less_strict_total : StrictTotalOn (SortKind.less .strings) (fun _ => True) :=
  Tlv.strings_strictTotal

/-- `StringsByInt` is a strict total order (numeric order) on canonical decimal tags -/
theorem byInt_less_strict_total_canonical :
    StrictTotalOn (SortKind.less .byInt) (fun t => canonicalDecimal t = true) :=
  Tlv.byInt_strictTotal

/-- `StringsByInt` on alphanumeric tags whose digit-only members share one width coincides
with the string order, hence is a strict total order (the second K6 alternative) -/
theorem byInt_less_strict_total_width (L : Nat) :
    StrictTotalOn (SortKind.less .byInt)
      (fun t => tagAlnum t = true ∧ t ≠ [] ∧ (t.all isDigitB = true → t.length = L)) :=
  Tlv.byInt_strictTotal_width L

/-- `StringsByHex` is a strict total order on every K6 tag set -/
theorem byHex_less_strict_total (tags : List Tag) (hk : sortKeysOK .byHex tags = true) :
    StrictTotalOn (SortKind.less .byHex) (fun t => t ∈ tags) :=
  Tlv.byHex_strictTotal tags hk

/-- **K6 for all three sort functions**: on a tag set satisfying `sortKeysOK` whose tags are
alphanumeric and non-empty (part of K5 `tagOK`), the composite's comparator is a strict
total order — so `orderedSpecFieldTags` is uniquely determined, whatever `sort.Slice` does -/
theorem less_strict_total_K6 (k : SortKind) (tags : List Tag) (hk : sortKeysOK k tags = true)
    (hal : ∀ t ∈ tags, tagAlnum t = true ∧ t ≠ []) :
    StrictTotalOn (SortKind.less k) (fun t => t ∈ tags) :=
  Tlv.less_strictTotal_K6 k tags hk hal

/-- the sorted tag order of a coherent composite is the model's `sortBy`, for any sorted
permutation the library's sort may return -/
theorem ordered_tags_unique (k : SortKind) (tags out : List Tag) (hk : sortKeysOK k tags = true)
    (hal : ∀ t ∈ tags, tagAlnum t = true ∧ t ≠ []) (hp : out.Perm tags) (hs : Sorted (SortKind.less k) out) :
    out = sortBy (SortKind.less k) tags :=
  sort_slice_is_sortBy (SortKind.less k) (fun t => t ∈ tags) (less_strict_total_K6 k tags hk hal)
    tags out (fun _ h => h) hp hs

/-! ## Non-vacuity: concrete coherent specs, values and bodies satisfying the hypotheses -/

def demoSub1 : Field := .prim { kind := .string, len := 3, enc := .ascii, pref := .var .ascii 1, pad := .nil }
def demoSub2 : Field := .prim { kind := .numeric, len := 4, enc := .ascii, pref := .var .ascii 1, pad := .nil }
def demoTag : TagSpec :=
  { len := 2, enc := some .ascii, pad := .nil, sort := .strings, skipUnknown := true, prefUnknown := some (.var .ascii 2) }
def demoSpec : CompSpec := { len := 99, pref := .var .ascii 2, mode := .tagged demoTag }
def demoSubs : List (Tag × Field) := [([0x30, 0x31], demoSub1), ([0x30, 0x32], demoSub2)]
/-- populated in the "wrong" order: 02 first -/
def demoVals : List (Tag × Value) := [([0x30, 0x32], .num 7), ([0x30, 0x31], .str [0x41, 0x42])]
def demoBer : TagSpec :=
  { len := 0, enc := some .berTag, pad := .nil, sort := .byHex, skipUnknown := true, prefUnknown := none }

example : (Field.comp demoSpec demoSubs).coherent false = true := by decide
example : (Field.comp demoSpec demoSubs).inDomain (.comp demoVals) = true := by decide
example : demoTag.tagOK [0x30, 0x31] = true := by decide
/-- "9F02" is a coherent BER tag -/
example : demoBer.tagOK [0x39, 0x46, 0x30, 0x32] = true := by decide
example : skipOn demoTag false = true ∧ skipOn demoBer true = true := by decide
/-- canonical emission: 01 before 02 although 02 was populated first -/
example : Field.pack (.comp demoSpec demoSubs) (.comp demoVals) =
    .ok [0x30, 0x39, 0x30, 0x31, 0x32, 0x41, 0x42, 0x30, 0x32, 0x31, 0x37] := by decide
/-- a primitive subfield is self-delimiting -/
example : SelfDelim demoSub1 (.str [0x41, 0x42]) := by
  intro packed hp tail
  have : packed = [0x32, 0x41, 0x42] := by
    have h : demoSub1.pack (.str [0x41, 0x42]) = .ok [0x32, 0x41, 0x42] := by decide
    rw [h] at hp; cases hp; rfl
  subst this
  have hdec : Enc.decode .ascii (0x41 :: 0x42 :: tail) 2 = .ok ([0x41, 0x42], 2) := by
    have := (C07.ascii_decode_encode [0x41, 0x42] tail
      (by intro c hc; simp at hc; rcases hc with rfl | rfl <;> decide)).2
    simpa using this
  simp [demoSub1, Field.unpack, PrimSpec.unpack, PrimSpec.unpackBytes, Pref.decodeLength, Pref.finishDec,
    atoi?, mapM?, decVal?, ofDigits, hdec, Pad.unpad, PrimSpec.setBytes,
    Field.canon, PrimSpec.canon, Pad.pad]
/-- elements in wire order 02, 01 and an unknown element 99 (length prefix "03") between them -/
example : Field.unpack (.comp demoSpec demoSubs)
    ([0x31, 0x36] ++ [0x30, 0x32, 0x31, 0x37] ++ [0x39, 0x39, 0x30, 0x33, 0x78, 0x79, 0x7A] ++
      [0x30, 0x31, 0x32, 0x41, 0x42] ++ [0xFF]) =
    .ok (.comp [([0x30, 0x31], .str [0x41, 0x42]), ([0x30, 0x32], .num 7)], 18) := by rfl
/-- the same unknown element announcing 4 bytes where 3 remain: error naming tag 99 -/
example : Field.unpack (.comp demoSpec demoSubs)
    ([0x31, 0x31] ++ [0x30, 0x32, 0x31, 0x37] ++ [0x39, 0x39, 0x30, 0x34, 0x78, 0x79, 0x7A]) =
    .err [[0x39, 0x39]] := by rfl
/-- a positional composite (no tags on the wire), variable prefix: a leading run is in-domain -/
def demoPosSpec : CompSpec :=
  { len := 99, pref := .var .ascii 2,
    mode := .tagged { len := 0, enc := none, pad := .nil, sort := .strings, skipUnknown := false, prefUnknown := none } }
def demoPosSubs : List (Tag × Field) := [([0x31], demoSub1), ([0x32], demoSub2)]
example : (Field.comp demoPosSpec demoPosSubs).coherent false = true := by decide
example : (Field.comp demoPosSpec demoPosSubs).inDomain (.comp [([0x31], .str [0x41, 0x42])]) = true := by decide
example : Field.pack (.comp demoPosSpec demoPosSubs) (.comp [([0x31], .str [0x41, 0x42])]) =
    .ok [0x30, 0x33, 0x32, 0x41, 0x42] := by decide
example : Field.unpack (.comp demoPosSpec demoPosSubs) [0x30, 0x33, 0x32, 0x41, 0x42, 0xFF] =
    .ok (.comp [([0x31], .str [0x41, 0x42])], 5) := by rfl
/-- a bitmapped composite: one-byte binary bitmap, subfields 1 and 3 in ascending order -/
def demoBmSpec : CompSpec :=
  { len := 99, pref := .var .ascii 2,
    mode := .bitmapped { specLen := 1, enc := .binary, pref := .fixed .binary, auto := false } }
def demoBmSubs : List (Tag × Field) := [([0x31], demoSub1), ([0x33], demoSub2)]
example : (Field.comp demoBmSpec demoBmSubs).coherent false = true := by decide
example : IdsAscending demoBmSubs := by
  have h1 : atoi? [0x31] = some 1 := by decide
  have h3 : atoi? [0x33] = some 3 := by decide
  simp only [IdsAscending, demoBmSubs, List.pairwise_cons, List.mem_cons, List.mem_nil_iff, or_false,
    List.Pairwise.nil, and_true, forall_eq, h1, h3, Option.some.injEq, false_imp_iff, implies_true]
  intro ia ib ha hb
  omega
/-- bit 3 only: 0x20, then subfield 3 -/
example : Field.pack (.comp demoBmSpec demoBmSubs) (.comp [([0x33], .num 7)]) =
    .ok [0x30, 0x33, 0x20, 0x31, 0x37] := by decide
example : Field.unpack (.comp demoBmSpec demoBmSubs) [0x30, 0x33, 0x20, 0x31, 0x37, 0xFF] =
    .ok (.comp [([0x33], .num 7)], 5) := by rfl
/-- insertion sort on tags -/
example : sortBy (SortKind.less .strings) [[0x32], [0x31, 0x30], [0x31]] = [[0x31], [0x31, 0x30], [0x32]] := by decide

end Iso8583.C09
