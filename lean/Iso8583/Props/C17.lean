/-
C17 — Spec JSON export / import preserves behaviour.
Property theorems about the model `Iso8583.Builder` (Model/Builder.lean) of
/repo/specs/builder.go; the name tables and the structural facts about the Go code are the
ones regenerated from the source (`Gen/BuilderTables.lean`).
-/
import Iso8583.Lemmas.Builder

namespace Iso8583.C17
open Iso8583 Iso8583.Builder

/-! ## The regenerated tables -/

/-- every key of every import table maps to a value the model recognises -/
theorem tables_classified :
    Gen.fieldConstructor.all (fun r => (importType r.1).isSome) = true ∧
    Gen.prefixesExtToInt.all (fun r => (importPrefix r.1).isSome) = true ∧
    Gen.encodingsExtToInt.all (fun r => (importEnc r.1).isSome) = true ∧
    Gen.paddersExtToInt.all (fun r => (importPadder r.1 "0").isSome) = true ∧
    Gen.sortExtToInt.all (fun r => (importSort r.1).isSome) = true := by
  decide +kernel

/-- every name of the import tables whose value the export side can name maps back to the same
name, and every name the export side can produce is a key of the import table that maps back to
the value it was produced from -/
theorem tables_roundtrip :
    -- field types: `reflect` type name of what `FieldConstructor[name]` builds
    Gen.fieldConstructor.all (fun r => (importType r.1).map exportType == some r.1) = true ∧
    -- prefixes: `Inspect()` of `PrefixesExtToInt[name]`
    Gen.prefixesExtToInt.all (fun r => (importPrefix r.1).map inspect == some r.1) = true ∧
    -- encodings: `EncodingsIntToExt[type of EncodingsExtToInt[name]]`, when present
    Gen.encodingsExtToInt.all (fun r =>
      match importEnc r.1 with
      | some e => (match exportEnc e with | .ok n => n == r.1 | _ => true)
      | none => false) = true ∧
    Gen.encodingsIntToExt.all (fun r =>
      match encOfType r.1 with
      | some e => importEnc r.2 == some e
      | none => false) = true ∧
    -- padders
    Gen.paddersExtToInt.all (fun r =>
      match importPadder r.1 "0" with
      | some p => (match exportPad p with | .ok d => d.type == .val r.1 | _ => false)
      | none => false) = true ∧
    Gen.paddersIntToExt.all (fun r => Gen.paddersExtToInt.any (fun q => q.1 == r.2)) = true ∧
    -- sort functions: `getFunctionName(SortExtToInt[name])`
    Gen.sortExtToInt.all (fun r => (importSort r.1).map exportSort == some r.1) = true := by
  decide +kernel

/-- the expressions through which `exportField` / `exportTag` / `exportEnc` / `exportPad` name a
value are the ones the model's `exportType`, `inspect`, `exportEnc`, `exportPad`, `exportSort`
mirror -/
theorem export_mechanism :
    Gen.exportVia =
      [("type", "reflect.TypeOf(internalField).Elem().Name()"),
       ("prefix", "spec.Pref.Inspect()"),
       ("enc.key", "reflect.TypeOf(enc).Elem().Name()"),
       ("enc.name", "EncodingsIntToExt[encType]"),
       ("pad.key", "reflect.TypeOf(pad).Elem().Name()"),
       ("pad.name", "PaddersIntToExt[paddingType]"),
       ("pad.pad", "string(pad.Inspect())"),
       ("sort", "getFunctionName(tag.Sort)"),
       ("sort.name", "path.Ext(funcPath)[1:]")] := by
  decide +kernel

/-- the import side turns every failure into an error: a nil definition is checked, every
constructor (including the composite's bitmap) runs inside `constructField`, which recovers and
rejects a non-composite field without encoder -/
theorem import_guards :
    Gen.importFieldChecksNil = true ∧ Gen.constructFieldRecovers = true ∧
    Gen.constructFieldRequiresEnc = true ∧
    Gen.constructFieldCalls = "FieldConstructor[fieldType](spec)" ∧
    Gen.compositeBitmapVia = "constructField:Bitmap" ∧
    Gen.directCtorCalls.all (fun r => r.2 == "recovered") = true := by
  decide +kernel

/-! ## The exportable vocabulary -/

/-- a prefixer the export side names by a key of `PrefixesExtToInt` that maps back to it -/
def prefExportable (p : Pref) : Bool := importPrefix (inspect p) == some p

def encExportable (e : Enc) : Bool :=
  match exportEnc e with
  | .ok n => importEnc n == some e
  | _ => false

def padOptExportable (p : Option PadSpec) : Bool :=
  match exportPadOpt p with
  | .ok sl => importPad sl == p && !padDocBad sl
  | _ => false

def tagOptExportable (t : Option TagSpec) : Bool :=
  match exportTagOpt t with
  | .ok sl => importTag sl == t && !tagDocBad sl
  | _ => false

mutual
/-- well-formed exportable field: lengths are Go ints, names are exportable, a primitive has no
tag / bitmap and a container no encoder (the export side drops them), and the field constructs
(composites satisfy `Spec.Validate`, bitmaps have an allocatable length, only composites lack an
encoder) -/
def wfField : FType → Spec → Bool
  | ty, .mk len desc p enc pad tag subs bm dae =>
    inInt64 len && prefExportable p && padOptExportable pad
    && (if subs.isEmpty then
          tag.isNone && bm.isNone && (match enc with | some e => encExportable e | Option.none => false)
        else
          enc.isNone && tagOptExportable tag && wfSubs subs && wfBitmap bm)
    && (constructs ty (.mk len desc p enc pad tag subs bm dae) && encPresent ty (.mk len desc p enc pad tag subs bm dae))
def wfSubs : List (String × FType × Spec) → Bool
  | [] => true
  | (_, ty, s) :: rest => wfField ty s && wfSubs rest
def wfBitmap : Option Spec → Bool
  | Option.none => true
  | some b => wfField .bitmap b
end

def keysNodup : List (Int × FType × Spec) → Bool
  | [] => true
  | (i, _) :: rest => !(rest.any (fun e => e.1 == i)) && keysNodup rest

/-- well-formed exportable message spec: at least one field, distinct Go-int indices -/
def wfMsg (m : MsgSpec) : Bool :=
  !m.fields.isEmpty && keysNodup m.fields
  && m.fields.all (fun e => inInt64 e.1 && wfField e.2.1 e.2.2)

/-! ### helper lemmas -/

def isObj : FieldDoc → Bool
  | .obj .. => true
  | _ => false

theorem importBitmap_obj (d : FieldDoc) (h : isObj d = true) :
    importBitmap (some d) =
      match importField d with
      | .err => .err
      | .panic => .panic
      | .ok s =>
        match constructBitmap s with
        | .err => .err
        | .panic => .panic
        | .ok b => .ok (some b) := by
  cases d with
  | null => simp [isObj] at h
  | bad => rfl
  | obj => rfl

theorem importType_exportType (ty : FType) : importType (exportType ty) = some ty := by
  cases ty <;> decide +kernel

theorem exportType_ne (ty : FType) : omitStr (exportType ty) = .val (exportType ty) := by
  cases ty <;> decide +kernel

theorem constructField_of (ty : FType) (s : Spec) (h : (constructs ty s && encPresent ty s) = true) :
    constructField (exportType ty) s = .ok (ty, s) := by
  simp only [Bool.and_eq_true] at h
  simp [constructField, importType_exportType, h.1, h.2]

theorem constructBitmap_of (s : Spec) (h : (constructs .bitmap s && encPresent .bitmap s) = true) :
    constructBitmap s = .ok s := by
  unfold constructBitmap
  split
  · have : constructField "Bitmap" s = .ok (.bitmap, s) := constructField_of .bitmap s h
    simp [this]
  · simp only [Bool.and_eq_true, constructs] at h; simp [h.1]

/-! ## import ∘ export = id -/

/-- what the round trip of one field gives -/
def RTField (ty : FType) (s : Spec) : Prop :=
  ∃ d, exportField ty s = .ok d ∧ importField d = .ok s ∧ docType d = exportType ty
    ∧ fieldBad d = false ∧ isObj d = true

def RTSubs (subs : List (String × FType × Spec)) : Prop :=
  ∃ ds, exportSubs subs = .ok ds ∧ importSubs ds = .ok subs ∧ subsBad ds = false
    ∧ ds.isEmpty = subs.isEmpty

def RTBitmap (bm : Option Spec) : Prop :=
  ∃ b, exportBitmap bm = .ok b ∧ importBitmap b = .ok bm ∧ bitmapBad b = false

mutual
theorem rt_field : ∀ (ty : FType) (s : Spec), wfField ty s = true → RTField ty s
  | ty, .mk len desc p enc pad tag subs bm dae, h => by
    simp only [wfField, Bool.and_eq_true] at h
    obtain ⟨⟨⟨⟨hlen, hp⟩, hpad⟩, hbody⟩, hcons⟩ := h
    have hp' : importPrefix (inspect p) = some p := by simpa [prefExportable] using hp
    -- padding
    obtain ⟨pd, hpd, hpdi, hpdb⟩ : ∃ pd, exportPadOpt pad = .ok pd ∧ importPad pd = pad ∧ padDocBad pd = false := by
      unfold padOptExportable at hpad
      split at hpad
      · rename_i sl hsl; simp only [Bool.and_eq_true, Bool.not_eq_true', beq_iff_eq] at hpad
        exact ⟨sl, hsl, hpad.1, hpad.2⟩
      · simp at hpad
    cases hsub : subs.isEmpty with
    | true =>
      have hs : subs = [] := by simpa using hsub
      subst hs
      simp only [List.isEmpty_nil, if_true, Bool.and_eq_true] at hbody
      obtain ⟨⟨htag, hbm⟩, henc⟩ := hbody
      have htag' : tag = Option.none := by simpa using htag
      have hbm' : bm = Option.none := by simpa using hbm
      subst htag' hbm'
      cases enc with
      | none => simp at henc
      | some e =>
        simp only [encExportable] at henc
        split at henc
        · rename_i en hen
          have hen' : importEnc en = some e := by simpa using henc
          refine ⟨.obj (omitStr (exportType ty)) (omitInt len) (omitStr desc) (omitStr en) (omitStr (inspect p))
                   pd .absent [] Option.none (omitBool dae), ?_, ?_, ?_, ?_, ?_⟩
          · simp only [exportField, hpd, List.isEmpty_nil, if_true, hen]
          · simp [importField, getD_omitStr, getD_omitInt, getD_omitBool, hp', hen', hpdi]
          · simp [docType, exportType_ne, Slot.getD]
          · simp [fieldBad, isBad_omitStr, isBad_omitBool, intBad_omitInt _ hlen, hpdb, tagDocBad, subsBad,
              bitmapBad]
          · rfl
        · simp at henc
    | false =>
      simp only [hsub, Bool.false_eq_true, if_false, Bool.and_eq_true] at hbody
      obtain ⟨⟨⟨henc, htag⟩, hsubs⟩, hbm⟩ := hbody
      have henc' : enc = Option.none := by simpa using henc
      subst henc'
      obtain ⟨ds, hds, hdsi, hdsb, hdse⟩ := rt_subs subs hsubs
      obtain ⟨b, hb, hbi, hbb⟩ := rt_bitmap bm hbm
      obtain ⟨tg, htg, htgi, htgb⟩ : ∃ tg, exportTagOpt tag = .ok tg ∧ importTag tg = tag ∧ tagDocBad tg = false := by
        unfold tagOptExportable at htag
        split at htag
        · rename_i sl hsl; simp only [Bool.and_eq_true, Bool.not_eq_true', beq_iff_eq] at htag
          exact ⟨sl, hsl, htag.1, htag.2⟩
        · simp at htag
      have hdse' : ds.isEmpty = false := by rw [hdse, hsub]
      refine ⟨.obj (omitStr (exportType ty)) (omitInt len) (omitStr desc) .absent (omitStr (inspect p))
               pd tg ds b (omitBool dae), ?_, ?_, ?_, ?_, ?_⟩
      · simp only [exportField, hpd, hsub, Bool.false_eq_true, if_false, hds, htg, hb]
      · simp [importField, getD_omitStr, getD_omitInt, getD_omitBool, hp', hdse', hdsi, hbi, hpdi, htgi]
      · simp [docType, exportType_ne, Slot.getD]
      · simp [fieldBad, isBad_omitStr, isBad_omitBool, intBad_omitInt _ hlen, hpdb, htgb, hdsb, hbb, isBad_absent]
      · rfl
theorem rt_subs : ∀ (subs : List (String × FType × Spec)), wfSubs subs = true → RTSubs subs
  | [], _ => ⟨[], by simp [exportSubs], by simp [importSubs], by simp [subsBad], rfl⟩
  | (k, ty, s) :: rest, h => by
    simp only [wfSubs, Bool.and_eq_true] at h
    obtain ⟨d, hd, hdi, hdt, hdb, _⟩ := rt_field ty s h.1
    obtain ⟨ds, hds, hdsi, hdsb, _⟩ := rt_subs rest h.2
    have hc : (constructs ty s && encPresent ty s) = true := by
      cases s with
      | mk len desc p enc pad tag subs bm dae =>
        have := h.1; simp only [wfField, Bool.and_eq_true] at this; simpa using this.2
    refine ⟨(k, d) :: ds, ?_, ?_, ?_, rfl⟩
    · simp [exportSubs, hd, hds]
    · simp [importSubs, hdi, hdt, constructField_of ty s hc, hdsi]
    · simp [subsBad, hdb, hdsb]
theorem rt_bitmap : ∀ (bm : Option Spec), wfBitmap bm = true → RTBitmap bm
  | Option.none, _ => ⟨Option.none, by simp [exportBitmap], by simp [importBitmap], by simp [bitmapBad]⟩
  | some b, h => by
    simp only [wfBitmap] at h
    obtain ⟨d, hd, hdi, _, hdb, hobj⟩ := rt_field .bitmap b h
    have hc : (constructs .bitmap b && encPresent .bitmap b) = true := by
      cases b with
      | mk len desc p enc pad tag subs bm dae =>
        have := h; simp only [wfField, Bool.and_eq_true] at this; simpa using this.2
    refine ⟨some d, ?_, ?_, ?_⟩
    · simp [exportBitmap, hd]
    · rw [importBitmap_obj d hobj]; simp [hdi, constructBitmap_of b hc]
    · simp [bitmapBad, hdb]
end

/-- message level: the loop of `ExportJSON` followed by the loop of `ImportJSON` rebuilds the map -/
theorem rt_top : ∀ (fs acc : List (Int × FType × Spec)),
    keysNodup fs = true → (∀ e ∈ fs, acc.any (fun a => a.1 == e.1) = false) →
    fs.all (fun e => inInt64 e.1 && wfField e.2.1 e.2.2) = true →
    ∃ ds, exportTop fs = .ok ds ∧ importTop ds acc = .ok (acc ++ fs) ∧ subsBad ds = false
      ∧ ds.isEmpty = fs.isEmpty
  | [], acc, _, _, _ => ⟨[], by simp [exportTop], by simp [importTop], by simp [subsBad], rfl⟩
  | (i, ty, s) :: rest, acc, hnd, hacc, hall => by
    simp only [keysNodup, Bool.and_eq_true, Bool.not_eq_true'] at hnd
    simp only [List.all_cons, Bool.and_eq_true] at hall
    obtain ⟨⟨hi, hwf⟩, hrest⟩ := hall
    obtain ⟨d, hd, hdi, hdt, hdb, _⟩ := rt_field ty s hwf
    have hc : (constructs ty s && encPresent ty s) = true := by
      cases s with
      | mk len desc p enc pad tag subs bm dae =>
        have := hwf; simp only [wfField, Bool.and_eq_true] at this; simpa using this.2
    have hup : upsert acc i (ty, s) = acc ++ [(i, ty, s)] := by
      have := hacc (i, ty, s) (by simp)
      simp [upsert, this]
    have hacc' : ∀ e ∈ rest, (acc ++ [(i, ty, s)]).any (fun a => a.1 == e.1) = false := by
      intro e he
      have h1 := hacc e (by simp [he])
      have h2 : (e.1 == i) = false := by
        have := hnd.1
        rw [List.any_eq_false] at this
        simpa using this e he
      have h3 : (i == e.1) = false := by
        simp only [beq_eq_false_iff_ne, ne_eq] at h2 ⊢; exact fun h => h2 h.symm
      simp [List.any_append, h1, h3]
    obtain ⟨ds, hds, hdsi, hdsb, _⟩ := rt_top rest (acc ++ [(i, ty, s)]) hnd.2 hacc' hrest
    refine ⟨(itoa i, d) :: ds, ?_, ?_, ?_, rfl⟩
    · simp [exportTop, hd, hds]
    · simp [importTop, atoi_itoa i hi, hdi, hdt, constructField_of ty s hc, hup, hdsi]
    · simp [subsBad, hdb, hdsb]

/-- **import ∘ export = id.** For every well-formed message spec over the exportable vocabulary
(any nesting depth) `ExportJSON` succeeds and `ImportJSON` of the exported document returns
exactly the original spec tree — hence a spec with identical `Pack` / `Unpack` behaviour. -/
theorem import_export_id (m : MsgSpec) (h : wfMsg m = true) :
    ∃ d, exportJSON m = .ok d ∧ importJSON d = .ok m := by
  obtain ⟨name, fields⟩ := m
  simp only [wfMsg, Bool.and_eq_true, Bool.not_eq_true'] at h
  obtain ⟨⟨hne, hnd⟩, hall⟩ := h
  obtain ⟨ds, hds, hdsi, hdsb, hdse⟩ := rt_top fields [] hnd (by simp) hall
  have hdse' : ds.isEmpty = false := by rw [hdse]; exact hne
  refine ⟨{ name := omitStr name, fields := .val ds }, ?_, ?_⟩
  · simp [exportJSON, hds, hdse']
  · cases ds with
    | nil => simp at hdse'
    | cons f fs =>
      simp only [List.nil_append] at hdsi
      simp [importJSON, docBad, isBad_omitStr, hdsb, hdsi, getD_omitStr]

/-- exporting the re-imported spec yields the same document -/
theorem export_import_export (m : MsgSpec) (h : wfMsg m = true) :
    ∃ d m', exportJSON m = .ok d ∧ importJSON d = .ok m' ∧ exportJSON m' = .ok d := by
  obtain ⟨d, hd, hi⟩ := import_export_id m h
  exact ⟨d, m, hd, hi, hd⟩

/-- the per-field statement (a field of any type at any depth) -/
theorem import_export_field (ty : FType) (s : Spec) (h : wfField ty s = true) :
    ∃ d, exportField ty s = .ok d ∧ importField d = .ok s ∧ constructField (docType d) s = .ok (ty, s) := by
  obtain ⟨d, hd, hdi, hdt, _, _⟩ := rt_field ty s h
  have hc : (constructs ty s && encPresent ty s) = true := by
    cases s with
    | mk len desc p enc pad tag subs bm dae =>
      have := h; simp only [wfField, Bool.and_eq_true] at this; simpa using this.2
  exact ⟨d, hd, hdi, by rw [hdt]; exact constructField_of ty s hc⟩

/-! ## ImportJSON never panics -/

theorem ctorFailure_ne_panic {α : Type} : (ctorFailure : Res α) ≠ .panic := by
  simp [ctorFailure, import_guards.2.1]

theorem constructField_ne_panic (t : String) (s : Spec) : constructField t s ≠ .panic := by
  unfold constructField
  split
  · simp
  · split
    · split <;> simp
    · exact ctorFailure_ne_panic

theorem constructBitmap_ne_panic (s : Spec) : constructBitmap s ≠ .panic := by
  have h : (Gen.compositeBitmapVia == "constructField:Bitmap") = true := by decide +kernel
  unfold constructBitmap
  simp only [h, if_true]
  have := constructField_ne_panic "Bitmap" s
  split
  · split <;> simp
  · simp
  · rename_i hp; exact absurd hp this

mutual
theorem np_field : ∀ d : FieldDoc, importField d ≠ .panic
  | .null => by simp [importField, nilDefinition, import_guards.1]
  | .bad => by simp [importField]
  | .obj ty len desc enc pref pad tag subs bm dae => by
    have h1 := np_subs subs
    have h2 := np_bitmap bm
    simp only [importField]
    split
    · simp
    · split
      · split <;> simp
      · split
        · simp
        · rename_i hp; exact absurd hp h1
        · split
          · simp
          · rename_i hp; exact absurd hp h2
          · simp
theorem np_subs : ∀ ds : List (String × FieldDoc), importSubs ds ≠ .panic
  | [] => by simp [importSubs]
  | (k, d) :: rest => by
    have h1 := np_field d
    have h3 := np_subs rest
    simp only [importSubs]
    split
    · simp
    · rename_i hp; exact absurd hp h1
    · rename_i s _
      have h2 := constructField_ne_panic (docType d) s
      split
      · simp
      · rename_i hp; exact absurd hp h2
      · split
        · simp
        · rename_i hp; exact absurd hp h3
        · simp
theorem np_bitmap : ∀ b : Option FieldDoc, importBitmap b ≠ .panic
  | Option.none => by simp [importBitmap]
  | some .null => by simp [importBitmap]
  | some .bad => by simp [importBitmap, importField]
  | some (.obj ty len desc enc pref pad tag subs bm dae) => by
    have h1 := np_field (.obj ty len desc enc pref pad tag subs bm dae)
    simp only [importBitmap]
    split
    · simp
    · rename_i hp; exact absurd hp h1
    · rename_i s _
      have h2 := constructBitmap_ne_panic s
      split
      · simp
      · rename_i hp; exact absurd hp h2
      · simp
end

theorem np_top : ∀ (ds : List (String × FieldDoc)) (acc : List (Int × FType × Spec)), importTop ds acc ≠ .panic
  | [], acc => by simp [importTop]
  | (k, d) :: rest, acc => by
    have h1 := np_field d
    simp only [importTop]
    split
    · simp
    · split
      · simp
      · rename_i hp; exact absurd hp h1
      · rename_i s _
        have h2 := constructField_ne_panic (docType d) s
        split
        · simp
        · rename_i hp; exact absurd hp h2
        · exact np_top rest _

/-- **ImportJSON is total**: for every document whatsoever (any mutation: dropped keys, `null`s,
wrong types, unknown names, negative / huge lengths, composites without subfields, tag and
bitmap both or neither …) the result is a spec or an error, never a panic. -/
theorem import_total (d : SpecDoc) : importJSON d ≠ .panic := by
  unfold importJSON
  split
  · simp
  · split
    · rename_i f fs _
      have := np_top (f :: fs) []
      split
      · simp
      · simp
      · rename_i hp; exact absurd hp this
    · simp

theorem import_total' (d : SpecDoc) : (∃ m, importJSON d = .ok m) ∨ importJSON d = .err := by
  have := import_total d
  cases h : importJSON d with
  | ok m => exact .inl ⟨m, rfl⟩
  | err => exact .inr rfl
  | panic => exact absurd h this

/-! ## A returned spec can be turned into a message -/

theorem setSpecOK_of (ty : FType) (s : Spec) (hc : constructs ty s = true)
    (hs : subsSetSpecOK s.subfields = true) : setSpecOK ty s = true := by
  cases s with
  | mk len desc p enc pad tag subs bm dae =>
    simp only [setSpecOK]
    split
    · rename_i ht; subst ht
      simp only [constructs] at hc
      simp only [Spec.subfields] at hs
      simp [hc, hs]
    · rfl

theorem constructField_ok (t : String) (s : Spec) (f : FieldTree) (h : constructField t s = .ok f) :
    f.2 = s ∧ constructs f.1 s = true ∧ encPresent f.1 s = true := by
  have hreq : Gen.constructFieldRequiresEnc = true := import_guards.2.2.1
  unfold constructField at h
  split at h
  · simp at h
  · split at h
    · rename_i hc
      split at h
      · simp at h
      · rename_i hne
        simp only [Res.ok.injEq] at h; subst h
        simp only [hreq, Bool.true_and, Bool.not_eq_true', Bool.not_eq_false] at hne
        exact ⟨rfl, hc, hne⟩
    · have := @ctorFailure_ne_panic FieldTree
      unfold ctorFailure at h this; split at h <;> simp at h

mutual
theorem good_field : ∀ (d : FieldDoc) (s : Spec), importField d = .ok s → subsSetSpecOK s.subfields = true
  | .null, s, h => by simp [importField, nilDefinition, import_guards.1] at h
  | .bad, s, h => by simp [importField] at h
  | .obj ty len desc enc pref pad tag subs bm dae, s, h => by
    simp only [importField] at h
    split at h
    · simp at h
    · split at h
      · split at h
        · simp at h
        · simp only [Res.ok.injEq] at h; subst h; simp [Spec.subfields, subsSetSpecOK]
      · split at h
        · simp at h
        · simp at h
        · rename_i fs hfs
          split at h
          · simp at h
          · simp at h
          · simp only [Res.ok.injEq] at h; subst h
            simp only [Spec.subfields]
            exact good_subs subs fs hfs
theorem good_subs : ∀ (ds : List (String × FieldDoc)) (fs : List (String × FType × Spec)),
    importSubs ds = .ok fs → subsSetSpecOK fs = true
  | [], fs, h => by simp only [importSubs, Res.ok.injEq] at h; subst h; rfl
  | (k, d) :: rest, fs, h => by
    simp only [importSubs] at h
    split at h
    · simp at h
    · simp at h
    · rename_i s hs
      split at h
      · simp at h
      · simp at h
      · rename_i f hf
        split at h
        · simp at h
        · simp at h
        · rename_i fs' hfs'
          simp only [Res.ok.injEq] at h; subst h
          obtain ⟨h1, h2, _⟩ := constructField_ok _ _ _ hf
          have hg := good_field d s hs
          have := setSpecOK_of f.1 s h2 hg
          obtain ⟨fty, fsp⟩ := f
          simp only at h1; subst h1
          simp only [subsSetSpecOK, this, good_subs rest fs' hfs', Bool.and_self]
end

theorem upsert_all (P : Int × FType × Spec → Bool) (m : List (Int × FType × Spec)) (i : Int) (f : FType × Spec)
    (hm : m.all P = true) (hf : P (i, f) = true) : (upsert m i f).all P = true := by
  unfold upsert
  split
  · rw [List.all_eq_true] at hm ⊢
    intro x hx
    simp only [List.mem_map] at hx
    obtain ⟨e, he, rfl⟩ := hx
    split
    · exact hf
    · exact hm e he
  · simp [List.all_append, hm, hf]

theorem good_top : ∀ (ds : List (String × FieldDoc)) (acc m : List (Int × FType × Spec)),
    acc.all (fun e => setSpecOK e.2.1 e.2.2) = true → importTop ds acc = .ok m →
    m.all (fun e => setSpecOK e.2.1 e.2.2) = true
  | [], acc, m, hacc, h => by simp only [importTop, Res.ok.injEq] at h; subst h; exact hacc
  | (k, d) :: rest, acc, m, hacc, h => by
    simp only [importTop] at h
    split at h
    · simp at h
    · rename_i i _
      split at h
      · simp at h
      · simp at h
      · rename_i s hs
        split at h
        · simp at h
        · simp at h
        · rename_i f hf
          obtain ⟨h1, h2, _⟩ := constructField_ok _ _ _ hf
          have hg := good_field d s hs
          have hok := setSpecOK_of f.1 s h2 hg
          obtain ⟨fty, fsp⟩ := f
          simp only at h1; subst h1
          exact good_top rest _ m (upsert_all _ acc i _ hacc hok) h

/-- **A returned spec constructs.** If `ImportJSON` returns a spec, every composite in it (at any
depth) passes `Spec.Validate` again, so `NewMessage`'s `SetSpec` calls do not panic; and if the
spec defines fields 0 and 1 with field 1 of type Bitmap, `MessageSpec.Validate` holds: `NewMessage`
returns. -/
theorem imported_spec_constructs (d : SpecDoc) (m : MsgSpec) (h : importJSON d = .ok m)
    (h0 : (fieldAt m.fields (Int.ofNat Gen.mtiIdx)).isSome = true)
    (h1 : ∃ s, fieldAt m.fields (Int.ofNat Gen.bitmapIdx) = some (.bitmap, s)) :
    messageValidate m = true ∧ newMessage m = .ok () := by
  have hall : m.fields.all (fun e => setSpecOK e.2.1 e.2.2) = true := by
    unfold importJSON at h
    split at h
    · simp at h
    · split at h
      · rename_i f fs _
        split at h
        · rename_i m' hm'
          simp only [Res.ok.injEq] at h; subst h
          exact good_top (f :: fs) [] m' (by simp) hm'
        · simp at h
        · simp at h
      · simp at h
  obtain ⟨s, hs⟩ := h1
  have hv : messageValidate m = true := by unfold messageValidate; rw [h0, hs]; rfl
  exact ⟨hv, by simp [newMessage, hv, hall]⟩

/-- without the hypotheses on fields 0 and 1 the only way `NewMessage` can panic on a returned
spec is `MessageSpec.Validate` itself -/
theorem imported_spec_fields_construct (d : SpecDoc) (m : MsgSpec) (h : importJSON d = .ok m) :
    newMessage m = (if messageValidate m then .ok () else .panic) := by
  have hall : m.fields.all (fun e => setSpecOK e.2.1 e.2.2) = true := by
    unfold importJSON at h
    split at h
    · simp at h
    · split at h
      · rename_i f fs _
        split at h
        · rename_i m' hm'
          simp only [Res.ok.injEq] at h; subst h
          exact good_top (f :: fs) [] m' (by simp) hm'
        · simp at h
        · simp at h
      · simp at h
  simp [newMessage, hall]

/-! ## Every returned primitive has an encoder -/

mutual
/-- no field other than a composite lacks an encoder — at any depth, composite bitmaps included
(a field without encoder dereferences nil in `Pack` / `Unpack`) -/
def encsOK : FType → Spec → Bool
  | ty, .mk len desc p enc pad tag subs bm dae =>
    encPresent ty (.mk len desc p enc pad tag subs bm dae) && subsEncsOK subs && bitmapEncsOK bm
def subsEncsOK : List (String × FType × Spec) → Bool
  | [] => true
  | (_, ty, s) :: rest => encsOK ty s && subsEncsOK rest
def bitmapEncsOK : Option Spec → Bool
  | Option.none => true
  | some b => encsOK .bitmap b
end

theorem encsOK_of (ty : FType) (s : Spec) (h1 : encPresent ty s = true)
    (h2 : subsEncsOK s.subfields = true) (h3 : bitmapEncsOK s.bitmap = true) : encsOK ty s = true := by
  cases s with
  | mk len desc p enc pad tag subs bm dae =>
    simp only [Spec.subfields, Spec.bitmap] at h2 h3
    simp [encsOK, h1, h2, h3]

theorem constructBitmap_ok (s b : Spec) (h : constructBitmap s = .ok b) :
    b = s ∧ encPresent .bitmap s = true := by
  have hvia : (Gen.compositeBitmapVia == "constructField:Bitmap") = true := by decide +kernel
  unfold constructBitmap at h
  simp only [hvia, if_true] at h
  split at h
  · rename_i t s' hc
    obtain ⟨h1, _, h3⟩ := constructField_ok _ _ _ hc
    simp only at h1 h3
    split at h
    · rename_i ht; subst ht; subst h1
      simp only [Res.ok.injEq] at h; exact ⟨h.symm, h3⟩
    · simp at h
  · simp at h
  · simp at h

mutual
theorem enc_field : ∀ (d : FieldDoc) (s : Spec), importField d = .ok s →
    subsEncsOK s.subfields = true ∧ bitmapEncsOK s.bitmap = true
  | .null, s, h => by simp [importField, nilDefinition, import_guards.1] at h
  | .bad, s, h => by simp [importField] at h
  | .obj ty len desc enc pref pad tag subs bm dae, s, h => by
    simp only [importField] at h
    split at h
    · simp at h
    · split at h
      · split at h
        · simp at h
        · simp only [Res.ok.injEq] at h; subst h
          simp [Spec.subfields, Spec.bitmap, subsEncsOK, bitmapEncsOK]
      · split at h
        · simp at h
        · simp at h
        · rename_i fs hfs
          split at h
          · simp at h
          · simp at h
          · rename_i b hb
            simp only [Res.ok.injEq] at h; subst h
            simp only [Spec.subfields, Spec.bitmap]
            exact ⟨enc_subs subs fs hfs, enc_bitmap bm b hb⟩
theorem enc_subs : ∀ (ds : List (String × FieldDoc)) (fs : List (String × FType × Spec)),
    importSubs ds = .ok fs → subsEncsOK fs = true
  | [], fs, h => by simp only [importSubs, Res.ok.injEq] at h; subst h; rfl
  | (k, d) :: rest, fs, h => by
    simp only [importSubs] at h
    split at h
    · simp at h
    · simp at h
    · rename_i s hs
      split at h
      · simp at h
      · simp at h
      · rename_i f hf
        split at h
        · simp at h
        · simp at h
        · rename_i fs' hfs'
          simp only [Res.ok.injEq] at h; subst h
          obtain ⟨h1, _, h3⟩ := constructField_ok _ _ _ hf
          obtain ⟨hg1, hg2⟩ := enc_field d s hs
          obtain ⟨fty, fsp⟩ := f
          simp only at h1 h3; subst h1
          simp only [subsEncsOK, encsOK_of fty fsp h3 hg1 hg2, enc_subs rest fs' hfs', Bool.and_self]
theorem enc_bitmap : ∀ (b : Option FieldDoc) (r : Option Spec), importBitmap b = .ok r → bitmapEncsOK r = true
  | Option.none, r, h => by simp only [importBitmap, Res.ok.injEq] at h; subst h; rfl
  | some .null, r, h => by simp only [importBitmap, Res.ok.injEq] at h; subst h; rfl
  | some .bad, r, h => by simp [importBitmap, importField] at h
  | some (.obj ty len desc enc pref pad tag subs bm dae), r, h => by
    simp only [importBitmap] at h
    split at h
    · simp at h
    · simp at h
    · rename_i s hs
      split at h
      · simp at h
      · simp at h
      · rename_i b hb
        simp only [Res.ok.injEq] at h; subst h
        obtain ⟨hbs, henc⟩ := constructBitmap_ok s b hb
        subst hbs
        obtain ⟨hg1, hg2⟩ := enc_field _ b hs
        simp only [bitmapEncsOK]
        exact encsOK_of .bitmap b henc hg1 hg2
end

theorem enc_top : ∀ (ds : List (String × FieldDoc)) (acc m : List (Int × FType × Spec)),
    acc.all (fun e => encsOK e.2.1 e.2.2) = true → importTop ds acc = .ok m →
    m.all (fun e => encsOK e.2.1 e.2.2) = true
  | [], acc, m, hacc, h => by simp only [importTop, Res.ok.injEq] at h; subst h; exact hacc
  | (k, d) :: rest, acc, m, hacc, h => by
    simp only [importTop] at h
    split at h
    · simp at h
    · rename_i i _
      split at h
      · simp at h
      · simp at h
      · rename_i s hs
        split at h
        · simp at h
        · simp at h
        · rename_i f hf
          obtain ⟨h1, _, h3⟩ := constructField_ok _ _ _ hf
          obtain ⟨hg1, hg2⟩ := enc_field d s hs
          obtain ⟨fty, fsp⟩ := f
          simp only at h1 h3; subst h1
          exact enc_top rest _ m (upsert_all _ acc i _ hacc (encsOK_of fty fsp h3 hg1 hg2)) h

/-- **No returned field can dereference a nil encoder.** In every spec `ImportJSON` returns, every
field other than a composite — message fields, subfields at any depth, composites' bitmaps — has
an encoder. -/
theorem imported_primitives_have_encoders (d : SpecDoc) (m : MsgSpec) (h : importJSON d = .ok m) :
    m.fields.all (fun e => encsOK e.2.1 e.2.2) = true := by
  unfold importJSON at h
  split at h
  · simp at h
  · split at h
    · rename_i f fs _
      split at h
      · rename_i m' hm'
        simp only [Res.ok.injEq] at h; subst h
        exact enc_top (f :: fs) [] m' (by simp) hm'
      · simp at h
      · simp at h
    · simp at h

/-! ## The vocabulary is exportable -/

/-- the 27 named prefixes -/
def vocabPrefixes : List Pref :=
  [.none, .berTLV] ++
  ([Fam.ascii, .bcd, .hex, .ebcdic, .binary].flatMap fun f =>
    [Pref.fixed f, .var f 1, .var f 2, .var f 3, .var f 4])

/-- the 7 exportable encodings -/
def vocabEncodings : List Enc := [.ascii, .bcd, .ebcdic, .binary, .bytesToHex, .hexToBytes, .lbcd]

theorem vocabulary_tables :
    vocabPrefixes.length = 27 ∧ vocabPrefixes.all prefExportable = true ∧
    (Gen.prefixesExtToInt.all fun r => match importPrefix r.1 with | some p => vocabPrefixes.contains p | none => false) = true ∧
    vocabEncodings.all encExportable = true ∧
    ([FType.string, .track2, .numeric, .binary, .bitmap, .composite].all fun t => importType (exportType t) == some t) = true ∧
    ([SortFn.byInt, .byHex].all fun s => importSort (exportSort s) == some s) = true := by
  decide +kernel

theorem exportPad_left (c : Char) : exportPad (.left c) = .ok { type := .val "Left", pad := .val (String.singleton c) } := by
  have : find2 Gen.paddersIntToExt "leftPadder" = some "Left" := by decide +kernel
  simp [exportPad, padTypeName, this, padText]

theorem exportPad_right (c : Char) : exportPad (.right c) = .ok { type := .val "Right", pad := .val (String.singleton c) } := by
  have : find2 Gen.paddersIntToExt "rightPadder" = some "Right" := by decide +kernel
  simp [exportPad, padTypeName, this, padText]

theorem importPadder_left (c : Char) : importPadder "Left" (String.singleton c) = some (.left c) := by
  have h1 : find4 Gen.paddersExtToInt "Left" = some ("rune1:padding.Left", "rune1", "Left") := by decide +kernel
  have h2 : find2 Gen.padderCtors "Left" = some "leftPadder" := by decide +kernel
  simp [importPadder, h1, h2]

theorem importPadder_right (c : Char) : importPadder "Right" (String.singleton c) = some (.right c) := by
  have h1 : find4 Gen.paddersExtToInt "Right" = some ("rune1:padding.Right", "rune1", "Right") := by decide +kernel
  have h2 : find2 Gen.padderCtors "Right" = some "rightPadder" := by decide +kernel
  simp [importPadder, h1, h2]

/-- Left / Right with any pad rune, None, and no padding at all are exportable -/
theorem vocabulary_padding (p : Option PadSpec) : padOptExportable p = true := by
  cases p with
  | none => decide +kernel
  | some q =>
    cases q with
    | none => decide +kernel
    | left c =>
      simp [padOptExportable, exportPadOpt, exportPad_left, importPad, Slot.getD, importPadder_left, padDocBad, Slot.isBad]
    | right c =>
      simp [padOptExportable, exportPadOpt, exportPad_right, importPad, Slot.getD, importPadder_right, padDocBad, Slot.isBad]

theorem padOpt_spec (p : Option PadSpec) :
    ∃ pd, exportPadOpt p = .ok pd ∧ importPad pd = p ∧ padDocBad pd = false := by
  have h := vocabulary_padding p
  unfold padOptExportable at h
  split at h
  · rename_i sl hsl; simp only [Bool.and_eq_true, Bool.not_eq_true', beq_iff_eq] at h
    exact ⟨sl, hsl, h.1, h.2⟩
  · simp at h

/-- a tag block over the vocabulary: Go-int length, no or one of the 7 encodings, any padding,
no sort function or one of the two named ones -/
def tagVocab (t : TagSpec) : Bool :=
  inInt64 t.length
  && (match t.enc with | Option.none => true | some e => vocabEncodings.contains e)
  && (match t.sort with | some .strings => false | _ => true)

theorem enc_spec (e : Enc) (h : vocabEncodings.contains e = true) :
    ∃ n, exportEnc e = .ok n ∧ importEnc n = some e := by
  have hall := vocabulary_tables.2.2.2.1
  rw [List.all_eq_true] at hall
  have := hall e (by simpa using h)
  unfold encExportable at this
  split at this
  · rename_i n hn; exact ⟨n, hn, by simpa using this⟩
  · simp at this

theorem vocabulary_tag (t : TagSpec) (h : tagVocab t = true) : tagOptExportable (some t) = true := by
  obtain ⟨len, enc, pad, sort⟩ := t
  simp only [tagVocab, Bool.and_eq_true] at h
  obtain ⟨⟨hlen, henc⟩, hsort⟩ := h
  obtain ⟨pd, hpd, hpdi, hpdb⟩ := padOpt_spec pad
  have hnone : importEnc "" = Option.none := by decide +kernel
  have hsnone : importSort "" = Option.none := by decide +kernel
  have hs1 : importSort (exportSort .byInt) = some .byInt := by decide +kernel
  have hs2 : importSort (exportSort .byHex) = some .byHex := by decide +kernel
  obtain ⟨es, hes, hesi, hesb⟩ : ∃ es, exportEncOpt enc = .ok es ∧ importEnc (es.getD "") = enc ∧ es.isBad = false := by
    cases enc with
    | none => exact ⟨.absent, rfl, hnone, rfl⟩
    | some e =>
      obtain ⟨n, hn, hni⟩ := enc_spec e henc
      exact ⟨omitStr n, by simp [exportEncOpt, hn], by rw [getD_omitStr]; exact hni, isBad_omitStr n⟩
  have hss : importSort ((exportSortOpt sort).getD "") = sort ∧ (exportSortOpt sort).isBad = false := by
    cases sort with
    | none => exact ⟨hsnone, rfl⟩
    | some s =>
      cases s with
      | strings => simp at hsort
      | byInt => exact ⟨by simp only [exportSortOpt]; rw [getD_omitStr]; exact hs1, isBad_omitStr _⟩
      | byHex => exact ⟨by simp only [exportSortOpt]; rw [getD_omitStr]; exact hs2, isBad_omitStr _⟩
  simp only [tagOptExportable, exportTagOpt, exportTag, hpd, hes]
  simp [importTag, getD_omitInt, hesi, hpdi, hss.1, tagDocBad, intBad_omitInt _ hlen, hesb, hpdb, hss.2]

mutual
/-- the exportable vocabulary, syntactically (DESIGN.md §4 C17): the six field types, the 27 named
prefixes, the 7 encodings, Left / Right / None padding, the two named sort functions; primitives
carry an encoder and no tag / bitmap, containers no encoder; every field constructs -/
def vocabField : FType → Spec → Bool
  | ty, .mk len desc p enc pad tag subs bm dae =>
    inInt64 len && vocabPrefixes.contains p
    && (if subs.isEmpty then
          tag.isNone && bm.isNone && (match enc with | some e => vocabEncodings.contains e | Option.none => false)
        else
          enc.isNone && (match tag with | Option.none => true | some t => tagVocab t)
          && vocabSubs subs && vocabBitmap bm)
    && (constructs ty (.mk len desc p enc pad tag subs bm dae) && encPresent ty (.mk len desc p enc pad tag subs bm dae))
def vocabSubs : List (String × FType × Spec) → Bool
  | [] => true
  | (_, ty, s) :: rest => vocabField ty s && vocabSubs rest
def vocabBitmap : Option Spec → Bool
  | Option.none => true
  | some b => vocabField .bitmap b
end

mutual
theorem vocab_wf_field : ∀ (ty : FType) (s : Spec), vocabField ty s = true → wfField ty s = true
  | ty, .mk len desc p enc pad tag subs bm dae, h => by
    simp only [vocabField, Bool.and_eq_true] at h
    obtain ⟨⟨⟨hlen, hp⟩, hbody⟩, hcons⟩ := h
    have hp' : prefExportable p = true := by
      have hall := vocabulary_tables.2.1
      rw [List.all_eq_true] at hall
      exact hall p (by simpa using hp)
    simp only [wfField, Bool.and_eq_true]
    refine ⟨⟨⟨⟨hlen, hp'⟩, vocabulary_padding pad⟩, ?_⟩, hcons⟩
    cases hsub : subs.isEmpty with
    | true =>
      simp only [hsub, if_true, Bool.and_eq_true] at hbody ⊢
      refine ⟨hbody.1, ?_⟩
      cases enc with
      | none => simp at hbody
      | some e =>
        have hall := vocabulary_tables.2.2.2.1
        rw [List.all_eq_true] at hall
        exact hall e (by simpa using hbody.2)
    | false =>
      simp only [hsub, Bool.false_eq_true, if_false, Bool.and_eq_true] at hbody ⊢
      obtain ⟨⟨⟨henc, htag⟩, hsubs⟩, hbm⟩ := hbody
      refine ⟨⟨⟨henc, ?_⟩, vocab_wf_subs subs hsubs⟩, vocab_wf_bitmap bm hbm⟩
      cases tag with
      | none => decide +kernel
      | some t => exact vocabulary_tag t htag
theorem vocab_wf_subs : ∀ (subs : List (String × FType × Spec)), vocabSubs subs = true → wfSubs subs = true
  | [], _ => rfl
  | (k, ty, s) :: rest, h => by
    simp only [vocabSubs, Bool.and_eq_true] at h
    simp only [wfSubs, Bool.and_eq_true]
    exact ⟨vocab_wf_field ty s h.1, vocab_wf_subs rest h.2⟩
theorem vocab_wf_bitmap : ∀ (bm : Option Spec), vocabBitmap bm = true → wfBitmap bm = true
  | Option.none, _ => rfl
  | some b, h => by
    simp only [vocabBitmap] at h
    simp only [wfBitmap]
    exact vocab_wf_field .bitmap b h
end

/-- message specs over the vocabulary -/
def vocabMsg (m : MsgSpec) : Bool :=
  !m.fields.isEmpty && keysNodup m.fields
  && m.fields.all (fun e => inInt64 e.1 && vocabField e.2.1 e.2.2)

theorem vocab_wf (m : MsgSpec) (h : vocabMsg m = true) : wfMsg m = true := by
  simp only [vocabMsg, Bool.and_eq_true] at h
  simp only [wfMsg, Bool.and_eq_true]
  refine ⟨h.1, ?_⟩
  have h2 := h.2
  rw [List.all_eq_true] at h2 ⊢
  intro e he
  have := h2 e he
  simp only [Bool.and_eq_true] at this ⊢
  exact ⟨this.1, vocab_wf_field _ _ this.2⟩

/-- the headline statement over the syntactic vocabulary -/
theorem import_export_id_vocab (m : MsgSpec) (h : vocabMsg m = true) :
    ∃ d, exportJSON m = .ok d ∧ importJSON d = .ok m ∧
      ∃ m', importJSON d = .ok m' ∧ exportJSON m' = .ok d :=
  let ⟨d, hd, hi⟩ := import_export_id m (vocab_wf m h)
  ⟨d, hd, hi, m, hi, hd⟩

/-! ## Non-vacuity -/

/-- MTI, bitmap, a padded numeric, a tagged composite holding a string and a nested bitmapped
composite -/
def demo : MsgSpec :=
  { name := "demo",
    fields :=
      [ (0, .string, .mk 4 "MTI" (.fixed .ascii) (some .ascii) none none [] none false),
        (1, .bitmap, .mk 8 "Bitmap" (.fixed .binary) (some .binary) none none [] none false),
        (2, .numeric, .mk 19 "PAN" (.var .bcd 2) (some .bcd) (some (.left '0')) none [] none false),
        (35, .track2, .mk 37 "" (.var .ascii 2) (some .ascii) (some .none) none [] none false),
        (55, .composite, .mk 255 "tagged" (.var .ascii 3) none (some .none)
            (some { length := 2, enc := some .ascii, pad := some (.left '0'), sort := some .byInt })
            [ ("1", .string, .mk 2 "" (.fixed .ebcdic) (some .ebcdic) (some (.right ' ')) none [] none false),
              ("2", .composite, .mk 0 "bitmapped" (.var .binary 1) none none none
                  [ ("1", .binary, .mk 3 "" (.fixed .hex) (some .hexToBytes) none none [] none false),
                    ("12", .string, .mk 5 "é" .berTLV (some .bytesToHex) none none [] none false) ]
                  (some (.mk 2 "" (.fixed .binary) (some .binary) none none [] none true)) false) ]
            none false) ] }

example : vocabMsg demo = true := by decide +kernel
example : wfMsg demo = true := vocab_wf demo (by decide +kernel)
example : ∃ d, exportJSON demo = .ok d ∧ importJSON d = .ok demo := import_export_id demo (vocab_wf demo (by decide +kernel))
example : (exportJSON demo).isOk = true := by decide +kernel
example : newMessage demo = .ok () := by decide +kernel

/-- mutated documents: a composite with neither tag nor bitmap, a `null` field, a negative bitmap
length, an unknown prefix, a non-numeric field index — all are errors, none panics -/
def fld (ty enc pref : String) (len : Int) : FieldDoc :=
  .obj (.val ty) (.val len) .absent (.val enc) (.val pref) .absent .absent [] none .absent

def badDocs : List SpecDoc :=
  [ { name := .absent, fields := .val [("0", fld "String" "ASCII" "ASCII.Fixed" 4),
        ("2", .obj (.val "Composite") (.val 9) .absent .absent (.val "ASCII.LL") .absent .absent
                [("1", fld "String" "ASCII" "ASCII.Fixed" 2)] none .absent)] },
    { name := .absent, fields := .val [("0", .null)] },
    { name := .absent, fields := .val [("1", fld "Bitmap" "Binary" "Binary.Fixed" (-1))] },
    { name := .absent, fields := .val [("0", fld "String" "ASCII" "ASCII.LLLLL" 4)] },
    { name := .absent, fields := .val [("x", fld "String" "ASCII" "ASCII.Fixed" 4)] },
    { name := .absent, fields := .val [("0", .bad)] },
    { name := .absent, fields := .absent } ]

example : badDocs.all (fun d => !(importJSON d).isOk && !(importJSON d).isPanic) = true := by decide +kernel

/-- a document that imports: hypotheses of `imported_spec_constructs` are satisfiable -/
def goodDoc : SpecDoc :=
  { name := .val "x", fields := .val [("0", fld "String" "ASCII" "ASCII.Fixed" 4), ("1", fld "Bitmap" "Binary" "Binary.Fixed" 8)] }

example : (importJSON goodDoc).isOk = true := by decide +kernel
example : (match importJSON goodDoc with | .ok m => newMessage m == .ok () | _ => false) = true := by decide +kernel

end Iso8583.C17
