/-
C11, the "documented Go types per field kind" tied by TRANSLATION: `Gen/TypeSwitches.lean` holds
the case lists of the type switches of `String/Numeric/Binary/Hex.Marshal` and `.Unmarshal`
(and of the `Kind()` switch inside their `reflect.Value` case), rendered from /repo/field/*.go on
every run as sorted sets. The model's per-kind `marshalX` accepts a (non-zero) value of a Go type
exactly when the source's switch lists that type: an added or dropped case changes the table and
breaks these theorems.
-/
import Iso8583.Gen.TypeSwitches
import Iso8583.Model.Marshal

namespace Iso8583.C11Types
open Iso8583

def casesOf (kind method what : String) : List String :=
  match Gen.typeSwitches.find? (fun r => r.1 == kind && r.2.1 == method && r.2.2.1 == what) with
  | some r => r.2.2.2
  | none => ["<no such switch>"]

/-- a non-zero representative of every Go type of the matrix, by the name the source uses -/
def goTypes : List (String × GoVal) := [
  ("string", .str [49, 50]), ("int", .int 12), ("int64", .int64 12), ("[]byte", .bytes false [1, 2]),
  ("*string", .ptr false (.str [49, 50])), ("*int", .ptr false (.int 12)), ("*int64", .ptr false (.int64 12)),
  ("*[]byte", .ptr false (.bytes false [1, 2])),
  ("*String", .libString false [49, 50]), ("*Numeric", .libNumeric false 12),
  ("*Binary", .libBinary false [1, 2]), ("*Hex", .libHex false [49, 50])]

def isOkR {α : Type} : Res α → Bool | .ok _ => true | _ => false

def libName (k : Kind) : String :=
  match k with | .string => "String" | .numeric => "Numeric" | .binary => "Binary" | .hex => "Hex"

/-- **the model's Marshal accepts exactly the types the source's type switch lists** (String: the
`default` case additionally accepts named string kinds; nothing of the goTypes falls there) -/
theorem marshal_accepts_listed_types :
    ∀ k ∈ [Kind.string, .numeric, .binary, .hex], ∀ p ∈ goTypes,
      isOkR (marshalPrim k p.2) = (casesOf (libName k) "Marshal" "type").contains p.1 := by
  decide +kernel

/-- the tables the model was written against (sorted sets, so a re-ordering of cases is immaterial) -/
theorem type_switches_as_modelled :
    casesOf "String" "Marshal" "type" = ["*String", "*int", "*int64", "*string", "default", "int", "int64", "string"] ∧
    casesOf "Numeric" "Marshal" "type" = ["*Numeric", "*int64", "*string", "default", "int64", "string"] ∧
    casesOf "Binary" "Marshal" "type" = ["*Binary", "*[]byte", "*string", "[]byte", "default", "string"] ∧
    casesOf "Hex" "Marshal" "type" = ["*Hex", "*[]byte", "*string", "[]byte", "default", "string"] ∧
    casesOf "String" "Unmarshal" "type" = ["*String", "*int", "*int64", "*string", "default", "reflect.Value"] ∧
    casesOf "String" "Unmarshal" "kind" = ["default", "reflect.Int", "reflect.Int64", "reflect.String"] ∧
    casesOf "Numeric" "Unmarshal" "type" = ["*Numeric", "*int64", "*string", "default", "reflect.Value"] ∧
    casesOf "Numeric" "Unmarshal" "kind" = ["default", "reflect.Int64", "reflect.String"] ∧
    casesOf "Binary" "Unmarshal" "type" = ["*Binary", "*[]byte", "*string", "default", "reflect.Value"] ∧
    casesOf "Binary" "Unmarshal" "kind" = ["default", "reflect.Slice", "reflect.String"] ∧
    casesOf "Hex" "Unmarshal" "type" = ["*Hex", "*[]byte", "*string", "default", "reflect.Value"] ∧
    casesOf "Hex" "Unmarshal" "kind" = ["default", "reflect.Slice", "reflect.String"] := by
  decide +kernel

example : goTypes.length = 12 := rfl

end Iso8583.C11Types
