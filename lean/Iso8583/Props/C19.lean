/-
C19 — Pack/Unpack failures are typed and attributed to the right field.
In the model every unpack failure carries `UnpackError.FieldIDs()` (type `UR.err path`),
so "typed" holds by construction; the theorems below say *which* element a failure is
attributed to. Proofs: Lemmas/Scan.lean (the element scan), Lemmas/MessageRT.lean (layout,
owner of an offset, truncation), Lemmas/PrimPrefix.lean (strict prefixes of a packed
primitive fail).
-/
import Iso8583.Lemmas.MessageRT
import Iso8583.Lemmas.PrimPrefix
import Iso8583.Lemmas.FieldPrefix
import Iso8583.Props.C01

namespace Iso8583.C19
open Iso8583 MsgSpec MessageRT

/-- a failure of the element scan is attributed to a data element `k` at or after the scan
position whose bit is set and which is not a continuation bit; an element without a spec
yields a path of length 1 -/
theorem scan_error_head (spec : MsgSpec) (bm : Bitmap)
    (remaining i : Nat) (src : Bytes) (off : Nat) (acc : List (Nat × Value)) (p : List Bytes)
    (h : scan spec bm remaining i src off acc = .err p) :
    ∃ k rest, p = natToDec k :: rest ∧ i ≤ k ∧ k < i + remaining ∧ bm.isSet k = true ∧
      bm.isPresenceBit k = false ∧ (lookupId k spec.fields = none → rest = []) :=
  Scan.scan_error_head spec bm remaining i src off acc p h

/-- **Attribution of Unpack failures**: the field-id path of every failure starts with the
element at which decoding stopped: "0" if the MTI could not be read, "1" if the bitmap could
not, otherwise a data element ≥ 2 — never an element that is absent from the message. -/
theorem unpack_error_attributed (spec : MsgSpec) (src : Bytes) (p : List Bytes)
    (h : spec.unpack src = .err p) :
    (p = [natToDec 0] ∧ ∃ e, spec.mti.unpack src = e ∧ e.isOk = false) ∨
    (p = [natToDec 1]) ∨
    (∃ k rest, p = natToDec k :: rest ∧ 2 ≤ k) :=
  Scan.unpack_error_attributed spec src p h

/-- a successful scan reports only elements whose bit is set, in ascending order -/
theorem scan_ok_only_set_bits (spec : MsgSpec) (bm : Bitmap)
    (remaining i : Nat) (src : Bytes) (off : Nat) (acc res : List (Nat × Value)) (off' : Nat)
    (h : scan spec bm remaining i src off acc = .ok (res, off')) :
    ∃ new, res = acc ++ new ∧ ∀ q ∈ new, i ≤ q.1 ∧ q.1 < i + remaining ∧ bm.isSet q.1 = true :=
  Scan.scan_ok_only_set_bits spec bm remaining i src off acc res off' h

/-! ## Truncation: a cut inside element k is reported against k -/

/-- a coherent primitive field at message level never has the `None` prefix (K7) -/
theorem prim_pref_ne_none (s : PrimSpec) (h : (Field.prim s).coherent false = true) : s.pref ≠ .none := by
  intro hp
  have hc : s.coherent false = true := by simpa [Field.coherent] using h
  obtain ⟨kind, len, enc, pref, pad, packer⟩ := s
  simp only at hp
  subst hp
  simp [PrimSpec.coherent] at hc

/-- **every strict prefix of a packed primitive field fails to unpack** -/
theorem prim_prefix_fails (s : PrimSpec) : FieldPrefixFails (.prim s) := by
  intro v bs o hc hv hp ho
  have hc' : s.coherent false = true := by simpa [Field.coherent] using hc
  have hp' : s.pack v = .ok bs := by simpa [Field.pack] using hp
  have := PrimSpec.prim_strict_prefix_fails s false v bs o hc' hv hp' (prim_pref_ne_none s hc) ho
  exact ⟨[], by simp [Field.unpack, this]⟩

/-- the packed bytes are the concatenation of the layout's segments -/
theorem packed_is_layout (spec : MsgSpec) (m : Msg) (bs : Bytes) (h : spec.pack m = .ok bs) :
    flat (layout spec m) = bs := pack_layout spec m bs h

/-- **Truncation attribution**: for a coherent spec and in-domain content on which Pack
succeeds, cutting the packed bytes at any offset `o` that falls within the bytes of element
`k` of the layout (0 = MTI, 1 = bitmap, then the populated data elements in ascending
order) makes Unpack fail with a field-id path that starts with `k`. Parametric in the
field-level statements (round trip; strict prefixes fail), which hold for every primitive
field (`prim_prefix_fails`, `C01.prim_field_roundtrip`) and for composites as far as
Lemmas/FieldRT.lean / FieldPrefix.lean are merged. -/
theorem truncation_attribution (spec : MsgSpec)
    (hmti : C01.FieldRoundTrip (.prim spec.mti) false)
    (hf : ∀ id f, (id, f) ∈ spec.fields → C01.FieldRoundTrip f false)
    (hpf : ∀ id f, (id, f) ∈ spec.fields → FieldPrefixFails f)
    (m : Msg) (bs : Bytes) (o : Nat)
    (hc : spec.coherent = true) (hd : spec.inDomain m = true) (hp : spec.pack m = .ok bs)
    (ho : o < bs.length) :
    ∃ k rest, ownerAt (layout spec m) o = some k ∧ spec.unpack (bs.take o) = .err (natToDec k :: rest) :=
  message_truncation_total spec hmti (prim_prefix_fails spec.mti) hf hpf m bs o hc hd hp ho


/-- **Truncation attribution for every coherent spec** (composites of any depth included):
cutting a packed message (a Go slice) at any offset inside element `k` makes Unpack fail
with a path that starts with `k`. -/
theorem truncation_attribution_all (spec : MsgSpec) (m : Msg) (bs : Bytes) (o : Nat)
    (hc : spec.coherent = true) (hd : spec.inDomain m = true) (hp : spec.pack m = .ok bs)
    (hlen : bs.length ≤ maxInt) (ho : o < bs.length) :
    ∃ k rest, ownerAt (layout spec m) o = some k ∧ spec.unpack (bs.take o) = .err (natToDec k :: rest) :=
  FieldPrefix.message_truncation C01.prim_field_roundtrip prim_prefix_fails spec m bs o hc hd hp hlen ho

/-! Non-vacuity: a concrete spec and a truncated message attributed to field 2 -/
def demoSpec : MsgSpec :=
  { mti := { kind := .string, len := 4, enc := .ascii, pref := .fixed .ascii, pad := .nil },
    bitmap := { specLen := 8, enc := .binary, pref := .fixed .binary, auto := true },
    fields := [(2, .prim { kind := .string, len := 19, enc := .ascii, pref := .var .ascii 2, pad := .nil })] }

def errPath {α : Type} : UR α → Option (List Bytes)
  | .err p => some p
  | _ => none

example : errPath (demoSpec.unpack ([0x30, 0x31, 0x30, 0x30] ++ [0x40, 0, 0, 0, 0, 0, 0, 0] ++ [0x30, 0x33, 0x41])) =
    some [natToDec 2] := by decide +kernel
example : errPath (demoSpec.unpack [0x30, 0x31]) = some [natToDec 0] := by decide +kernel

end Iso8583.C19
