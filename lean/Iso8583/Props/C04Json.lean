/-
C04 (JSON part) — decoding an untrusted JSON document never panics.

`Message.UnmarshalJSON` / `Composite.UnmarshalJSON` / the per-kind `UnmarshalJSON` methods as
modelled in Model/Json.lean (from the parsed JSON tree on: `encoding/json`'s tokeniser is
assumed total, see Props/C04.lean), for ALL message specs (coherent or not), all documents
and every string codec: the result is a message or an error, never a panic. The model is
tied to the code by channel J (`decode` lines: arbitrary documents, unknown and repeated
keys, wrong value kinds, members of bitmapped composites that the spec does not define) and
by the C04 oracle, which runs `json.Unmarshal` into messages and fields under `recover`.
-/
import Iso8583.Model.Json

namespace Iso8583.C04Json
open Iso8583

theorem primOfJson_ne_panic (c : StrCodec) (k : Kind) (j : Json) : primOfJson c k j ≠ .panic := by
  unfold primOfJson
  split <;> (try split) <;> (try split) <;> simp

mutual
theorem ofJson_ne_panic (c : StrCodec) : ∀ (j : Json) (f : Field), Field.ofJson c f j ≠ .panic
  | .obj kvs, .comp s subs => by
    have h := ofJsonMembers_ne_panic c subs s.skipsUnknown kvs []
    simp only [Field.ofJson]
    split <;> simp_all
  | .obj _, .prim s => by simp only [Field.ofJson]; exact primOfJson_ne_panic _ _ _
  | .str _, .prim s => by simp only [Field.ofJson]; exact primOfJson_ne_panic _ _ _
  | .num _, .prim s => by simp only [Field.ofJson]; exact primOfJson_ne_panic _ _ _
  | .other, .prim s => by simp only [Field.ofJson]; exact primOfJson_ne_panic _ _ _
  | .str _, .comp _ _ => by simp [Field.ofJson]
  | .num _, .comp _ _ => by simp [Field.ofJson]
  | .other, .comp _ _ => by simp [Field.ofJson]

theorem ofJsonMembers_ne_panic (c : StrCodec) (subs : List (Tag × Field)) (skip : Bool) :
    ∀ (kvs : List (Bytes × Json)) (acc : List (Tag × Value)), Field.ofJsonMembers c subs skip kvs acc ≠ .panic
  | [], acc => by simp [Field.ofJsonMembers]
  | (klit, j) :: rest, acc => by
    simp only [Field.ofJsonMembers]
    split
    · simp
    · split
      · exact ofJsonMembers_ne_panic c subs skip rest acc
      · split
        · split
          · exact ofJsonMembers_ne_panic c subs skip rest acc
          · simp
        · rename_i f _
          have hf := ofJson_ne_panic c j f
          split
          · exact ofJsonMembers_ne_panic c subs skip rest _
          · simp
          · rename_i hp; exact absurd hp hf
end

/-- the loop of `Message.UnmarshalJSON` never panics -/
theorem msg_ofJsonMembers_ne_panic (c : StrCodec) (spec : MsgSpec) :
    ∀ (kvs : List (Bytes × Json)) (acc : JMsg), MsgSpec.ofJsonMembers c spec kvs acc ≠ .panic
  | [], acc => by simp [MsgSpec.ofJsonMembers]
  | (klit, j) :: rest, acc => by
    simp only [MsgSpec.ofJsonMembers]
    split
    · simp
    · split
      · exact msg_ofJsonMembers_ne_panic c spec rest acc
      · split
        · simp
        · split
          · have hp := primOfJson_ne_panic c spec.mti.kind j
            split
            · exact msg_ofJsonMembers_ne_panic c spec rest _
            · simp
            · rename_i h; exact absurd h hp
          · split
            · split
              · split
                · split
                  · exact msg_ofJsonMembers_ne_panic c spec rest _
                  · simp
                · simp
              · simp
            · split
              · simp
              · split
                · simp
                · rename_i f _
                  have hf := ofJson_ne_panic c j f
                  split
                  · exact msg_ofJsonMembers_ne_panic c spec rest _
                  · simp
                  · rename_i h; exact absurd h hf

/-- **JSON decoding never panics**: for every message spec, every document tree and every
string codec, `Message.UnmarshalJSON` returns a message or an error. -/
theorem json_decode_no_panic (c : StrCodec) (spec : MsgSpec) (j : Json) :
    spec.unmarshalJSON c j ≠ .panic := by
  unfold MsgSpec.unmarshalJSON
  split
  · exact msg_ofJsonMembers_ne_panic c spec _ _
  · simp

/-- the same for a field decoded on its own (`json.Unmarshal(data, field)`) -/
theorem json_field_decode_no_panic (c : StrCodec) (f : Field) (j : Json) : Field.ofJson c f j ≠ .panic :=
  ofJson_ne_panic c j f

/-! non-vacuity: documents that decode, and one that is refused -/
def demoSpec : MsgSpec :=
  { mti := { kind := .string, len := 4, enc := .ascii, pref := .fixed .ascii, pad := .nil },
    bitmap := { specLen := 8, enc := .binary, pref := .fixed .binary, auto := true },
    fields := [(2, .prim { kind := .string, len := 19, enc := .ascii, pref := .var .ascii 2, pad := .nil })] }

example : (demoSpec.unmarshalJSON plainCodec (.obj [([34, 50, 34], .str [34, 52, 49, 34])])).isOk = true := by decide
example : (demoSpec.unmarshalJSON plainCodec (.obj [([34, 57, 34], .str [34, 52, 49, 34])])).isOk = false := by decide

end Iso8583.C04Json
