/-
C06 — Length prefixes: encode/decode are inverse, exact-width and bounded.
Property theorems; the statement ranges over the prefixer table regenerated from
/repo/prefix/*.go (`Gen.prefixers`), tied to the model's `Pref` by `table_matches_model`.
-/
import Iso8583.Lemmas.Prefix
import Iso8583.Props.C07
import Iso8583.Gen.Prefixers

namespace Iso8583.C06
open Iso8583 Pref

/-! ## The exported prefixers (regenerated table) and their model -/

/-- model prefixer for one row of the regenerated table; `none` = unrecognised row -/
def ofRow (row : String × String × String × Int) : Option Pref :=
  let (var_, slot, typ, digits) := row
  let fam? : Option Fam :=
    match var_ with
    | "ASCII" => some .ascii | "BCD" => some .bcd | "Binary" => some .binary | "Hex" => some .hex
    | "EBCDIC" => some .ebcdic | "EBCDIC1047" => some .ebcdic1047 | _ => Option.none
  let typeOK (fixed : Bool) : Bool :=
    match var_, fixed with
    | "ASCII", true => typ == "asciiFixedPrefixer" | "ASCII", false => typ == "asciiVarPrefixer"
    | "BCD", true => typ == "bcdFixedPrefixer" | "BCD", false => typ == "bcdVarPrefixer"
    | "Binary", true => typ == "binaryFixedPrefixer" | "Binary", false => typ == "binaryVarPrefixer"
    | "Hex", true => typ == "hexFixedPrefixer" | "Hex", false => typ == "hexVarPrefixer"
    | "EBCDIC", true => typ == "ebcdicFixedPrefixer" | "EBCDIC", false => typ == "ebcdicVarPrefixer"
    | "EBCDIC1047", true => typ == "ebcdic1047FixedPrefixer" | "EBCDIC1047", false => typ == "ebcdic1047Prefixer"
    | _, _ => false
  if var_ = "BerTLV" then (if typ = "berTLVPrefixer" ∧ slot = "" then some .berTLV else Option.none)
  else if var_ = "None" then (if typ = "nonePrefixer" ∧ slot = "Fixed" then some .none else Option.none)
  else match fam? with
    | Option.none => Option.none
    | some f =>
      if slot = "Fixed" then (if typeOK true ∧ digits = 0 then some (.fixed f) else Option.none)
      else
        -- the slot name L…LLLLLL must announce exactly the digit count of the implementation
        if typeOK false ∧ 1 ≤ digits ∧ digits ≤ 6 ∧ slot = String.ofList (List.replicate digits.toNat 'L')
        then some (.var f digits.toNat) else Option.none

def exported : List (Option Pref) := Gen.prefixers.map ofRow

/-- every row of the regenerated table is recognised, and the table is exactly the 43
exported prefixers + `None.Fixed`: 6 families × (Fixed, L … LLLLLL) + BerTLV -/
theorem table_matches_model :
    exported =
      ([Fam.ascii, .bcd].flatMap fun f => some (Pref.fixed f) :: (List.range 6).map fun i => some (Pref.var f (i + 1)))
      ++ [some .berTLV]
      ++ ([Fam.binary, .ebcdic, .ebcdic1047, .hex].flatMap fun f => some (Pref.fixed f) :: (List.range 6).map fun i => some (Pref.var f (i + 1)))
      ++ [some .none] := by
  decide +kernel

/-- a prefixer of the exported set -/
def Exported (p : Pref) : Prop := some p ∈ exported

def digitsOK : Option Pref → Bool
  | some (.var _ d) => decide (1 ≤ d) && decide (d ≤ 6)
  | _ => true

theorem exported_all_digitsOK : exported.all digitsOK = true := by decide +kernel

theorem exported_var_digits (f : Fam) (d : Nat) (h : Exported (.var f d)) : 1 ≤ d ∧ d ≤ 6 := by
  have := List.all_eq_true.mp exported_all_digitsOK _ h
  simpa [digitsOK] using this

/-! ## Width and alphabet -/

/-- prefix width in bytes (BER is variable: see `ber_width`) -/
def width : Pref → Nat
  | .fixed _ => 0
  | .none => 0
  | .berTLV => 0
  | .var .ascii d => d
  | .var .ebcdic d => d
  | .var .ebcdic1047 d => d
  | .var .binary d => d
  | .var .bcd d => (d + 1) / 2
  | .var .hex d => 2 * d

/-- capacity of the digit count -/
def capacity : Fam → Nat → Nat
  | .binary, d => 256 ^ d - 1
  | .hex, d => 256 ^ d - 1
  | _, d => 10 ^ d - 1

theorem pow_pos' (b d : Nat) (hb : 0 < b) : 0 < b ^ d := Nat.pow_pos hb

theorem maxInt_lt_256_8 : maxInt < 256 ^ 8 := by decide

/-! ## Per-family round trips -/

theorem ascii_dec_enc (d maxLen n : Nat) (tail : Bytes) (hd : 1 ≤ d) (h1 : n ≤ maxLen) (h2 : n < 10 ^ d) :
    encodeLength (.var .ascii d) maxLen n = .ok (decString d n) ∧
    decodeLength (.var .ascii d) maxLen (decString d n ++ tail) = .ok (n, d) := by
  have hl := decString_length d n
  have e1 : ¬ n > maxLen := by omega
  have e2 : ¬ n ≥ 10 ^ d := by omega
  refine ⟨by simp [encodeLength, e1, e2], ?_⟩
  have e3 : ¬ (decString d n ++ tail).length < d := by simp [hl]
  simp only [decodeLength, e3, ite_false, List.take_left' hl, finishDec, atoi_decString d n hd h2]
  have : ¬ ((n : Int) < 0) := by omega
  simp [this, e1]

theorem ebcdic_dec_enc (d maxLen n : Nat) (tail : Bytes) (hd : 1 ≤ d) (h1 : n ≤ maxLen) (h2 : n < 10 ^ d) :
    ∃ bs, encodeLength (.var .ebcdic d) maxLen n = .ok bs ∧ bs.length = d ∧
      decodeLength (.var .ebcdic d) maxLen (bs ++ tail) = .ok (n, d) := by
  have hl := decString_length d n
  have e1 : ¬ n > maxLen := by omega
  have e2 : ¬ n ≥ 10 ^ d := by omega
  obtain ⟨y, hy, hyl, hdec⟩ := C07.ebcdic_decode_encode (decString d n) []
  rw [hl] at hyl hdec
  refine ⟨y, by simp [encodeLength, e1, e2, hy], hyl, ?_⟩
  have e3 : ¬ (y ++ tail).length < d := by simp [hyl]
  simp only [List.append_nil] at hdec
  simp only [decodeLength, e3, ite_false, List.take_left' hyl, hdec, finishDec, atoi_decString d n hd h2]
  have : ¬ ((n : Int) < 0) := by omega
  simp [this, e1]

theorem ebcdic1047_dec_enc (d maxLen n : Nat) (tail : Bytes) (hd : 1 ≤ d) (h1 : n ≤ maxLen) (h2 : n < 10 ^ d) :
    ∃ bs, encodeLength (.var .ebcdic1047 d) maxLen n = .ok bs ∧ bs.length = d ∧
      decodeLength (.var .ebcdic1047 d) maxLen (bs ++ tail) = .ok (n, d) := by
  have hl := decString_length d n
  have e1 : ¬ n > maxLen := by omega
  have e2 : ¬ n ≥ 10 ^ d := by omega
  have hasc : ∀ c ∈ decString d n, isAscii c := by
    intro c hc; have := decString_digits d n c hc; unfold isDigit at this; unfold isAscii; omega
  obtain ⟨y, hy, hyl, hdec⟩ := C07.ebcdic1047_decode_encode (decString d n) [] hasc
  rw [hl] at hyl hdec
  refine ⟨y, by simp [encodeLength, e1, e2, hy], hyl, ?_⟩
  have e3 : ¬ (y ++ tail).length < d := by simp [hyl]
  simp only [List.append_nil] at hdec
  simp only [decodeLength, e3, ite_false, List.take_left' hyl, hdec, finishDec, atoi_decString d n hd h2]
  have : ¬ ((n : Int) < 0) := by omega
  simp [this, e1]

theorem bcd_dec_enc (d maxLen n : Nat) (tail : Bytes) (hd : 1 ≤ d) (h1 : n ≤ maxLen) (h2 : n < 10 ^ d) :
    ∃ bs, encodeLength (.var .bcd d) maxLen n = .ok bs ∧ bs.length = (d + 1) / 2 ∧
      decodeLength (.var .bcd d) maxLen (bs ++ tail) = .ok (n, (d + 1) / 2) := by
  have hl := decString_length d n
  have e1 : ¬ n > maxLen := by omega
  have e2 : ¬ n ≥ 10 ^ d := by omega
  obtain ⟨y, hy, hyl, hdec⟩ := C07.bcd_decode_encode (decString d n) [] (decString_digits d n)
  rw [hl] at hyl hdec
  refine ⟨y, by simp [encodeLength, e1, e2, hy], hyl, ?_⟩
  have e3 : ¬ (y ++ tail).length < (d + 1) / 2 := by simp [hyl]
  simp only [List.append_nil] at hdec
  simp only [decodeLength, e3, ite_false, List.take_left' hyl, hdec, finishDec, atoi_decString d n hd h2]
  have : ¬ ((n : Int) < 0) := by omega
  simp [this, e1, hyl]

theorem beBytes_spec (n : Nat) (h : n ≤ maxInt) :
    ofDigits 256 (beBytes n) = n ∧ (∀ x ∈ beBytes n, x < 256) ∧ (beBytes n).length ≤ 8 := by
  have h9 : n < 256 ^ 9 := by
    have := maxInt_lt_256_8
    have : (256:Nat) ^ 8 < 256 ^ 9 := by decide
    omega
  obtain ⟨a, b, _, _⟩ := minimalBE_spec 9 n h9
  refine ⟨a, b, ?_⟩
  -- at most 8 bytes because n < 2^63 < 256^8
  have hlt := ofDigits_lt 256 (beBytes n) (by omega) b
  unfold beBytes at hlt ⊢
  rw [a] at hlt
  by_cases hl : (minimalBE 9 n).length ≤ 8
  · exact hl
  · exfalso
    by_cases hn : n = 0
    · subst hn; simp [minimalBE] at hl
    · obtain ⟨_, _, h3, h4⟩ := minimalBE_spec 9 n h9
      have hlen : (minimalBE 9 n).length = 9 := by omega
      obtain ⟨h5, h6⟩ := h4 (Nat.pos_of_ne_zero hn)
      -- a 9-digit number with non-zero leading digit is ≥ 256^8 > maxInt
      cases hm : minimalBE 9 n with
      | nil => exact h6 hm
      | cons y ys =>
        rw [hm] at h5 hlen a b
        have hy : y ≠ 0 := by simpa using h5
        have hys : ys.length = 8 := by simpa using hlen
        have : ofDigits 256 (y :: ys) = ys.foldl (fun a d => a * 256 + d) y := by simp [ofDigits]
        rw [this] at a
        have hge : 256 ^ 8 ≤ ys.foldl (fun a d => a * 256 + d) y := by
          have key := foldl_digits_ge
          have := key ys y 0 (by simp; omega)
          rw [hys] at this; simpa using this
        have := maxInt_lt_256_8
        omega

theorem binary_dec_enc (d maxLen n : Nat) (tail : Bytes) (h1 : n ≤ maxLen) (hn : n ≤ maxInt)
    (h2 : (beBytes n).length ≤ d) :
    ∃ bs, encodeLength (.var .binary d) maxLen n = .ok bs ∧ bs.length = d ∧
      decodeLength (.var .binary d) maxLen (bs ++ tail) = .ok (n, d) := by
  obtain ⟨hv, hb, _⟩ := beBytes_spec n hn
  have e1 : ¬ n > maxLen := by omega
  have e2 : ¬ (beBytes n).length > d := by omega
  let bs := bytesOfNats (List.replicate (d - (beBytes n).length) 0 ++ beBytes n)
  have hbl : bs.length = d := by simp [bs, bytesOfNats_length]; omega
  refine ⟨bs, by simp [encodeLength, e1, e2, bs], hbl, ?_⟩
  have e3 : ¬ (bs ++ tail).length < d := by simp [hbl]
  have e5 : d ≤ bs.length + tail.length := by omega
  have hall : ∀ x ∈ List.replicate (d - (beBytes n).length) 0 ++ beBytes n, x < 256 := by
    intro x hx
    simp only [List.mem_append, List.mem_replicate] at hx
    rcases hx with ⟨_, rfl⟩ | hx
    · omega
    · exact hb x hx
  have hval : beValue bs = n := by
    rw [beValue_bytesOfNats _ hall, ofDigits_replicate_zero, hv]
  have e4 : ¬ n > maxInt := by omega
  simp [decodeLength, e5, List.take_left' hbl, hval, e4, e1]

theorem hex_dec_enc (d maxLen n : Nat) (tail : Bytes) (h1 : n ≤ maxLen) (h2 : n ≤ 2 ^ (d * 8) - 1) :
    ∃ bs, encodeLength (.var .hex d) maxLen n = .ok bs ∧ bs.length = 2 * d ∧
      (∀ c ∈ bs, isUpperHexChar c) ∧
      decodeLength (.var .hex d) maxLen (bs ++ tail) = .ok (n, 2 * d) := by
  have e1 : ¬ n > maxLen := by omega
  have e2 : ¬ n > 2 ^ (d * 8) - 1 := by omega
  let bs : Bytes := (fixedHex (2 * d) n).map hexDigitUpper
  have hbl : bs.length = 2 * d := by simp [bs, fixedHex_length]
  have hup : ∀ c ∈ bs, isUpperHexChar c := by
    intro c hc
    simp only [bs, List.mem_map] at hc
    obtain ⟨x, hx, rfl⟩ := hc
    exact hexDigitUpper_upper (fixedHex_lt _ _ x hx)
  refine ⟨bs, by simp [encodeLength, e1, e2, bs], hbl, hup, ?_⟩
  have e3 : ¬ (bs ++ tail).length < 2 * d := by simp [hbl]
  have e5 : 2 * d ≤ bs.length + tail.length := by omega
  have hm : mapM? hexVal? bs = some (fixedHex (2 * d) n) :=
    mapM?_map_of _ (fun y hy => hexVal_hexDigitUpper (fixedHex_lt _ _ y hy))
  have hpow : 2 ^ (d * 8) = 16 ^ (2 * d) := by
    rw [show d * 8 = 4 * (2 * d) by omega, Nat.pow_mul]
  have hv : ofDigits 16 (fixedHex (2 * d) n) = n := by
    rw [ofDigits_fixedHex]
    apply Nat.mod_eq_of_lt
    have := pow_pos' 16 (2 * d) (by omega)
    omega
  simp [decodeLength, e5, List.take_left' hbl, hm, hv, e1]

theorem ber_dec_enc (maxLen n : Nat) (tail : Bytes) (h1 : maxLen = 0 ∨ n ≤ maxLen) (hn : n ≤ maxInt) :
    ∃ bs, encodeLength .berTLV maxLen n = .ok bs ∧
      (n ≤ 127 → bs = [UInt8.ofNat n]) ∧
      (127 < n → bs.length = 1 + (beBytes n).length ∧ bs.length ≤ 9) ∧
      decodeLength .berTLV maxLen (bs ++ tail) = .ok (n, bs.length) := by
  have e1 : ¬ (maxLen ≠ 0 ∧ n > maxLen) := by omega
  by_cases hs : n ≤ 127
  · refine ⟨[UInt8.ofNat n], by simp [encodeLength, e1, hs], fun _ => rfl, fun h => by omega, ?_⟩
    have ht : (UInt8.ofNat n).toNat = n := ofNat_toNat_lt (by omega)
    have e2 : n < 128 := by omega
    simp [decodeLength, ht, e2, e1]
  · obtain ⟨hv, hb, hl8⟩ := beBytes_spec n hn
    let buf := beBytes n
    have hk : (UInt8.ofNat (128 + buf.length)).toNat = 128 + buf.length := ofNat_toNat_lt (by simp [buf]; omega)
    refine ⟨UInt8.ofNat (128 + buf.length) :: bytesOfNats buf, by simp [encodeLength, e1, hs, buf], fun h => absurd h hs,
      fun _ => by simp [bytesOfNats_length, buf]; omega, ?_⟩
    have e2 : ¬ (128 + buf.length < 128) := by omega
    have e3 : ¬ ((bytesOfNats buf ++ tail).length < buf.length) := by simp [bytesOfNats_length]
    have hval : beValue (bytesOfNats buf) = n := by rw [beValue_bytesOfNats _ hb, hv]
    have e4 : ¬ n > maxInt := by omega
    simp only [decodeLength, List.cons_append, hk, e2, ite_false, Nat.add_sub_cancel_left, e3,
      List.take_left' (bytesOfNats_length buf), hval, e4, e1, List.length_cons, bytesOfNats_length]
    simp [Nat.add_comm]

/-! ## The property, over every exported prefixer -/

/-- EncodeLength succeeds exactly on representable lengths. `Hex.Fixed` is excluded: it
is the open finding KF1 (see `hex_fixed_witness`). -/
def Representable (p : Pref) (maxLen n : Nat) : Prop :=
  match p with
  | .fixed _ => n = maxLen
  | .none => True
  | .berTLV => maxLen = 0 ∨ n ≤ maxLen
  | .var f d => n ≤ maxLen ∧ n ≤ capacity f d

theorem binary_len_le_iff (d n : Nat) (hd : d ≤ 8) (hn : n ≤ maxInt) :
    (beBytes n).length ≤ d ↔ n ≤ 256 ^ d - 1 := by
  obtain ⟨hv, hb, hl8⟩ := beBytes_spec n hn
  have hpos := pow_pos' 256 d (by omega)
  constructor
  · intro h
    have := ofDigits_lt 256 (beBytes n) (by omega) hb
    rw [hv] at this
    have : 256 ^ (beBytes n).length ≤ 256 ^ d := Nat.pow_le_pow_right (by omega) h
    omega
  · intro h
    by_cases hn0 : n = 0
    · subst hn0; simp [beBytes, minimalBE]
    · have h9 : n < 256 ^ 9 := by
        have := maxInt_lt_256_8
        have : (256:Nat) ^ 8 < 256 ^ 9 := by decide
        omega
      obtain ⟨_, _, _, h4⟩ := minimalBE_spec 9 n h9
      obtain ⟨h5, h6⟩ := h4 (Nat.pos_of_ne_zero hn0)
      -- a representation with non-zero leading digit of length L has value ≥ 256^(L-1)
      have key := foldl_digits_ge
      unfold beBytes at hv ⊢
      cases hm : minimalBE 9 n with
      | nil => exact absurd hm h6
      | cons y ys =>
        rw [hm] at h5 hv
        have hy : y ≠ 0 := by simpa using h5
        have e : ofDigits 256 (y :: ys) = ys.foldl (fun a d => a * 256 + d) y := by simp [ofDigits]
        rw [e] at hv
        have hge := key ys y 0 (by simp; omega)
        simp only [Nat.zero_add] at hge
        rw [hv] at hge
        simp only [List.length_cons]
        by_cases hle : ys.length + 1 ≤ d
        · exact hle
        · exfalso
          have : 256 ^ d ≤ 256 ^ ys.length := Nat.pow_le_pow_right (by omega) (by omega)
          omega

/-- **Round trip, exact width, trailing bytes ignored**: for every exported prefixer
other than `Hex.Fixed`/`None` and every representable `n ≥ 0`, EncodeLength returns a
prefix which DecodeLength maps back to `n`, consuming exactly the prefix bytes even when
more data follows. -/
theorem dec_enc (p : Pref) (maxLen n : Nat) (tail : Bytes) (hp : Exported p)
    (hne : p ≠ .fixed .hex) (hnn : p ≠ .none) (hn : n ≤ maxInt) (hr : Representable p maxLen n) :
    ∃ bs, encodeLength p maxLen n = .ok bs ∧
      decodeLength p maxLen (bs ++ tail) = .ok (n, bs.length) ∧
      (p ≠ .berTLV → bs.length = width p) := by
  cases p with
  | none => exact absurd rfl hnn
  | fixed f =>
    have : n = maxLen := hr
    subst this
    cases f <;> first | exact absurd rfl hne | exact ⟨[], by simp [encodeLength], by simp [decodeLength], fun _ => rfl⟩
  | berTLV =>
    obtain ⟨bs, h1, _, _, h4⟩ := ber_dec_enc maxLen n tail hr hn
    exact ⟨bs, h1, h4, fun h => absurd rfl h⟩
  | var f d =>
    obtain ⟨hd1, hd6⟩ := exported_var_digits f d hp
    obtain ⟨hr1, hr2⟩ := hr
    cases f with
    | ascii =>
      have h10 := pow_pos' 10 d (by omega)
      have h2 : n < 10 ^ d := by simp only [capacity] at hr2; omega
      obtain ⟨h3, h4⟩ := ascii_dec_enc d maxLen n tail hd1 hr1 h2
      exact ⟨_, h3, by rw [h4, decString_length], fun _ => by simp [decString_length, width]⟩
    | ebcdic =>
      have h10 := pow_pos' 10 d (by omega)
      have h2 : n < 10 ^ d := by simp only [capacity] at hr2; omega
      obtain ⟨bs, h3, h4, h5⟩ := ebcdic_dec_enc d maxLen n tail hd1 hr1 h2
      exact ⟨bs, h3, by rw [h5, h4], fun _ => by simp [h4, width]⟩
    | ebcdic1047 =>
      have h10 := pow_pos' 10 d (by omega)
      have h2 : n < 10 ^ d := by simp only [capacity] at hr2; omega
      obtain ⟨bs, h3, h4, h5⟩ := ebcdic1047_dec_enc d maxLen n tail hd1 hr1 h2
      exact ⟨bs, h3, by rw [h5, h4], fun _ => by simp [h4, width]⟩
    | bcd =>
      have h10 := pow_pos' 10 d (by omega)
      have h2 : n < 10 ^ d := by simp only [capacity] at hr2; omega
      obtain ⟨bs, h3, h4, h5⟩ := bcd_dec_enc d maxLen n tail hd1 hr1 h2
      exact ⟨bs, h3, by rw [h5, h4], fun _ => by simp [h4, width]⟩
    | binary =>
      have h2 : (beBytes n).length ≤ d := (binary_len_le_iff d n (by omega) hn).mpr hr2
      obtain ⟨bs, h3, h4, h5⟩ := binary_dec_enc d maxLen n tail hr1 hn h2
      exact ⟨bs, h3, by rw [h5, h4], fun _ => by simp [h4, width]⟩
    | hex =>
      have h2 : n ≤ 2 ^ (d * 8) - 1 := by
        simp only [capacity] at hr2
        have : (256 : Nat) ^ d = 2 ^ (d * 8) := by rw [Nat.mul_comm, Nat.pow_mul]
        omega
      obtain ⟨bs, h3, h4, _, h5⟩ := hex_dec_enc d maxLen n tail hr1 h2
      exact ⟨bs, h3, by rw [h5, h4], fun _ => by simp [h4, width]⟩

/-- **Failure characterisation**: EncodeLength fails exactly when `n` exceeds the field
maximum or does not fit the digit count (fixed: when `n` differs from the configured
length), and it never panics. -/
theorem enc_fails_iff (p : Pref) (maxLen n : Nat) (hp : Exported p) (hne : p ≠ .fixed .hex)
    (hn : n ≤ maxInt) :
    (encodeLength p maxLen n = .err ↔ ¬ Representable p maxLen n) ∧ encodeLength p maxLen n ≠ .panic := by
  by_cases hr : Representable p maxLen n
  · by_cases hnn : p = .none
    · subst hnn; simp [encodeLength, Representable]
    · obtain ⟨bs, h1, _, _⟩ := dec_enc p maxLen n [] hp hne hnn hn hr
      simp [h1, hr]
  · cases p with
    | none => exact absurd trivial hr
    | fixed f =>
      have : n ≠ maxLen := hr
      cases f <;> first | exact absurd rfl hne | simp [encodeLength, this, Representable]
    | berTLV =>
      have : maxLen ≠ 0 ∧ n > maxLen := by simp only [Representable] at hr; omega
      simp [encodeLength, this, Representable]
    | var f d =>
      obtain ⟨hd1, hd6⟩ := exported_var_digits f d hp
      have hr' : ¬ (n ≤ maxLen ∧ n ≤ capacity f d) := hr
      by_cases h1 : n > maxLen
      · simp [encodeLength, h1, Representable]; omega
      · have h2 : ¬ n ≤ capacity f d := by omega
        have hr'' : ¬ Representable (.var f d) maxLen n := hr
        cases f with
        | ascii =>
          have : n ≥ 10 ^ d := by simp only [capacity] at h2; omega
          simp [encodeLength, h1, this, hr'']
        | ebcdic =>
          have : n ≥ 10 ^ d := by simp only [capacity] at h2; omega
          simp [encodeLength, h1, this, hr'']
        | ebcdic1047 =>
          have : n ≥ 10 ^ d := by simp only [capacity] at h2; omega
          simp [encodeLength, h1, this, hr'']
        | bcd =>
          have : n ≥ 10 ^ d := by simp only [capacity] at h2; omega
          simp [encodeLength, h1, this, hr'']
        | binary =>
          have : (beBytes n).length > d := by
            have hh : ¬ (beBytes n).length ≤ d := fun h => h2 ((binary_len_le_iff d n (by omega) hn).mp h)
            omega
          simp [encodeLength, h1, this, hr'']
        | hex =>
          have : n > 2 ^ (d * 8) - 1 := by
            simp only [capacity] at h2
            have : (256 : Nat) ^ d = 2 ^ (d * 8) := by rw [Nat.mul_comm, Nat.pow_mul]
            omega
          simp [encodeLength, h1, this, hr'']

theorem finishDec_ok {maxLen : Nat} {ds : Bytes} {read m r : Nat}
    (h : finishDec maxLen ds read = .ok (m, r)) : m ≤ maxLen ∧ r = read := by
  unfold finishDec at h
  split at h
  · cases h
  · split at h
    · cases h
    · split at h
      · cases h
      · cases h; omega

theorem finishDec_ne_panic (maxLen : Nat) (ds : Bytes) (read : Nat) : finishDec maxLen ds read ≠ .panic := by
  unfold finishDec
  split
  · simp
  · split
    · simp
    · split <;> simp

/-- **Range of DecodeLength**: on arbitrary bytes it never panics, never returns a length
above the maximum (BER with `maxLen = 0` and `None` declare no maximum), consumes exactly
the prefix width (BER: 1 + the announced number of length bytes) and no more than it was
given. Lengths are natural numbers in the model: a negative parse result is an error. -/
theorem dec_range (p : Pref) (maxLen : Nat) (data : Bytes) :
    decodeLength p maxLen data ≠ .panic ∧
    ∀ m r, decodeLength p maxLen data = .ok (m, r) →
      r ≤ data.length ∧
      (p ≠ .none ∧ ¬ (p = .berTLV ∧ maxLen = 0) → m ≤ maxLen) ∧
      (p = .berTLV → m ≤ maxInt ∧ 1 ≤ r) ∧
      (p ≠ .berTLV → r = width p) := by
  cases p with
  | fixed f =>
    refine ⟨by simp [decodeLength], ?_⟩
    intro m r h; simp [decodeLength] at h; obtain ⟨rfl, rfl⟩ := h
    simp [width]
  | none =>
    refine ⟨by simp [decodeLength], ?_⟩
    intro m r h; simp [decodeLength] at h; obtain ⟨rfl, rfl⟩ := h
    simp [width]
  | berTLV =>
    cases data with
    | nil => simp [decodeLength]
    | cons first rest =>
      simp only [decodeLength]
      split
      · split
        · simp
        · rename_i h1 h2
          refine ⟨by simp, ?_⟩
          intro m r h; cases h
          have := byte_toNat_lt first
          refine ⟨by simp, ?_, fun _ => ⟨Nat.le_trans (by omega : first.toNat ≤ 255) (by decide : 255 ≤ maxInt), by omega⟩, fun h => (by simp at h)⟩
          intro ⟨_, h3⟩
          have : ¬ maxLen = 0 := fun h => h3 (by simp [h])
          omega
      · split
        · simp
        · split
          · simp
          · split
            · simp
            · rename_i h1 h2 h3 h4
              refine ⟨fun h => (by cases h), ?_⟩
              intro m r h
              simp only [Res.ok.injEq, Prod.mk.injEq] at h
              obtain ⟨hm, hr⟩ := h
              subst hm; subst hr
              have hk := Nat.le_of_not_gt h2
              have hv := Nat.le_of_not_gt h3
              clear h3
              refine ⟨by simp only [List.length_cons]; omega, ?_, fun _ => ⟨hv, by omega⟩, fun h => (by simp at h)⟩
              clear hv
              intro ⟨_, h5⟩
              have : ¬ maxLen = 0 := fun h => h5 (by simp [h])
              omega
  | var f d =>
    cases f with
    | ascii =>
      simp only [decodeLength]
      split
      · simp
      · rename_i h1
        refine ⟨finishDec_ne_panic _ _ _, ?_⟩
        intro m r h
        obtain ⟨h2, rfl⟩ := finishDec_ok h
        exact ⟨by omega, fun _ => h2, fun h => (by cases h), fun _ => rfl⟩
    | ebcdic =>
      simp only [decodeLength]
      split
      · simp
      · rename_i h1
        split
        · rename_i ds x heq
          refine ⟨finishDec_ne_panic _ _ _, ?_⟩
          intro m r h
          obtain ⟨h2, rfl⟩ := finishDec_ok h
          exact ⟨by omega, fun _ => h2, fun h => (by cases h), fun _ => rfl⟩
        · simp
        · rename_i heq
          simp [Enc.decodeNat] at heq
          split at heq <;> cases heq
    | ebcdic1047 =>
      simp only [decodeLength]
      split
      · simp
      · rename_i h1
        split
        · rename_i ds x heq
          refine ⟨finishDec_ne_panic _ _ _, ?_⟩
          intro m r h
          obtain ⟨h2, rfl⟩ := finishDec_ok h
          exact ⟨by omega, fun _ => h2, fun h => (by cases h), fun _ => rfl⟩
        · simp
        · rename_i heq
          simp [Enc.decodeNat] at heq
          split at heq <;> cases heq
    | bcd =>
      simp only [decodeLength]
      split
      · simp
      · rename_i h1
        split
        · rename_i ds x heq
          refine ⟨finishDec_ne_panic _ _ _, ?_⟩
          intro m r h
          obtain ⟨h2, rfl⟩ := finishDec_ok h
          exact ⟨by omega, fun _ => h2, fun h => (by cases h), fun _ => rfl⟩
        · simp
        · rename_i heq
          simp only [Enc.decode_natCast, Enc.decodeNat] at heq
          split at heq
          · cases heq
          · split at heq <;> cases heq
    | binary =>
      simp only [decodeLength]
      split
      · simp
      · split
        · simp
        · split
          · simp
          · rename_i h1 h2 h3
            refine ⟨by simp, ?_⟩
            intro m r h; cases h
            exact ⟨by omega, fun _ => by omega, fun h => (by cases h), fun _ => rfl⟩
    | hex =>
      simp only [decodeLength]
      split
      · simp
      · split
        · simp
        · split
          · simp
          · rename_i h1 ds heq h3
            refine ⟨by simp, ?_⟩
            intro m r h; cases h
            exact ⟨by omega, fun _ => by omega, fun h => (by cases h), fun _ => rfl⟩

/-- **Too-short prefixes fail** -/
theorem dec_fails_short (p : Pref) (maxLen : Nat) (data : Bytes) (hp : p ≠ .berTLV)
    (h : data.length < width p) : decodeLength p maxLen data = .err := by
  cases p with
  | fixed f => simp [width] at h
  | none => simp [width] at h
  | berTLV => exact absurd rfl hp
  | var f d =>
    cases f <;> simp only [width] at h <;> simp [decodeLength, h]
    all_goals omega

theorem ber_fails_short (maxLen : Nat) (first : Byte) (rest : Bytes) (h : 128 ≤ first.toNat)
    (hs : rest.length < first.toNat - 128) :
    decodeLength .berTLV maxLen [] = .err ∧ decodeLength .berTLV maxLen (first :: rest) = .err := by
  have : ¬ first.toNat < 128 := by omega
  simp [decodeLength, this, hs]

/-- **Not a number in the prefixer's alphabet ⇒ error** (decimal families: anything that
`strconv.Atoi` rejects, and a negative number) -/
theorem dec_fails_nonnumeric_ascii (d maxLen : Nat) (data : Bytes)
    (h : atoi? (data.take d) = Option.none ∨ ∃ v, atoi? (data.take d) = some v ∧ v < 0) :
    decodeLength (.var .ascii d) maxLen data = .err := by
  simp only [decodeLength]
  split
  · rfl
  · rcases h with h | ⟨v, h, hv⟩
    · simp [finishDec, h]
    · simp [finishDec, h, hv]

theorem dec_fails_nonnumeric_hex (d maxLen : Nat) (data : Bytes)
    (h : ∃ c ∈ data.take (2 * d), ¬ isHexChar c) :
    decodeLength (.var .hex d) maxLen data = .err := by
  simp only [decodeLength]
  split
  · rfl
  · have : mapM? hexVal? (data.take (2 * d)) = Option.none := by
      obtain ⟨c, hc, hbad⟩ := h
      generalize data.take (2 * d) = l at hc
      induction l with
      | nil => simp at hc
      | cons x xs ih =>
        simp only [mapM?]
        cases hx : hexVal? x with
        | none => rfl
        | some v =>
          simp only [List.mem_cons] at hc
          rcases hc with rfl | hc
          · exact absurd (hexVal_some_lt hx).2 hbad
          · simp [ih hc]
    simp [this]

/-! ## Known finding KF1: `Hex.Fixed` -/

/-- the full-strength statement instantiated at `Hex.Fixed`, fixed length 4, n = 8 -/
def hexFixedRoundTripAt : Prop :=
  ∀ bs, encodeLength (.fixed .hex) 4 8 = .ok bs → decodeLength (.fixed .hex) 4 bs = .ok (8, bs.length)

/-- `Hex.Fixed` encodes hex digits but decodes bytes: EncodeLength(4, 8) succeeds and
DecodeLength(4, …) returns 4, not 8. -/
theorem hex_fixed_witness : ¬ hexFixedRoundTripAt := by
  intro h
  have := h [] (by decide)
  revert this
  decide

/-- what does hold for `Hex.Fixed`: it accepts exactly `n = 2·fixLen` and decodes `fixLen` -/
theorem hex_fixed_partial (fixLen n : Nat) (data : Bytes) :
    (encodeLength (.fixed .hex) fixLen n = .ok [] ↔ n = 2 * fixLen) ∧
    (encodeLength (.fixed .hex) fixLen n = .err ↔ n ≠ 2 * fixLen) ∧
    decodeLength (.fixed .hex) fixLen data = .ok (fixLen, 0) := by
  by_cases h : n = fixLen * 2
  · simp [encodeLength, decodeLength, h, Nat.mul_comm]
  · have : n ≠ 2 * fixLen := by omega
    simp [encodeLength, decodeLength, h, this]

/-! ## Non-vacuity -/
example : Exported (.var .binary 5) := by unfold Exported; decide +kernel
example : Exported .berTLV := by unfold Exported; decide +kernel
example : Representable (.var .binary 5) 999 300 := by simp [Representable, capacity]
example : encodeLength (.var .binary 5) 999 300 = .ok [0, 0, 0, 1, 0x2c] := by decide
example : decodeLength (.var .binary 5) 999 [0, 0, 0, 1, 0x2c, 0xFF] = .ok (300, 5) := by decide
example : encodeLength .berTLV 0 0 = .ok [0] := by decide
example : decodeLength .berTLV 0 [0x88, 0xFF, 0xFF, 0xFF, 0xFF, 0xFF, 0xFF, 0xFF, 0xFF] = .err := by decide
example : decodeLength (.var .ebcdic 2) 99 [0x60, 0xF5] = .err := by decide +kernel

end Iso8583.C06
