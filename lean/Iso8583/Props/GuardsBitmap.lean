/-
C05 (and the scan of C01 / C19), decision logic tied by TRANSLATION: `Gen/GuardsBitmap.lean` holds,
rendered from /repo/field/bitmap.go and /repo/message.go on every run, the Boolean
`IsBitmapPresenceBit` and `IsSet` return, the early exits of `Set`, the error / break conditions
of the block loop of `Bitmap.Unpack`, and — for the element loops of `Message.pack` and
`Message.unpack` — their loop conditions, the conditions under which an iteration is skipped and
the conditions under which it fails. The hand-written model takes exactly those decisions.

The proofs unfold a generated list into the proposition it denotes (`guards_to_prop`) and leave the
rest to case analysis on the Boolean parameters and `omega`, so that they do not depend on how the
source arranges its checks.
-/
import Iso8583.Gen.GuardsBitmap
import Iso8583.Model.Message
import Iso8583.Lemmas.GuardTactics

namespace Iso8583.GuardsBitmap
open Iso8583 Iso8583.Gen.Guards Bitmap

/-- `Bitmap.IsBitmapPresenceBit`: not for fixed bitmaps, not for `n ≤ 0`, and exactly the
first bit of every block -/
theorem isPresenceBit_translated (bm : Bitmap) (n : Nat) :
    bm.isPresenceBit n = bitmap_IsBitmapPresenceBit_value (!bm.auto) n bm.blockLen := by
  have h2 : ((n : Int) % ((bm.blockLen : Int) * 8) = 1) ↔ n % (bm.blockLen * 8) = 1 := by
    rw [show ((bm.blockLen : Int) * 8) = ((bm.blockLen * 8 : Nat) : Int) by push_cast; rfl]
    omega
  have h1 : ((n : Int) ≤ 0) ↔ ¬ (n > 0) := by omega
  unfold isPresenceBit bitmap_IsBitmapPresenceBit_value
  cases ha : bm.auto <;> by_cases hn : n > 0 <;> by_cases hm : n % (bm.blockLen * 8) = 1 <;>
    simp [hn, hm, h1, h2] <;> omega

/-- `Bitmap.IsSet`: out of range is "not set", otherwise the bit -/
theorem isSet_translated (bm : Bitmap) (n : Nat) :
    bm.isSet n = bitmap_IsSet_value n bm.data.length ((bm.data.getD ((n - 1) / 8) 0 &&& mask n) != 0) := by
  have e1 : ((n : Int) ≤ 0) ↔ n = 0 := by omega
  have e2 : ((n : Int) > (bm.data.length : Int) * 8) ↔ n > bm.data.length * 8 := by omega
  unfold isSet bitmap_IsSet_value
  simp only [e1, e2]
  by_cases a : n = 0 <;> by_cases b : n > bm.data.length * 8 <;> simp [a, b]

theorem set_exits_iff (auto : Bool) (n dataLen blockLen : Nat) (i : Int) :
    (bitmap_Set_exits (!auto) n dataLen blockLen i).any id = true ↔ (n = 0 ∨ (n > dataLen * 8 ∧ auto = false)) := by
  unfold bitmap_Set_exits
  cases auto <;> guards_to_prop <;> guards_done

/-- `Bitmap.Set`: its early exits (`n ≤ 0`; beyond the data of a bitmap that does not expand)
leave the bitmap as it is -/
theorem set_exits_translated (bm : Bitmap) (n : Nat) (i : Int)
    (h : (bitmap_Set_exits (!bm.auto) n bm.data.length bm.blockLen i).any id = true) : bm.set n = bm := by
  have h' := (set_exits_iff bm.auto n bm.data.length bm.blockLen i).mp h
  unfold Bitmap.set
  rcases h' with h0 | ⟨h1, h2⟩
  · simp [h0]
  · by_cases h0 : n = 0
    · simp [h0]
    · simp [h0, h1, h2]

/-- and when no exit applies `Set` changes the data (model: the two remaining branches) -/
theorem set_no_exit_translated (bm : Bitmap) (n : Nat) (i : Int)
    (h : (bitmap_Set_exits (!bm.auto) n bm.data.length bm.blockLen i).any id = false) :
    n ≠ 0 ∧ (n > bm.data.length * 8 → bm.auto = true) := by
  have hn : ¬ ((bitmap_Set_exits (!bm.auto) n bm.data.length bm.blockLen i).any id = true) := by simp [h]
  have h' := fun x => hn ((set_exits_iff bm.auto n bm.data.length bm.blockLen i).mpr x)
  refine ⟨fun h0 => h' (Or.inl h0), fun hgt => ?_⟩
  cases ha : bm.auto with
  | true => rfl
  | false => exact absurd (Or.inr ⟨hgt, ha⟩) h'


/-! ### the index arithmetic of `Bitmap.Set` / `Bitmap.IsSet` -/

/-- every index and shift of `IsSet`: byte `(n-1)/8`, bit `7 - (n-1) mod 8` — the model's `getD`
index and `mask` exponent (Go's `uint(7-(n-1)) % 8` wraps modulo 2^64, a multiple of 8: Euclidean
`%` on `Int` is the same number) -/
theorem isSet_arith_translated (n dataLen : Nat) (hn : 1 ≤ n) (bit : Bool) :
    (bitmap_IsSet_indices n dataLen bit).all (fun i => i = (((n - 1) / 8 : Nat) : Int)) = true ∧
    (bitmap_IsSet_shifts n dataLen bit).all (fun k => k = ((7 - (n - 1) % 8 : Nat) : Int)) = true := by
  unfold bitmap_IsSet_indices bitmap_IsSet_shifts
  constructor <;> simp only [List.all_cons, List.all_nil, Bool.and_true, decide_eq_true_eq] <;> omega

/-- every index, shift and loop start of `Set`: the continuation bit goes into the first byte of
the LAST block held (`len - blockLen`), new blocks get their continuation bit at their first byte,
the bit itself into byte `(n-1)/8` at position `7 - (n-1) mod 8`, and the number of blocks appended
is `⌊(n-1)/(8·blockLen)⌋ + 1 - len/blockLen` — the model's `orAt` indices, `mask` exponent and
`newBlocks` count -/
theorem set_arith_translated (auto : Bool) (n dataLen blockLen : Nat) (hn : 1 ≤ n) (hb : blockLen ≤ dataLen) (i : Int) :
    bitmap_Set_indices (!auto) n dataLen blockLen i =
      [((dataLen - blockLen : Nat) : Int), 0, (((n - 1) / 8 : Nat) : Int)] ∧
    bitmap_Set_shifts (!auto) n dataLen blockLen i = [((7 - (n - 1) % 8 : Nat) : Int)] ∧
    bitmap_Set_loopInits (!auto) n dataLen blockLen i =
      [(((n - 1) / (blockLen * 8) + 1 : Nat) : Int) - ((dataLen / blockLen : Nat) : Int)] := by
  unfold bitmap_Set_indices bitmap_Set_shifts bitmap_Set_loopInits
  have e1 : ((n : Int) - 1) / 8 = (((n - 1) / 8 : Nat) : Int) := by omega
  have e2 : (7 - ((n : Int) - 1)) % 8 = ((7 - (n - 1) % 8 : Nat) : Int) := by omega
  have e3 : (dataLen : Int) - (blockLen : Int) = ((dataLen - blockLen : Nat) : Int) := by omega
  have e4 : ((n : Int) - 1) / ((blockLen : Int) * 8) + 1 = (((n - 1) / (blockLen * 8) + 1 : Nat) : Int) := by
    have : ((n : Int) - 1) = ((n - 1 : Nat) : Int) := by omega
    rw [this, show ((blockLen : Int) * 8) = ((blockLen * 8 : Nat) : Int) by push_cast; rfl, ← Int.natCast_ediv]
    push_cast; rfl
  have e5 : (dataLen : Int) / (blockLen : Int) = ((dataLen / blockLen : Nat) : Int) := by
    rw [Int.natCast_ediv]
  simp only [e1, e2, e3, e4, e5, and_self]

/-- the model's `set` uses exactly these: the first `orAt` index and the bit's byte and mask -/
theorem set_model_arith (bm : Bitmap) (n : Nat) (hn : n ≠ 0) (hin : ¬ n > bm.data.length * 8) :
    (bm.set n).data = orAt bm.data ((n - 1) / 8) (mask n) ∧
    mask n = UInt8.ofNat (2 ^ (7 - (n - 1) % 8)) := by
  constructor
  · simp [Bitmap.set, hn, hin]
  · rfl

/-- … and when the bitmap expands: the continuation bit at `len - blockLen`, then
`⌊(n-1)/(8·blockLen)⌋ + 1 - len/blockLen` new blocks, then the bit -/
theorem set_model_expand (bm : Bitmap) (n : Nat) (hn : n ≠ 0) (hgt : n > bm.data.length * 8) (ha : bm.auto = true) :
    (bm.set n).data =
      orAt (orAt bm.data (bm.data.length - bm.blockLen) (UInt8.ofNat Gen.firstBitOn) ++
              newBlocks bm.blockLen ((n - 1) / (bm.blockLen * 8) + 1 - bm.data.length / bm.blockLen))
        ((n - 1) / 8) (mask n) := by
  simp [Bitmap.set, hn, hgt, ha]

/-! ### the block loop of `Bitmap.Unpack` = `Bitmap.unpackLoop` -/

theorem unpack_guards_iff (dae fb : Bool) (decodedLen : Nat) :
    (bitmap_Unpack_guards dae decodedLen fb).any id = true ↔ decodedLen = 0 := by
  unfold bitmap_Unpack_guards
  cases dae <;> cases fb <;> guards_to_prop <;> guards_done

theorem unpack_breaks_iff (dae fb : Bool) (decodedLen : Nat) :
    (bitmap_Unpack_breaks dae decodedLen fb).any id = true ↔ (decodedLen ≠ 0 ∧ (dae = true ∨ fb = true)) := by
  unfold bitmap_Unpack_breaks
  cases dae <;> cases fb <;> guards_to_prop <;> guards_done

/-- one iteration, once the encoder has decoded a block: an empty block is the source's error
condition; the loop is left under its `break` condition (no expansion, or the first bit of the
block clear); otherwise the next block is read -/
theorem unpackLoop_step_translated (enc : Enc) (minLen : Nat) (auto : Bool) (fuel : Nat) (rest acc : Bytes)
    (read : Nat) (decoded : Bytes) (r : Nat) (hd : Enc.decode enc rest minLen = .ok (decoded, r)) :
    unpackLoop enc minLen auto (fuel + 1) rest acc read =
      if (bitmap_Unpack_guards (!auto) decoded.length (decide ((decoded.headD 0).toNat < 128))).any id then .err
      else if (bitmap_Unpack_breaks (!auto) decoded.length (decide ((decoded.headD 0).toNat < 128))).any id
        then .ok (acc ++ decoded, read + r)
      else unpackLoop enc minLen auto fuel (rest.drop r) (acc ++ decoded) (read + r) := by
  simp only [unpackLoop, hd]
  cases decoded with
  | nil =>
    have hg : (bitmap_Unpack_guards (!auto) (([] : Bytes).length) (decide ((([] : Bytes).headD 0).toNat < 128))).any id = true :=
      (unpack_guards_iff _ _ 0).mpr rfl
    rw [if_pos hg]
  | cons first tl =>
    have hne : (first :: tl).length ≠ 0 := by simp
    have hg : ¬ ((bitmap_Unpack_guards (!auto) ((first :: tl).length) (decide (((first :: tl).headD 0).toNat < 128))).any id = true) :=
      fun h => hne ((unpack_guards_iff _ _ _).mp h)
    rw [if_neg hg]
    by_cases hb : auto = false ∨ first.toNat < 128
    · have hd' : (!auto) = true ∨ decide (((first :: tl).headD 0).toNat < 128) = true := by
        rcases hb with h | h
        · exact Or.inl (by simp [h])
        · exact Or.inr (by simp [h])
      have hbk := (unpack_breaks_iff (!auto) (decide (((first :: tl).headD 0).toNat < 128)) (first :: tl).length).mpr ⟨hne, hd'⟩
      have hl : (!auto || decide (first.toNat < 128)) = true := by
        rcases hb with h | h <;> simp [h]
      rw [if_pos hbk]
      show (if (!auto || decide (first.toNat < 128)) = true then _ else _) = _
      rw [if_pos hl]
    · have hd' : ¬ ((!auto) = true ∨ decide (((first :: tl).headD 0).toNat < 128) = true) := by
        intro h
        rcases h with h | h
        · exact hb (Or.inl (by simpa using h))
        · exact hb (Or.inr (by simpa using h))
      have hbk : ¬ ((bitmap_Unpack_breaks (!auto) ((first :: tl).length) (decide (((first :: tl).headD 0).toNat < 128))).any id = true) :=
        fun h => hd' ((unpack_breaks_iff _ _ _).mp h).2
      have hl : ¬ ((!auto || decide (first.toNat < 128)) = true) := by
        intro h
        simp only [Bool.or_eq_true, Bool.not_eq_true', decide_eq_true_eq] at h
        exact hb h
      rw [if_neg hbk]
      show (if (!auto || decide (first.toNat < 128)) = true then _ else _) = _
      rw [if_neg hl]

/-! ### the element loop of `Message.unpack` = `MsgSpec.scan` -/

/-- the loop runs for `i = 2 … Len` inclusive: `scan` is started with `Len - 1` iterations at 2,
i.e. it visits exactly the `i ≥ 2` for which the source's loop condition holds -/
theorem loop_bound_translated (bmLen i : Nat) (hi : 2 ≤ i) (p s f : Bool) :
    (message_unpack_loops i bmLen p s f).all id = true ↔ i < 2 + (bmLen - 1) := by
  unfold message_unpack_loops
  cases p <;> cases s <;> cases f <;> guards_to_prop <;> guards_done

theorem unpack_skips_iff (i bmLen : Int) (p s f : Bool) (hs : s = true) :
    (message_unpack_skips i bmLen p s f).any id = true ↔ p = true := by
  unfold message_unpack_skips
  subst hs
  cases p <;> cases f <;> guards_to_prop

theorem unpack_guards_msg_iff (i bmLen : Int) (p s f : Bool) :
    (message_unpack_guards i bmLen p s f).any id = true ↔ (p = false ∧ s = true ∧ f = false) := by
  unfold message_unpack_guards
  cases p <;> cases s <;> cases f <;> guards_to_prop

open MsgSpec in
/-- an iteration at a continuation-bit position is skipped: the source's `continue` condition
(for a set bit; an unset bit is stepped over by `scan_unset_translated`) -/
theorem scan_skip_translated (spec : MsgSpec) (bm : Bitmap) (n i : Nat) (src : Bytes) (off : Nat)
    (acc : List (Nat × Value))
    (h : (message_unpack_skips i bm.len (bm.isPresenceBit i) true (lookupId i spec.fields).isSome).any id = true) :
    scan spec bm (n + 1) i src off acc = scan spec bm n (i + 1) src off acc := by
  have hp := (unpack_skips_iff _ _ _ _ _ rfl).mp h
  simp [scan, hp]

open MsgSpec in
/-- an iteration fails with the element's id exactly under the source's error condition (a set
bit, not a continuation bit, for which the spec defines no field) -/
theorem scan_guard_translated (spec : MsgSpec) (bm : Bitmap) (n i : Nat) (src : Bytes) (off : Nat)
    (acc : List (Nat × Value))
    (h : (message_unpack_guards i bm.len (bm.isPresenceBit i) (bm.isSet i) (lookupId i spec.fields).isSome).any id = true) :
    scan spec bm (n + 1) i src off acc = .err [natToDec i] := by
  obtain ⟨hp, hs, hf⟩ := (unpack_guards_msg_iff _ _ _ _ _).mp h
  have hnone : lookupId i spec.fields = none := by
    cases hl : lookupId i spec.fields with
    | none => rfl
    | some v => simp [hl] at hf
  simp [scan, hp, hs, hnone]

open MsgSpec in
/-- a bit that is not set (and is not a continuation bit) is stepped over -/
theorem scan_unset_translated (spec : MsgSpec) (bm : Bitmap) (n i : Nat) (src : Bytes) (off : Nat)
    (acc : List (Nat × Value)) (hp : bm.isPresenceBit i = false) (hs : bm.isSet i = false) :
    scan spec bm (n + 1) i src off acc = scan spec bm n (i + 1) src off acc := by
  simp [scan, hp, hs]

/-! ### the two loops of `Message.pack` = `MsgSpec.setBits`, `MsgSpec.packFields` -/

/-- all `continue` conditions of `Message.pack` together: an k below 2 or at a continuation position -/
theorem pack_skips_iff (k : Nat) (p s f : Bool) :
    (message_pack_skips k p s f).any id = true ↔ (k < 2 ∨ p = true) := by
  unfold message_pack_skips
  cases p <;> cases s <;> cases f <;> guards_to_prop <;> guards_done

/-- the error condition of the first loop (the bit is not set after `Set`), with the second loop's
lookup succeeding -/
theorem pack_guards_first_iff (k : Nat) (p s : Bool) :
    (message_pack_guards k p s true).any id = true ↔ (¬ k < 2 ∧ p = false ∧ s = false) := by
  unfold message_pack_guards
  cases p <;> cases s <;> guards_to_prop <;> guards_done

/-- the error condition of the second loop (no field for the k), with the first loop's bit set -/
theorem pack_guards_second_iff (k : Nat) (p f : Bool) (hid : 2 ≤ k) :
    (message_pack_guards k p true f).any id = true ↔ (p = false ∧ f = false) := by
  unfold message_pack_guards
  cases p <;> cases f <;> guards_to_prop <;> guards_done

open MsgSpec in
/-- first loop: an k below 2 or at a continuation position is stepped over (source: `continue`) -/
theorem setBits_skip_translated (k : Nat) (rest : List Nat) (bm : Bitmap) (s f : Bool)
    (h : (message_pack_skips k (bm.isPresenceBit k) s f).any id = true) :
    setBits (k :: rest) bm = setBits rest bm := by
  have h' := (pack_skips_iff _ _ _ _).mp h
  have : (decide (k < 2) || bm.isPresenceBit k) = true := by
    rcases h' with h' | h'
    · simp [h']
    · simp [h']
  simp [setBits, this]

open MsgSpec in
/-- first loop: an k the bitmap can not represent (not set after `Set`) is the error of the source -/
theorem setBits_guard_translated (k : Nat) (rest : List Nat) (bm : Bitmap)
    (h : (message_pack_guards k (bm.isPresenceBit k) ((bm.set k).isSet k) true).any id = true) :
    setBits (k :: rest) bm = .err := by
  obtain ⟨h1, h2, h3⟩ := (pack_guards_first_iff _ _ _).mp h
  simp [setBits, h1, h2, h3]

open MsgSpec in
/-- second loop: data elements at continuation positions are not packed (source: `continue`);
the bitmap field itself (k 1) is packed before the loop in the model -/
theorem packFields_skip_translated (spec : MsgSpec) (bm : Bitmap) (i : Nat) (v : Value) (rest : List (Nat × Value))
    (s f : Bool) (hi : 2 ≤ i) (h : (message_pack_skips i (bm.isPresenceBit i) s f).any id = true) :
    packFields spec bm ((i, v) :: rest) = packFields spec bm rest := by
  have h' := (pack_skips_iff _ _ _ _).mp h
  have hp : bm.isPresenceBit i = true := by
    rcases h' with h' | h'
    · omega
    · exact h'
  simp [packFields, hp]

open MsgSpec in
/-- second loop: a populated k without a field definition is the error of the source -/
theorem packFields_guard_translated (spec : MsgSpec) (bm : Bitmap) (i : Nat) (v : Value) (rest : List (Nat × Value))
    (hi : 2 ≤ i)
    (h : (message_pack_guards i (bm.isPresenceBit i) true (lookupId i spec.fields).isSome).any id = true) :
    packFields spec bm ((i, v) :: rest) = .err := by
  obtain ⟨hp, hf⟩ := (pack_guards_second_iff _ _ _ hi).mp h
  have hnone : lookupId i spec.fields = none := by
    cases hl : lookupId i spec.fields with
    | none => rfl
    | some v => simp [hl] at hf
  simp [packFields, hp, hnone]

/-! non-vacuity -/
example : bitmap_IsBitmapPresenceBit_value false 65 8 = true ∧ bitmap_IsBitmapPresenceBit_value false 64 8 = false ∧
    bitmap_IsBitmapPresenceBit_value true 65 8 = false ∧ bitmap_IsBitmapPresenceBit_value false 1 8 = true := by decide
example : (message_unpack_loops 64 64 false false false).all id = true ∧
    (message_unpack_loops 65 64 false false false).all id = false := by decide

end Iso8583.GuardsBitmap
