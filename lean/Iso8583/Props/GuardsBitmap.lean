/-
C05 (and the scan of C01 / C19), decision logic tied by TRANSLATION: `Gen/GuardsBitmap.lean` holds,
rendered from /repo/field/bitmap.go and /repo/message.go on every run, the Boolean
`IsBitmapPresenceBit` and `IsSet` return, the early exits of `Set`, and — for the element loop of
`Message.unpack` — its loop condition, the condition under which an iteration is skipped and the
condition under which it fails. The hand-written model takes exactly those decisions.
-/
import Iso8583.Gen.GuardsBitmap
import Iso8583.Model.Message

namespace Iso8583.GuardsBitmap
open Iso8583 Iso8583.Gen.Guards Bitmap

/-- `Bitmap.IsBitmapPresenceBit`: not for fixed bitmaps, not for `n ≤ 0`, and exactly the
first bit of every block -/
theorem isPresenceBit_translated (bm : Bitmap) (n : Nat) :
    bm.isPresenceBit n = bitmap_IsBitmapPresenceBit_value (!bm.auto) n bm.blockLen := by
  unfold isPresenceBit bitmap_IsBitmapPresenceBit_value
  have h1 : ((n : Int) ≤ 0) ↔ ¬ (n > 0) := by omega
  have h2 : ((n : Int) % ((bm.blockLen : Int) * 8) = 1) ↔ n % (bm.blockLen * 8) = 1 := by
    rw [show ((bm.blockLen : Int) * 8) = ((bm.blockLen * 8 : Nat) : Int) by push_cast; rfl]
    omega
  cases ha : bm.auto <;> by_cases hn : n > 0 <;> by_cases hm : n % (bm.blockLen * 8) = 1 <;>
    simp [ha, hn, hm, h1, h2] <;> omega

/-- `Bitmap.IsSet`: out of range is "not set", otherwise the bit -/
theorem isSet_translated (bm : Bitmap) (n : Nat) :
    bm.isSet n = bitmap_IsSet_value n bm.data.length ((bm.data.getD ((n - 1) / 8) 0 &&& mask n) != 0) := by
  unfold isSet bitmap_IsSet_value
  have h1 : ((n : Int) ≤ 0) ↔ n = 0 := by omega
  have h2 : ((n : Int) > (bm.data.length : Int) * 8) ↔ n > bm.data.length * 8 := by omega
  simp only [Bool.or_eq_true, decide_eq_true_eq, h1, h2]

/-- `Bitmap.Set`: its early exits (`n ≤ 0`; beyond the data of a bitmap that does not expand)
leave the bitmap as it is -/
theorem set_exits_translated (bm : Bitmap) (n : Nat) (i : Int)
    (h : (bitmap_Set_exits (!bm.auto) n bm.data.length bm.blockLen i).any id = true) : bm.set n = bm := by
  simp only [bitmap_Set_exits, List.any_cons, List.any_nil, id, Bool.or_false, Bool.or_eq_true,
    Bool.and_eq_true, decide_eq_true_eq, Bool.not_eq_true'] at h
  unfold Bitmap.set
  rcases h with h | ⟨h1, h2⟩
  · have : n = 0 := by omega
    simp [this]
  · have : n > bm.data.length * 8 := by omega
    by_cases h0 : n = 0
    · simp [h0]
    · simp [h0, this, h2]

/-- and when no exit applies `Set` changes the data (model: the two remaining branches) -/
theorem set_no_exit_translated (bm : Bitmap) (n : Nat) (i : Int)
    (h : (bitmap_Set_exits (!bm.auto) n bm.data.length bm.blockLen i).any id = false) :
    n ≠ 0 ∧ (n > bm.data.length * 8 → bm.auto = true) := by
  simp only [bitmap_Set_exits, List.any_cons, List.any_nil, id, Bool.or_false, Bool.or_eq_false_iff,
    Bool.and_eq_false_imp, decide_eq_false_iff_not, decide_eq_true_eq, Bool.not_eq_false'] at h
  refine ⟨by omega, fun hgt => ?_⟩
  have := h.2 (by omega)
  simpa using this

/-! ### the element loop of `Message.unpack` = `MsgSpec.scan` -/

open MsgSpec in
/-- the loop runs for `i = 2 … Len` inclusive: `scan` is started with `Len - 1` iterations at 2,
i.e. it visits exactly the `i ≥ 2` for which the source's loop condition `i <= Len` holds -/
theorem loop_bound_translated (bmLen i : Nat) (hi : 2 ≤ i) (p s f : Bool) :
    (message_unpack_loops i bmLen p s f).all id = true ↔ i < 2 + (bmLen - 1) := by
  simp only [message_unpack_loops, List.all_cons, List.all_nil, id, Bool.and_true, decide_eq_true_eq]
  omega

open MsgSpec in
/-- an iteration is skipped exactly under the source's `continue` condition -/
theorem scan_skip_translated (spec : MsgSpec) (bm : Bitmap) (n i : Nat) (src : Bytes) (off : Nat)
    (acc : List (Nat × Value))
    (h : (message_unpack_skips i bm.len (bm.isPresenceBit i) (bm.isSet i) (lookupId i spec.fields).isSome).any id = true) :
    scan spec bm (n + 1) i src off acc = scan spec bm n (i + 1) src off acc := by
  simp only [message_unpack_skips, List.any_cons, List.any_nil, id, Bool.or_false] at h
  simp [scan, h]

open MsgSpec in
/-- an iteration fails with the element's id exactly under the source's error condition (a set
bit for which the spec defines no field), when it is not skipped -/
theorem scan_guard_translated (spec : MsgSpec) (bm : Bitmap) (n i : Nat) (src : Bytes) (off : Nat)
    (acc : List (Nat × Value))
    (hs : (message_unpack_skips i bm.len (bm.isPresenceBit i) (bm.isSet i) (lookupId i spec.fields).isSome).any id = false)
    (h : (message_unpack_guards i bm.len (bm.isPresenceBit i) (bm.isSet i) (lookupId i spec.fields).isSome).any id = true) :
    scan spec bm (n + 1) i src off acc = .err [natToDec i] := by
  simp only [message_unpack_skips, List.any_cons, List.any_nil, id, Bool.or_false] at hs
  simp only [message_unpack_guards, List.any_cons, List.any_nil, id, Bool.or_false, Bool.and_eq_true,
    Bool.not_eq_true', Option.isSome_eq_false_iff, Option.isNone_iff_eq_none] at h
  obtain ⟨⟨_, hset⟩, hnone⟩ := h
  simp [scan, hs, hset, hnone]

open MsgSpec in
/-- a bit that is not set (and is not a continuation bit) is stepped over -/
theorem scan_unset_translated (spec : MsgSpec) (bm : Bitmap) (n i : Nat) (src : Bytes) (off : Nat)
    (acc : List (Nat × Value)) (hp : bm.isPresenceBit i = false) (hs : bm.isSet i = false) :
    scan spec bm (n + 1) i src off acc = scan spec bm n (i + 1) src off acc := by
  simp [scan, hp, hs]



/-! ### the block loop of `Bitmap.Unpack` = `Bitmap.unpackLoop` -/

/-- one iteration, once the encoder has decoded a block: an empty block is the source's error
condition; the loop is left under its `break` condition (no expansion, or the first bit of the
block clear); otherwise the next block is read -/
theorem unpackLoop_step_translated (enc : Enc) (minLen : Nat) (auto : Bool) (fuel : Nat) (rest acc : Bytes)
    (read : Nat) (decoded : Bytes) (r : Nat) (hd : Enc.decode enc rest minLen = .ok (decoded, r)) :
    unpackLoop enc minLen auto (fuel + 1) rest acc read =
      if (bitmap_Unpack_guards (!auto) decoded.length (decide ((decoded.headD 0).toNat < 128))).any id then .err
      else if (bitmap_Unpack_breaks (!auto) decoded.length (decide ((decoded.headD 0).toNat < 128))).any id
        then .ok (acc ++ decoded, read + r)
      else unpackLoop enc minLen auto fuel (rest.drop r) (acc ++ decoded) (read + r) := by
  simp only [unpackLoop, hd, bitmap_Unpack_guards, bitmap_Unpack_breaks, List.any_cons, List.any_nil, id,
    Bool.or_false, decide_eq_true_eq]
  cases decoded with
  | nil => simp
  | cons first tl =>
    have h0 : ¬ ((tl.length : Int) + 1 = 0) := by omega
    by_cases hb : auto = false ∨ first.toNat < 128
    · have hb' : auto = false ∨ decide (first.toNat < 128) = true := by
        rcases hb with h | h
        · exact Or.inl h
        · exact Or.inr (by simp [h])
      simp [h0, hb, hb']
    · have hb' : ¬ (auto = false ∨ decide (first.toNat < 128) = true) := by
        intro h
        rcases h with h | h
        · exact hb (Or.inl h)
        · exact hb (Or.inr (by simpa using h))
      simp [h0, hb, hb']

/-! ### the two loops of `Message.pack` = `MsgSpec.setBits`, `MsgSpec.packFields` -/

open MsgSpec in
/-- first loop: an id below 2 or at a continuation position is stepped over (source: `continue`) -/
theorem setBits_skip_translated (id : Nat) (rest : List Nat) (bm : Bitmap) (s f : Bool)
    (h : (message_pack_skips id (bm.isPresenceBit id) s f).getD 0 false = true) :
    setBits (id :: rest) bm = setBits rest bm := by
  simp only [message_pack_skips, List.getD_cons_zero, Bool.or_eq_true, decide_eq_true_eq] at h
  have : (decide (id < 2) || bm.isPresenceBit id) = true := by
    rcases h with h | h
    · have : id < 2 := by omega
      simp [this]
    · simp [h]
  simp [setBits, this]

open MsgSpec in
/-- first loop: an id the bitmap can not represent (not set after `Set`) is the error of the
source's first condition -/
theorem setBits_guard_translated (id : Nat) (rest : List Nat) (bm : Bitmap) (f : Bool)
    (h : (message_pack_guards id (bm.isPresenceBit id) ((bm.set id).isSet id) f).getD 0 false = true) :
    setBits (id :: rest) bm = .err := by
  simp only [message_pack_guards, List.getD_cons_zero, Bool.and_eq_true, Bool.not_eq_true', Bool.or_eq_false_iff,
    decide_eq_false_iff_not] at h
  obtain ⟨⟨h1, h2⟩, h3⟩ := h
  have : ¬ id < 2 := by omega
  simp [setBits, this, h2, h3]

open MsgSpec in
/-- second loop: data elements at continuation positions are not packed (source: `continue`);
the bitmap field itself (id 1) is packed before the loop in the model -/
theorem packFields_skip_translated (spec : MsgSpec) (bm : Bitmap) (i : Nat) (v : Value) (rest : List (Nat × Value))
    (s f : Bool) (h : (message_pack_skips i (bm.isPresenceBit i) s f).getD 1 false = true) :
    packFields spec bm ((i, v) :: rest) = packFields spec bm rest := by
  simp only [message_pack_skips, List.getD_cons_succ, List.getD_cons_zero, Bool.and_eq_true, decide_eq_true_eq] at h
  simp [packFields, h.2]

open MsgSpec in
/-- second loop: a populated id without a field definition is the error of the source's second
condition -/
theorem packFields_guard_translated (spec : MsgSpec) (bm : Bitmap) (i : Nat) (v : Value) (rest : List (Nat × Value))
    (s : Bool) (hi : i ≠ 1)
    (h : (message_pack_guards i (bm.isPresenceBit i) s (lookupId i spec.fields).isSome).getD 1 false = true) :
    packFields spec bm ((i, v) :: rest) = .err := by
  simp only [message_pack_guards, List.getD_cons_succ, List.getD_cons_zero, Bool.and_eq_true, Bool.not_eq_true',
    Bool.and_eq_false_imp, decide_eq_true_eq, Option.isSome_eq_false_iff, Option.isNone_iff_eq_none] at h
  obtain ⟨h1, h2⟩ := h
  have hp : bm.isPresenceBit i = false := h1 (by omega)
  simp [packFields, hp, h2]

/-! non-vacuity -/
example : bitmap_IsBitmapPresenceBit_value false 65 8 = true ∧ bitmap_IsBitmapPresenceBit_value false 64 8 = false ∧
    bitmap_IsBitmapPresenceBit_value true 65 8 = false ∧ bitmap_IsBitmapPresenceBit_value false 1 8 = true := by decide
example : (message_unpack_loops 64 64 false false false).all id = true ∧
    (message_unpack_loops 65 64 false false false).all id = false := by decide

end Iso8583.GuardsBitmap
