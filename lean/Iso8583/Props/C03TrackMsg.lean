/-
C03 for messages with Track1/2/3 fields: the bytes Pack produces are the bytes the reference
codec of Spec/Layout.lean assigns to the message in which every track value is written as its
text (`TMsg.textify`) under the spec in which every track field is the String primitive with
the same wire layer (`TMsgSpec.base`) — and those reference bytes decode back to the canonical
content. Corollaries of `C03.pack_refines_layout`, `C01TrackMsg.tpack_eq_base` and
`C01TrackMsg.tmsg_pack_unpack`; the text of a track value (`TrackVal.packText`) is the
`fmt.Sprintf` of field/track{1,2,3}.go modelled in Model/Track.lean and tied by channels Y / YM.
-/
import Iso8583.Props.C03
import Iso8583.Props.C01TrackMsg

namespace Iso8583.C03TrackMsg
open Iso8583 Iso8583.Layout Iso8583.C01TrackMsg

theorem wellSorted_of_inDomain (spec : TMsgSpec) (m : TMsg) (hd : spec.inDomain m = true) :
    WellSorted spec m.fields := by
  obtain ⟨_, hall⟩ := inDomain_entries spec m hd
  intro p hp' f hl
  obtain ⟨f', hl', hd'⟩ := hall p hp'
  rw [hl] at hl'
  simp only [Option.some.injEq] at hl'
  subst hl'
  exact sortOK_of_inDomain f p.2 hd'

/-- **Pack refines the reference layout** for messages with track fields -/
theorem tmsg_pack_refines_layout (spec : TMsgSpec) (m : TMsg) (hc : spec.coherent = true)
    (hd : spec.inDomain m = true) (bs : Bytes) :
    spec.pack m = .ok bs ↔ refEncode spec.base m.textify = some bs := by
  rw [tpack_eq_base spec m (wellSorted_of_inDomain spec m hd)]
  exact C03.pack_refines_layout spec.base m.textify hc (inDomain_entries spec m hd).1 bs

/-- **The reference bytes decode**: followed by anything, they unpack to the canonical content,
consuming exactly those bytes, and the canonical content packs to them again -/
theorem tmsg_layout_decodes (spec : TMsgSpec) (m : TMsg) (hc : spec.coherent = true)
    (hd : spec.inDomain m = true) (bs tail : Bytes)
    (h : refEncode spec.base m.textify = some bs) (hlen : bs.length ≤ maxInt) :
    spec.unpack (bs ++ tail) = .ok (spec.canon m, bs.length) ∧ spec.pack (spec.canon m) = .ok bs :=
  tmsg_pack_unpack spec m tail bs hc hd ((tmsg_pack_refines_layout spec m hc hd bs).mpr h) hlen

/-! non-vacuity: the demo message of C01TrackMsg has a reference layout, the bytes Pack gives -/
example : refEncode demoSpec.base demoMsg.textify = some demoBytes :=
  (tmsg_pack_refines_layout demoSpec demoMsg (by decide) (by decide) demoBytes).mp (by decide)

end Iso8583.C03TrackMsg
