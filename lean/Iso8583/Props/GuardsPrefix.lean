/-
C06 / C08, decision logic tied by TRANSLATION: `Gen/GuardsPrefix.lean` holds the conditions
under which `EncodeLength` / `DecodeLength` of the variable-length prefixers and of BER-TLV
return an error (and take the short form), rendered from the function bodies of /repo/prefix/*.go
on every run (harness/cmd/extract/guards.go). For every maximum, length, digit count and input
the hand-written model (`Model/Prefix.lean`) takes exactly those decisions: its result is the
error exactly when one of the source's integer conditions holds — or the call the source checks
(`err != nil`) fails —, and otherwise the value the model computes.

The model works over `Nat` (lengths, maxima and digit counts are non-negative Go ints), the
translated conditions over `Int`; `len(strconv.Itoa(n))` is `GuardFns.itoaLen`
(`itoaLen_gt_iff`: more than `d` digits iff `n ≥ 10^d`).
-/
import Iso8583.Gen.GuardsPrefix
import Iso8583.Model.Prefix
import Iso8583.Lemmas.GuardFns
import Iso8583.Lemmas.GuardTactics

namespace Iso8583.GuardsPrefix
open Iso8583 Iso8583.Gen.Guards Iso8583.GuardFns Pref

/-- the meaning given to `len(strconv.Itoa(n))` in the translated conditions is the length of the
model's own `strconv.Itoa` (`formatInt`, tied to the code by the correspondence channels) -/
theorem itoaLen_is_model_itoa_length (n : Int) : itoaLen n = ((formatInt n).length : Int) :=
  itoaLen_eq_formatInt_length n

theorem cast_gt (a b : Nat) : ((a : Int) > (b : Int)) ↔ a > b := by omega
theorem cast_lt (a b : Nat) : ((a : Int) < (b : Int)) ↔ a < b := by omega

/-! ### decimal prefixers: EncodeLength -/

theorem ascii_enc_iff (maxLen n d : Nat) (hd : 1 ≤ d) :
    (ascii_EncodeLength_guards maxLen n d).any id = true ↔ (n > maxLen ∨ n ≥ 10 ^ d) := by
  have hi := itoaLen_gt_iff n d hd
  unfold ascii_EncodeLength_guards
  guards_to_prop
  constructor
  · intro h
    rcases (show ((n : Int) > (maxLen : Int)) ∨ (itoaLen (n : Int) > (d : Int)) by omega) with h1 | h1
    · exact Or.inl (by omega)
    · exact Or.inr (hi.mp h1)
  · intro h
    rcases h with h | h
    · have : (n : Int) > (maxLen : Int) := by omega
      omega
    · have := hi.mpr h
      omega

/-- `ascii` variable-length prefixer, `EncodeLength` -/
theorem ascii_encodeLength_guarded (maxLen n d : Nat) (hd : 1 ≤ d) :
    encodeLength (.var .ascii d) maxLen n =
      if (ascii_EncodeLength_guards maxLen n d).any id then .err else .ok (decString d n) := by
  have h := ascii_enc_iff maxLen n d hd
  simp only [encodeLength]
  by_cases a : n > maxLen
  · rw [if_pos a, if_pos (h.mpr (Or.inl a))]
  · by_cases b : n ≥ 10 ^ d
    · rw [if_neg a, if_pos b, if_pos (h.mpr (Or.inr b))]
    · have : ¬ ((ascii_EncodeLength_guards maxLen n d).any id = true) := fun hh => by
        rcases h.mp hh with x | x <;> contradiction
      rw [if_neg a, if_neg b, if_neg this]

theorem ebcdic_enc_iff (maxLen n d : Nat) (hd : 1 ≤ d) :
    (ebcdic_EncodeLength_guards maxLen n d).any id = true ↔ (n > maxLen ∨ n ≥ 10 ^ d) := by
  have hi := itoaLen_gt_iff n d hd
  unfold ebcdic_EncodeLength_guards
  guards_to_prop
  constructor
  · intro h
    rcases (show ((n : Int) > (maxLen : Int)) ∨ (itoaLen (n : Int) > (d : Int)) by omega) with h1 | h1
    · exact Or.inl (by omega)
    · exact Or.inr (hi.mp h1)
  · intro h
    rcases h with h | h
    · have : (n : Int) > (maxLen : Int) := by omega
      omega
    · have := hi.mpr h
      omega

/-- `ebcdic` variable-length prefixer, `EncodeLength` -/
theorem ebcdic_encodeLength_guarded (maxLen n d : Nat) (hd : 1 ≤ d) :
    encodeLength (.var .ebcdic d) maxLen n =
      if (ebcdic_EncodeLength_guards maxLen n d).any id then .err else Enc.encode .ebcdic (decString d n) := by
  have h := ebcdic_enc_iff maxLen n d hd
  simp only [encodeLength]
  by_cases a : n > maxLen
  · rw [if_pos a, if_pos (h.mpr (Or.inl a))]
  · by_cases b : n ≥ 10 ^ d
    · rw [if_neg a, if_pos b, if_pos (h.mpr (Or.inr b))]
    · have : ¬ ((ebcdic_EncodeLength_guards maxLen n d).any id = true) := fun hh => by
        rcases h.mp hh with x | x <;> contradiction
      rw [if_neg a, if_neg b, if_neg this]

theorem ebcdic1047_enc_iff (maxLen n d : Nat) (hd : 1 ≤ d) :
    (ebcdic1047_EncodeLength_guards maxLen n d).any id = true ↔ (n > maxLen ∨ n ≥ 10 ^ d) := by
  have hi := itoaLen_gt_iff n d hd
  unfold ebcdic1047_EncodeLength_guards
  guards_to_prop
  constructor
  · intro h
    rcases (show ((n : Int) > (maxLen : Int)) ∨ (itoaLen (n : Int) > (d : Int)) by omega) with h1 | h1
    · exact Or.inl (by omega)
    · exact Or.inr (hi.mp h1)
  · intro h
    rcases h with h | h
    · have : (n : Int) > (maxLen : Int) := by omega
      omega
    · have := hi.mpr h
      omega

/-- `ebcdic1047` variable-length prefixer, `EncodeLength` -/
theorem ebcdic1047_encodeLength_guarded (maxLen n d : Nat) (hd : 1 ≤ d) :
    encodeLength (.var .ebcdic1047 d) maxLen n =
      if (ebcdic1047_EncodeLength_guards maxLen n d).any id then .err else Enc.encode .ebcdic1047 (decString d n) := by
  have h := ebcdic1047_enc_iff maxLen n d hd
  simp only [encodeLength]
  by_cases a : n > maxLen
  · rw [if_pos a, if_pos (h.mpr (Or.inl a))]
  · by_cases b : n ≥ 10 ^ d
    · rw [if_neg a, if_pos b, if_pos (h.mpr (Or.inr b))]
    · have : ¬ ((ebcdic1047_EncodeLength_guards maxLen n d).any id = true) := fun hh => by
        rcases h.mp hh with x | x <;> contradiction
      rw [if_neg a, if_neg b, if_neg this]

theorem bcd_enc_iff (maxLen n d : Nat) (hd : 1 ≤ d) :
    (bcd_EncodeLength_guards maxLen n d).any id = true ↔ (n > maxLen ∨ n ≥ 10 ^ d) := by
  have hi := itoaLen_gt_iff n d hd
  unfold bcd_EncodeLength_guards
  guards_to_prop
  constructor
  · intro h
    rcases (show ((n : Int) > (maxLen : Int)) ∨ (itoaLen (n : Int) > (d : Int)) by omega) with h1 | h1
    · exact Or.inl (by omega)
    · exact Or.inr (hi.mp h1)
  · intro h
    rcases h with h | h
    · have : (n : Int) > (maxLen : Int) := by omega
      omega
    · have := hi.mpr h
      omega

/-- `bcd` variable-length prefixer, `EncodeLength` -/
theorem bcd_encodeLength_guarded (maxLen n d : Nat) (hd : 1 ≤ d) :
    encodeLength (.var .bcd d) maxLen n =
      if (bcd_EncodeLength_guards maxLen n d).any id then .err else Enc.encode .bcd (decString d n) := by
  have h := bcd_enc_iff maxLen n d hd
  simp only [encodeLength]
  by_cases a : n > maxLen
  · rw [if_pos a, if_pos (h.mpr (Or.inl a))]
  · by_cases b : n ≥ 10 ^ d
    · rw [if_neg a, if_pos b, if_pos (h.mpr (Or.inr b))]
    · have : ¬ ((bcd_EncodeLength_guards maxLen n d).any id = true) := fun hh => by
        rcases h.mp hh with x | x <;> contradiction
      rw [if_neg a, if_neg b, if_neg this]

/-! ### decimal prefixers: DecodeLength -/

/-- the model's `finishDec` once the digits have been read as the number `v` -/
theorem finishDec_model (maxLen : Nat) (ds : Bytes) (read : Nat) (v : Int) (ha : atoi? ds = some v) :
    finishDec maxLen ds read = if (v < 0 ∨ v > (maxLen : Int)) then .err else .ok (v.toNat, read) := by
  simp only [finishDec, ha]
  by_cases hv : v < 0
  · simp [hv]
  · have : (v.toNat > maxLen) ↔ (v > (maxLen : Int)) := by omega
    by_cases hm : v.toNat > maxLen
    · simp [hv, hm, this.mp hm]
    · have h2 : ¬ (v > (maxLen : Int)) := fun h => hm (this.mpr h)
      simp [hv, hm, h2]

theorem ascii_dec_iff (maxLen dlen d : Nat) (v : Int) :
    (ascii_DecodeLength_guards maxLen dlen d v).any id = true ↔ (dlen < d ∨ v < 0 ∨ v > (maxLen : Int)) := by
  unfold ascii_DecodeLength_guards; guards_to_prop <;> guards_done
theorem ebcdic_dec_iff (maxLen dlen d : Nat) (v : Int) :
    (ebcdic_DecodeLength_guards maxLen dlen d v).any id = true ↔ (dlen < d ∨ v < 0 ∨ v > (maxLen : Int)) := by
  unfold ebcdic_DecodeLength_guards; guards_to_prop <;> guards_done
theorem ebcdic1047_dec_iff (maxLen dlen d : Nat) (v : Int) :
    (ebcdic1047_DecodeLength_guards maxLen dlen d v).any id = true ↔ (dlen < d ∨ v < 0 ∨ v > (maxLen : Int)) := by
  unfold ebcdic1047_DecodeLength_guards; guards_to_prop <;> guards_done
theorem bcd_dec_iff (maxLen dlen d : Nat) (v : Int) :
    (bcd_DecodeLength_guards maxLen dlen d v).any id = true ↔ (dlen < (d + 1) / 2 ∨ v > (maxLen : Int)) := by
  unfold bcd_DecodeLength_guards; guards_to_prop <;> guards_done

/-- shared shape of the decimal decoders: too short, or what `finishDec` refuses -/
theorem dec_decode_shape (maxLen width read dlen : Nat) (ds : Bytes) (v : Int) (ha : atoi? ds = some v)
    (g : Bool) (hg : g = true ↔ (dlen < width ∨ v < 0 ∨ v > (maxLen : Int))) :
    (if dlen < width then (.err : Res (Nat × Nat)) else finishDec maxLen ds read) =
      if g then .err else .ok (v.toNat, read) := by
  rw [finishDec_model maxLen ds read v ha]
  by_cases hl : dlen < width
  · rw [if_pos hl, if_pos (hg.mpr (Or.inl hl))]
  · by_cases hv : v < 0 ∨ v > (maxLen : Int)
    · rw [if_neg hl, if_pos hv, if_pos (hg.mpr (by rcases hv with h | h; exact Or.inr (Or.inl h); exact Or.inr (Or.inr h)))]
    · have : ¬ (g = true) := fun h => by
        rcases hg.mp h with x | x | x
        · exact hl x
        · exact hv (Or.inl x)
        · exact hv (Or.inr x)
      rw [if_neg hl, if_neg hv, if_neg this]

/-- `asciiVarPrefixer.DecodeLength` -/
theorem ascii_decodeLength_guarded (maxLen d : Nat) (data : Bytes) (v : Int)
    (ha : atoi? (data.take d) = some v) :
    decodeLength (.var .ascii d) maxLen data =
      if (ascii_DecodeLength_guards maxLen data.length d v).any id then .err else .ok (v.toNat, d) := by
  simp only [decodeLength]
  exact dec_decode_shape maxLen d d data.length _ v ha _ (ascii_dec_iff maxLen data.length d v)

/-- `ebcdicVarPrefixer.DecodeLength` (after the EBCDIC decoder returned the digits `ds`) -/
theorem ebcdic_decodeLength_guarded (maxLen d : Nat) (data ds : Bytes) (r : Nat) (v : Int)
    (he : Enc.decode .ebcdic (data.take d) d = .ok (ds, r)) (ha : atoi? ds = some v) :
    decodeLength (.var .ebcdic d) maxLen data =
      if (ebcdic_DecodeLength_guards maxLen data.length d v).any id then .err else .ok (v.toNat, d) := by
  simp only [decodeLength, he]
  exact dec_decode_shape maxLen d d data.length _ v ha _ (ebcdic_dec_iff maxLen data.length d v)

/-- `ebcdic1047Prefixer.DecodeLength` -/
theorem ebcdic1047_decodeLength_guarded (maxLen d : Nat) (data ds : Bytes) (r : Nat) (v : Int)
    (he : Enc.decode .ebcdic1047 (data.take d) d = .ok (ds, r)) (ha : atoi? ds = some v) :
    decodeLength (.var .ebcdic1047 d) maxLen data =
      if (ebcdic1047_DecodeLength_guards maxLen data.length d v).any id then .err else .ok (v.toNat, d) := by
  simp only [decodeLength, he]
  exact dec_decode_shape maxLen d d data.length _ v ha _ (ebcdic1047_dec_iff maxLen data.length d v)

/-- `bcdVarPrefixer.DecodeLength`: `bcd.EncodedLen(d)` bytes are needed; BCD digits are never
negative, so the source has no sign check and the model's is vacuous (`0 ≤ v`) -/
theorem bcd_decodeLength_guarded (maxLen d : Nat) (data ds : Bytes) (r : Nat) (v : Int)
    (he : Enc.decode .bcd (data.take ((d + 1) / 2)) d = .ok (ds, r)) (ha : atoi? ds = some v) (hv : 0 ≤ v) :
    decodeLength (.var .bcd d) maxLen data =
      if (bcd_DecodeLength_guards maxLen data.length d v).any id then .err else .ok (v.toNat, (d + 1) / 2) := by
  simp only [decodeLength, he]
  refine dec_decode_shape maxLen ((d + 1) / 2) ((d + 1) / 2) data.length _ v ha _ ?_
  rw [bcd_dec_iff]
  constructor
  · rintro (h | h)
    · exact Or.inl h
    · exact Or.inr (Or.inr h)
  · rintro (h | h | h)
    · exact Or.inl h
    · omega
    · exact Or.inr h

/-! ### binary prefixers -/

theorem binary_enc_iff (maxLen n d reslen : Nat) :
    (binary_EncodeLength_guards maxLen n d reslen).any id = true ↔ (n > maxLen ∨ reslen > d) := by
  unfold binary_EncodeLength_guards; guards_to_prop <;> guards_done

/-- `binaryVarPrefixer.EncodeLength`: `len(res)` is the number of significant bytes -/
theorem binary_encodeLength_guarded (maxLen n d : Nat) :
    encodeLength (.var .binary d) maxLen n =
      if (binary_EncodeLength_guards maxLen n d (beBytes n).length).any id then .err
      else .ok (bytesOfNats (List.replicate (d - (beBytes n).length) 0 ++ beBytes n)) := by
  have h := binary_enc_iff maxLen n d (beBytes n).length
  simp only [encodeLength]
  by_cases a : n > maxLen
  · rw [if_pos a, if_pos (h.mpr (Or.inl a))]
  · by_cases b : (beBytes n).length > d
    · rw [if_neg a, if_pos b, if_pos (h.mpr (Or.inr b))]
    · have : ¬ ((binary_EncodeLength_guards maxLen n d (beBytes n).length).any id = true) := fun hh => by
        rcases h.mp hh with x | x <;> contradiction
      rw [if_neg a, if_neg b, if_neg this]

theorem maxInt_val : (maxInt : Int) = 9223372036854775807 := by
  unfold maxInt; decide

theorem binary_dec_iff (maxLen dlen d v : Nat) :
    ((binary_DecodeLength_guards maxLen dlen d v).any id || (binary_bytesToInt_guards v).any id) = true ↔
      (dlen < d ∨ v > maxInt ∨ v > maxLen) := by
  have hm := maxInt_val
  unfold binary_DecodeLength_guards binary_bytesToInt_guards
  guards_to_prop <;> guards_done

/-- `binaryVarPrefixer.DecodeLength` with `bytesToInt`: the prefix bytes as a big-endian number `v` -/
theorem binary_decodeLength_guarded (maxLen d : Nat) (data : Bytes) :
    decodeLength (.var .binary d) maxLen data =
      if (binary_DecodeLength_guards maxLen data.length d (beValue (data.take d))).any id ||
         (binary_bytesToInt_guards (beValue (data.take d))).any id
      then .err else .ok (beValue (data.take d), d) := by
  have h := binary_dec_iff maxLen data.length d (beValue (data.take d))
  simp only [decodeLength]
  by_cases a : data.length < d
  · rw [if_pos a, if_pos (h.mpr (Or.inl a))]
  · by_cases b : beValue (data.take d) > maxInt
    · rw [if_neg a, if_pos b, if_pos (h.mpr (Or.inr (Or.inl b)))]
    · by_cases c : beValue (data.take d) > maxLen
      · rw [if_neg a, if_neg b, if_pos c, if_pos (h.mpr (Or.inr (Or.inr c)))]
      · have : ¬ (((binary_DecodeLength_guards maxLen data.length d (beValue (data.take d))).any id ||
            (binary_bytesToInt_guards (beValue (data.take d))).any id) = true) := fun hh => by
          rcases h.mp hh with x | x | x <;> contradiction
        rw [if_neg a, if_neg b, if_neg c, if_neg this]

/-! ### hex prefixers -/

theorem hex_enc_iff (maxLen n d : Nat) :
    (hex_EncodeLength_guards maxLen n d).any id = true ↔ (n > maxLen ∨ n > 2 ^ (d * 8) - 1) := by
  have h1 : ((d : Int) * 8).toNat = d * 8 := by omega
  have hp : 1 ≤ 2 ^ (d * 8) := Nat.one_le_two_pow
  have hc : ((2 : Int) ^ (d * 8)) = ((2 ^ (d * 8) : Nat) : Int) := by
    rw [Int.natCast_pow]; rfl
  unfold hex_EncodeLength_guards
  simp only [h1, hc]
  guards_to_prop <;> guards_done

/-- `hexVarPrefixer.EncodeLength` -/
theorem hex_encodeLength_guarded (maxLen n d : Nat) :
    encodeLength (.var .hex d) maxLen n =
      if (hex_EncodeLength_guards maxLen n d).any id then .err
      else .ok ((fixedHex (2 * d) n).map hexDigitUpper) := by
  have h := hex_enc_iff maxLen n d
  simp only [encodeLength]
  by_cases a : n > maxLen
  · rw [if_pos a, if_pos (h.mpr (Or.inl a))]
  · by_cases b : n > 2 ^ (d * 8) - 1
    · rw [if_neg a, if_pos b, if_pos (h.mpr (Or.inr b))]
    · have : ¬ ((hex_EncodeLength_guards maxLen n d).any id = true) := fun hh => by
        rcases h.mp hh with x | x <;> contradiction
      rw [if_neg a, if_neg b, if_neg this]

theorem hex_dec_iff (maxLen dlen d v : Nat) :
    (hex_DecodeLength_guards maxLen dlen d v).any id = true ↔ (dlen < 2 * d ∨ v > maxLen) := by
  unfold hex_DecodeLength_guards; guards_to_prop <;> guards_done

/-- `hexVarPrefixer.DecodeLength` (after `strconv.ParseUint` read the digits `ds`) -/
theorem hex_decodeLength_guarded (maxLen d : Nat) (data : Bytes) (ds : List Nat)
    (hp : mapM? hexVal? (data.take (2 * d)) = some ds) :
    decodeLength (.var .hex d) maxLen data =
      if (hex_DecodeLength_guards maxLen data.length d (ofDigits 16 ds)).any id then .err
      else .ok (ofDigits 16 ds, 2 * d) := by
  have h := hex_dec_iff maxLen data.length d (ofDigits 16 ds)
  simp only [decodeLength]
  by_cases a : data.length < 2 * d
  · rw [if_pos a, if_pos (h.mpr (Or.inl a))]
  · rw [if_neg a]
    simp only [hp]
    by_cases c : ofDigits 16 ds > maxLen
    · rw [if_pos c, if_pos (h.mpr (Or.inr c))]
    · have : ¬ ((hex_DecodeLength_guards maxLen data.length d (ofDigits 16 ds)).any id = true) := fun hh => by
        rcases h.mp hh with x | x <;> contradiction
      rw [if_neg c, if_neg this]

/-! ### BER-TLV -/

theorem ber_enc_guards_iff (maxLen n : Nat) :
    (ber_EncodeLength_guards maxLen n).any id = true ↔ (maxLen ≠ 0 ∧ n > maxLen) := by
  unfold ber_EncodeLength_guards; guards_to_prop <;> guards_done

theorem ber_enc_exits_iff (maxLen n : Nat) (hg : ¬ (maxLen ≠ 0 ∧ n > maxLen)) :
    (ber_EncodeLength_exits maxLen n).any id = true ↔ n ≤ 127 := by
  unfold ber_EncodeLength_exits; guards_to_prop <;> guards_done

/-- `berTLVPrefixer.EncodeLength`: the maximum check (disabled by `maxLen = 0`), then the short
form up to 127 -/
theorem ber_encodeLength_guarded (maxLen n : Nat) :
    encodeLength .berTLV maxLen n =
      if (ber_EncodeLength_guards maxLen n).any id then .err
      else if (ber_EncodeLength_exits maxLen n).any id then .ok [UInt8.ofNat n]
      else .ok (UInt8.ofNat (128 + (beBytes n).length) :: bytesOfNats (beBytes n)) := by
  have h := ber_enc_guards_iff maxLen n
  simp only [encodeLength]
  by_cases a : maxLen ≠ 0 ∧ n > maxLen
  · rw [if_pos a, if_pos (h.mpr a)]
  · have h2 := ber_enc_exits_iff maxLen n a
    rw [if_neg a, if_neg (fun x => a (h.mp x))]
    by_cases b : n ≤ 127
    · rw [if_pos b, if_pos (h2.mpr b)]
    · rw [if_neg b, if_neg (fun x => b (h2.mp x))]

theorem ber_dec_iff (maxLen first v : Nat) :
    (ber_DecodeLength_guards maxLen first v).any id = true ↔
      ((first < 128 ∧ maxLen ≠ 0 ∧ first > maxLen) ∨ v > maxInt ∨ (maxLen ≠ 0 ∧ v > maxLen)) := by
  have hm := maxInt_val
  unfold ber_DecodeLength_guards; guards_to_prop <;> guards_done

/-- `berTLVPrefixer.DecodeLength`, short form -/
theorem ber_decodeLength_short_guarded (maxLen : Nat) (first : Byte) (rest : Bytes) (h : first.toNat < 128) :
    decodeLength .berTLV maxLen (first :: rest) =
      if (ber_DecodeLength_guards maxLen first.toNat (0 : Nat)).any id then .err else .ok (first.toNat, 1) := by
  have hi := ber_dec_iff maxLen first.toNat 0
  simp only [decodeLength, h, if_true]
  by_cases a : maxLen ≠ 0 ∧ first.toNat > maxLen
  · rw [if_pos a, if_pos (hi.mpr (Or.inl ⟨h, a.1, a.2⟩))]
  · have : ¬ ((ber_DecodeLength_guards maxLen first.toNat (0 : Nat)).any id = true) := fun hh => by
      rcases hi.mp hh with ⟨_, x, y⟩ | x | ⟨_, x⟩
      · exact a ⟨x, y⟩
      · have : (0 : Nat) ≤ maxInt := Nat.zero_le _
        omega
      · omega
    rw [if_neg a, if_neg this]

/-- `berTLVPrefixer.DecodeLength`, long form with all `k` length bytes present: `v` is their value -/
theorem ber_decodeLength_long_guarded (maxLen : Nat) (first : Byte) (rest : Bytes) (h : ¬ first.toNat < 128)
    (hk : ¬ rest.length < first.toNat - 128) :
    decodeLength .berTLV maxLen (first :: rest) =
      if (ber_DecodeLength_guards maxLen first.toNat (beValue (rest.take (first.toNat - 128)))).any id
      then .err else .ok (beValue (rest.take (first.toNat - 128)), 1 + (first.toNat - 128)) := by
  have hi := ber_dec_iff maxLen first.toNat (beValue (rest.take (first.toNat - 128)))
  simp only [decodeLength, h, if_false, hk]
  by_cases b : beValue (rest.take (first.toNat - 128)) > maxInt
  · rw [if_pos b, if_pos (hi.mpr (Or.inr (Or.inl b)))]
  · by_cases c : maxLen ≠ 0 ∧ beValue (rest.take (first.toNat - 128)) > maxLen
    · rw [if_neg b, if_pos c, if_pos (hi.mpr (Or.inr (Or.inr c)))]
    · have : ¬ ((ber_DecodeLength_guards maxLen first.toNat (beValue (rest.take (first.toNat - 128)))).any id = true) :=
        fun hh => by
          rcases hi.mp hh with ⟨x, _⟩ | x | x
          · exact h x
          · exact b x
          · exact c x
      rw [if_neg b, if_neg c, if_neg this]

/-! non-vacuity -/
example : (ascii_EncodeLength_guards 999 99 2).any id = false ∧ (ascii_EncodeLength_guards 999 100 2).any id = true ∧
    (ascii_EncodeLength_guards 50 60 2).any id = true := by decide
example : (ber_EncodeLength_exits 0 127).any id = true ∧ (ber_EncodeLength_exits 0 128).any id = false := by decide

end Iso8583.GuardsPrefix
