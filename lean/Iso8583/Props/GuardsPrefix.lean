/-
C06 / C08, decision logic tied by TRANSLATION: `Gen/GuardsPrefix.lean` holds the conditions
under which `EncodeLength` / `DecodeLength` of the variable-length prefixers and of BER-TLV
return an error (and take the short form), rendered from the function bodies of /repo/prefix/*.go
on every run (harness/cmd/extract/guards.go). For every maximum, length, digit count and input
the hand-written model (`Model/Prefix.lean`) takes exactly those decisions: its result is the
error exactly when one of the source's integer conditions holds — or the call the source checks
(`err != nil`) fails —, and otherwise the value the model computes.

The model works over `Nat` (lengths, maxima and digit counts are non-negative Go ints), the
translated conditions over `Int`; `len(strconv.Itoa(n))` is `GuardFns.itoaLen`
(`itoaLen_gt_iff`: more than `d` digits iff `n ≥ 10^d`).
-/
import Iso8583.Gen.GuardsPrefix
import Iso8583.Model.Prefix
import Iso8583.Lemmas.GuardFns

namespace Iso8583.GuardsPrefix
open Iso8583 Iso8583.Gen.Guards Iso8583.GuardFns Pref

/-- the meaning given to `len(strconv.Itoa(n))` in the translated conditions is the length of the
model's own `strconv.Itoa` (`formatInt`, tied to the code by the correspondence channels) -/
theorem itoaLen_is_model_itoa_length (n : Int) : itoaLen n = ((formatInt n).length : Int) :=
  itoaLen_eq_formatInt_length n

theorem cast_gt (a b : Nat) : ((a : Int) > (b : Int)) ↔ a > b := by omega
theorem cast_lt (a b : Nat) : ((a : Int) < (b : Int)) ↔ a < b := by omega

/-! ### decimal prefixers: EncodeLength -/

theorem dec_guards_iff (guards : Int → Int → Int → List Bool) (maxLen n d : Nat) (hd : 1 ≤ d)
    (hg : guards maxLen n d = [decide ((n : Int) > (maxLen : Int)), decide (itoaLen (n : Int) > (d : Int))]) :
    (guards maxLen n d).any id = true ↔ (n > maxLen ∨ n ≥ 10 ^ d) := by
  rw [hg]
  simp only [List.any_cons, List.any_nil, id, Bool.or_false, Bool.or_eq_true, decide_eq_true_eq,
    cast_gt, itoaLen_gt_iff n d hd]

/-- `asciiVarPrefixer.EncodeLength` -/
theorem ascii_encodeLength_guarded (maxLen n d : Nat) (hd : 1 ≤ d) :
    encodeLength (.var .ascii d) maxLen n =
      if (ascii_EncodeLength_guards maxLen n d).any id then .err else .ok (decString d n) := by
  have h := dec_guards_iff ascii_EncodeLength_guards maxLen n d hd rfl
  simp only [encodeLength]
  by_cases a : n > maxLen
  · simp [a, h.mpr (Or.inl a)]
  · by_cases b : n ≥ 10 ^ d
    · simp [a, b, h.mpr (Or.inr b)]
    · have : ¬ ((ascii_EncodeLength_guards maxLen n d).any id = true) := fun hh => by
        rcases h.mp hh with x | x <;> contradiction
      simp [a, b, this]

/-- `ebcdicVarPrefixer.EncodeLength` (the remaining error is that of the EBCDIC encoder) -/
theorem ebcdic_encodeLength_guarded (maxLen n d : Nat) (hd : 1 ≤ d) :
    encodeLength (.var .ebcdic d) maxLen n =
      if (ebcdic_EncodeLength_guards maxLen n d).any id then .err else Enc.encode .ebcdic (decString d n) := by
  have h := dec_guards_iff ebcdic_EncodeLength_guards maxLen n d hd rfl
  simp only [encodeLength]
  by_cases a : n > maxLen
  · simp [a, h.mpr (Or.inl a)]
  · by_cases b : n ≥ 10 ^ d
    · simp [a, b, h.mpr (Or.inr b)]
    · have : ¬ ((ebcdic_EncodeLength_guards maxLen n d).any id = true) := fun hh => by
        rcases h.mp hh with x | x <;> contradiction
      simp [a, b, this]

/-- `ebcdic1047Prefixer.EncodeLength` -/
theorem ebcdic1047_encodeLength_guarded (maxLen n d : Nat) (hd : 1 ≤ d) :
    encodeLength (.var .ebcdic1047 d) maxLen n =
      if (ebcdic1047_EncodeLength_guards maxLen n d).any id then .err
      else Enc.encode .ebcdic1047 (decString d n) := by
  have h := dec_guards_iff ebcdic1047_EncodeLength_guards maxLen n d hd rfl
  simp only [encodeLength]
  by_cases a : n > maxLen
  · simp [a, h.mpr (Or.inl a)]
  · by_cases b : n ≥ 10 ^ d
    · simp [a, b, h.mpr (Or.inr b)]
    · have : ¬ ((ebcdic1047_EncodeLength_guards maxLen n d).any id = true) := fun hh => by
        rcases h.mp hh with x | x <;> contradiction
      simp [a, b, this]

/-- `bcdVarPrefixer.EncodeLength` -/
theorem bcd_encodeLength_guarded (maxLen n d : Nat) (hd : 1 ≤ d) :
    encodeLength (.var .bcd d) maxLen n =
      if (bcd_EncodeLength_guards maxLen n d).any id then .err else Enc.encode .bcd (decString d n) := by
  have h := dec_guards_iff bcd_EncodeLength_guards maxLen n d hd rfl
  simp only [encodeLength]
  by_cases a : n > maxLen
  · simp [a, h.mpr (Or.inl a)]
  · by_cases b : n ≥ 10 ^ d
    · simp [a, b, h.mpr (Or.inr b)]
    · have : ¬ ((bcd_EncodeLength_guards maxLen n d).any id = true) := fun hh => by
        rcases h.mp hh with x | x <;> contradiction
      simp [a, b, this]

/-! ### decimal prefixers: DecodeLength -/

/-- what the source's three conditions decide, once the digits have been read as the number `v` -/
theorem finishDec_guarded (maxLen : Nat) (ds : Bytes) (read dlen digits : Nat) (v : Int)
    (ha : atoi? ds = some v) (hlen : ¬ dlen < digits) :
    finishDec maxLen ds read =
      if ([decide ((dlen : Int) < (digits : Int)), decide (v < 0), decide (v > (maxLen : Int))]).any id
      then .err else .ok (v.toNat, read) := by
  have h0 : ¬ ((dlen : Int) < (digits : Int)) := by omega
  simp only [finishDec, ha, List.any_cons, List.any_nil, id, Bool.or_false, Bool.or_eq_true,
    decide_eq_true_eq, h0, false_or]
  by_cases hv : v < 0
  · simp [hv]
  · have : (v.toNat > maxLen) ↔ (v > (maxLen : Int)) := by omega
    by_cases hm : v.toNat > maxLen
    · simp [hv, hm, this.mp hm]
    · have : ¬ (v > (maxLen : Int)) := fun h => hm (this.mpr h)
      simp [hv, hm, this]

/-- `asciiVarPrefixer.DecodeLength` -/
theorem ascii_decodeLength_guarded (maxLen d : Nat) (data : Bytes) (v : Int)
    (ha : atoi? (data.take d) = some v) :
    decodeLength (.var .ascii d) maxLen data =
      if (ascii_DecodeLength_guards maxLen data.length d v).any id then .err else .ok (v.toNat, d) := by
  simp only [decodeLength]
  by_cases hl : data.length < d
  · have : ((data.length : Int) < (d : Int)) := by omega
    simp [hl, ascii_DecodeLength_guards, this]
  · simp only [hl, if_false]
    exact finishDec_guarded maxLen _ d data.length d v ha hl

/-- `ebcdicVarPrefixer.DecodeLength` (after the EBCDIC decoder returned the digits `ds`) -/
theorem ebcdic_decodeLength_guarded (maxLen d : Nat) (data ds : Bytes) (r : Nat) (v : Int)
    (he : Enc.decode .ebcdic (data.take d) d = .ok (ds, r)) (ha : atoi? ds = some v) :
    decodeLength (.var .ebcdic d) maxLen data =
      if (ebcdic_DecodeLength_guards maxLen data.length d v).any id then .err else .ok (v.toNat, d) := by
  simp only [decodeLength]
  by_cases hl : data.length < d
  · have : ((data.length : Int) < (d : Int)) := by omega
    simp [hl, ebcdic_DecodeLength_guards, this]
  · simp only [hl, if_false, he]
    exact finishDec_guarded maxLen _ d data.length d v ha hl

/-- `ebcdic1047Prefixer.DecodeLength` -/
theorem ebcdic1047_decodeLength_guarded (maxLen d : Nat) (data ds : Bytes) (r : Nat) (v : Int)
    (he : Enc.decode .ebcdic1047 (data.take d) d = .ok (ds, r)) (ha : atoi? ds = some v) :
    decodeLength (.var .ebcdic1047 d) maxLen data =
      if (ebcdic1047_DecodeLength_guards maxLen data.length d v).any id then .err else .ok (v.toNat, d) := by
  simp only [decodeLength]
  by_cases hl : data.length < d
  · have : ((data.length : Int) < (d : Int)) := by omega
    simp [hl, ebcdic1047_DecodeLength_guards, this]
  · simp only [hl, if_false, he]
    exact finishDec_guarded maxLen _ d data.length d v ha hl

/-- `bcdVarPrefixer.DecodeLength`: `bcd.EncodedLen(d)` bytes are needed; BCD digits are never
negative, so the source has no sign check and the model's is vacuous (`0 ≤ v`) -/
theorem bcd_decodeLength_guarded (maxLen d : Nat) (data ds : Bytes) (r : Nat) (v : Int)
    (he : Enc.decode .bcd (data.take ((d + 1) / 2)) d = .ok (ds, r)) (ha : atoi? ds = some v) (hv : 0 ≤ v) :
    decodeLength (.var .bcd d) maxLen data =
      if (bcd_DecodeLength_guards maxLen data.length d v).any id then .err else .ok (v.toNat, (d + 1) / 2) := by
  simp only [decodeLength]
  have hc : ((data.length : Int) < ((d : Int) + 1) / 2) ↔ data.length < (d + 1) / 2 := by omega
  by_cases hl : data.length < (d + 1) / 2
  · simp [hl, bcd_DecodeLength_guards, hc.mpr hl]
  · simp only [hl, if_false, he, finishDec, ha, bcd_DecodeLength_guards, List.any_cons, List.any_nil, id,
      Bool.or_false, Bool.or_eq_true, decide_eq_true_eq]
    have h1 : ¬ ((data.length : Int) < ((d : Int) + 1) / 2) := fun h => hl (hc.mp h)
    have h2 : ¬ (v < 0) := by omega
    have h3 : (v.toNat > maxLen) ↔ (v > (maxLen : Int)) := by omega
    by_cases hm : v.toNat > maxLen
    · simp [h1, h2, hm, h3.mp hm]
    · have : ¬ (v > (maxLen : Int)) := fun h => hm (h3.mpr h)
      simp [h1, h2, hm, this]

/-! ### binary prefixers -/

/-- `binaryVarPrefixer.EncodeLength`: `len(res)` is the number of significant bytes -/
theorem binary_encodeLength_guarded (maxLen n d : Nat) :
    encodeLength (.var .binary d) maxLen n =
      if (binary_EncodeLength_guards maxLen n d (beBytes n).length).any id then .err
      else .ok (bytesOfNats (List.replicate (d - (beBytes n).length) 0 ++ beBytes n)) := by
  simp only [encodeLength, binary_EncodeLength_guards, List.any_cons, List.any_nil, id, Bool.or_false,
    Bool.or_eq_true, decide_eq_true_eq, cast_gt]
  by_cases a : n > maxLen
  · simp [a]
  · by_cases b : (beBytes n).length > d
    · simp [a, b]
    · simp [a, b]

theorem maxInt_val : (maxInt : Int) = 9223372036854775807 := by
  unfold maxInt; decide

/-- `binaryVarPrefixer.DecodeLength` with `bytesToInt`: the prefix bytes as a big-endian number `v` -/
theorem binary_decodeLength_guarded (maxLen d : Nat) (data : Bytes) :
    decodeLength (.var .binary d) maxLen data =
      if (binary_DecodeLength_guards maxLen data.length d (beValue (data.take d))).any id ||
         (binary_bytesToInt_guards (beValue (data.take d))).any id
      then .err else .ok (beValue (data.take d), d) := by
  have hm : ((beValue (data.take d) : Int) > 9223372036854775807) ↔ beValue (data.take d) > maxInt := by
    rw [← maxInt_val]; omega
  simp only [decodeLength, binary_DecodeLength_guards, binary_bytesToInt_guards, List.any_cons, List.any_nil, id,
    Bool.or_false, Bool.or_eq_true, decide_eq_true_eq, cast_gt, cast_lt, hm]
  by_cases a : data.length < d
  · simp [a]
  · by_cases b : beValue (data.take d) > maxInt
    · simp [a, b]
    · by_cases c : beValue (data.take d) > maxLen
      · simp [a, b, c]
      · simp [a, b, c]

/-! ### hex prefixers -/

theorem hex_bound_cast (n d : Nat) :
    ((n : Int) > (1 * 2 ^ ((d : Int) * 8).toNat - 1)) ↔ n > 2 ^ (d * 8) - 1 := by
  have h1 : ((d : Int) * 8).toNat = d * 8 := by omega
  rw [h1]
  have hp : 1 ≤ 2 ^ (d * 8) := Nat.one_le_two_pow
  have hc : ((2 : Int) ^ (d * 8)) = ((2 ^ (d * 8) : Nat) : Int) := by
    rw [Int.natCast_pow]; rfl
  rw [hc]
  omega

/-- `hexVarPrefixer.EncodeLength` -/
theorem hex_encodeLength_guarded (maxLen n d : Nat) :
    encodeLength (.var .hex d) maxLen n =
      if (hex_EncodeLength_guards maxLen n d).any id then .err
      else .ok ((fixedHex (2 * d) n).map hexDigitUpper) := by
  simp only [encodeLength, hex_EncodeLength_guards, List.any_cons, List.any_nil, id, Bool.or_false,
    Bool.or_eq_true, decide_eq_true_eq, cast_gt, hex_bound_cast]
  by_cases a : n > maxLen
  · simp [a]
  · by_cases b : n > 2 ^ (d * 8) - 1
    · simp [a, b]
    · simp [a, b]

/-- `hexVarPrefixer.DecodeLength` (after `strconv.ParseUint` read the digits `ds`) -/
theorem hex_decodeLength_guarded (maxLen d : Nat) (data : Bytes) (ds : List Nat)
    (hp : mapM? hexVal? (data.take (2 * d)) = some ds) :
    decodeLength (.var .hex d) maxLen data =
      if (hex_DecodeLength_guards maxLen data.length d (ofDigits 16 ds)).any id then .err
      else .ok (ofDigits 16 ds, 2 * d) := by
  have hc : ((data.length : Int) < (d : Int) * 2) ↔ data.length < 2 * d := by omega
  simp only [decodeLength, hex_DecodeLength_guards, List.any_cons, List.any_nil, id, Bool.or_false,
    Bool.or_eq_true, decide_eq_true_eq, cast_gt, hc]
  by_cases a : data.length < 2 * d
  · simp [a]
  · simp only [a, if_false, hp, false_or]

/-! ### BER-TLV -/

/-- `berTLVPrefixer.EncodeLength`: the maximum check (disabled by `maxLen = 0`), then the short
form up to 127 -/
theorem ber_encodeLength_guarded (maxLen n : Nat) :
    encodeLength .berTLV maxLen n =
      if (ber_EncodeLength_guards maxLen n).any id then .err
      else if (ber_EncodeLength_exits maxLen n).any id then .ok [UInt8.ofNat n]
      else .ok (UInt8.ofNat (128 + (beBytes n).length) :: bytesOfNats (beBytes n)) := by
  have h0 : ¬ ((n : Int) < 0) := by omega
  have h1 : ((maxLen : Int) ≠ 0) ↔ maxLen ≠ 0 := by omega
  have h2 : ((n : Int) ≤ 127) ↔ n ≤ 127 := by omega
  simp only [encodeLength, ber_EncodeLength_guards, ber_EncodeLength_exits, List.any_cons, List.any_nil, id,
    Bool.or_false, Bool.or_eq_true, Bool.and_eq_true, decide_eq_true_eq, cast_gt, h0, or_false, h1, h2]

/-- `berTLVPrefixer.DecodeLength`, short form -/
theorem ber_decodeLength_short_guarded (maxLen : Nat) (first : Byte) (rest : Bytes) (h : first.toNat < 128) :
    decodeLength .berTLV maxLen (first :: rest) =
      if (ber_DecodeLength_guards maxLen first.toNat 0).any id then .err else .ok (first.toNat, 1) := by
  have h1 : ((maxLen : Int) ≠ 0) ↔ maxLen ≠ 0 := by omega
  have h2 : ((first.toNat : Int) < 128) := by omega
  have h3 : ¬ ((0 : Int) > (maxLen : Int)) := by omega
  simp only [decodeLength, h, if_true, ber_DecodeLength_guards, List.any_cons, List.any_nil, id, Bool.or_false,
    Bool.or_eq_true, Bool.and_eq_true, decide_eq_true_eq, cast_gt, h1, h2, true_and, h3, and_false, or_false]
  simp

/-- `berTLVPrefixer.DecodeLength`, long form with all `k` length bytes present: `v` is their value -/
theorem ber_decodeLength_long_guarded (maxLen : Nat) (first : Byte) (rest : Bytes) (h : ¬ first.toNat < 128)
    (hk : ¬ rest.length < first.toNat - 128) :
    decodeLength .berTLV maxLen (first :: rest) =
      if (ber_DecodeLength_guards maxLen first.toNat (beValue (rest.take (first.toNat - 128)))).any id
      then .err else .ok (beValue (rest.take (first.toNat - 128)), 1 + (first.toNat - 128)) := by
  have h1 : ((maxLen : Int) ≠ 0) ↔ maxLen ≠ 0 := by omega
  have h2 : ¬ ((first.toNat : Int) < 128) := by omega
  have hm : ((beValue (rest.take (first.toNat - 128)) : Int) > 9223372036854775807) ↔
      beValue (rest.take (first.toNat - 128)) > maxInt := by
    rw [← maxInt_val]; omega
  have hm' : ((beValue (rest.take (first.toNat - 128)) : Int) ≤ 9223372036854775807) ↔
      ¬ beValue (rest.take (first.toNat - 128)) > maxInt := by
    rw [← maxInt_val]; omega
  simp only [decodeLength, h, if_false, hk, ber_DecodeLength_guards, List.any_cons, List.any_nil, id, Bool.or_false,
    Bool.or_eq_true, Bool.and_eq_true, Bool.not_eq_true', decide_eq_true_eq, decide_eq_false_iff_not, cast_gt,
    h1, h2, false_and, false_or, hm, hm']
  by_cases b : beValue (rest.take (first.toNat - 128)) > maxInt
  · simp [b]
  · by_cases c : maxLen ≠ 0 ∧ beValue (rest.take (first.toNat - 128)) > maxLen
    · simp [b, c]
    · simp [b, c]

/-! non-vacuity -/
example : (ascii_EncodeLength_guards 999 99 2).any id = false ∧ (ascii_EncodeLength_guards 999 100 2).any id = true ∧
    (ascii_EncodeLength_guards 50 60 2).any id = true := by decide
example : (ber_EncodeLength_exits 0 127).any id = true ∧ (ber_EncodeLength_exits 0 128).any id = false := by decide

end Iso8583.GuardsPrefix
