/-
C13 — The synchronized API of Message and Composite is race-free and linearizable.

Two halves, joined by `entry_points_satisfy_hypothesis`:

* **Static (regenerated facts).** `Gen.lockFacts` is produced on every run from
  /repo/message.go and /repo/field/composite.go (harness/cmd/extract/locks.go): one
  micro-step list per method. `all_entry_points_well_locked` decides the lock discipline
  of Model/Locks.lean (rules 1–5, also stated one by one so that a failure names the
  rule) for exactly the operations of Spec/SyncAPI.lean, and `structs_as_expected` pins
  the fields of the two structs (a new field must be classified first; no struct holds a
  pointer to a parent).
* **Semantic (all schedules).** For the interleaving semantics of Spec/Linearizable.lean
  — any number of threads, any programs made of well-locked operations, any interleaving
  of any length — `mutual_exclusion`, `no_conflicting_access`, `linearizable` and
  `deadlock_free` hold. `synchronized_api_linearizable` instantiates them with the
  bodies compiled from the regenerated facts.

NOT modelled (the claim is partial in these respects; the race-detector runs of
harness/racer support the tie and search for a failing schedule, they prove nothing):
* the Go memory model — the semantics is sequentially consistent and treats each
  micro-step as atomic; that data-race freedom lifts this to Go is the usual DRF argument,
  not proved here;
* `sync.Mutex` itself — assumed to give mutual exclusion, to be non-re-entrant and to be
  released only by `Unlock`;
* state reachable through returned pointers: `GetFields`/`GetSubfields`/`Bitmap` hand out
  live field objects, and field values set through them bypass the lock;
* calls that encoding/json makes into child fields by reflection (they happen inside the
  caller's critical section and only lock children);
* deadlock freedom across several objects is the checked syntactic lock order of rule (4)
  plus `structs_as_expected`; the semantics has one mutex;
* every path through a method body is abstracted by the body's micro-step list in source
  order: the theorems hold for every well-locked list, hence for every path that performs
  `lock` first and `unlock` on return (which `lockShape` checks: both at the top level of
  the body, the unlock deferred);
* the race detector's own coverage.
Exported getters outside the operation list (Message.GetField, GetString, GetBytes,
GetMTI) read `fields` without the lock; `unlockedOutsideList` computes that list from the
facts, it is recorded in the evidence note and is not part of the property.
-/
import Iso8583.Lemmas.Locks
import Iso8583.Model.Locks
import Iso8583.Spec.SyncAPI
import Iso8583.Gen.LockFacts

namespace Iso8583.C13
open Iso8583 Iso8583.Lin Iso8583.Locks

/-! ## Static half: the regenerated facts obey the discipline -/

/-- the regenerated table, parsed -/
def facts : List Method := Gen.lockFacts.map ofRow

theorem structs_as_expected : Gen.lockStructs = SyncAPI.expectedStructs := by decide +kernel

theorem rule1_lock_before_first_access :
    rule1 SyncAPI.guarded facts SyncAPI.entryPoints = true := by decide +kernel

theorem rule2_helpers_called_with_lock_held : rule2 SyncAPI.guarded facts = true := by decide +kernel

theorem rule3_no_self_deadlock : rule3 facts = true := by decide +kernel

theorem rule4_lock_order_follows_tree : rule4 SyncAPI.parentTypes facts = true := by decide +kernel

theorem rule5_unguarded_state_immutable :
    rule5 SyncAPI.guarded facts SyncAPI.entryPoints = true := by decide +kernel

theorem all_entry_points_well_locked :
    wellLocked SyncAPI.guarded SyncAPI.parentTypes facts SyncAPI.entryPoints = true := by decide +kernel

/-- `wellLocked` implies the hypothesis of the semantic theorems for every entry point -/
theorem wellLocked_sound {g : List (String × String)} {ps : List String} {tbl : List Method}
    {entries : List (String × String)} (h : wellLocked g ps tbl entries = true) :
    ∀ e ∈ entries, ∃ body, compile g tbl e = some body ∧ wlOp body = true := by
  intro e he
  have hc : compiledOK g tbl entries = true := by
    unfold wellLocked at h
    simp only [Bool.and_eq_true] at h
    exact h.2
  have := List.all_eq_true.mp hc e he
  cases hb : compile g tbl e with
  | none => simp [hb] at this
  | some b => exact ⟨b, rfl, by simpa [hb] using this⟩

theorem entry_points_satisfy_hypothesis :
    ∀ e ∈ SyncAPI.entryPoints, ∃ body, compile SyncAPI.guarded facts e = some body ∧ wlOp body = true :=
  wellLocked_sound all_entry_points_well_locked

/-- programs whose operations are bodies of entry points are well locked -/
theorem api_programs_well_locked (progs : Tid → List (List Instr))
    (h : ∀ t, ∀ b ∈ progs t, ∃ e ∈ SyncAPI.entryPoints, compile SyncAPI.guarded facts e = some b) :
    WellLocked progs := by
  intro t b hb
  obtain ⟨e, he, hc⟩ := h t b hb
  obtain ⟨b', hc', hw⟩ := entry_points_satisfy_hypothesis e he
  rw [hc] at hc'
  cases hc'
  exact hw

/-! ## Semantic half: all thread counts, all interleavings -/

variable {progs : Tid → List (List Instr)} {s : State}

/-- a thread is between its `lock` and its `unlock` iff it is the holder; so at most one
thread is; and the holder can be read off the log -/
theorem mutual_exclusion (hwl : WellLocked progs) (hr : Reachable progs s) :
    (∀ t, (s.th t).inCS = true ↔ s.holder = some t) ∧
    (∀ t u, (s.th t).inCS = true → (s.th u).inCS = true → t = u) ∧
    holderOfLog s.log = s.holder := by
  have hi := inv_reachable hwl hr
  refine ⟨fun t => (hi t).held, ?_, holderOfLog_reachable hr⟩
  intro t u ht hu
  have h1 := (hi t).held.mp ht
  have h2 := (hi u).held.mp hu
  rw [h1] at h2
  exact Option.some.inj h2

/-- no reachable state has two different threads both positioned at a guarded access
(so no two accesses to a guarded variable are ever concurrent: no data race) -/
theorem no_conflicting_access (hwl : WellLocked progs) (hr : Reachable progs s) (t u : Tid)
    (ht : (s.th t).atAccess = true) (hu : (s.th u).atAccess = true) : t = u := by
  have hi := inv_reachable hwl hr
  have key : ∀ t, (s.th t).atAccess = true → s.holder = some t := by
    intro t ht
    obtain ⟨past, v, w, r, hc⟩ := atAccess_cur ht
    obtain ⟨p, q, hp, hq, h1, h2⟩ := instr_facts hi hc
    rcases step_cases hq with ⟨h, _⟩ | ⟨h, _⟩ | ⟨_, _, _, h⟩
    · cases h
    · cases h
    · exact h2.mp (h1.mpr (h ⟨v, w, rfl⟩))
  have h1 := key t ht
  have h2 := key u hu
  rw [h1] at h2
  exact Option.some.inj h2

/-- In every execution (complete or not) critical sections do not overlap; each
operation acquires at most once; the guarded accesses of the whole execution are, in
order, those of the operations taken one at a time in lock-acquisition order (the
sequential witness); and that order extends real-time order: an operation that returned
before another was invoked also acquired the mutex before it. After a complete execution
the mutex is free. -/
theorem linearizable (hwl : WellLocked progs) (hr : Reachable progs s) :
    CSDisjoint s.log ∧ (acqOrder s.log).Nodup ∧ Serial s.log ∧ RealTime s.log ∧
    (Complete s → s.holder = none) := by
  refine ⟨csDisjoint_reachable hwl hr, acqNodup_reachable hwl hr, serial_reachable hwl hr,
    realTime_of (afterRet_reachable hr) (beforeInv_reachable hr), ?_⟩
  intro hc
  have hi := inv_reachable hwl hr
  cases hh : s.holder with
  | none => rfl
  | some t =>
    have := (hi t).held.mpr hh
    rw [inCS_none (hc t).1] at this
    cases this

/-- with one mutex and well-locked operations some thread can always move until every
thread has finished: no deadlock, in particular no self-deadlock by re-acquisition -/
theorem deadlock_free (hwl : WellLocked progs) (hr : Reachable progs s) (hnc : ¬ Complete s) :
    ∃ s', Step s s' := by
  have hi := inv_reachable hwl hr
  cases hh : s.holder with
  | some t =>
    have hin := (hi t).held.mpr hh
    cases hc : (s.th t).cur with
    | none => rw [inCS_none hc] at hin; cases hin
    | some pr =>
      obtain ⟨past, rest⟩ := pr
      obtain ⟨p, hp, hw⟩ := (hi t).cur _ _ hc
      have hpi := (inCS_iff hc hp).mp hin
      subst hpi
      cases rest with
      | nil => exact absurd rfl (wlFrom_nil hw)
      | cons i r =>
        obtain ⟨q, hq, _⟩ := wlFrom_cons hw
        refine ⟨_, Step.instr s t past i r hc ?_⟩
        cases i <;> simp_all [enabled, Phase.step]
  | none =>
    have : ∃ t, ¬ ((s.th t).cur = none ∧ (s.th t).todo = []) := by
      apply Classical.byContradiction
      intro h
      exact hnc (fun t => Classical.byContradiction fun h' => h ⟨t, h'⟩)
    obtain ⟨t, ht⟩ := this
    cases hc : (s.th t).cur with
    | none =>
      cases htd : (s.th t).todo with
      | nil => exact absurd ⟨hc, htd⟩ ht
      | cons b bs => exact ⟨_, Step.invoke s t b bs hc htd⟩
    | some pr =>
      obtain ⟨past, rest⟩ := pr
      cases rest with
      | nil => exact ⟨_, Step.ret s t past hc⟩
      | cons i r =>
        refine ⟨_, Step.instr s t past i r hc ?_⟩
        obtain ⟨p, q, hp, hq, h1, h2⟩ := instr_facts hi hc
        rcases step_cases hq with ⟨rfl, _⟩ | ⟨rfl, rfl, _⟩ | ⟨h3, h4, _⟩
        · simp [enabled, hh]
        · have := h2.mp (h1.mpr rfl); rw [hh] at this; cases this
        · cases i <;> simp_all [enabled]

/-- The property for the real API: any number of threads, each issuing any sequence of the
listed operations of one object (bodies compiled from the facts regenerated from /repo),
under any interleaving. -/
theorem synchronized_api_linearizable
    (h : ∀ t, ∀ b ∈ progs t, ∃ e ∈ SyncAPI.entryPoints, compile SyncAPI.guarded facts e = some b)
    (hr : Reachable progs s) :
    (∀ t u, (s.th t).atAccess = true → (s.th u).atAccess = true → t = u) ∧
    (∀ t, (s.th t).inCS = true ↔ s.holder = some t) ∧
    CSDisjoint s.log ∧ (acqOrder s.log).Nodup ∧ Serial s.log ∧ RealTime s.log ∧
    (¬ Complete s → ∃ s', Step s s') := by
  have hwl := api_programs_well_locked progs h
  have hl := linearizable hwl hr
  exact ⟨fun t u => no_conflicting_access hwl hr t u, (mutual_exclusion hwl hr).1,
    hl.1, hl.2.1, hl.2.2.1, hl.2.2.2.1, deadlock_free hwl hr⟩

/-! ## Non-vacuity -/

def opSet : List Instr := [.acq, .acc "fields" false, .acc "fieldsMap" true, .ext, .rel]
def opPack : List Instr := [.acq, .acc "fieldsMap" false, .acc "fields" false, .ext, .rel]

/-- thread 0 sets a field then packs, thread 1 packs -/
def progs2 : Tid → List (List Instr)
  | 0 => [opSet, opPack]
  | 1 => [opPack]
  | _ => []

/-- the hypothesis of the semantic theorems is satisfiable … -/
example : WellLocked progs2 := by
  intro t b hb
  match t with
  | 0 => simp only [progs2, List.mem_cons, List.not_mem_nil, or_false] at hb; rcases hb with rfl | rfl <;> decide
  | 1 => simp only [progs2, List.mem_cons, List.not_mem_nil, or_false] at hb; subst hb; decide
  | _ + 2 => simp [progs2] at hb

/-- … and there is a concrete interleaved execution: thread 1 is invoked and tries to
acquire while thread 0 is inside its critical section (its turns are skipped), acquires
after the release, and thread 0's second operation waits for it in turn -/
def sched2 : List Tid := [0, 0, 1, 1, 0, 1, 0, 0, 0, 1, 0, 1, 0, 1, 1, 1, 1, 0, 0, 0, 0, 0, 0, 0]

example : Reachable progs2 (runSched progs2 sched2) := runSched_reachable _ _

example : acqOrder (runSched progs2 sched2).log = [(0, 1), (1, 0), (0, 0)] := by decide +kernel

example : (runSched progs2 sched2).holder = none ∧
    ((runSched progs2 sched2).th 0).todo = [] ∧ ((runSched progs2 sched2).th 0).cur = none ∧
    ((runSched progs2 sched2).th 1).todo = [] ∧ ((runSched progs2 sched2).th 1).cur = none := by decide +kernel

/-- midway, thread 0 holds the mutex and thread 1 is stuck at its `acq` -/
example : (runSched progs2 (sched2.take 6)).holder = some 0 ∧
    ((runSched progs2 (sched2.take 6)).th 1).cur = some ([], opPack) := by decide +kernel

/-- the hypothesis matters: with an operation that writes `fieldsMap` without the lock
(UnsetFields before its repair) two threads do reach conflicting accesses -/
def progsBad : Tid → List (List Instr)
  | 0 => [[.acc "fieldsMap" true]]
  | 1 => [opSet]
  | _ => []

example : ∃ s, Reachable progsBad s ∧ (s.th 0).atAccess = true ∧ (s.th 1).atAccess = true :=
  ⟨runSched progsBad [0, 1, 1], runSched_reachable _ _, by decide +kernel, by decide +kernel⟩

/-- the bodies compiled from the real facts are of the assumed shape, e.g. UnsetFields -/
example : (compile SyncAPI.guarded facts ("Message", "UnsetFields")).map (fun b => (b.head?, b.getLast?, wlOp b))
    = some (some .acq, some .rel, true) := by decide +kernel

/-- the rules reject the defects they are meant to catch (hand-made tables) -/
example : rule1 SyncAPI.guarded [⟨"Message", "UnsetFields", true, [.read "fieldsMap", .call "unsetField"]⟩,
    ⟨"Message", "unsetField", false, [.write "fieldsMap"]⟩] [("Message", "UnsetFields")] = false := by decide

example : rule1 SyncAPI.guarded [⟨"Message", "Field", true, [.read "fields", .lock, .deferUnlock, .write "fieldsMap"]⟩]
    [("Message", "Field")] = false := by decide

example : rule2 SyncAPI.guarded [⟨"Message", "UnsetFields", true, [.call "unsetField"]⟩,
    ⟨"Message", "unsetField", false, [.write "fieldsMap"]⟩] = false := by decide

example : rule3 [⟨"Message", "GetFields", true, [.lock, .deferUnlock, .call "Bitmap"]⟩,
    ⟨"Message", "Bitmap", true, [.lock, .deferUnlock, .read "cachedBitmap"]⟩] = false := by decide

example : rule4 SyncAPI.parentTypes [⟨"Composite", "Pack", true, [.lock, .deferUnlock, .callOther "param" "Message" "Pack"]⟩]
    = false := by decide

example : rule5 SyncAPI.guarded [⟨"Composite", "Pack", true, [.lock, .deferUnlock, .write "spec"]⟩]
    [("Composite", "Pack")] = false := by decide

end Iso8583.C13
