/-
C04 — Decoding untrusted bytes never panics, hangs or over-allocates.

Property theorems (helper lemmas: Lemmas/NoPanic.lean). All of them quantify over every
spec — coherent or not, no `Coherent` hypothesis anywhere — every nesting depth and every
byte string. The model yields `panic` exactly where the Go runtime would (slice out of
range, index into an empty slice), so "never panics" is an ordinary theorem about it.

No theorem about panics needs a hypothesis on the spec. The two places that did (findings
KF5 and KF6, repaired in /repo and mirrored in the model) now return errors:

* a bitmap whose spec declares a non-`Fixed` prefixer can decode a zero-length block: the
  empty block is rejected before `decoded[0]` is looked at (`bitmap_unpack_zero_block_err`);
* a tagged composite with `Tag.Length = 0`, a non-BER tag decoder and a zero-width subfield
  keyed `""` reads neither tag nor value bytes: the element is rejected ("no data
  consumed"), so every continuing iteration of the TLV loop consumes at least one byte and
  the fuel-indexed model loop is the unbounded Go loop (`tlvLoop_fuel_enough`).

The fuel lemma of the TLV loop keeps one side condition that is about the model's `Pref`
type only: a *variable* unknown-tag prefixer with digit count 0 (`Pref.var f 0`) reads no
bytes and announces length 0. No such prefixer is exported by package `prefix` (digit
counts are 1..6, `C06.exported_var_digits`) or constructible outside it; the condition is
vacuous for tag length ≥ 1 and for BER tags, and `tlvLoop_fuel_enough_exported` discharges
it for every spec written with the exported prefixers.

Time and memory are proved as iteration counts and requested sizes of the model (ghost
functions), not as machine time or allocator behaviour.
-/
import Iso8583.Lemmas.NoPanic
import Iso8583.Props.C16

namespace Iso8583.C04
open Iso8583 Enc Pref

/-! ## 1. Encoders and prefixers -/

/-- **No value decoder panics**, for any data and any requested length (also negative). -/
theorem decode_no_panic (e : Enc) (d : Bytes) (n : Int) : Enc.decode e d n ≠ .panic :=
  decode_ne_panic e d n

/-- a decoder never claims more bytes than it was given, and returns at most two bytes
per byte consumed -/
theorem decode_read_le_out_le (e : Enc) (d v : Bytes) (n : Int) (r : Nat) (h : Enc.decode e d n = .ok (v, r)) :
    r ≤ d.length ∧ v.length ≤ 2 * r :=
  ⟨decode_read_le e d v n r h, decode_out_le e d v n r h⟩

/-- **No prefixer panics**, and the prefix it read lies inside the input (`C06.dec_range`). -/
theorem decodeLength_no_panic (p : Pref) (maxLen : Nat) (data : Bytes) :
    Pref.decodeLength p maxLen data ≠ .panic ∧
    ∀ m r, Pref.decodeLength p maxLen data = .ok (m, r) → r ≤ data.length :=
  ⟨decodeLength_ne_panic p maxLen data, fun m r h => decodeLength_read_le p maxLen data m r h⟩

/-! ## 2. Bitmap -/

/-- **The bitmap never panics**: every encoder, every prefixer (`Fixed` or not), every
block length (spec length 0 = default 8), both expansion modes, every input. -/
theorem bitmap_unpack_no_panic (enc : Enc) (pref : Pref) (bm : Bitmap) (data : Bytes) :
    Bitmap.unpack enc pref bm data ≠ .panic :=
  Bitmap.unpack_ne_panic enc pref bm data

/-- the input class of the repaired finding KF6 — the bitmap spec's prefixer yields block
length 0 and the encoder (any but the BER tag decoder) decodes an empty block — is an
error, in both expansion modes -/
theorem bitmap_unpack_zero_block_err (enc : Enc) (pref : Pref) (bm : Bitmap) (data : Bytes) (r : Nat)
    (he : enc ≠ .berTag) (hdl : Pref.decodeLength pref bm.blockLen data = .ok (0, r)) :
    Bitmap.unpack enc pref bm data = .err :=
  Bitmap.unpack_zero_block_err enc pref bm data r he hdl

/-- a successful bitmap unpack stayed inside its input; the bitmap has between 8 and
`16·read` bits -/
theorem bitmap_unpack_bounds (enc : Enc) (pref : Pref) (bm bm' : Bitmap) (data : Bytes) (read : Nat)
    (h : Bitmap.unpack enc pref bm data = .ok (bm', read)) :
    read ≤ data.length ∧ bm'.len ≤ 16 * read ∧ 8 ≤ bm'.len :=
  Bitmap.unpack_ok_bounds enc pref bm bm' data read h

/-! ## 3. Fields -/

/-- **bytes read ≤ bytes given**, for every field spec (any nesting) and input -/
theorem field_unpack_read_le (f : Field) (data : Bytes) (v : Value) (r : Nat)
    (h : f.unpack data = .ok (v, r)) : r ≤ data.length :=
  Field.unpack_read_le f data v r h

/-- **Primitive fields never panic**: every kind × encoder × prefixer × padder × packer -/
theorem prim_unpack_no_panic (s : PrimSpec) (data : Bytes) : (Field.prim s).unpack data ≠ .panic :=
  Field.unpack_ne_panic (.prim s) data

/-- **Field Unpack never panics** — every spec (coherent or not: any encoder with any
prefixer, `None` prefixes anywhere, any tag length, bitmaps with any prefixer, unknown-tag
skipping with any prefixer), every nesting depth, every input. Structural induction over
the spec tree through `tlvLoop` / `bitmapScan` / `unpackPositional` / `unpackTagged`. -/
theorem field_unpack_no_panic (f : Field) (data : Bytes) : f.unpack data ≠ .panic :=
  Field.unpack_ne_panic f data

/-- **SetBytes never panics** (primitive: parse the raw value; composite: unpack the
subfields from the whole input) -/
theorem field_setBytes_no_panic (f : Field) (data : Bytes) : f.setBytes data ≠ .panic := by
  cases f with
  | prim s =>
    simp only [Field.setBytes]
    split
    · simp
    · simp
    · rename_i h; exact absurd h (PrimSpec.setBytes_ne_panic s data)
  | comp s subs =>
    simp only [Field.setBytes]
    split
    · simp
    · simp
    · rename_i h
      exact absurd h (compBody_ne_panic s.mode subs data false (fun p _ => Field.unpack_ne_panic p.2))

/-! ## 4. Messages -/

/-- **Message Unpack never panics** — every message spec (no coherence: any MTI spec, any
ids, elements at continuation positions, any block length, any bitmap prefixer, both
expansion modes), every input. -/
theorem msg_unpack_no_panic (spec : MsgSpec) (src : Bytes) : spec.unpack src ≠ .panic :=
  MsgSpec.unpack_ne_panic spec src

/-- **Network header reads never panic** (all four headers, every fragmentation of the
stream): `C16.read_ne_panic` -/
theorem header_read_no_panic (h : Hdr) (cs : List Bytes) : Net.readFrom h cs ≠ .panic :=
  C16.read_ne_panic h cs

/-! ## 5. Termination and iteration counts

Termination of every model function is Lean's totality check. The data-driven loops carry
fuel; the lemmas below show the fuel is never the reason a loop stops, so the model's
loops are the unbounded Go loops, and they bound the iteration counts linearly. -/

/-- **Bitmap chain: fuel suffices** (unconditionally). From `rest.length + 1` on, more fuel
does not change the result: at most one iteration per input byte, plus one. -/
theorem bitmap_unpackLoop_fuel_enough (enc : Enc) (minLen : Nat) (auto : Bool) (fuel : Nat)
    (rest acc : Bytes) (read k : Nat) (hf : rest.length + 1 ≤ fuel) :
    Bitmap.unpackLoop enc minLen auto (fuel + k) rest acc read =
      Bitmap.unpackLoop enc minLen auto fuel rest acc read :=
  Bitmap.unpackLoop_fuel_mono enc minLen auto fuel rest acc read k hf

/-- **TLV loop: fuel suffices.** `.err []` is the loop's fuel-exhausted value — every other
error path carries a non-empty field path. With fuel `data.length - offset + 1` (what
`Field.unpack` passes: `body.length + 1` from offset 0) it is never returned and more fuel
changes nothing, for any dispatcher: every continuing iteration consumes ≥ 1 byte (a known
element that consumed nothing is rejected; a skipped element consumes its length prefix
or its value). `t.skipDigitsPos` only excludes the non-exported `Pref.var f 0` as
unknown-tag prefixer, and only matters when `Tag.Length = 0` with a non-BER decoder. -/
theorem tlvLoop_fuel_enough (t : TagSpec) (enc : Enc) (isBer : Bool) (known : Tag → Bool)
    (dispatch : Tag → Bytes → UR (Value × Nat)) (hp : enc = .berTag ∨ 1 ≤ t.len ∨ t.skipDigitsPos)
    (fuel : Nat) (data : Bytes) (offset : Nat) (acc : List (Tag × Value)) (hf : data.length - offset < fuel) :
    tlvLoop t enc isBer known dispatch fuel data offset acc ≠ .err [] ∧
    ∀ k, tlvLoop t enc isBer known dispatch (fuel + k) data offset acc =
      tlvLoop t enc isBer known dispatch fuel data offset acc :=
  ⟨Iso8583.tlvLoop_fuel_enough t enc isBer known dispatch hp fuel data offset acc hf,
   fun k => tlvLoop_fuel_mono t enc isBer known dispatch hp fuel data offset acc k hf⟩

/-- the same for every tag spec that can be written in Go: any tag length (0 included),
any tag decoder, and — if unknown tags are skipped with a prefixer — one of the exported
prefixers (the regenerated table of C06) -/
theorem tlvLoop_fuel_enough_exported (t : TagSpec) (enc : Enc) (isBer : Bool) (known : Tag → Bool)
    (dispatch : Tag → Bytes → UR (Value × Nat)) (hx : ∀ p, t.prefUnknown = some p → C06.Exported p)
    (fuel : Nat) (data : Bytes) (offset : Nat) (acc : List (Tag × Value)) (hf : data.length - offset < fuel) :
    tlvLoop t enc isBer known dispatch fuel data offset acc ≠ .err [] ∧
    ∀ k, tlvLoop t enc isBer known dispatch (fuel + k) data offset acc =
      tlvLoop t enc isBer known dispatch fuel data offset acc := by
  apply tlvLoop_fuel_enough t enc isBer known dispatch _ fuel data offset acc hf
  refine Or.inr (Or.inr ?_)
  intro f hf0
  have := (C06.exported_var_digits f 0 (hx _ hf0)).1
  omega

def zeroTagSpec : TagSpec :=
  { len := 0, enc := some .ascii, pad := .nil, sort := .strings, skipUnknown := false, prefUnknown := Option.none }

def zeroWidthSubs : List (Tag × Field) :=
  [([], .prim { kind := .string, len := 0, enc := .ascii, pref := .fixed .ascii, pad := .nil })]

/-- the input class of the repaired finding KF5 — `Tag.Length = 0`, the ASCII tag decoder
and a zero-width subfield keyed `""` — is rejected at the first element, whatever the
fuel: "no data consumed", attributed to the tag `""` -/
theorem tlvLoop_zero_progress_err (fuel : Nat) (acc : List (Tag × Value)) :
    tlvLoop zeroTagSpec .ascii false (lookupField zeroWidthSubs)
      (fun tag d => unpackTagged zeroWidthSubs tag d) (fuel + 1) [0x31] 0 acc = .err [[]] := rfl

def digits0TagSpec : TagSpec :=
  { len := 0, enc := some .ascii, pad := .nil, sort := .strings, skipUnknown := true,
    prefUnknown := some (.var .binary 0) }

/-- why `skipDigitsPos` is there: in the *model* a variable prefixer with digit count 0
reads nothing and announces 0, so skipping the unknown tag `""` makes no progress and the
loop ends by exhausting any fuel. `Pref.var .binary 0` is not a prefixer of package
`prefix` (digit counts 1..6), so no Go spec reaches this. -/
theorem tlvLoop_digits0_exhausts_fuel (fuel : Nat) (acc : List (Tag × Value)) :
    tlvLoop digits0TagSpec .ascii false (fun _ => false) (fun _ _ => .err []) fuel [0x31] 0 acc = .err [] := by
  induction fuel with
  | zero => rfl
  | succ fuel ih =>
    have step : tlvLoop digits0TagSpec .ascii false (fun _ => false) (fun _ _ => .err []) (fuel + 1) [0x31] 0 acc =
        tlvLoop digits0TagSpec .ascii false (fun _ => false) (fun _ _ => .err []) fuel [0x31] 0 acc := rfl
    rw [step]; exact ih

/-- **Message scan: iteration count.** `Message.unpack` scans ids `2 … bm.len`, i.e.
`bm.len − 1` iterations (the fuel argument of `scan`, consumed one per iteration), and
`bm.len ≤ 16·(bytes of bitmap read)`: linear in the input whatever the spec announces.
(For the Binary encoder the factor is 8; 16 covers encoders that expand.) -/
theorem scan_steps (spec : MsgSpec) (src : Bytes) (mtiV : Value) (read : Nat) (bm : Bitmap) (bread : Nat)
    (hm : spec.mti.unpack src = .ok (mtiV, read))
    (hb : Bitmap.unpack spec.bitmap.enc spec.bitmap.pref
            (Bitmap.reset spec.bitmap.specLen spec.bitmap.auto) (src.drop read) = .ok (bm, bread)) :
    bm.len - 1 < 16 * src.length ∧ read + bread ≤ src.length := by
  have h1 := PrimSpec.unpack_read_le _ _ _ _ hm
  have h2 := Bitmap.unpack_ok_bounds _ _ _ _ _ _ hb
  simp only [List.length_drop] at h2
  omega

/-- the same for a bitmapped composite: `bitmapScan` runs `bm.len ≤ 16·|body|` iterations -/
theorem bitmapScan_steps (b : BitmapSpec) (body : Bytes) (bm : Bitmap) (read : Nat)
    (hb : Bitmap.unpack b.enc b.pref (Bitmap.reset b.specLen b.auto) body = .ok (bm, read)) :
    bm.len ≤ 16 * body.length := by
  have := Bitmap.unpack_ok_bounds _ _ _ _ _ _ hb
  omega

/-! ## 6. Allocation (ghost log of requested sizes) -/

/-- **Bounded allocation.** Every size requested along (a) a value decode, (b) a length
prefix decode, (c) a primitive field's Unpack, (d) a bitmap's Unpack is at most
`2·(bytes available to that call) + 127` — never a length merely announced by the input
(the `valueLength` / `minLen` a prefix returned reaches a `make` only after it has been
compared with the bytes that are there). 127 is the BER long-form length buffer, the only
allocation made before its bytes are known to be present. The bound is per request: it
does not by itself limit the *sum* over the iterations of a TLV loop (the repaired finding
KF7 — the Binary decoder used to copy the whole remaining input per element, quadratic in
total — was found by the oracle's long-TLV probe, not by these theorems). The composite loops allocate
through these calls on sub-slices of their own input (`field_unpack_read_le`), so the
same per-call bound holds at every nesting level; a single log for a whole nested unpack
is not defined here. -/
theorem alloc_bounded :
    (∀ (e : Enc) (data : Bytes) (n : Nat), ∀ a ∈ Enc.decodeAllocs e data n, a ≤ 2 * data.length) ∧
    (∀ (p : Pref) (data : Bytes), ∀ a ∈ Pref.decodeAllocs p data, a ≤ 2 * data.length + 127) ∧
    (∀ (s : PrimSpec) (data : Bytes), ∀ a ∈ s.unpackAllocs data, a ≤ 2 * data.length + 127) ∧
    (∀ (enc : Enc) (pref : Pref) (bm : Bitmap) (data : Bytes),
      ∀ a ∈ Bitmap.unpackAllocs enc pref bm data, a ≤ 2 * data.length + 127) :=
  ⟨Enc.decodeAllocs_le, Pref.decodeAllocs_le, PrimSpec.unpackAllocs_le, Bitmap.unpackAllocs_le⟩

/-- the ghost log is not arbitrary: the value a decoder returns is covered by a logged size -/
theorem alloc_log_covers_result (e : Enc) (data v : Bytes) (n r : Nat) (h : Enc.decodeNat e data n = .ok (v, r)) :
    ∃ a ∈ Enc.decodeAllocs e data n, v.length ≤ a :=
  Enc.decodeAllocs_covers e data v n r h

/-! ## Non-vacuity -/

def demoTlv : Field :=
  .comp { len := 0, pref := .berTLV,
          mode := .tagged { len := 0, enc := some .berTag, pad := .nil, sort := .byHex,
                            skipUnknown := true, prefUnknown := Option.none } }
    [([56, 50], .comp { len := 4, pref := .var .ascii 2,
                        mode := .bitmapped { specLen := 1, enc := .binary, pref := .fixed .binary, auto := false } }
                  [([49], .prim { kind := .string, len := 2, enc := .ascii, pref := .fixed .ascii, pad := .nil })]),
     ([57, 70, 48, 50], .prim { kind := .binary, len := 6, enc := .binary, pref := .berTLV, pad := .nil })]

def witnessBitmapComp : Field :=
  .comp { len := 0, pref := .none,
          mode := .bitmapped { specLen := 1, enc := .binary, pref := .none, auto := false } } []

def witnessMsgSpec : MsgSpec :=
  { mti := { kind := .string, len := 4, enc := .ascii, pref := .fixed .ascii, pad := .nil },
    bitmap := { specLen := 8, enc := .binary, pref := .none, auto := true },
    fields := [] }

def zeroProgressComp : Field :=
  .comp { len := 3, pref := .fixed .ascii, mode := .tagged zeroTagSpec } zeroWidthSubs

-- the theorems apply to coherent specs (a BER-TLV composite holding a bitmapped composite) …
example : demoTlv.coherent false = true := by decide +kernel
-- … and the former witnesses of KF6 / KF5 now return errors: a bitmap with the `None`
-- prefixer and no bytes left (both expansion modes; BER prefix announcing 0), the composite
-- and the message built on it, and the zero-progress TLV composite
example : Bitmap.unpack .binary .none (Bitmap.reset 8 true) [] = .err :=
  bitmap_unpack_zero_block_err _ _ _ _ 0 (by decide) rfl
example : Bitmap.unpack .binary .none (Bitmap.reset 8 false) [] = .err :=
  bitmap_unpack_zero_block_err _ _ _ _ 0 (by decide) rfl
example : Bitmap.unpack .binary .berTLV (Bitmap.reset 8 true) [0x00] = .err :=
  bitmap_unpack_zero_block_err _ _ _ _ 1 (by decide) (by decide)
example : witnessBitmapComp.unpack [] = .err [[]] := by
  have hb : Bitmap.unpack .binary .none (Bitmap.reset 1 false) [] = .err :=
    bitmap_unpack_zero_block_err _ _ _ _ 0 (by decide) rfl
  simp [witnessBitmapComp, Field.unpack, Pref.decodeLength, hb]
example : witnessMsgSpec.unpack [0x30, 0x31, 0x30, 0x30] = .err [natToDec 1] := by
  have hb : Bitmap.unpack .binary .none (Bitmap.reset 8 true) [] = .err :=
    bitmap_unpack_zero_block_err _ _ _ _ 0 (by decide) rfl
  have hm : witnessMsgSpec.mti.unpack [0x30, 0x31, 0x30, 0x30] = .ok (.str [0x30, 0x31, 0x30, 0x30], 4) := by
    rfl
  unfold MsgSpec.unpack
  rw [hm]
  simp [witnessMsgSpec, hb]
example : zeroProgressComp.unpack [0x31, 0x32, 0x33] = .err [[]] := rfl
-- a bitmap that does decode
example : Bitmap.unpack .binary (.fixed .binary) (Bitmap.reset 1 true) [0x80, 0x01, 0xFF]
    = .ok ({ data := [0x80, 0x01], blockLen := 1, auto := true }, 2) := by decide
-- hypotheses of the fuel lemma: satisfiable with tag length 0 and with an exported prefixer
example : zeroTagSpec.skipDigitsPos := by intro f h; cases h
example : C06.Exported (.var .ascii 2) := by unfold C06.Exported; decide +kernel
-- allocation log of an adversarial BER length (0x84 FF FF FF FF = 4 GiB announced, 2 value bytes present):
-- the 4-byte length buffer and nothing else (the Binary decoder checks the length before it copies)
example : PrimSpec.unpackAllocs { kind := .binary, len := 0, enc := .binary, pref := .berTLV, pad := .nil }
    [0x84, 0xFF, 0xFF, 0xFF, 0xFF, 0x01, 0x02] = [4] := by decide
example : Enc.decodeAllocs .bcd [0x12, 0x34] 4 = [4] := by decide
example : Enc.decodeAllocs .bcd [0x12, 0x34] 1000000 = [] := by decide

end Iso8583.C04
