/-
C04 — Decoding untrusted bytes never panics, hangs or over-allocates.

Property theorems (helper lemmas: Lemmas/NoPanic.lean). All of them quantify over every
spec — coherent or not, no `Coherent` hypothesis anywhere — every nesting depth and every
byte string. The model yields `panic` exactly where the Go runtime would (slice out of
range, index into an empty slice), so "never panics" is an ordinary theorem about it.

Two places need an explicit hypothesis, and each is paired with a proved witness and a
finding about the real code (KNOWN_FINDINGS.txt, KF5 and KF6):

* a bitmap whose *spec* declares a non-`Fixed` prefixer can decode a zero-length block and
  index it (`bitmap_unpack_panic_iff` characterises this exactly); the §2.1 grammar only
  allows `Fixed` prefixers on bitmaps — hypothesis `bitmapsFixed`;
* a tagged composite with `Tag.Length = 0` and a non-BER tag decoder reads no tag bytes,
  so an iteration of the TLV loop can make no progress; the model then runs out of fuel
  (`.err []`) where the Go loop spins forever — hypothesis `enc = berTag ∨ 1 ≤ t.len` of
  the fuel lemmas (not of the no-panic theorems, which hold regardless).

Time and memory are proved as iteration counts and requested sizes of the model (ghost
functions), not as machine time or allocator behaviour.
-/
import Iso8583.Lemmas.NoPanic
import Iso8583.Props.C16

namespace Iso8583.C04
open Iso8583 Enc Pref

/-! ## 1. Encoders and prefixers -/

/-- **No value decoder panics**, for any data and any requested length (also negative). -/
theorem decode_no_panic (e : Enc) (d : Bytes) (n : Int) : Enc.decode e d n ≠ .panic :=
  decode_ne_panic e d n

/-- a decoder never claims more bytes than it was given, and returns at most two bytes
per byte consumed -/
theorem decode_read_le_out_le (e : Enc) (d v : Bytes) (n : Int) (r : Nat) (h : Enc.decode e d n = .ok (v, r)) :
    r ≤ d.length ∧ v.length ≤ 2 * r :=
  ⟨decode_read_le e d v n r h, decode_out_le e d v n r h⟩

/-- **No prefixer panics**, and the prefix it read lies inside the input (`C06.dec_range`). -/
theorem decodeLength_no_panic (p : Pref) (maxLen : Nat) (data : Bytes) :
    Pref.decodeLength p maxLen data ≠ .panic ∧
    ∀ m r, Pref.decodeLength p maxLen data = .ok (m, r) → r ≤ data.length :=
  ⟨decodeLength_ne_panic p maxLen data, fun m r h => decodeLength_read_le p maxLen data m r h⟩

/-! ## 2. Bitmap -/

/-- **Exact characterisation of the bitmap panic.** `Bitmap.Unpack` panics iff the length
prefix of the bitmap spec yields block length 0 on this input and the encoder is not the
BER tag decoder (every other decoder then returns an empty block, and `decoded[0]` is out
of range). `blockLenOf` never returns 0, so a `Fixed` prefixer never yields 0. -/
theorem bitmap_unpack_panic_iff (enc : Enc) (pref : Pref) (bm : Bitmap) (data : Bytes) :
    Bitmap.unpack enc pref bm data = .panic ↔
      enc ≠ .berTag ∧ ∃ r, Pref.decodeLength pref bm.blockLen data = .ok (0, r) :=
  Bitmap.unpack_panic_iff enc pref bm data

/-- **No bitmap panic** for every block length (spec length 0 = default 8), every encoder,
every `Fixed` prefix family, both expansion modes, every input. -/
theorem bitmap_unpack_no_panic (enc : Enc) (fam : Fam) (specLen : Nat) (auto : Bool) (data : Bytes) :
    Bitmap.unpack enc (.fixed fam) (Bitmap.reset specLen auto) data ≠ .panic :=
  Bitmap.unpack_ne_panic_fixed enc fam _ data (Bitmap.blockLenOf_pos specLen)

/-- the full-strength statement (any prefixer on the bitmap spec) … -/
def BitmapUnpackNoPanicStatement : Prop :=
  ∀ (enc : Enc) (pref : Pref) (specLen : Nat) (auto : Bool) (data : Bytes),
    Bitmap.unpack enc pref (Bitmap.reset specLen auto) data ≠ .panic

/-- … is false: with the `None` prefixer and no bytes left the block length is 0 (finding KF6) -/
theorem bitmap_unpack_no_panic_witness : ¬ BitmapUnpackNoPanicStatement := by
  intro h
  exact h .binary .none 8 true [] ((bitmap_unpack_panic_iff _ _ _ _).mpr ⟨by decide, 0, rfl⟩)

/-- a successful bitmap unpack stayed inside its input; the bitmap has between 8 and
`16·read` bits -/
theorem bitmap_unpack_bounds (enc : Enc) (pref : Pref) (bm bm' : Bitmap) (data : Bytes) (read : Nat)
    (h : Bitmap.unpack enc pref bm data = .ok (bm', read)) :
    read ≤ data.length ∧ bm'.len ≤ 16 * read ∧ 8 ≤ bm'.len :=
  Bitmap.unpack_ok_bounds enc pref bm bm' data read h

/-! ## 3. Fields -/

/-- **bytes read ≤ bytes given**, for every field spec (any nesting) and input -/
theorem field_unpack_read_le (f : Field) (data : Bytes) (v : Value) (r : Nat)
    (h : f.unpack data = .ok (v, r)) : r ≤ data.length :=
  Field.unpack_read_le f data v r h

/-- **Primitive fields never panic**: every kind × encoder × prefixer × padder × packer -/
theorem prim_unpack_no_panic (s : PrimSpec) (data : Bytes) : (Field.prim s).unpack data ≠ .panic :=
  Field.unpack_ne_panic (.prim s) rfl data

/-- full-strength statement: no hypothesis on the spec at all -/
def FieldUnpackNoPanicStatement : Prop := ∀ (f : Field) (data : Bytes), f.unpack data ≠ .panic

/-- **Field Unpack never panics** — every spec of the §2.1 grammar (coherent or not: any
encoder with any prefixer, `None` prefixes anywhere, any tag length, any nesting depth,
unknown-tag skipping with any prefixer), every input. The one hypothesis is the grammar's
own restriction that bitmaps are declared with `Fixed` prefixers. Structural induction
over the spec tree through `tlvLoop` / `bitmapScan` / `unpackPositional` / `unpackTagged`. -/
theorem field_unpack_no_panic_partial (f : Field) (hg : f.bitmapsFixed = true) (data : Bytes) :
    f.unpack data ≠ .panic :=
  Field.unpack_ne_panic f hg data

def witnessBitmapComp : Field :=
  .comp { len := 0, pref := .none,
          mode := .bitmapped { specLen := 1, enc := .binary, pref := .none, auto := false } } []

/-- without the grammar restriction the model panics (composite bitmap with the `None`
prefixer, empty body) -/
theorem field_unpack_no_panic_witness : ¬ FieldUnpackNoPanicStatement := by
  intro h
  apply h witnessBitmapComp []
  have hb : Bitmap.unpack .binary .none (Bitmap.reset 1 false) [] = .panic :=
    (bitmap_unpack_panic_iff _ _ _ _).mpr ⟨by decide, 0, rfl⟩
  simp [witnessBitmapComp, Field.unpack, Pref.decodeLength, hb]

/-- coherent specs satisfy the hypothesis -/
theorem field_unpack_no_panic_coherent (f : Field) (lp : Bool) (hc : f.coherent lp = true) (data : Bytes) :
    f.unpack data ≠ .panic :=
  field_unpack_no_panic_partial f (Field.coherent_bitmapsFixed f lp hc) data

/-- **SetBytes never panics** (primitive: parse the raw value; composite: unpack the
subfields from the whole input) -/
theorem field_setBytes_no_panic (f : Field) (hg : f.bitmapsFixed = true) (data : Bytes) :
    f.setBytes data ≠ .panic := by
  cases f with
  | prim s =>
    simp only [Field.setBytes]
    split
    · simp
    · simp
    · rename_i h; exact absurd h (PrimSpec.setBytes_ne_panic s data)
  | comp s subs =>
    simp only [Field.bitmapsFixed, Bool.and_eq_true] at hg
    have hsub : ∀ p ∈ subs, ∀ d, p.2.unpack d ≠ .panic :=
      fun p hp => Field.unpack_ne_panic p.2 (Field.subsBitmapsFixed_mem subs hg.2 p hp)
    simp only [Field.setBytes]
    split
    · simp
    · simp
    · rename_i h; exact absurd h (compBody_ne_panic s.mode subs data false hg.1 hsub)

/-! ## 4. Messages -/

def MsgUnpackNoPanicStatement : Prop := ∀ (spec : MsgSpec) (src : Bytes), spec.unpack src ≠ .panic

/-- **Message Unpack never panics** — every message spec whose bitmaps use `Fixed`
prefixers (no coherence: any MTI spec, any ids, elements at continuation positions, any
block length, both expansion modes), every input. -/
theorem msg_unpack_no_panic_partial (spec : MsgSpec) (hg : spec.bitmapsFixed = true) (src : Bytes) :
    spec.unpack src ≠ .panic :=
  MsgSpec.unpack_ne_panic spec hg src

def witnessMsgSpec : MsgSpec :=
  { mti := { kind := .string, len := 4, enc := .ascii, pref := .fixed .ascii, pad := .nil },
    bitmap := { specLen := 8, enc := .binary, pref := .none, auto := true },
    fields := [] }

/-- a message bitmap declared with the `None` prefixer: the four MTI bytes and nothing
else make the model (and the Go code: finding KF6) index an empty block -/
theorem msg_unpack_no_panic_witness : ¬ MsgUnpackNoPanicStatement := by
  intro h
  apply h witnessMsgSpec [0x30, 0x31, 0x30, 0x30]
  have hb : Bitmap.unpack .binary .none (Bitmap.reset 8 true) [] = .panic :=
    (bitmap_unpack_panic_iff _ _ _ _).mpr ⟨by decide, 0, rfl⟩
  have hm : witnessMsgSpec.mti.unpack [0x30, 0x31, 0x30, 0x30] = .ok (.str [0x30, 0x31, 0x30, 0x30], 4) := by
    rfl
  unfold MsgSpec.unpack
  rw [hm]
  simp [witnessMsgSpec, hb]

theorem msg_unpack_no_panic_coherent (spec : MsgSpec) (hc : spec.coherent = true) (src : Bytes) :
    spec.unpack src ≠ .panic :=
  msg_unpack_no_panic_partial spec (MsgSpec.coherent_bitmapsFixed spec hc) src

/-- **Network header reads never panic** (all four headers, every fragmentation of the
stream): `C16.read_ne_panic` -/
theorem header_read_no_panic (h : Hdr) (cs : List Bytes) : Net.readFrom h cs ≠ .panic :=
  C16.read_ne_panic h cs

/-! ## 5. Termination and iteration counts

Termination of every model function is Lean's totality check. The data-driven loops carry
fuel; the lemmas below show the fuel is never the reason a loop stops, so the model's
loops are the unbounded Go loops, and they bound the iteration counts linearly. -/

/-- **Bitmap chain: fuel suffices** (unconditionally). From `rest.length + 1` on, more fuel
does not change the result: at most one iteration per input byte, plus one. -/
theorem bitmap_unpackLoop_fuel_enough (enc : Enc) (minLen : Nat) (auto : Bool) (fuel : Nat)
    (rest acc : Bytes) (read k : Nat) (hf : rest.length + 1 ≤ fuel) :
    Bitmap.unpackLoop enc minLen auto (fuel + k) rest acc read =
      Bitmap.unpackLoop enc minLen auto fuel rest acc read :=
  Bitmap.unpackLoop_fuel_mono enc minLen auto fuel rest acc read k hf

/-- full-strength fuel statement for the TLV loop: no hypothesis on the tag spec -/
def TlvLoopFuelStatement : Prop :=
  ∀ (t : TagSpec) (enc : Enc) (isBer : Bool) (known : Tag → Bool)
    (dispatch : Tag → Bytes → UR (Value × Nat)) (fuel : Nat) (data : Bytes) (offset : Nat)
    (acc : List (Tag × Value)), data.length - offset < fuel →
    tlvLoop t enc isBer known dispatch fuel data offset acc ≠ .err []

/-- **TLV loop: fuel suffices** when a tag occupies at least one byte (tag length ≥ 1, or
BER tags). `.err []` is the loop's fuel-exhausted value — every other error path carries
a non-empty field path. With fuel `body.length + 1` (what `Field.unpack` passes) the loop
makes at most `body.length + 1` iterations for any dispatcher. -/
theorem tlvLoop_fuel_enough_partial (t : TagSpec) (enc : Enc) (isBer : Bool) (known : Tag → Bool)
    (dispatch : Tag → Bytes → UR (Value × Nat)) (hprog : enc = .berTag ∨ 1 ≤ t.len)
    (fuel : Nat) (data : Bytes) (offset : Nat) (acc : List (Tag × Value)) (hf : data.length - offset < fuel) :
    tlvLoop t enc isBer known dispatch fuel data offset acc ≠ .err [] ∧
    ∀ k, tlvLoop t enc isBer known dispatch (fuel + k) data offset acc =
      tlvLoop t enc isBer known dispatch fuel data offset acc :=
  ⟨tlvLoop_fuel_enough t enc isBer known dispatch hprog fuel data offset acc hf,
   fun k => tlvLoop_fuel_mono t enc isBer known dispatch hprog fuel data offset acc k hf⟩

def zeroTagSpec : TagSpec :=
  { len := 0, enc := some .ascii, pad := .nil, sort := .strings, skipUnknown := false, prefUnknown := Option.none }

def zeroWidthSubs : List (Tag × Field) :=
  [([], .prim { kind := .string, len := 0, enc := .ascii, pref := .fixed .ascii, pad := .nil })]

/-- `Tag.Length = 0` with the ASCII tag decoder and a zero-width subfield keyed `""`: an
iteration reads no tag byte and no value byte. Whatever the fuel, the model's loop ends by
exhausting it — the Go `for offset < len(data)` loop never ends (finding KF5). -/
theorem tlvLoop_zero_progress (fuel : Nat) (acc : List (Tag × Value)) :
    tlvLoop zeroTagSpec .ascii false (lookupField zeroWidthSubs)
      (fun tag d => unpackTagged zeroWidthSubs tag d) fuel [0x31] 0 acc = .err [] := by
  induction fuel generalizing acc with
  | zero => rfl
  | succ fuel ih =>
    have step : tlvLoop zeroTagSpec .ascii false (lookupField zeroWidthSubs)
        (fun tag d => unpackTagged zeroWidthSubs tag d) (fuel + 1) [0x31] 0 acc =
      tlvLoop zeroTagSpec .ascii false (lookupField zeroWidthSubs)
        (fun tag d => unpackTagged zeroWidthSubs tag d) fuel [0x31] 0 (insertKV [] (.str []) acc) := rfl
    rw [step]
    exact ih _

theorem tlvLoop_fuel_witness : ¬ TlvLoopFuelStatement := by
  intro h
  exact h zeroTagSpec .ascii false (lookupField zeroWidthSubs)
    (fun tag d => unpackTagged zeroWidthSubs tag d) 2 [0x31] 0 [] (by decide) (tlvLoop_zero_progress 2 [])

/-- **Message scan: iteration count.** `Message.unpack` scans ids `2 … bm.len`, i.e.
`bm.len − 1` iterations (the fuel argument of `scan`, consumed one per iteration), and
`bm.len ≤ 16·(bytes of bitmap read)`: linear in the input whatever the spec announces.
(For the Binary encoder the factor is 8; 16 covers encoders that expand.) -/
theorem scan_steps (spec : MsgSpec) (src : Bytes) (mtiV : Value) (read : Nat) (bm : Bitmap) (bread : Nat)
    (hm : spec.mti.unpack src = .ok (mtiV, read))
    (hb : Bitmap.unpack spec.bitmap.enc spec.bitmap.pref
            (Bitmap.reset spec.bitmap.specLen spec.bitmap.auto) (src.drop read) = .ok (bm, bread)) :
    bm.len - 1 < 16 * src.length ∧ read + bread ≤ src.length := by
  have h1 := PrimSpec.unpack_read_le _ _ _ _ hm
  have h2 := Bitmap.unpack_ok_bounds _ _ _ _ _ _ hb
  simp only [List.length_drop] at h2
  omega

/-- the same for a bitmapped composite: `bitmapScan` runs `bm.len ≤ 16·|body|` iterations -/
theorem bitmapScan_steps (b : BitmapSpec) (body : Bytes) (bm : Bitmap) (read : Nat)
    (hb : Bitmap.unpack b.enc b.pref (Bitmap.reset b.specLen b.auto) body = .ok (bm, read)) :
    bm.len ≤ 16 * body.length := by
  have := Bitmap.unpack_ok_bounds _ _ _ _ _ _ hb
  omega

/-! ## 6. Allocation (ghost log of requested sizes) -/

/-- **Bounded allocation.** Every size requested along (a) a value decode, (b) a length
prefix decode, (c) a primitive field's Unpack, (d) a bitmap's Unpack is at most
`2·(bytes available to that call) + 127` — never a length merely announced by the input
(the `valueLength` / `minLen` a prefix returned reaches a `make` only after it has been
compared with the bytes that are there). 127 is the BER long-form length buffer, the only
allocation made before its bytes are known to be present; the Binary decoder copies the
whole remaining input (≤ the bytes available, whatever length was asked for). The bound is
per request: it does not limit the *sum* over the iterations of a TLV loop, and with the
Binary decoder's whole-input copy that sum is quadratic in the real code (finding KF7,
found by the oracle's long-TLV probe, not by these theorems). The composite loops allocate
through these calls on sub-slices of their own input (`field_unpack_read_le`), so the
same per-call bound holds at every nesting level; a single log for a whole nested unpack
is not defined here. -/
theorem alloc_bounded :
    (∀ (e : Enc) (data : Bytes) (n : Nat), ∀ a ∈ Enc.decodeAllocs e data n, a ≤ 2 * data.length) ∧
    (∀ (p : Pref) (data : Bytes), ∀ a ∈ Pref.decodeAllocs p data, a ≤ 2 * data.length + 127) ∧
    (∀ (s : PrimSpec) (data : Bytes), ∀ a ∈ s.unpackAllocs data, a ≤ 2 * data.length + 127) ∧
    (∀ (enc : Enc) (pref : Pref) (bm : Bitmap) (data : Bytes),
      ∀ a ∈ Bitmap.unpackAllocs enc pref bm data, a ≤ 2 * data.length + 127) :=
  ⟨Enc.decodeAllocs_le, Pref.decodeAllocs_le, PrimSpec.unpackAllocs_le, Bitmap.unpackAllocs_le⟩

/-- the ghost log is not arbitrary: the value a decoder returns is covered by a logged size -/
theorem alloc_log_covers_result (e : Enc) (data v : Bytes) (n r : Nat) (h : Enc.decodeNat e data n = .ok (v, r)) :
    ∃ a ∈ Enc.decodeAllocs e data n, v.length ≤ a :=
  Enc.decodeAllocs_covers e data v n r h

/-! ## Non-vacuity -/

def demoTlv : Field :=
  .comp { len := 0, pref := .berTLV,
          mode := .tagged { len := 0, enc := some .berTag, pad := .nil, sort := .byHex,
                            skipUnknown := true, prefUnknown := Option.none } }
    [([56, 50], .comp { len := 4, pref := .var .ascii 2,
                        mode := .bitmapped { specLen := 1, enc := .binary, pref := .fixed .binary, auto := false } }
                  [([49], .prim { kind := .string, len := 2, enc := .ascii, pref := .fixed .ascii, pad := .nil })]),
     ([57, 70, 48, 50], .prim { kind := .binary, len := 6, enc := .binary, pref := .berTLV, pad := .nil })]

-- a nested spec (BER-TLV composite holding a bitmapped composite) meets the hypothesis …
example : demoTlv.bitmapsFixed = true := by decide
-- … is coherent too …
example : demoTlv.coherent false = true := by decide +kernel
-- … and an incoherent one (None prefix in the middle, tag length 0) meets it as well
example : (Field.comp { len := 3, pref := .none, mode := .tagged zeroTagSpec } zeroWidthSubs).bitmapsFixed = true := by
  decide
-- the bitmap characterisation is not vacuous in either direction
example : Bitmap.unpack .binary .berTLV (Bitmap.reset 8 true) [0x00] = .panic :=
  (bitmap_unpack_panic_iff _ _ _ _).mpr ⟨by decide, 1, by decide⟩
example : Bitmap.unpack .binary (.fixed .binary) (Bitmap.reset 1 true) [0x80, 0x01, 0xFF]
    = .ok ({ data := [0x80, 0x01], blockLen := 1, auto := true }, 2) := by decide
-- a message spec meeting the hypothesis, coherent, and one that is not coherent but meets it
example : ({ witnessMsgSpec with bitmap := { specLen := 8, enc := .binary, pref := .fixed .binary, auto := true } }
    : MsgSpec).bitmapsFixed = true := by decide
example : ({ witnessMsgSpec with bitmap := { specLen := 0, enc := .lbcd, pref := .fixed .hex, auto := true },
                                 fields := [(65, .prim { kind := .numeric, len := 0, enc := .berTag, pref := .none, pad := .nil })] }
    : MsgSpec).bitmapsFixed = true := by decide
-- allocation log of an adversarial BER length (0x84 FF FF FF FF = 4 GiB announced, 2 value bytes present):
-- the 4-byte length buffer, then the Binary decoder's copy of the 2 bytes that are there
example : PrimSpec.unpackAllocs { kind := .binary, len := 0, enc := .binary, pref := .berTLV, pad := .nil }
    [0x84, 0xFF, 0xFF, 0xFF, 0xFF, 0x01, 0x02] = [4, 2] := by decide
example : Enc.decodeAllocs .bcd [0x12, 0x34] 4 = [4] := by decide
example : Enc.decodeAllocs .bcd [0x12, 0x34] 1000000 = [] := by decide

end Iso8583.C04
