/-
C20 — Padding laws: exact width, no truncation, reversible, non-aliasing.
Property theorems only (helper lemmas are local and small here).
-/
import Iso8583.Model.Padding

namespace Iso8583.C20
open Iso8583 Pad

/-- Pad returns the value unchanged when it already has the target length or more. -/
theorem pad_ge (p : Pad) (v : Bytes) (n : Nat) (h : n ≤ v.length) : pad p v n = v := by
  cases p <;> simp [pad, h]

/-- Left padder below the target: exactly `n` bytes, pad characters followed by the value. -/
theorem pad_left_lt (c : Byte) (v : Bytes) (n : Nat) (h : v.length < n) :
    pad (.left c) v n = List.replicate (n - v.length) c ++ v ∧ (pad (.left c) v n).length = n := by
  have : ¬ v.length ≥ n := by omega
  simp [pad, this]; omega

/-- Right padder below the target: exactly `n` bytes, the value followed by pad characters. -/
theorem pad_right_lt (c : Byte) (v : Bytes) (n : Nat) (h : v.length < n) :
    pad (.right c) v n = v ++ List.replicate (n - v.length) c ∧ (pad (.right c) v n).length = n := by
  have : ¬ v.length ≥ n := by omega
  simp [pad, this]; omega

/-- No padder ever shortens (truncates) a value. -/
theorem pad_no_truncation (p : Pad) (v : Bytes) (n : Nat) : v.length ≤ (pad p v n).length := by
  cases p with
  | nil => simp [pad]
  | none => simp [pad]
  | left c => simp only [pad]; split <;> first | exact Nat.le_refl _ | (simp)
  | right c => simp only [pad]; split <;> first | exact Nat.le_refl _ | (simp)

/-- The result length is `max |v| n` for the two real padders. -/
theorem pad_length (p : Pad) (v : Bytes) (n : Nat) (hp : p ≠ .nil ∧ p ≠ .none) :
    (pad p v n).length = max v.length n := by
  cases p with
  | nil => exact absurd rfl hp.1
  | none => exact absurd rfl hp.2
  | left c => simp only [pad]; split <;> (try simp) <;> omega
  | right c => simp only [pad]; split <;> (try simp) <;> omega

theorem dropWhile_replicate_append (c : Byte) (k : Nat) (v : Bytes)
    (hv : ∀ x, v.head? = some x → x ≠ c) :
    (List.replicate k c ++ v).dropWhile (· == c) = v := by
  induction k with
  | zero =>
    cases v with
    | nil => rfl
    | cons x xs =>
      have : x ≠ c := hv x rfl
      simp [this]
  | succ k ih => simp [List.replicate_succ, ih]

/-- Left: `Unpad (Pad v n) = v` whenever `v` does not itself begin with the pad character. -/
theorem unpad_pad_left (c : Byte) (v : Bytes) (n : Nat) (hv : ∀ x, v.head? = some x → x ≠ c) :
    unpad (.left c) (pad (.left c) v n) = v := by
  simp only [pad, unpad]
  split
  · cases v with
    | nil => rfl
    | cons x xs => have : x ≠ c := hv x rfl; simp [this]
  · exact dropWhile_replicate_append c _ v hv

/-- Right: `Unpad (Pad v n) = v` whenever `v` does not itself end with the pad character. -/
theorem unpad_pad_right (c : Byte) (v : Bytes) (n : Nat) (hv : ∀ x, v.getLast? = some x → x ≠ c) :
    unpad (.right c) (pad (.right c) v n) = v := by
  have hrev : ∀ x, v.reverse.head? = some x → x ≠ c := by
    intro x hx; apply hv; simpa [List.head?_reverse] using hx
  simp only [pad, unpad, dropWhileRight]
  split
  · have := dropWhile_replicate_append c 0 v.reverse hrev
    simp at this; simp [this]
  · rw [List.reverse_append, List.reverse_replicate, dropWhile_replicate_append c _ v.reverse hrev]
    simp

/-- Unpad removes only pad characters and only from the padded side (left):
the input is a run of pad characters followed by the output, and the output does not
start with the pad character. -/
theorem unpad_left_only_pad (c : Byte) (v : Bytes) :
    ∃ k, v = List.replicate k c ++ unpad (.left c) v ∧
      ∀ x, (unpad (.left c) v).head? = some x → x ≠ c := by
  induction v with
  | nil => exact ⟨0, by simp [unpad], by simp [unpad]⟩
  | cons x xs ih =>
    by_cases hx : x = c
    · obtain ⟨k, hk, hh⟩ := ih
      refine ⟨k + 1, ?_, ?_⟩
      · simp only [unpad] at hk ⊢
        subst hx
        simp only [List.dropWhile_cons, beq_self_eq_true, ↓reduceIte, List.replicate_succ, List.cons_append]
        exact congrArg _ hk
      · simp only [unpad] at hh ⊢; subst hx; simpa [List.dropWhile_cons] using hh
    · refine ⟨0, ?_, ?_⟩
      · simp [unpad, hx]
      · simp [unpad, hx]

/-- Same on the right. -/
theorem unpad_right_only_pad (c : Byte) (v : Bytes) :
    ∃ k, v = unpad (.right c) v ++ List.replicate k c ∧
      ∀ x, (unpad (.right c) v).getLast? = some x → x ≠ c := by
  obtain ⟨k, hk, hh⟩ := unpad_left_only_pad c v.reverse
  refine ⟨k, ?_, ?_⟩
  · have := congrArg List.reverse hk
    simp only [List.reverse_reverse, List.reverse_append, List.reverse_replicate] at this
    simpa [unpad, dropWhileRight] using this
  · intro x hx
    apply hh x
    simpa [unpad, dropWhileRight, List.getLast?_reverse] using hx

/-- The no-op padders return their input. -/
theorem none_id (v : Bytes) (n : Nat) :
    pad .none v n = v ∧ unpad .none v = v ∧ pad .nil v n = v ∧ unpad .nil v = v := by
  simp [pad, unpad]

/-- No padder writes to the slice it is given or to the spare capacity behind it:
the caller's backing array is the same after the call (model of the memory effect; the
correspondence channel `D` compares the real backing array, sentinel-filled, with it). -/
theorem pad_preserves_caller_memory (p : Pad) (s : GoSlice) (n : Nat) :
    (padMem p s n).2 = s.arr ∧ (padMem p s n).1 = pad p s.data n := by
  simp [padMem]

/-! Non-vacuity: concrete instances meeting the hypotheses. -/
example : pad (.left 48) [49, 50] 5 = [48, 48, 48, 49, 50] := by decide
example : unpad (.left 48) (pad (.left 48) [49, 48] 5) = [49, 48] := by decide
example : unpad (.right 32) (pad (.right 32) [32, 65] 4) = [32, 65] := by decide
example : ∀ x, ([49, 48] : Bytes).head? = some x → x ≠ 48 := by decide

end Iso8583.C20
