/-
C09 (and C04's loop bound), decision logic tied by TRANSLATION: the conditions of the element
loop of `Composite.unpackSubfieldsByTag` — when the loop ends, when an unknown element is an
error, when a skipped element overruns the composite, when an element that consumed nothing
stops the loop — and of the bit loop of `unpackSubfieldsByBitmap`, rendered from
/repo/field/composite.go on every run (`Gen/GuardsTlv.lean`), are the model's (`tlvLoop`,
`bitmapScan` of Model/Field.lean), step by step.
-/
import Iso8583.Gen.GuardsTlv
import Iso8583.Model.Field
import Iso8583.Lemmas.GuardTactics

namespace Iso8583.GuardsTlv
open Iso8583 Iso8583.Gen.Guards

theorem tlv_loops_iff (offset dlen : Nat) (fl rd st : Int) (k s : Bool) :
    (tlv_unpackSubfieldsByTag_loops offset dlen fl rd st k s).all id = true ↔ offset < dlen := by
  unfold tlv_unpackSubfieldsByTag_loops
  cases k <;> cases s <;> guards_to_prop <;> guards_done

/-- the loop ends exactly when the source's condition `offset < len(data)` fails -/
theorem tlv_loop_end_translated (t : TagSpec) (enc : Enc) (isBer : Bool) (known : Tag → Bool)
    (dispatch : Tag → Bytes → UR (Value × Nat)) (fuel : Nat) (data : Bytes) (offset : Nat)
    (acc : List (Tag × Value)) (fl rd st : Int) (k s : Bool)
    (h : (tlv_unpackSubfieldsByTag_loops offset data.length fl rd st k s).all id = false) :
    tlvLoop t enc isBer known dispatch (fuel + 1) data offset acc = .ok (acc, offset) := by
  have hn : ¬ (offset < data.length) := by
    intro hlt
    have := (tlv_loops_iff offset data.length fl rd st k s).mpr hlt
    simp [h] at this
  have : offset ≥ data.length := by omega
  simp [tlvLoop, this]

/-- is unknown-tag skipping in force (`skipUnknownTLVTags()`) -/
def skipping (t : TagSpec) (isBer : Bool) : Bool := t.skipUnknown && (isBer || t.prefUnknown.isSome)

/-- all error conditions of one iteration, as one proposition (over `Int`; `offset` is the offset
after the tag was read, `start` the offset before): an unknown tag without skipping; a skipped
element whose announced length overruns the composite; a known element after which the offset has
not moved -/
theorem tlv_guards_iff (offset dlen fieldLength read start : Int) (known skip : Bool) :
    (tlv_unpackSubfieldsByTag_guards offset dlen fieldLength read start known skip).any id = true ↔
      ((known = false ∧ skip = false) ∨
       (known = false ∧ skip = true ∧ (fieldLength < 0 ∨ fieldLength > dlen - offset - read)) ∨
       (known = true ∧ offset = start)) := by
  unfold tlv_unpackSubfieldsByTag_guards
  cases known <;> cases skip <;> guards_to_prop <;> guards_done

/-- an unknown tag without skipping is the error that names the tag -/
theorem tlv_unknown_translated (t : TagSpec) (enc : Enc) (isBer : Bool) (known : Tag → Bool)
    (dispatch : Tag → Bytes → UR (Value × Nat)) (fuel : Nat) (data : Bytes) (offset : Nat)
    (acc : List (Tag × Value)) (tagBytes : Bytes) (read : Nat)
    (hcont : ¬ offset ≥ data.length)
    (hd : Enc.decode enc (data.drop offset) t.len = .ok (tagBytes, read))
    (hk : known (t.pad.unpad tagBytes) = false) (hs : skipping t isBer = false)
    (fl rd st : Int)
    (_hg : (tlv_unpackSubfieldsByTag_guards (offset + read : Nat) data.length fl rd st
            (known (t.pad.unpad tagBytes)) (skipping t isBer)).any id = true) :
    tlvLoop t enc isBer known dispatch (fuel + 1) data offset acc = .err [t.pad.unpad tagBytes] := by
  unfold skipping at hs
  simp [tlvLoop, hcont, hd, hk, hs]

/-- … and the source's conditions say so: unknown and not skipping makes the list true -/
theorem tlv_unknown_is_guard (offset dlen fl rd st : Int) :
    (tlv_unpackSubfieldsByTag_guards offset dlen fl rd st false false).any id = true :=
  (tlv_guards_iff _ _ _ _ _ _ _).mpr (Or.inl ⟨rfl, rfl⟩)

/-- a skipped unknown element whose announced length overruns the composite is rejected: the
source's condition over `Int` is the model's over `Nat` (its second disjunct is the case in which
Go's `len(data)-offset-read` is negative) -/
theorem tlv_skip_bound_translated (dlen offset read fieldLength : Nat) :
    ((tlv_unpackSubfieldsByTag_guards offset dlen fieldLength read (-1) false true).any id = true) ↔
      (fieldLength > dlen - offset - read ∨ offset + read > dlen) := by
  rw [tlv_guards_iff]
  constructor
  · rintro (⟨_, h⟩ | ⟨_, _, h⟩ | ⟨h, _⟩)
    · cases h
    · omega
    · cases h
  · intro h
    exact Or.inr (Or.inl ⟨rfl, rfl, by omega⟩)

/-- an element that consumed neither tag nor value bytes stops the loop: the source's condition
`offset == start` after `offset = start + read + read'` -/
theorem tlv_no_progress_translated (start read read' : Nat) :
    ((tlv_unpackSubfieldsByTag_guards (start + read + read' : Nat) 0 0 0 start true true).any id = true) ↔
      (read = 0 ∧ read' = 0) := by
  rw [tlv_guards_iff]
  constructor
  · rintro (⟨h, _⟩ | ⟨h, _⟩ | ⟨_, h⟩)
    · cases h
    · cases h
    · omega
  · intro h
    exact Or.inr (Or.inr ⟨rfl, by omega⟩)

/-- the model's step uses exactly the skip bound -/
theorem tlv_step_uses_bound (t : TagSpec) (enc : Enc) (isBer : Bool) (known : Tag → Bool)
    (dispatch : Tag → Bytes → UR (Value × Nat)) (fuel : Nat) (data : Bytes) (offset : Nat)
    (acc : List (Tag × Value)) (tagBytes : Bytes) (read fieldLength rd : Nat) (p : Pref)
    (hcont : ¬ offset ≥ data.length)
    (hd : Enc.decode enc (data.drop offset) t.len = .ok (tagBytes, read))
    (hk : known (t.pad.unpad tagBytes) = false) (hs : skipping t isBer = true)
    (hp : t.prefUnknown = some p) (hoff : ¬ offset + read > data.length)
    (hl : p.decodeLength maxInt (data.drop (offset + read)) = .ok (fieldLength, rd))
    (hg : (tlv_unpackSubfieldsByTag_guards (offset + read : Nat) data.length fieldLength rd (-1) false true).any id = true) :
    tlvLoop t enc isBer known dispatch (fuel + 1) data offset acc = .err [t.pad.unpad tagBytes] := by
  have hb := (tlv_skip_bound_translated data.length (offset + read) rd fieldLength).mp hg
  unfold skipping at hs
  simp only [tlvLoop, hcont, if_false, hd, hk, Bool.not_false, if_true, hs, hp, hoff, hl]
  simp [hb]

/-! ### the bit loop of a bitmapped composite -/

/-- `for i := 1; i <= Len; i++`: the model scans `Len` bit numbers starting at 1 -/
theorem bitmap_loop_bound_translated (bmLen i : Nat) (hi : 1 ≤ i) (s f : Bool) :
    (bitmapped_unpackSubfieldsByBitmap_loops i bmLen s f).all id = true ↔ i < 1 + bmLen := by
  unfold bitmapped_unpackSubfieldsByBitmap_loops
  cases s <;> cases f <;> guards_to_prop <;> guards_done

theorem bitmap_guards_iff (i bmLen : Int) (s f : Bool) :
    (bitmapped_unpackSubfieldsByBitmap_guards i bmLen s f).any id = true ↔ (s = true ∧ f = false) := by
  unfold bitmapped_unpackSubfieldsByBitmap_guards
  cases s <;> cases f <;> guards_to_prop <;> guards_done

/-- a set bit without a subfield definition is the error that names the bit -/
theorem bitmap_scan_guard_translated (bm : Bitmap) (dispatch : Tag → Bytes → Option (UR (Value × Nat)))
    (n i : Nat) (data : Bytes) (off : Nat) (acc : List (Tag × Value)) (hoff : ¬ off > data.length)
    (h : (bitmapped_unpackSubfieldsByBitmap_guards i bm.len (bm.isSet i)
            (dispatch (natToDec i) (data.drop off)).isSome).any id = true) :
    bitmapScan bm dispatch (n + 1) i data off acc = .err [natToDec i] := by
  obtain ⟨hs, hf⟩ := (bitmap_guards_iff _ _ _ _).mp h
  have hnone : dispatch (natToDec i) (data.drop off) = none := by
    cases hl : dispatch (natToDec i) (data.drop off) with
    | none => rfl
    | some v => simp [hl] at hf
  simp [bitmapScan, hs, hoff, hnone]

example : (tlv_unpackSubfieldsByTag_loops 5 5 0 0 0 true true).all id = false ∧
    (tlv_unpackSubfieldsByTag_loops 4 5 0 0 0 true true).all id = true := by decide

end Iso8583.GuardsTlv
