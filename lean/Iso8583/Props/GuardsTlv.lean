/-
C09 (and C04's loop bound), decision logic tied by TRANSLATION: the conditions of the element
loop of `Composite.unpackSubfieldsByTag` — when the loop ends, when an unknown element is an
error, when a skipped element overruns the composite, when an element that consumed nothing
stops the loop — and of the bit loop of `unpackSubfieldsByBitmap`, rendered from
/repo/field/composite.go on every run (`Gen/GuardsTlv.lean`), are the model's (`tlvLoop`,
`bitmapScan` of Model/Field.lean), step by step.
-/
import Iso8583.Gen.GuardsTlv
import Iso8583.Model.Field

namespace Iso8583.GuardsTlv
open Iso8583 Iso8583.Gen.Guards

/-- the loop ends exactly when the source's condition `offset < len(data)` fails -/
theorem tlv_loop_end_translated (t : TagSpec) (enc : Enc) (isBer : Bool) (known : Tag → Bool)
    (dispatch : Tag → Bytes → UR (Value × Nat)) (fuel : Nat) (data : Bytes) (offset : Nat)
    (acc : List (Tag × Value)) (fl rd st : Int) (k s : Bool)
    (h : (tlv_unpackSubfieldsByTag_loops offset data.length fl rd st k s).all id = false) :
    tlvLoop t enc isBer known dispatch (fuel + 1) data offset acc = .ok (acc, offset) := by
  simp only [tlv_unpackSubfieldsByTag_loops, List.all_cons, List.all_nil, id, Bool.and_true,
    decide_eq_false_iff_not] at h
  have : offset ≥ data.length := by omega
  simp [tlvLoop, this]

/-- is unknown-tag skipping in force (`skipUnknownTLVTags()`) -/
def skipping (t : TagSpec) (isBer : Bool) : Bool := t.skipUnknown && (isBer || t.prefUnknown.isSome)

/-- an unknown tag without skipping is the error that names the tag: the source's second
condition -/
theorem tlv_unknown_translated (t : TagSpec) (enc : Enc) (isBer : Bool) (known : Tag → Bool)
    (dispatch : Tag → Bytes → UR (Value × Nat)) (fuel : Nat) (data : Bytes) (offset : Nat)
    (acc : List (Tag × Value)) (tagBytes : Bytes) (read : Nat)
    (hcont : ¬ offset ≥ data.length)
    (hd : Enc.decode enc (data.drop offset) t.len = .ok (tagBytes, read))
    (fl rd st : Int)
    (hg : (tlv_unpackSubfieldsByTag_guards (offset + read : Nat) data.length fl rd st
            (known (t.pad.unpad tagBytes)) (skipping t isBer)).getD 1 false = true) :
    tlvLoop t enc isBer known dispatch (fuel + 1) data offset acc = .err [t.pad.unpad tagBytes] := by
  simp only [tlv_unpackSubfieldsByTag_guards, List.getD_cons_succ, List.getD_cons_zero, Bool.and_eq_true,
    Bool.not_eq_true'] at hg
  obtain ⟨hk, hs⟩ := hg
  unfold skipping at hs
  simp [tlvLoop, hcont, hd, hk, hs]

/-- a skipped unknown element whose announced length overruns the composite is rejected: the
source's first condition (over `Int`; the model's second disjunct is the case in which Go's
`len(data)-offset-read` is negative) -/
theorem tlv_skip_bound_translated (dlen offset read fieldLength : Nat) :
    ((tlv_unpackSubfieldsByTag_guards offset dlen fieldLength read 0 false true).getD 0 false = true) ↔
      (fieldLength > dlen - offset - read ∨ offset + read > dlen) := by
  simp only [tlv_unpackSubfieldsByTag_guards, List.getD_cons_zero, Bool.not_false, Bool.and_self, Bool.true_and,
    Bool.or_eq_true, decide_eq_true_eq]
  omega

/-- an element that consumed neither tag nor value bytes stops the loop: the source's third
condition `offset == start` after `offset = start + read + read'` -/
theorem tlv_no_progress_translated (start read read' : Nat) :
    ((tlv_unpackSubfieldsByTag_guards (start + read + read' : Nat) 0 0 0 start true true).getD 2 false = true) ↔
      (read = 0 ∧ read' = 0) := by
  simp only [tlv_unpackSubfieldsByTag_guards, List.getD_cons_succ, List.getD_cons_zero, Bool.not_true, Bool.not_false,
    Bool.and_self, Bool.true_and, decide_eq_true_eq]
  omega

/-- the model's step uses exactly these two conditions -/
theorem tlv_step_uses_bound (t : TagSpec) (enc : Enc) (isBer : Bool) (known : Tag → Bool)
    (dispatch : Tag → Bytes → UR (Value × Nat)) (fuel : Nat) (data : Bytes) (offset : Nat)
    (acc : List (Tag × Value)) (tagBytes : Bytes) (read fieldLength rd : Nat) (p : Pref)
    (hcont : ¬ offset ≥ data.length)
    (hd : Enc.decode enc (data.drop offset) t.len = .ok (tagBytes, read))
    (hk : known (t.pad.unpad tagBytes) = false) (hs : skipping t isBer = true)
    (hp : t.prefUnknown = some p) (hoff : ¬ offset + read > data.length)
    (hl : p.decodeLength maxInt (data.drop (offset + read)) = .ok (fieldLength, rd))
    (hg : (tlv_unpackSubfieldsByTag_guards (offset + read : Nat) data.length fieldLength rd 0 false true).getD 0 false = true) :
    tlvLoop t enc isBer known dispatch (fuel + 1) data offset acc = .err [t.pad.unpad tagBytes] := by
  have hb := (tlv_skip_bound_translated data.length (offset + read) rd fieldLength).mp hg
  unfold skipping at hs
  simp only [tlvLoop, hcont, if_false, hd, hk, Bool.not_false, if_true, hs, hp, hoff, hl]
  simp [hb]

/-! ### the bit loop of a bitmapped composite -/

/-- `for i := 1; i <= Len; i++`: the model scans `Len` bit numbers starting at 1 -/
theorem bitmap_loop_bound_translated (bmLen i : Nat) (hi : 1 ≤ i) (s f : Bool) :
    (bitmapped_unpackSubfieldsByBitmap_loops i bmLen s f).all id = true ↔ i < 1 + bmLen := by
  simp only [bitmapped_unpackSubfieldsByBitmap_loops, List.all_cons, List.all_nil, id, Bool.and_true, decide_eq_true_eq]
  omega

/-- a set bit without a subfield definition is the error that names the bit -/
theorem bitmap_scan_guard_translated (bm : Bitmap) (dispatch : Tag → Bytes → Option (UR (Value × Nat)))
    (n i : Nat) (data : Bytes) (off : Nat) (acc : List (Tag × Value)) (hoff : ¬ off > data.length)
    (h : (bitmapped_unpackSubfieldsByBitmap_guards i bm.len (bm.isSet i)
            (dispatch (natToDec i) (data.drop off)).isSome).any id = true) :
    bitmapScan bm dispatch (n + 1) i data off acc = .err [natToDec i] := by
  simp only [bitmapped_unpackSubfieldsByBitmap_guards, List.any_cons, List.any_nil, id, Bool.or_false,
    Bool.and_eq_true, Bool.not_eq_true', Option.isSome_eq_false_iff, Option.isNone_iff_eq_none] at h
  simp [bitmapScan, h.1, hoff, h.2]

example : (tlv_unpackSubfieldsByTag_loops 5 5 0 0 0 true true).all id = false ∧
    (tlv_unpackSubfieldsByTag_loops 4 5 0 0 0 true true).all id = true := by decide

end Iso8583.GuardsTlv
