/-
C11 — Struct Marshal / Unmarshal round-trips data and respects presence.

Property theorems about the model `Model/Marshal.lean` (Message.Marshal / Unmarshal,
Composite.Marshal / Unmarshal, NewIndexTag and the per-kind type switches), for ALL message
specs, all struct shapes (any number of fields, any nesting depth, any tag style) and all
values; helper lemmas and the definitions used in the statements (`documented`, `canonGo`,
`docOK`, `RT`, `RTs`, `addressedField`, `handedOver`, …) are in `Lemmas/Marshal.lean`.

  * `marshal_unmarshal_partial` / `composite_marshal_unmarshal_partial` — documented Go types:
    Marshal into a fresh message (composite), then Unmarshal into the zero value of the same
    struct type succeeds and every non-zero field comes back unchanged up to the target
    field's canonical form (`RTs`, `canonGo`), zero fields without keepzero stay zero.
    PARTIAL: `[]byte` struct fields (by value) are excluded — the open finding KF4:
    `Message.Unmarshal` hands the slice over by value and `Binary.Unmarshal` / `Hex.Unmarshal`
    reject it.  `marshal_unmarshal_Statement` is the full statement, `marshal_unmarshal_witness`
    proves it false at the KF4 cell.
  * `marshal_unmarshal_wire` — the same through Pack and Unpack into a second message, with
    the C01 round trip (`unpack (pack m) = canon m`) as an explicit hypothesis: Unmarshal
    from the second message is Unmarshal from the first message's values in canonical form.
  * `zero_omitted_unless_keepzero`, `marshal_marks_present` (+ composite versions).
  * `unmarshal_writes_only_present` (+ composite version).
  * `marshal_rejects_undocumented` (+ `composite_rejects_non_struct_pointer`,
    `composite_accepts_library_pointer_witness`).
-/
import Iso8583.Lemmas.Marshal

namespace Iso8583.C11
open Iso8583

/-! ### Marshal ∘ Unmarshal -/

/-- FULL STATEMENT (false at the KF4 cell, see `marshal_unmarshal_witness`): for every struct
whose fields use the documented Go types (`docFields true`: `[]byte` by value included) and
address pairwise different message fields, Marshal into a fresh message followed by
Unmarshal into the zero value of the struct type succeeds and relates the two structs by
`RTs`: non-zero fields unchanged up to canonical form, recursively through struct pointers. -/
def marshal_unmarshal_Statement : Prop :=
  ∀ (spec : MsgSpec) (g : GoStruct) (st : MState),
    docFields true (addressedField spec) g = true → allDistinct (addressedIds spec g) = true →
    marshalMsg spec [] g = .ok st →
    ∃ g', unmarshalMsg spec st (GoVal.zeroFields g) = .ok g' ∧ RTs (addressedField spec) g g'

/-- PARTIAL (KF4 excluded: `docFields false` forbids `[]byte` struct fields by value, at any
nesting level; everything else of the matrix is covered). -/
theorem marshal_unmarshal_partial (spec : MsgSpec) (g : GoStruct) (st : MState)
    (hdoc : docFields false (addressedField spec) g = true)
    (hdist : allDistinct (addressedIds spec g) = true)
    (hm : marshalMsg spec [] g = .ok st) :
    ∃ g', unmarshalMsg spec st (GoVal.zeroFields g) = .ok g' ∧ RTs (addressedField spec) g g' :=
  rt_msgFields spec g [] st hdoc hdist (by intros; rfl) hm st (by intros; rfl)

/-- the same for a composite on its own: `Composite.Marshal(&s)` into a fresh composite,
`Composite.Unmarshal` into a fresh `s`. -/
theorem composite_marshal_unmarshal_partial (s : CompSpec) (subs : List (Tag × Field))
    (fields : GoStruct) (val : Value)
    (hdoc : docOK false (.comp s subs) (.structPtr false fields) = true)
    (hm : marshalField (.comp s subs) none false (.structPtr false fields) = .ok val) :
    ∃ fields', unmarshalField (.comp s subs) val false (.structPtr true (GoVal.zeroFields fields)) =
        .ok (.structPtr false fields') ∧ RTs (addressedSub subs) fields fields' := by
  obtain ⟨v', hu, hrt⟩ := rt_field _ _ false val hdoc hm
  have hz := unmarshalField_zero (.structPtr false fields) (.comp s subs) val false
  simp only [GoVal.zero] at hz
  rw [hz, hu]
  have := hrt rfl (by simp [GoVal.isZero])
  simp only [RT] at this
  obtain ⟨fields', rfl, h⟩ := this
  exact ⟨fields', rfl, h⟩

/-- what `RT` says for one primitive cell: the value comes back as `canonGo kind v` — the
same Go type; decimal text re-rendered by a Numeric field, hex text lower-cased by a Binary
field, everything else identical. -/
theorem primitive_cell_roundtrip (k : Kind) (v : GoVal) (val : Value)
    (hdoc : documented k v = true) (hnz : v.isZero = false) (hrange : v.intsInRange = true)
    (hkf4 : v.isBytesByValue = false) (hm : marshalPrim k v = .ok val) :
    unmarshalPrim k val v.zero = .ok (canonGo k v) :=
  rt_prim k v val hdoc hnz hrange hkf4 hm

/-- String fields, library types and integers come back identical -/
theorem canonGo_identity_cells (v : GoVal) :
    canonGo .string v = v ∧
    (∀ n i, canonGo .numeric (.libNumeric n i) = .libNumeric n i) ∧
    (∀ i, canonGo .numeric (.int64 i) = .int64 i) ∧
    (∀ n b, canonGo .binary (.libBinary n b) = .libBinary n b) ∧
    (∀ s, canonGo .hex (.str s) = .str s) ∧
    (∀ n b, canonGo .hex (.ptr false (.bytes n b)) = .ptr false (.bytes false b)) := by
  refine ⟨?_, ?_, ?_, ?_, ?_, ?_⟩ <;> intros <;> simp [canonGo]

/-- KF4 witness spec: MTI + one Binary field (id 2) -/
def kf4Spec : MsgSpec :=
  { mti := { kind := .string, len := 4, enc := .ascii, pref := .fixed .ascii, pad := .nil },
    bitmap := { specLen := 8, enc := .binary, pref := .fixed .binary, auto := true },
    fields := [(2, .prim { kind := .binary, len := 8, enc := .binary, pref := .var .ascii 2, pad := .nil })] }

/-- struct { F2 []byte } with F2 = {0x0a} -/
def kf4Struct : GoStruct := [({ goName := [70, 50], indexTag := [], isoTag := [] }, .bytes false [10])]

/-- WITNESS (KF4): a `[]byte` struct field holding one byte is marshalled into a Binary field,
and Unmarshal into a fresh struct of the same type fails. -/
theorem marshal_unmarshal_witness : ¬ marshal_unmarshal_Statement := by
  intro h
  obtain ⟨g', hu, _⟩ := h kf4Spec kf4Struct [(2, .bin [10])] (by decide) (by decide) (by rfl)
  have : unmarshalMsg kf4Spec [(2, .bin [10])] (GoVal.zeroFields kf4Struct) = .err := by rfl
  rw [this] at hu
  cases hu

/-! ### … and through Pack / Unpack into a second message -/

/-- Marshal → Pack → Unpack into a second message → Unmarshal, with the C01 round trip
(`unpack (pack m) = canon m`, all bytes consumed) as an explicit hypothesis: Unmarshal from
the second message is exactly Unmarshal from the first message's values put in the
canonical form of their fields (`canonState`: pad stripped, hex upper-cased, subfields in
spec order — `Field.canon` of Spec/Coherent.lean), for every target struct `g0`. -/
theorem marshal_unmarshal_wire (spec : MsgSpec) (g g0 : GoStruct) (st : MState) (bs : Bytes)
    (hm : marshalMsg spec [] g = .ok st) (hpack : spec.pack st.toMsg = .ok bs)
    (hC01 : spec.unpack bs = .ok (spec.canon st.toMsg, bs.length)) :
    viaWire spec st g0 = unmarshalMsg spec (canonState spec st) g0 := by
  obtain ⟨hd, h1⟩ := marshalMsg_keys spec g [] st hm (by rfl) (by rfl)
  simp only [viaWire, hpack, hC01]
  apply unmarshalMsg_congr
  intro i
  rw [wire_state_lookup spec st hd h1 i]
  exact (lookupId_map_val (canonAt spec) i st).symm

/-- consequently, when the values Marshal stored are already canonical for their fields
(nothing for the padder to strip, …), the round trip through the wire is the direct one:
it succeeds and every non-zero field comes back unchanged up to `canonGo` (KF4 excluded). -/
theorem marshal_unmarshal_wire_partial (spec : MsgSpec) (g : GoStruct) (st : MState) (bs : Bytes)
    (hdoc : docFields false (addressedField spec) g = true)
    (hdist : allDistinct (addressedIds spec g) = true)
    (hm : marshalMsg spec [] g = .ok st) (hpack : spec.pack st.toMsg = .ok bs)
    (hC01 : spec.unpack bs = .ok (spec.canon st.toMsg, bs.length))
    (hcanon : ∀ i v, lookupId i st = some v → canonAt spec i v = v) :
    ∃ g', viaWire spec st (GoVal.zeroFields g) = .ok g' ∧ RTs (addressedField spec) g g' := by
  rw [marshal_unmarshal_wire spec g _ st bs hm hpack hC01]
  have : unmarshalMsg spec (canonState spec st) (GoVal.zeroFields g) =
      unmarshalMsg spec st (GoVal.zeroFields g) := by
    apply unmarshalMsg_congr
    intro i
    rw [canonState, lookupId_map_val (canonAt spec) i st]
    cases hl : lookupId i st with
    | none => rfl
    | some v => simp [hcanon i v hl]
  rw [this]
  exact marshal_unmarshal_partial spec g st hdoc hdist hm

/-- integers stored in Numeric fields are canonical as they are: they survive the wire exactly -/
theorem numeric_values_are_canonical (s : PrimSpec) (i : Int) : s.canon (.num i) = .num i := rfl

/-! ### zero values and presence -/

/-- after Marshal a message field is set iff it was set before or some struct field
addresses it and is non-zero or tagged keepzero (`handedOver`). -/
theorem marshal_marks_present (spec : MsgSpec) (g : GoStruct) (st st' : MState)
    (hm : marshalMsg spec st g = .ok st') (i : Nat) :
    (lookupId i st').isSome =
      ((lookupId i st).isSome ||
        g.any (fun p => decide (p.1.indexTagOf.id = (i : Int)) && (addressedField spec p.1).isSome &&
          handedOver false p.1 p.2)) :=
  marshalMsg_present spec g st st' hm i

/-- Zero-valued struct fields are left out of the message unless tagged keepzero: a message
field that was not set and that only zero-valued struct fields without keepzero address is
not set after Marshal. -/
theorem zero_omitted_unless_keepzero (spec : MsgSpec) (g : GoStruct) (st st' : MState)
    (hm : marshalMsg spec st g = .ok st') (i : Nat) (hnot : lookupId i st = none)
    (hzero : ∀ p ∈ g, p.1.indexTagOf.id = (i : Int) → p.2.isZero = true ∧ p.1.indexTagOf.keepZero = false) :
    lookupId i st' = none := by
  have h := marshalMsg_present spec g st st' hm i
  have hany : (g.any fun p => decide (p.1.indexTagOf.id = (i : Int)) && (addressedField spec p.1).isSome &&
      handedOver false p.1 p.2) = false := by
    rw [List.any_eq_false]
    intro p hp
    by_cases hid : p.1.indexTagOf.id = (i : Int)
    · obtain ⟨hz, hk⟩ := hzero p hp hid
      simp [handedOver, hz, hk]
    · simp [hid]
  rw [hnot, hany] at h
  cases hl : lookupId i st' with
  | none => rfl
  | some _ => simp [hl] at h

/-- … and a non-zero (or keepzero) field that addresses a message field of the spec is set. -/
theorem nonzero_or_keepzero_is_set (spec : MsgSpec) (g : GoStruct) (st st' : MState)
    (hm : marshalMsg spec st g = .ok st') (h : FieldHdr) (v : GoVal) (hmem : (h, v) ∈ g)
    (haddr : (addressedField spec h).isSome = true)
    (hnz : v.isZero = false ∨ h.indexTagOf.keepZero = true) :
    (lookupId h.indexTagOf.id.toNat st').isSome = true := by
  rw [marshalMsg_present spec g st st' hm]
  have hid : ¬ h.indexTagOf.id < 0 := by
    intro hlt; simp [addressedField, hlt] at haddr
  have : (g.any fun p => decide (p.1.indexTagOf.id = ((h.indexTagOf.id.toNat : Nat) : Int)) &&
      (addressedField spec p.1).isSome && handedOver false p.1 p.2) = true := by
    rw [List.any_eq_true]
    refine ⟨(h, v), hmem, ?_⟩
    have h1 : h.indexTagOf.id = ((h.indexTagOf.id.toNat : Nat) : Int) := by omega
    have h2 : handedOver false h v = true := by
      unfold handedOver
      rcases hnz with hz | hk
      · simp [hz]
      · simp [hk]
    simp only [haddr, h2, Bool.and_true, decide_eq_true_eq]
    exact h1
  rw [this]; simp

/-- the same inside a composite (any nesting level: `z` = the struct was allocated by
`Composite.Marshal` because the pointer to it was nil). -/
theorem composite_marks_present (subs : List (Tag × Field)) (fields : GoStruct)
    (vals vals' : List (Tag × Value)) (z : Bool)
    (hm : marshalSubs subs vals z fields = .ok vals') (t : Tag) :
    (lookup t vals').isSome =
      ((lookup t vals).isSome ||
        fields.any (fun p => p.1.indexTagOf.tag == t && (addressedSub subs p.1).isSome && handedOver z p.1 p.2)) :=
  marshalSubs_present subs fields vals z vals' hm t

theorem composite_zero_omitted_unless_keepzero (subs : List (Tag × Field)) (fields : GoStruct)
    (vals vals' : List (Tag × Value)) (z : Bool)
    (hm : marshalSubs subs vals z fields = .ok vals') (t : Tag) (hnot : lookup t vals = none)
    (hzero : ∀ p ∈ fields, p.1.indexTagOf.tag = t → (p.2.eff z).isZero = true ∧ p.1.indexTagOf.keepZero = false) :
    lookup t vals' = none := by
  have h := marshalSubs_present subs fields vals z vals' hm t
  have hany : (fields.any fun p => p.1.indexTagOf.tag == t && (addressedSub subs p.1).isSome &&
      handedOver z p.1 p.2) = false := by
    rw [List.any_eq_false]
    intro p hp
    by_cases hid : p.1.indexTagOf.tag = t
    · obtain ⟨hz, hk⟩ := hzero p hp hid
      simp [handedOver, hz, hk]
    · simp [hid]
  rw [hnot, hany] at h
  cases hl : lookup t vals' with
  | none => rfl
  | some _ => simp [hl] at h

/-! ### Unmarshal writes only present fields -/

/-- Unmarshal keeps the struct's shape and leaves every struct field untouched whose message
field is not set (or that addresses no message field). -/
theorem unmarshal_writes_only_present (spec : MsgSpec) (st : MState) (g g' : GoStruct)
    (hu : unmarshalMsg spec st g = .ok g') :
    Forall2 (fun a b => b.1 = a.1 ∧ (fieldWritten spec st a.1 = false → b.2 = a.2)) g g' :=
  unmarshalMsg_frame spec st g g' hu

/-- inside a composite: fields whose subfield is not set keep their value (`z = false`; in a
struct that Unmarshal had to allocate they are the zero value). -/
theorem composite_unmarshal_writes_only_present (subs : List (Tag × Field)) (vals : List (Tag × Value))
    (fields fields' : GoStruct) (z : Bool) (hu : unmarshalSubs subs vals z fields = .ok fields') :
    Forall2 (fun a b => b.1 = a.1 ∧ (subWritten subs vals a.1 = false → b.2 = a.2.eff z)) fields fields' :=
  unmarshalSubs_frame subs vals fields z fields' hu

/-! ### undocumented pairings -/

/-- A non-zero Go value whose type the field kind does not document is rejected by Marshal.
(A zero value of any type is accepted when tagged keepzero: the field is cleared — for a
String field only if the type's name does not contain "int".) -/
theorem marshal_rejects_undocumented (s : PrimSpec) (cur : Option Value) (v : GoVal)
    (hdoc : documented s.kind v = false) (hnz : v.isZero = false) :
    marshalField (.prim s) cur false v = .err := by
  have : marshalField (.prim s) cur false v = marshalPrim s.kind v := by
    cases v <;> simp [marshalField]
  rw [this]
  exact marshalPrim_rejects s.kind v hdoc hnz

/-- a composite accepts pointers to structs only: strings, integers, slices and pointers to
them are rejected (zero or not). -/
theorem composite_rejects_non_struct_pointer (s : CompSpec) (subs : List (Tag × Field))
    (cur : Option Value) (z : Bool) (v : GoVal)
    (hv : (∃ x, v = .str x) ∨ (∃ x, v = .int x) ∨ (∃ x, v = .int64 x) ∨ (∃ n x, v = .bytes n x) ∨
      (∃ n x, v = .ptr n x)) :
    marshalField (.comp s subs) cur z v = .err := by
  rcases hv with ⟨x, rfl⟩ | ⟨x, rfl⟩ | ⟨x, rfl⟩ | ⟨n, x, rfl⟩ | ⟨n, x, rfl⟩ <;> simp [marshalField]

/-- OBSERVATION (not part of the property statement): the library's own field types are
pointers to structs without tagged fields, so `Composite.Marshal` accepts e.g. a
`*field.String` and sets nothing. -/
theorem composite_accepts_library_pointer_witness (s : CompSpec) (subs : List (Tag × Field)) :
    marshalField (.comp s subs) none false (.libString false [49, 50]) = .ok (.comp []) := by
  simp [marshalField, curVals]

/-! ### Non-vacuity: a coherent spec with a composite, a struct using every tag style,
nested struct pointer, zero / keepzero fields — the hypotheses hold and the round trip is
the expected one. -/

def demoSpec : MsgSpec :=
  { mti := { kind := .string, len := 4, enc := .ascii, pref := .fixed .ascii, pad := .nil },
    bitmap := { specLen := 8, enc := .binary, pref := .fixed .binary, auto := true },
    fields := [
      (2, .prim { kind := .string, len := 19, enc := .ascii, pref := .var .ascii 2, pad := .nil }),
      (3, .prim { kind := .numeric, len := 6, enc := .ascii, pref := .fixed .ascii, pad := .left 48 }),
      (4, .prim { kind := .binary, len := 8, enc := .binary, pref := .var .ascii 2, pad := .nil }),
      (6, .comp { len := 99, pref := .var .ascii 2,
                  mode := .tagged { len := 2, enc := some .ascii, pad := .nil, sort := .strings,
                                    skipUnknown := false, prefUnknown := none } }
            [([48, 49], .prim { kind := .string, len := 5, enc := .ascii, pref := .var .ascii 1, pad := .nil }),
             ([48, 50], .prim { kind := .hex, len := 4, enc := .binary, pref := .var .ascii 1, pad := .nil })])] }

/-- struct { X0 string `index:"0"`; F2 int; X2 string `iso8583:"3"`; X3 *[]byte `index:"4,keepzero"`;
  X4 *struct{ F01 *string; X1 []byte… no: *[]byte `iso8583:"02"` } `index:"6"`; X5 string `iso8583:"2"`… } -/
def demoStruct : GoStruct :=
  [ ({ goName := [88, 48], indexTag := [48], isoTag := [] }, .str [48, 49, 48, 48]),
    ({ goName := [70, 50], indexTag := [], isoTag := [] }, .int 4111),
    ({ goName := [88, 50], indexTag := [], isoTag := [51] }, .str [48, 48, 55]),
    ({ goName := [88, 51], indexTag := [52, 44, 107, 101, 101, 112, 122, 101, 114, 111], isoTag := [] },
      .ptr true (.bytes true [])),
    ({ goName := [88, 52], indexTag := [54], isoTag := [] },
      .structPtr false
        [ ({ goName := [70, 48, 49], indexTag := [], isoTag := [] }, .ptr false (.str [97, 98])),
          ({ goName := [88, 49], indexTag := [], isoTag := [48, 50] }, .ptr false (.bytes false [10, 255])),
          ({ goName := [89], indexTag := [], isoTag := [] }, .str [120]) ]) ]

example : demoSpec.coherent = true := by decide
example : docFields false (addressedField demoSpec) demoStruct = true := by decide
example : allDistinct (addressedIds demoSpec demoStruct) = true := by decide
example : (marshalMsg demoSpec [] demoStruct).isOk = true := by decide
/-- the round trip on the demo struct: "007" comes back as "7" (Numeric field), the nil
`*[]byte` with keepzero comes back allocated and empty, the untagged field `Y` is reset -/
example : (marshalMsg demoSpec [] demoStruct >>= fun st => unmarshalMsg demoSpec st (GoVal.zeroFields demoStruct)) =
    .ok [ ({ goName := [88, 48], indexTag := [48], isoTag := [] }, .str [48, 49, 48, 48]),
          ({ goName := [70, 50], indexTag := [], isoTag := [] }, .int 4111),
          ({ goName := [88, 50], indexTag := [], isoTag := [51] }, .str [55]),
          ({ goName := [88, 51], indexTag := [52, 44, 107, 101, 101, 112, 122, 101, 114, 111], isoTag := [] },
            .ptr false (.bytes false [])),
          ({ goName := [88, 52], indexTag := [54], isoTag := [] },
            .structPtr false
              [ ({ goName := [70, 48, 49], indexTag := [], isoTag := [] }, .ptr false (.str [97, 98])),
                ({ goName := [88, 49], indexTag := [], isoTag := [48, 50] }, .ptr false (.bytes false [10, 255])),
                ({ goName := [89], indexTag := [], isoTag := [] }, .str []) ]) ] := by rfl
/-- the hypotheses of the wire theorems on the demo struct: Pack succeeds and the C01 round
trip holds for the marshalled message -/
def demoState : MState :=
  match marshalMsg demoSpec [] demoStruct with
  | .ok st => st
  | _ => []
def demoWire : Bytes :=
  match demoSpec.pack demoState.toMsg with
  | .ok bs => bs
  | _ => []
example : marshalMsg demoSpec [] demoStruct = .ok demoState := by rfl
example : demoSpec.pack demoState.toMsg = .ok demoWire := by rfl
example : demoSpec.unpack demoWire = .ok (demoSpec.canon demoState.toMsg, demoWire.length) := by rfl
example : ∀ i v, lookupId i demoState = some v → canonAt demoSpec i v = v := by
  intro i v h
  have : i = 0 ∨ i = 2 ∨ i = 3 ∨ i = 4 ∨ i = 6 ∨ lookupId i demoState = none := by
    by_cases h0 : i = 0; · exact Or.inl h0
    by_cases h2 : i = 2; · exact Or.inr (Or.inl h2)
    by_cases h3 : i = 3; · exact Or.inr (Or.inr (Or.inl h3))
    by_cases h4 : i = 4; · exact Or.inr (Or.inr (Or.inr (Or.inl h4)))
    by_cases h6 : i = 6; · exact Or.inr (Or.inr (Or.inr (Or.inr (Or.inl h6))))
    refine Or.inr (Or.inr (Or.inr (Or.inr (Or.inr ?_))))
    have e : demoState = [(0, .str [48, 49, 48, 48]), (2, .str [52, 49, 49, 49]), (3, .num 7), (4, .bin []),
        (6, .comp [([48, 49], .str [97, 98]), ([48, 50], .hexv [48, 65, 70, 70])])] := by rfl
    rw [e]
    have h0' : ¬ 0 = i := fun e => h0 e.symm
    have h2' : ¬ 2 = i := fun e => h2 e.symm
    have h3' : ¬ 3 = i := fun e => h3 e.symm
    have h4' : ¬ 4 = i := fun e => h4 e.symm
    have h6' : ¬ 6 = i := fun e => h6 e.symm
    simp [lookupId, h0', h2', h3', h4', h6']
  rcases this with rfl | rfl | rfl | rfl | rfl | hn
  · have : v = .str [48, 49, 48, 48] := by
      have e : lookupId 0 demoState = some (.str [48, 49, 48, 48]) := by rfl
      rw [e] at h; exact (Option.some.inj h).symm
    subst this; rfl
  · have : v = .str [52, 49, 49, 49] := by
      have e : lookupId 2 demoState = some (.str [52, 49, 49, 49]) := by rfl
      rw [e] at h; exact (Option.some.inj h).symm
    subst this; rfl
  · have : v = .num 7 := by
      have e : lookupId 3 demoState = some (.num 7) := by rfl
      rw [e] at h; exact (Option.some.inj h).symm
    subst this; rfl
  · have : v = .bin [] := by
      have e : lookupId 4 demoState = some (.bin []) := by rfl
      rw [e] at h; exact (Option.some.inj h).symm
    subst this; rfl
  · have : v = .comp [([48, 49], .str [97, 98]), ([48, 50], .hexv [48, 65, 70, 70])] := by
      have e : lookupId 6 demoState = some (.comp [([48, 49], .str [97, 98]), ([48, 50], .hexv [48, 65, 70, 70])]) := by rfl
      rw [e] at h; exact (Option.some.inj h).symm
    subst this; rfl
  · rw [hn] at h; cases h
example : documented .string (.ptr false (.int 5)) = true ∧ documented .numeric (.int 5) = false := by decide
example : marshalPrim .numeric (.int 5) = .err := by rfl
example : (FieldHdr.indexTagOf { goName := [88], indexTag := [50], isoTag := [51] }).id = 2 := by decide
example : (FieldHdr.indexTagOf { goName := [70, 55], indexTag := [], isoTag := [44, 107, 101, 101, 112, 122, 101, 114, 111] }) =
    { id := 7, tag := [55], keepZero := true } := by decide

end Iso8583.C11
