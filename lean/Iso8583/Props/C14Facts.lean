/-
C14 (and C10), structural facts tied by TRANSLATION: over the regenerated access summaries of every
method of `Message` and `Composite` (`Gen/LockFacts.lean`: which guarded fields a method reads and
writes, which methods of child fields it calls — rendered from message.go / field/composite.go on
every run),
* every method that WRITES INTO a child field (SetBytes / Marshal / Unpack on it) also writes the
  presence set of its own object (`fieldsMap`, `setSubfields`): no writer forgets to mark;
* unsetting RE-CREATES the field object (writes `fields` / `subfields`) besides unmarking it, so
  nothing nested below can survive — an unset that merely empties the object in place has another
  summary;
* unpack starts from new field objects and an empty presence set (writes both before the first
  child is decoded).
These are necessary conditions of the refinement proved in Props/C14.lean / C10.lean about the
hand-written object model; here they are read off the source.
-/
import Iso8583.Gen.LockFacts

namespace Iso8583.C14Facts
open Iso8583

abbrev Step := String × String × String × String

def stepsOf (ty method : String) : List Step :=
  match Gen.lockFacts.find? (fun r => r.1 == ty && r.2.1 == method) with
  | some r => r.2.2.2
  | none => [("missing", "", "", "")]

def writes (s : List Step) (fld : String) : Bool := s.any (fun x => x.1 == "write" && x.2.1 == fld)

def childWriters : List String := ["SetBytes", "Marshal", "Unpack", "UnmarshalJSON"]

def writesIntoChild (s : List Step) : Bool :=
  s.any (fun x => x.1 == "callOther" && x.2.1 == "child" && x.2.2.1 == "Field" && childWriters.contains x.2.2.2)

def presenceField (ty : String) : String := if ty == "Message" then "fieldsMap" else "setSubfields"
def objectsField (ty : String) : String := if ty == "Message" then "fields" else "subfields"

/-- **no writer forgets to mark**: a method that writes into a child field writes the presence set -/
theorem writers_mark_presence :
    Gen.lockFacts.all (fun r => !writesIntoChild r.2.2.2 || writes r.2.2.2 (presenceField r.1)) = true := by
  decide +kernel

/-- **unset re-creates**: `Message.unsetField` / `Composite.unsetSubfield` replace the field object
and unmark it -/
theorem unset_recreates :
    writes (stepsOf "Message" "unsetField") "fields" = true ∧ writes (stepsOf "Message" "unsetField") "fieldsMap" = true ∧
    writes (stepsOf "Composite" "unsetSubfield") "subfields" = true ∧
    writes (stepsOf "Composite" "unsetSubfield") "setSubfields" = true := by
  decide +kernel

/-- position of the first step satisfying `p` (length of the list when there is none) -/
def firstIdx (s : List Step) (p : Step → Bool) : Nat := (s.takeWhile (fun x => !p x)).length

/-- **unpack starts afresh**: the field objects and the presence set are written before the first
child is decoded (Message.unpack) / before the subfield loops are entered (Composite.unpack) -/
theorem unpack_starts_afresh :
    (let s := stepsOf "Message" "unpack"
     let firstChild := firstIdx s (fun x => x.1 == "callOther" && x.2.1 == "child")
     firstIdx s (fun x => x.1 == "write" && x.2.1 == "fields") < firstChild ∧
     firstIdx s (fun x => x.1 == "write" && x.2.1 == "fieldsMap") < firstChild) ∧
    (let s := stepsOf "Composite" "unpack"
     let firstLoop := firstIdx s (fun x => x.1 == "call" && (x.2.1 == "unpackSubfields" || x.2.1 == "unpackSubfieldsByTag" || x.2.1 == "unpackSubfieldsByBitmap"))
     firstIdx s (fun x => x.1 == "write" && x.2.1 == "subfields") < firstLoop ∧
     firstIdx s (fun x => x.1 == "write" && x.2.1 == "setSubfields") < firstLoop) := by
  decide +kernel

/-- non-vacuity: there are methods that write into children -/
example : 6 ≤ (Gen.lockFacts.filter (fun r => writesIntoChild r.2.2.2)).length := by decide +kernel

end Iso8583.C14Facts
