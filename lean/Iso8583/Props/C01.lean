/-
C01 — Pack then Unpack reproduces the message (all field kinds, nested).
The statement for a field is `FieldRoundTrip` (Spec/Statements.lean); it is proved for every
primitive field (all kinds × encoders × prefixers × padders × both packers, Lemmas/Prim.lean),
lifted through composites of any depth and mode (Lemmas/FieldRT.lean on top of C09's
composite round trips) and through messages (Lemmas/MessageRT.lean on top of C05's bitmap
theorems). Track1/2/3 fields are a separate family (Props/C01Tracks.lean).
-/
import Iso8583.Spec.Statements
import Iso8583.Lemmas.Prim
import Iso8583.Lemmas.FieldRT

namespace Iso8583.C01
open Iso8583

/-- every primitive field round-trips -/
theorem prim_field_roundtrip (s : PrimSpec) (lastPos : Bool) : FieldRoundTrip (.prim s) lastPos := by
  intro v tail bs hc hv hp ht
  exact field_prim_roundtrip s lastPos v tail bs hc hv hp ht


/-- **C01 for every field** (arbitrary nesting depth, all three composite modes): for a
coherent spec, an in-domain value on which Pack succeeds and whose packed bytes are a Go
slice (`≤ MaxInt` bytes), Unpack of the produced bytes — whatever bytes follow them —
yields the value in canonical form, consumes exactly the bytes Pack produced, and packing
the canonical value returns the identical bytes. By structural induction over the spec tree
(`Field.rec`), with the composite step from C09's `composite_roundtrip_{tagged,positional,
bitmapped}` and the base case `prim_field_roundtrip`. -/
theorem field_roundtrip (f : Field) (lastPos : Bool) : FieldRT.FieldRoundTripB f lastPos :=
  FieldRT.field_roundtrip prim_field_roundtrip f lastPos

/-- **C01 for every message**: for every coherent message spec and in-domain content on
which Pack succeeds (packed bytes a Go slice), unpacking `bs ++ tail` into a fresh message
yields exactly the canonical content — the same set of present fields and, recursively, the
same value for every field and subfield — having consumed `bs.length` bytes, and packing
the unpacked content returns the identical bytes. -/
theorem message_roundtrip (spec : MsgSpec) : FieldRT.MessageRoundTripB spec :=
  FieldRT.message_roundtrip prim_field_roundtrip spec

/-- the same, spelled out -/
theorem pack_unpack (spec : MsgSpec) (m : Msg) (tail bs : Bytes)
    (hc : spec.coherent = true) (hd : spec.inDomain m = true) (hp : spec.pack m = .ok bs)
    (hlen : bs.length ≤ maxInt) :
    spec.unpack (bs ++ tail) = .ok (spec.canon m, bs.length) ∧ spec.pack (spec.canon m) = .ok bs := by
  obtain ⟨⟨n, h1, h2⟩, h3⟩ := message_roundtrip spec m tail bs hc hd hp hlen
  subst h2
  exact ⟨h1, h3⟩

/-! Non-vacuity -/
def demoPrim : PrimSpec := { kind := .string, len := 10, enc := .ascii, pref := .var .ascii 2, pad := .left 32 }
example : (Field.prim demoPrim).coherent false = true := by decide
example : (Field.prim demoPrim).inDomain (.str [65, 66]) = true := by decide
example : (Field.prim demoPrim).pack (.str [65, 66]) = .ok ([49, 48] ++ List.replicate 8 32 ++ [65, 66]) := by decide

end Iso8583.C01
