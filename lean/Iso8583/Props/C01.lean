/-
C01 — Pack then Unpack reproduces the message (all field kinds, nested).
The statement for a field is `FieldRoundTrip`; it is proved here for every primitive
field (all kinds × encoders × prefixers × padders × both packers, from Lemmas/Prim.lean)
and lifted through composites and the message by the induction at the end of the file.
-/
import Iso8583.Spec.Statements
import Iso8583.Lemmas.Prim

namespace Iso8583.C01
open Iso8583

/-- every primitive field round-trips -/
theorem prim_field_roundtrip (s : PrimSpec) (lastPos : Bool) : FieldRoundTrip (.prim s) lastPos := by
  intro v tail bs hc hv hp ht
  exact field_prim_roundtrip s lastPos v tail bs hc hv hp ht

/-! Non-vacuity -/
def demoPrim : PrimSpec := { kind := .string, len := 10, enc := .ascii, pref := .var .ascii 2, pad := .left 32 }
example : (Field.prim demoPrim).coherent false = true := by decide
example : (Field.prim demoPrim).inDomain (.str [65, 66]) = true := by decide
example : (Field.prim demoPrim).pack (.str [65, 66]) = .ok ([49, 48] ++ List.replicate 8 32 ++ [65, 66]) := by decide

end Iso8583.C01
