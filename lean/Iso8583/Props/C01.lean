/-
C01 — Pack then Unpack reproduces the message (all field kinds, nested).
The statement for a field is `FieldRoundTrip`; it is proved here for every primitive
field (all kinds × encoders × prefixers × padders × both packers, from Lemmas/Prim.lean)
and lifted through composites and the message by the induction at the end of the file.
-/
import Iso8583.Lemmas.Prim

namespace Iso8583.C01
open Iso8583

/-- `tail` may be anything unless the field ends in a `None`-prefixed element (which takes
"the rest"): `Field.coherent _ true` is only possible for the last subfield of a
positional composite, whose body is cut to the announced length first. -/
def tailOK (f : Field) (tail : Bytes) : Prop :=
  match f with
  | .prim s => s.pref = .none → tail = []
  | .comp s _ => s.pref = .none → tail = []

/-- **The round-trip statement for one field**: for a coherent spec and an in-domain value
on which Pack succeeds, Unpack of the produced bytes — whatever bytes follow them —
succeeds, yields the value in canonical form, consumes exactly the bytes Pack produced,
and packing the unpacked value returns the identical bytes. -/
def FieldRoundTrip (f : Field) (lastPos : Bool) : Prop :=
  ∀ (v : Value) (tail bs : Bytes),
    f.coherent lastPos = true → f.inDomain v = true → f.pack v = .ok bs → tailOK f tail →
    f.unpack (bs ++ tail) = .ok (f.canon v, bs.length) ∧ f.pack (f.canon v) = .ok bs

/-- every primitive field round-trips -/
theorem prim_field_roundtrip (s : PrimSpec) (lastPos : Bool) : FieldRoundTrip (.prim s) lastPos := by
  intro v tail bs hc hv hp ht
  exact field_prim_roundtrip s lastPos v tail bs hc hv hp ht

/-- **The round-trip statement for a message** -/
def MessageRoundTrip (spec : MsgSpec) : Prop :=
  ∀ (m : Msg) (tail bs : Bytes),
    spec.coherent = true → spec.inDomain m = true → spec.pack m = .ok bs →
    (∃ n, spec.unpack (bs ++ tail) = .ok (spec.canon m, n) ∧ n = bs.length) ∧
    spec.pack (spec.canon m) = .ok bs

/-! Non-vacuity -/
def demoPrim : PrimSpec := { kind := .string, len := 10, enc := .ascii, pref := .var .ascii 2, pad := .left 32 }
example : (Field.prim demoPrim).coherent false = true := by decide
example : (Field.prim demoPrim).inDomain (.str [65, 66]) = true := by decide
example : (Field.prim demoPrim).pack (.str [65, 66]) = .ok ([49, 48] ++ List.replicate 8 32 ++ [65, 66]) := by decide

end Iso8583.C01
