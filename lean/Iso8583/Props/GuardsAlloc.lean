/-
C04, allocation tied by TRANSLATION: `Gen/GuardsAlloc.lean` lists, for the `Decode` of every encoder
and the `DecodeLength` of every variable-length prefixer, each `make` of the function body with the
number of error conditions that precede it in the source. Every buffer these functions allocate
is sized by the bytes that are present — at most `2·len(data) + 64` (twice the bytes present plus a constant) — under the checks that come
BEFORE the allocation; a function with no `make` has nothing to bound. An allocation moved in front
of its bounds check, or sized by the announced length, breaks the theorem of its function whether or
not a generated input announces a huge length.
-/
import Iso8583.Gen.GuardsAlloc
import Iso8583.Lemmas.GuardTactics

namespace Iso8583.GuardsAlloc
open Iso8583 Iso8583.Gen.Guards Iso8583.GuardFns

/-- what is demanded of one site: every `make` reached (its branch condition holds and none of the
error conditions before it fired) has non-negative sizes of at most `bound` -/
def Bounded (makes : List (Nat × Bool × List Int)) (guards : List Bool) (bound : Int) : Prop :=
  ∀ m ∈ makes, (guards.take m.1).any id = false → m.2.1 = true → ∀ sz ∈ m.2.2, 0 ≤ sz ∧ sz ≤ bound

theorem bounded_nil (g : List Bool) (b : Int) : Bounded [] g b := by
  intro m hm; cases hm

theorem bounded_cons (m : Nat × Bool × List Int) (ms : List (Nat × Bool × List Int)) (g : List Bool) (b : Int) :
    Bounded (m :: ms) g b ↔ (((g.take m.1).any id = false → m.2.1 = true → ∀ sz ∈ m.2.2, 0 ≤ sz ∧ sz ≤ b) ∧ Bounded ms g b) := by
  unfold Bounded
  simp only [List.forall_mem_cons]

theorem bounded_nil_iff (g : List Bool) (b : Int) : Bounded [] g b ↔ True := by
  simp [Bounded]

/-- unfolds `Bounded` over the literal list of makes (however many there are, with however many sizes) and
closes the arithmetic with `omega` -/
macro "alloc_bound" : tactic => `(tactic|
  (simp only [bounded_cons, bounded_nil_iff, and_true, List.forall_mem_cons, List.not_mem_nil, false_imp_iff, implies_true,
      List.take_succ_cons, List.take_zero, List.take_nil, List.any_cons, List.any_nil, id, Bool.or_false, Bool.or_eq_false_iff,
      decide_eq_false_iff_not, Bool.and_eq_true, Bool.and_eq_false_iff, decide_eq_true_eq, Bool.not_eq_true', Bool.not_eq_false']
   repeat' (first | constructor | intro)
   all_goals omega))

theorem ascii_decode_alloc (l d n r : Int) (hd : 0 ≤ d) : Bounded (ascii_DecodeA_makes l d n r) (ascii_DecodeA_guards l d n r) (2 * d + 64) := by
  unfold ascii_DecodeA_makes ascii_DecodeA_guards; alloc_bound
theorem binary_decode_alloc (l d n r : Int) (hd : 0 ≤ d) : Bounded (binary_DecodeA_makes l d n r) (binary_DecodeA_guards l d n r) (2 * d + 64) := by
  unfold binary_DecodeA_makes binary_DecodeA_guards; alloc_bound
theorem ebcdic_decode_alloc (l d n r : Int) (hd : 0 ≤ d) : Bounded (ebcdic_DecodeA_makes l d n r) (ebcdic_DecodeA_guards l d n r) (2 * d + 64) := by
  unfold ebcdic_DecodeA_makes ebcdic_DecodeA_guards; alloc_bound
theorem ebcdic1047_decode_alloc (l d n r : Int) (hd : 0 ≤ d) : Bounded (ebcdic1047_DecodeA_makes l d n r) (ebcdic1047_DecodeA_guards l d n r) (2 * d + 64) := by
  unfold ebcdic1047_DecodeA_makes ebcdic1047_DecodeA_guards; alloc_bound
theorem bcd_decode_alloc (l d n r : Int) (hd : 0 ≤ d) : Bounded (bcd_DecodeA_makes l d n r) (bcd_DecodeA_guards l d n r) (2 * d + 64) := by
  unfold bcd_DecodeA_makes bcd_DecodeA_guards; alloc_bound
theorem lbcd_decode_alloc (l d n r : Int) (hd : 0 ≤ d) : Bounded (lbcd_DecodeA_makes l d n r) (lbcd_DecodeA_guards l d n r) (2 * d + 64) := by
  unfold lbcd_DecodeA_makes lbcd_DecodeA_guards; alloc_bound
theorem bytesToHex_decode_alloc (l d n r : Int) (hd : 0 ≤ d) : Bounded (bytesToHex_DecodeA_makes l d n r) (bytesToHex_DecodeA_guards l d n r) (2 * d + 64) := by
  unfold bytesToHex_DecodeA_makes bytesToHex_DecodeA_guards; alloc_bound
theorem hexToBytes_decode_alloc (l d n r : Int) (hd : 0 ≤ d) : Bounded (hexToBytes_DecodeA_makes l d n r) (hexToBytes_DecodeA_guards l d n r) (2 * d + 64) := by
  unfold hexToBytes_DecodeA_makes hexToBytes_DecodeA_guards; alloc_bound

theorem ascii_decodeLength_alloc (m d g v : Int) (hd : 0 ≤ d) : Bounded (ascii_DecodeLengthA_makes m d g v) (ascii_DecodeLengthA_guards m d g v) (2 * d + 64) := by
  unfold ascii_DecodeLengthA_makes ascii_DecodeLengthA_guards; alloc_bound
theorem ebcdic_decodeLength_alloc (m d g v : Int) (hd : 0 ≤ d) : Bounded (ebcdic_DecodeLengthA_makes m d g v) (ebcdic_DecodeLengthA_guards m d g v) (2 * d + 64) := by
  unfold ebcdic_DecodeLengthA_makes ebcdic_DecodeLengthA_guards; alloc_bound
theorem ebcdic1047_decodeLength_alloc (m d g v : Int) (hd : 0 ≤ d) : Bounded (ebcdic1047_DecodeLengthA_makes m d g v) (ebcdic1047_DecodeLengthA_guards m d g v) (2 * d + 64) := by
  unfold ebcdic1047_DecodeLengthA_makes ebcdic1047_DecodeLengthA_guards; alloc_bound
theorem bcd_decodeLength_alloc (m d g v : Int) (hd : 0 ≤ d) : Bounded (bcd_DecodeLengthA_makes m d g v) (bcd_DecodeLengthA_guards m d g v) (2 * d + 64) := by
  unfold bcd_DecodeLengthA_makes bcd_DecodeLengthA_guards; alloc_bound
theorem binary_decodeLength_alloc (m d g v : Int) (hd : 0 ≤ d) : Bounded (binary_DecodeLengthA_makes m d g v) (binary_DecodeLengthA_guards m d g v) (2 * d + 64) := by
  unfold binary_DecodeLengthA_makes binary_DecodeLengthA_guards; alloc_bound
theorem hex_decodeLength_alloc (m d g v : Int) (hd : 0 ≤ d) : Bounded (hex_DecodeLengthA_makes m d g v) (hex_DecodeLengthA_guards m d g v) (2 * d + 64) := by
  unfold hex_DecodeLengthA_makes hex_DecodeLengthA_guards; alloc_bound

/-- BER-TLV long form: the buffer for the length bytes has `firstByte mod 128` ≤ 127 bytes, whatever the input -/
theorem ber_decodeLength_alloc (m f v : Int) (hf : 0 ≤ f) : Bounded (ber_DecodeLengthA_makes m f v) (ber_DecodeLengthA_guards m f v) 127 := by
  unfold ber_DecodeLengthA_makes ber_DecodeLengthA_guards; alloc_bound

/-! non-vacuity: the lists are not all empty, and a reached `make` exists -/
example : bcd_DecodeA_makes 5 3 6 0 = [(2, true, [6])] ∧ ((bcd_DecodeA_guards 5 3 6 0).take 2).any id = false := by decide
example : (ber_DecodeLengthA_makes 0 0x82 300).length = 1 := by decide

end Iso8583.GuardsAlloc
