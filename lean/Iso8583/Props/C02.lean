/-
C02 — Every accepted byte string re-packs; re-encoding is a fixed point.
Message level: `message_repack` / `message_repack_fixed_point` (from Lemmas/MessageRT.lean),
parametric in the field-level statements `FieldRoundTrip` (C01) and `FieldRepack`; the
field-level instances are added as the corresponding lemma files are merged.
Known finding KF2 (EBCDIC-1047 bytes that decode to non-ASCII runes) is excluded through the
`Accepted` predicate and witnessed by `kf2_witness`.
-/
import Iso8583.Lemmas.MessageRT
import Iso8583.Lemmas.PrimRepack

namespace Iso8583.C02
open Iso8583 MessageRT

/-- what the theorems accept: the value of an EBCDIC-1047 encoded primitive is plain ASCII
(the complement is the known finding KF2) and its text fits a Go slice -/
def Accepted (f : Field) (v : Value) : Prop :=
  match f with
  | .prim s => PrimSpec.NotKF2 s v ∧ PrimSpec.ValueFits v
  | .comp _ _ => True

/-- **Primitive fields re-pack**: whatever a coherent primitive field's Unpack returns
(KF2 aside) is in-domain, canonical, and Pack succeeds on it (Lemmas/PrimRepack.lean). -/
theorem prim_field_repack (s : PrimSpec) (lp : Bool) : FieldRepack Accepted (.prim s) lp := by
  intro data v r hc hu hacc
  have hc' : s.coherent lp = true := by simpa [Field.coherent] using hc
  have hu' : s.unpack data = .ok (v, r) := by
    simp only [Field.unpack] at hu
    cases h : s.unpack data with
    | ok q => rw [h] at hu; simp only [UR.ok.injEq] at hu; rw [hu]
    | err => rw [h] at hu; cases hu
    | panic => rw [h] at hu; cases hu
  obtain ⟨h1, h2, bs, h3⟩ := PrimSpec.prim_unpack_repack s lp data v r hc' hu' hacc.1 hacc.2
  exact ⟨h1, by simpa [Field.canon] using h2, bs, by simpa [Field.pack] using h3⟩

/-- **The full-strength statement** (no exclusion): every accepted byte string re-packs to
bytes that are accepted again, decode to the same content and re-pack to themselves. -/
def RepackStatement (spec : MsgSpec) : Prop :=
  ∀ (b : Bytes) (m : Msg) (n : Nat), spec.coherent = true → spec.unpack b = .ok (m, n) →
    ∃ b', spec.pack m = .ok b' ∧ spec.unpack b' = .ok (m, b'.length)

/-- **Message level**: for a coherent spec whose fields satisfy the field-level round-trip
and re-pack statements, whatever Unpack accepts (with accepted values) is in-domain and
canonical content, Pack succeeds on it, and the re-packed bytes unpack to the same content. -/
theorem message_repack (Accepted : Field → Value → Prop) (spec : MsgSpec)
    (hmti : C01.FieldRoundTrip (.prim spec.mti) false)
    (hmtiRP : FieldRepack Accepted (.prim spec.mti) false)
    (hf : ∀ id f, (id, f) ∈ spec.fields → C01.FieldRoundTrip f false)
    (hrp : ∀ id f, (id, f) ∈ spec.fields → FieldRepack Accepted f false)
    (b : Bytes) (m : Msg) (n : Nat)
    (hc : spec.coherent = true) (hu : spec.unpack b = .ok (m, n))
    (haccM : ∀ v, m.mti = some v → Accepted (.prim spec.mti) v)
    (haccF : ∀ p ∈ m.fields, ∀ f, lookupId p.1 spec.fields = some f → Accepted f p.2) :
    spec.inDomain m = true ∧ spec.canon m = m ∧
    ∃ b', spec.pack m = .ok b' ∧ spec.unpack b' = .ok (m, b'.length) :=
  message_repack_of_fields Accepted spec hmti hmtiRP hf hrp b m n hc hu haccM haccF

/-- **Re-encoding is a canonicalisation**: the re-packed bytes decode to the same content
and pack to themselves — unpack-then-pack applied twice gives the same bytes as once. -/
theorem message_repack_fixed_point (Accepted : Field → Value → Prop) (spec : MsgSpec)
    (hmti : C01.FieldRoundTrip (.prim spec.mti) false)
    (hmtiRP : FieldRepack Accepted (.prim spec.mti) false)
    (hf : ∀ id f, (id, f) ∈ spec.fields → C01.FieldRoundTrip f false)
    (hrp : ∀ id f, (id, f) ∈ spec.fields → FieldRepack Accepted f false)
    (b : Bytes) (m : Msg) (n : Nat)
    (hc : spec.coherent = true) (hu : spec.unpack b = .ok (m, n))
    (haccM : ∀ v, m.mti = some v → Accepted (.prim spec.mti) v)
    (haccF : ∀ p ∈ m.fields, ∀ f, lookupId p.1 spec.fields = some f → Accepted f p.2)
    (b' : Bytes) (hp : spec.pack m = .ok b') :
    spec.unpack b' = .ok (m, b'.length) ∧
    ∀ m' n' b'', spec.unpack b' = .ok (m', n') → spec.pack m' = .ok b'' → m' = m ∧ b'' = b' :=
  repack_fixed_point Accepted spec hmti hmtiRP hf hrp b m n hc hu haccM haccF b' hp

/-! ## Known finding KF2 -/

def kf2Spec : PrimSpec :=
  { kind := .string, len := 5, enc := .ebcdic1047, pref := .var .ascii 2, pad := .nil }

def isErr {α : Type} : Res α → Bool
  | .err => true
  | _ => false

def valBytes : Res (Value × Nat) → Option (Bytes × Nat)
  | .ok (.str b, n) => some (b, n)
  | _ => none

/-- wire `"01" 4A`: the one byte 0x4A decodes to `¢` = C2 A2; that 2-byte value packs with
prefix "02" and one body byte, which Unpack then rejects (not enough data) -/
theorem kf2_witness :
    kf2Spec.coherent false = true ∧
    valBytes (kf2Spec.unpack [0x30, 0x31, 0x4A]) = some ([0xC2, 0xA2], 3) ∧
    kf2Spec.pack (.str [0xC2, 0xA2]) = .ok [0x30, 0x32, 0x4A] ∧
    isErr (kf2Spec.unpack [0x30, 0x32, 0x4A]) = true := by
  decide +kernel

/-! Non-vacuity -/
example : Accepted (.prim kf2Spec) (.str [0x41, 0x42]) := by
  refine ⟨?_, ?_⟩
  · intro _ c hc; simp at hc; rcases hc with rfl | rfl <;> decide
  · show ([0x41, 0x42] : Bytes).length ≤ maxInt
    decide

end Iso8583.C02
