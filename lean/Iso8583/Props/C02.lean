/-
C02 — Every accepted byte string re-packs; re-encoding is a fixed point.
Message level: `message_repack` / `message_repack_fixed_point` (from Lemmas/MessageRT.lean),
parametric in the field-level statements `FieldRoundTrip` (C01) and `FieldRepack`; the
field-level instances are added as the corresponding lemma files are merged.
Known finding KF2 (EBCDIC-1047 bytes that decode to non-ASCII runes) is excluded through the
`Accepted` predicate and witnessed by `kf2_witness`.
-/
import Iso8583.Lemmas.MessageRT

namespace Iso8583.C02
open Iso8583 MessageRT

/-- the value of an EBCDIC-1047 encoded primitive is plain ASCII (the complement is the
known finding KF2) -/
def NotKF2 (f : Field) (v : Value) : Prop :=
  match f, v with
  | .prim s, .str b => s.enc = .ebcdic1047 → ∀ c ∈ b, c.toNat < 128
  | .prim s, .bin b => s.enc = .ebcdic1047 → ∀ c ∈ b, c.toNat < 128
  | _, _ => True

/-- **The full-strength statement** (no exclusion): every accepted byte string re-packs to
bytes that are accepted again, decode to the same content and re-pack to themselves. -/
def RepackStatement (spec : MsgSpec) : Prop :=
  ∀ (b : Bytes) (m : Msg) (n : Nat), spec.coherent = true → spec.unpack b = .ok (m, n) →
    ∃ b', spec.pack m = .ok b' ∧ spec.unpack b' = .ok (m, b'.length)

/-- **Message level**: for a coherent spec whose fields satisfy the field-level round-trip
and re-pack statements, whatever Unpack accepts (with accepted values) is in-domain and
canonical content, Pack succeeds on it, and the re-packed bytes unpack to the same content. -/
theorem message_repack (Accepted : Field → Value → Prop) (spec : MsgSpec)
    (hmti : C01.FieldRoundTrip (.prim spec.mti) false)
    (hmtiRP : FieldRepack Accepted (.prim spec.mti) false)
    (hf : ∀ id f, (id, f) ∈ spec.fields → C01.FieldRoundTrip f false)
    (hrp : ∀ id f, (id, f) ∈ spec.fields → FieldRepack Accepted f false)
    (b : Bytes) (m : Msg) (n : Nat)
    (hc : spec.coherent = true) (hu : spec.unpack b = .ok (m, n))
    (haccM : ∀ v, m.mti = some v → Accepted (.prim spec.mti) v)
    (haccF : ∀ p ∈ m.fields, ∀ f, lookupId p.1 spec.fields = some f → Accepted f p.2) :
    spec.inDomain m = true ∧ spec.canon m = m ∧
    ∃ b', spec.pack m = .ok b' ∧ spec.unpack b' = .ok (m, b'.length) :=
  message_repack_of_fields Accepted spec hmti hmtiRP hf hrp b m n hc hu haccM haccF

/-- **Re-encoding is a canonicalisation**: the re-packed bytes decode to the same content
and pack to themselves — unpack-then-pack applied twice gives the same bytes as once. -/
theorem message_repack_fixed_point (Accepted : Field → Value → Prop) (spec : MsgSpec)
    (hmti : C01.FieldRoundTrip (.prim spec.mti) false)
    (hmtiRP : FieldRepack Accepted (.prim spec.mti) false)
    (hf : ∀ id f, (id, f) ∈ spec.fields → C01.FieldRoundTrip f false)
    (hrp : ∀ id f, (id, f) ∈ spec.fields → FieldRepack Accepted f false)
    (b : Bytes) (m : Msg) (n : Nat)
    (hc : spec.coherent = true) (hu : spec.unpack b = .ok (m, n))
    (haccM : ∀ v, m.mti = some v → Accepted (.prim spec.mti) v)
    (haccF : ∀ p ∈ m.fields, ∀ f, lookupId p.1 spec.fields = some f → Accepted f p.2)
    (b' : Bytes) (hp : spec.pack m = .ok b') :
    spec.unpack b' = .ok (m, b'.length) ∧
    ∀ m' n' b'', spec.unpack b' = .ok (m', n') → spec.pack m' = .ok b'' → m' = m ∧ b'' = b' :=
  repack_fixed_point Accepted spec hmti hmtiRP hf hrp b m n hc hu haccM haccF b' hp

/-! ## Known finding KF2 -/

def kf2Spec : PrimSpec :=
  { kind := .string, len := 5, enc := .ebcdic1047, pref := .var .ascii 2, pad := .nil }

def isErr {α : Type} : Res α → Bool
  | .err => true
  | _ => false

def valBytes : Res (Value × Nat) → Option (Bytes × Nat)
  | .ok (.str b, n) => some (b, n)
  | _ => none

/-- wire `"01" 4A`: the one byte 0x4A decodes to `¢` = C2 A2; that 2-byte value packs with
prefix "02" and one body byte, which Unpack then rejects (not enough data) -/
theorem kf2_witness :
    kf2Spec.coherent false = true ∧
    valBytes (kf2Spec.unpack [0x30, 0x31, 0x4A]) = some ([0xC2, 0xA2], 3) ∧
    kf2Spec.pack (.str [0xC2, 0xA2]) = .ok [0x30, 0x32, 0x4A] ∧
    isErr (kf2Spec.unpack [0x30, 0x32, 0x4A]) = true := by
  decide +kernel

/-! Non-vacuity -/
example : NotKF2 (.prim kf2Spec) (.str [0x41, 0x42]) := by
  intro _ c hc; simp at hc; rcases hc with rfl | rfl <;> decide
example : ¬ NotKF2 (.prim kf2Spec) (.str [0xC2, 0xA2]) := by
  intro h; have := h rfl 0xC2 (by simp); revert this; decide

end Iso8583.C02
