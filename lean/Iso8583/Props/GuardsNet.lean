/-
C16, decision logic tied by TRANSLATION: `Gen/GuardsNet.lean` holds the conditions under which
`SetLength` / `WriteTo` / `ReadFrom` of the four network headers return an error, rendered from
the function bodies of /repo/network/*.go on every run (harness/cmd/extract/guards.go). These
theorems show, for every `Int`, that the hand-written model (`Model/Network.lean`) takes exactly
those decisions: the model's result is the error exactly when one of the source's conditions
holds, and otherwise the value the model computes. A changed bound in the source (`> 65536` for
`> 65535`, a dropped `< 0`) changes the generated list and breaks the theorem, whether or not a
generated input sits on the boundary.

Each statement has two halves: `…_iff` (the generated list, as a disjunction, is the model's
rejection condition — proved by unfolding the list and `omega`, so that it does not depend on how
the source arranges its checks) and `…_guarded` (the model is `if <list>.any then error else value`).
-/
import Iso8583.Gen.GuardsNet
import Iso8583.Model.Network
import Iso8583.Lemmas.GuardTactics

namespace Iso8583.GuardsNet
open Iso8583 Iso8583.Gen.Guards Net

theorem binary2_setLength_iff (n : Int) : (binary2_SetLength_guards n).any id = true ↔ (n < 0 ∨ n > 65535) := by
  unfold binary2_SetLength_guards; guards_to_prop <;> omega

theorem vmlh_setLength_iff (n : Int) : (vmlh_SetLength_guards n).any id = true ↔ (n < 0 ∨ n > 65535) := by
  unfold vmlh_SetLength_guards; guards_to_prop <;> omega

theorem setLength16_model (h : Hdr) (hh : h = .binary2 ∨ h = .vmlh) (n : Int) :
    setLength h n = if (n < 0 ∨ n > 65535) then .err else .ok (wrap16 n) := by
  rcases hh with rfl | rfl <;> simp only [setLength] <;>
    (by_cases a : n < 0 <;> by_cases b : n > 65535 <;> simp [a, b])

/-- `Binary2Bytes.SetLength` -/
theorem binary2_setLength_guarded (n : Int) :
    setLength .binary2 n = if (binary2_SetLength_guards n).any id then .err else .ok (wrap16 n) := by
  rw [setLength16_model .binary2 (Or.inl rfl)]
  by_cases c : n < 0 ∨ n > 65535
  · rw [if_pos c, if_pos ((binary2_setLength_iff n).mpr c)]
  · rw [if_neg c, if_neg (fun h => c ((binary2_setLength_iff n).mp h))]

/-- `VMLH.SetLength` -/
theorem vmlh_setLength_guarded (n : Int) :
    setLength .vmlh n = if (vmlh_SetLength_guards n).any id then .err else .ok (wrap16 n) := by
  rw [setLength16_model .vmlh (Or.inr rfl)]
  by_cases c : n < 0 ∨ n > 65535
  · rw [if_pos c, if_pos ((vmlh_setLength_iff n).mpr c)]
  · rw [if_neg c, if_neg (fun h => c ((vmlh_setLength_iff n).mp h))]

theorem ascii4_writeTo_iff (len : Int) :
    (ascii4_WriteTo_guards len).any id = true ↔ (len < 0 ∨ len > (Gen.maxASCII4BytesLength : Int)) := by
  unfold ascii4_WriteTo_guards; guards_to_prop <;> omega

theorem bcd2_writeTo_iff (len : Int) :
    (bcd2_WriteTo_guards len).any id = true ↔ (len < 0 ∨ len > (Gen.maxBCD2BytesLength : Int)) := by
  unfold bcd2_WriteTo_guards; guards_to_prop <;> omega

theorem vmlh_writeTo_iff (len : Int) :
    (vmlh_WriteTo_guards len).any id = true ↔ len > (Gen.vmlMaxMessageLength : Int) := by
  unfold vmlh_WriteTo_guards; guards_to_prop <;> omega

/-- `ASCII4BytesHeader.WriteTo` -/
theorem ascii4_writeTo_guarded (len : Int) :
    writeTo .ascii4 len = if (ascii4_WriteTo_guards len).any id then .err else .ok (fmt04d len.toNat) := by
  simp only [writeTo]
  by_cases c : len < 0 ∨ len > (Gen.maxASCII4BytesLength : Int)
  · rw [if_pos c, if_pos ((ascii4_writeTo_iff len).mpr c)]
  · rw [if_neg c, if_neg (fun h => c ((ascii4_writeTo_iff len).mp h))]

/-- `BCD2BytesHeader.WriteTo` -/
theorem bcd2_writeTo_guarded (len : Int) :
    writeTo .bcd2 len =
      if (bcd2_WriteTo_guards len).any id then .err else Enc.encode .bcd (fmt04d len.toNat) := by
  simp only [writeTo]
  by_cases c : len < 0 ∨ len > (Gen.maxBCD2BytesLength : Int)
  · rw [if_pos c, if_pos ((bcd2_writeTo_iff len).mpr c)]
  · rw [if_neg c, if_neg (fun h => c ((bcd2_writeTo_iff len).mp h))]

/-- `VMLH.WriteTo` -/
theorem vmlh_writeTo_guarded (len : Int) :
    writeTo .vmlh len =
      if (vmlh_WriteTo_guards len).any id then .err else .ok (be16Bytes len.toNat ++ [0, 0]) := by
  simp only [writeTo]
  by_cases c : len > (Gen.vmlMaxMessageLength : Int)
  · rw [if_pos c, if_pos ((vmlh_writeTo_iff len).mpr c)]
  · rw [if_neg c, if_neg (fun h => c ((vmlh_writeTo_iff len).mp h))]

theorem ascii4_readFrom_iff (read l : Int) :
    (ascii4_ReadFrom_guards read l).any id = true ↔ (read ≠ 4 ∨ l < 0) := by
  unfold ascii4_ReadFrom_guards; guards_to_prop <;> omega

/-- `ASCII4BytesHeader.ReadFrom`, once `io.ReadFull` has delivered `got` and `strconv.Atoi`
the number `l`: the two integer conditions of the source (`read != 4`, `l < 0`) decide -/
theorem ascii4_readFrom_guarded (got : Bytes) (l : Int) (hfull : ¬ got.length < 4) (ha : atoi? got = some l) :
    ascii4After got =
      if (ascii4_ReadFrom_guards got.length l).any id then .err else .ok ⟨l, got.length, false⟩ := by
  simp only [ascii4After, hfull, if_false, ha]
  by_cases c : ((got.length : Int) ≠ 4 ∨ l < 0)
  · rw [if_pos ((ascii4_readFrom_iff _ _).mpr c)]
    rcases c with c | c
    · have : got.length ≠ 4 := by omega
      simp [this]
    · by_cases h4 : got.length ≠ 4
      · simp [h4]
      · simp [h4, c]
  · rw [if_neg (fun h => c ((ascii4_readFrom_iff _ _).mp h))]
    have h4 : ¬ got.length ≠ 4 := by omega
    have hl : ¬ l < 0 := by omega
    simp [h4, hl]

theorem vmlh_readFrom_iff (len : Int) :
    (vmlh_ReadFrom_guards len).any id = true ↔ len > (Gen.vmlMaxMessageLength : Int) := by
  unfold vmlh_ReadFrom_guards; guards_to_prop <;> omega

/-- `VMLH.ReadFrom`: the length bound of the source is the model's -/
theorem vmlh_readFrom_guarded (b0 b1 : Byte) (rest : Bytes) (h : (b0 :: b1 :: rest).length = 4) :
    (vmlh_ReadFrom_guards (be16 b0 b1)).any id = true → vmlhAfter (b0 :: b1 :: rest) = .err := by
  intro hg
  have hg' := (vmlh_readFrom_iff _).mp hg
  have h' : ¬ ((b0 :: b1 :: rest).length ≠ 4) := by simp [h]
  simp only [vmlhAfter, h', if_false]
  have : be16 b0 b1 > Gen.vmlMaxMessageLength := by exact_mod_cast hg'
  simp [this]

/-! non-vacuity: the lists are not empty, and the boundaries are where the property puts them -/
example : (binary2_SetLength_guards 65535).any id = false ∧ (binary2_SetLength_guards 65536).any id = true ∧
    (binary2_SetLength_guards (-1)).any id = true := by decide
example : (ascii4_WriteTo_guards 9999).any id = false ∧ (ascii4_WriteTo_guards 10000).any id = true := by decide
example : (vmlh_WriteTo_guards 2048).any id = false ∧ (vmlh_WriteTo_guards 2049).any id = true := by decide

end Iso8583.GuardsNet
