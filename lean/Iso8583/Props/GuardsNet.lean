/-
C16, decision logic tied by TRANSLATION: `Gen/GuardsNet.lean` holds the conditions under which
`SetLength` / `WriteTo` / `ReadFrom` of the four network headers return an error, rendered from
the function bodies of /repo/network/*.go on every run (harness/cmd/extract/guards.go). These
theorems show, for every `Int`, that the hand-written model (`Model/Network.lean`) takes exactly
those decisions: the model's result is the error exactly when one of the source's conditions
holds, and otherwise the value the model computes. A changed bound in the source (`> 65536` for
`> 65535`, a dropped `< 0`) changes the generated list and breaks the theorem, whether or not a
generated input sits on the boundary.
-/
import Iso8583.Gen.GuardsNet
import Iso8583.Model.Network

namespace Iso8583.GuardsNet
open Iso8583 Iso8583.Gen.Guards Net

/-- `Binary2Bytes.SetLength` -/
theorem binary2_setLength_guarded (n : Int) :
    setLength .binary2 n = if (binary2_SetLength_guards n).any id then .err else .ok (wrap16 n) := by
  simp only [setLength, binary2_SetLength_guards, List.any_cons, List.any_nil, id, Bool.or_false,
    Bool.or_eq_true, decide_eq_true_eq]
  split
  · simp [*]
  · split
    · simp [*]
    · rename_i h1 h2; simp [h1, h2]

/-- `VMLH.SetLength` -/
theorem vmlh_setLength_guarded (n : Int) :
    setLength .vmlh n = if (vmlh_SetLength_guards n).any id then .err else .ok (wrap16 n) := by
  simp only [setLength, vmlh_SetLength_guards, List.any_cons, List.any_nil, id, Bool.or_false,
    Bool.or_eq_true, decide_eq_true_eq]
  split
  · simp [*]
  · split
    · simp [*]
    · rename_i h1 h2; simp [h1, h2]

/-- `ASCII4BytesHeader.WriteTo` -/
theorem ascii4_writeTo_guarded (len : Int) :
    writeTo .ascii4 len = if (ascii4_WriteTo_guards len).any id then .err else .ok (fmt04d len.toNat) := by
  simp only [writeTo, ascii4_WriteTo_guards, List.any_cons, List.any_nil, id, Bool.or_false,
    Bool.or_eq_true, decide_eq_true_eq]

/-- `BCD2BytesHeader.WriteTo` -/
theorem bcd2_writeTo_guarded (len : Int) :
    writeTo .bcd2 len =
      if (bcd2_WriteTo_guards len).any id then .err else Enc.encode .bcd (fmt04d len.toNat) := by
  simp only [writeTo, bcd2_WriteTo_guards, List.any_cons, List.any_nil, id, Bool.or_false,
    Bool.or_eq_true, decide_eq_true_eq]

/-- `VMLH.WriteTo` -/
theorem vmlh_writeTo_guarded (len : Int) :
    writeTo .vmlh len =
      if (vmlh_WriteTo_guards len).any id then .err else .ok (be16Bytes len.toNat ++ [0, 0]) := by
  simp only [writeTo, vmlh_WriteTo_guards, List.any_cons, List.any_nil, id, Bool.or_false, decide_eq_true_eq]

/-- `ASCII4BytesHeader.ReadFrom`, once `io.ReadFull` has delivered `got` and `strconv.Atoi`
the number `l`: the two integer conditions of the source (`read != 4`, `l < 0`) decide -/
theorem ascii4_readFrom_guarded (got : Bytes) (l : Int) (hfull : ¬ got.length < 4) (ha : atoi? got = some l) :
    ascii4After got =
      if (ascii4_ReadFrom_guards got.length l).any id then .err else .ok ⟨l, got.length, false⟩ := by
  simp only [ascii4After, hfull, if_false, ha, ascii4_ReadFrom_guards, List.any_cons, List.any_nil, id,
    Bool.or_false, Bool.or_eq_true, decide_eq_true_eq]
  by_cases h4 : got.length = 4
  · have : ¬ ((got.length : Int) ≠ 4) := by omega
    simp [h4]
  · have : (got.length : Int) ≠ 4 := by omega
    simp [h4, this]

/-- `VMLH.ReadFrom`: the length bound of the source is the model's -/
theorem vmlh_readFrom_guarded (b0 b1 : Byte) (rest : Bytes) (h : (b0 :: b1 :: rest).length = 4) :
    (vmlh_ReadFrom_guards (be16 b0 b1)).any id = true → vmlhAfter (b0 :: b1 :: rest) = .err := by
  intro hg
  simp only [vmlh_ReadFrom_guards, List.any_cons, List.any_nil, id, Bool.or_false, decide_eq_true_eq] at hg
  have h' : ¬ ((b0 :: b1 :: rest).length ≠ 4) := by simp [h]
  simp only [vmlhAfter, h', if_false]
  have : be16 b0 b1 > Gen.vmlMaxMessageLength := by exact_mod_cast hg
  simp [this]

/-! non-vacuity: the lists are not empty, and the boundaries are where the property puts them -/
example : (binary2_SetLength_guards 65535).any id = false ∧ (binary2_SetLength_guards 65536).any id = true ∧
    (binary2_SetLength_guards (-1)).any id = true := by decide
example : (ascii4_WriteTo_guards 9999).any id = false ∧ (ascii4_WriteTo_guards 10000).any id = true := by decide
example : (vmlh_WriteTo_guards 2048).any id = false ∧ (vmlh_WriteTo_guards 2049).any id = true := by decide

end Iso8583.GuardsNet
