/-
C02 — every accepted byte string re-packs: the field level for ALL coherent fields and the
message level with every field statement discharged.

`AcceptedAll` (Lemmas/FieldRepackAll.lean) is the acceptance predicate: primitives as in
Props/C02.lean (not KF2, fits a Go slice); composites: every set subfield accepted, the
composite's own prefixer accepts the length of the re-packed body (`LenFits` — its complement
is the known finding KF8), and — variable-length positional composites only — the value is
non-empty with a last element that packs to at least one byte (`posTailB`, the `InDomain`
clause an empty body violates).

KF8, exactly (`pack_fails_iff_not_lenFits`): for a value that Unpack returned and whose set
subfields are all accepted, the body `compBody` always packs, and `Composite.Pack` fails if and
only if `s.pref.encodeLength s.len body.length` fails — the failure is the composite's own
"encode length". `kf8_witness_grow / _shrink / _skip` replay the three ways the length changes.
-/
import Iso8583.Lemmas.FieldRepackAll

namespace Iso8583.C02Fields
open Iso8583 MessageRT FieldRepackAll

/-- **field level, every coherent field** -/
theorem field_repack_all (f : Field) (lp : Bool) : FieldRepack AcceptedAll f lp :=
  FieldRepackAll.field_repack_all f lp

/-- **the only way a composite fails to re-pack** (KF8): with all set subfields accepted, the
body packs, and Pack succeeds iff the composite's prefixer accepts the body's length -/
theorem pack_fails_iff_not_lenFits (s : CompSpec) (subs : List (Tag × Field)) (lp : Bool)
    (data : Bytes) (vals : List (Tag × Value)) (r : Nat)
    (hc : (Field.comp s subs).coherent lp = true)
    (hu : Field.unpack (.comp s subs) data = .ok (.comp vals, r))
    (hsubs : ∀ tg v f, lookup tg vals = some v → lookup tg subs = some f → AcceptedAll f v)
    (htail : isVarPositional s = true → posTailB subs vals = true) :
    ∃ body, compBody s subs vals = .ok body ∧
      ((∃ bs, Field.pack (.comp s subs) (.comp vals) = .ok bs) ↔ FieldRepack.LenFits s body.length) :=
  FieldRepackAll.pack_fails_iff_not_lenFits s subs lp data vals r hc hu hsubs htail

/-- **message level**: for a coherent spec, whatever Unpack accepts — with accepted content —
is in-domain canonical content on which Pack succeeds; and the re-packed bytes (a Go slice)
unpack to the same content, consuming all of them -/
theorem message_repack_all (spec : MsgSpec) (b : Bytes) (m : Msg) (n : Nat)
    (hc : spec.coherent = true) (hu : spec.unpack b = .ok (m, n))
    (haccM : ∀ v, m.mti = some v → AcceptedAll (.prim spec.mti) v)
    (haccF : ∀ p ∈ m.fields, ∀ f, lookupId p.1 spec.fields = some f → AcceptedAll f p.2) :
    spec.inDomain m = true ∧ spec.canon m = m ∧
    ∃ b', spec.pack m = .ok b' ∧ (b'.length ≤ maxInt → spec.unpack b' = .ok (m, b'.length)) :=
  message_repackB_of_fields AcceptedAll spec (C01.field_roundtrip _ false) (field_repack_all _ false)
    (fun _ f _ => C01.field_roundtrip f false) (fun _ f _ => field_repack_all f false)
    b m n hc hu haccM haccF

/-- **re-encoding is a canonicalisation**: the re-packed bytes decode to the same content and
pack to themselves -/
theorem message_repack_fixed_point_all (spec : MsgSpec) (b : Bytes) (m : Msg) (n : Nat)
    (hc : spec.coherent = true) (hu : spec.unpack b = .ok (m, n))
    (haccM : ∀ v, m.mti = some v → AcceptedAll (.prim spec.mti) v)
    (haccF : ∀ p ∈ m.fields, ∀ f, lookupId p.1 spec.fields = some f → AcceptedAll f p.2)
    (b' : Bytes) (hp : spec.pack m = .ok b') (hlen : b'.length ≤ maxInt) :
    spec.unpack b' = .ok (m, b'.length) ∧
    ∀ m' n' b'', spec.unpack b' = .ok (m', n') → spec.pack m' = .ok b'' → m' = m ∧ b'' = b' :=
  repack_fixed_pointB AcceptedAll spec (C01.field_roundtrip _ false) (field_repack_all _ false)
    (fun _ f _ => C01.field_roundtrip f false) (fun _ f _ => field_repack_all f false)
    b m n hc hu haccM haccF b' hp hlen

/-! ## Known finding KF8: the replay, at message level -/

def mtiSpec : PrimSpec := { kind := .string, len := 4, enc := .ascii, pref := .fixed .ascii, pad := .nil }
def bmSpec : BitmapSpec := { specLen := 8, enc := .binary, pref := .fixed .binary, auto := true }
def msgWith (f : Field) : MsgSpec := { mti := mtiSpec, bitmap := bmSpec, fields := [(2, f)] }
/-- `"0100"`, bitmap with bit 2 -/
def header : Bytes := [0x30, 0x31, 0x30, 0x30, 0x40, 0, 0, 0, 0, 0, 0, 0]

/-- the bytes are accepted completely, and Pack of the decoded content fails -/
def acceptedButPackFails (spec : MsgSpec) (b : Bytes) : Bool :=
  match spec.unpack b with
  | .ok (m, n) => n == b.length && C02.isErr (spec.pack m)
  | _ => false

/-- grow: field 2 = `c(3,ascii.2,positional,sub(1,p(s,5,ascii,ascii.1,L20)))`, wire `"03" "2AB"`:
the padded subfield is accepted unpadded; re-packed it is 6 bytes > Length 3 -/
theorem kf8_witness_grow :
    (msgWith FieldRepack.growSpec).coherent = true ∧
    acceptedButPackFails (msgWith FieldRepack.growSpec) (header ++ [0x30, 0x33, 0x32, 0x41, 0x42]) = true := by
  decide +kernel

/-- shrink: field 2 = `c(4,ascii.F,positional,sub(1,p(n,9,ascii,ascii.1,nil)))`, wire `"3007"`:
the numeral `007` is accepted; re-packed (`"17"`) the body is not 4 bytes -/
theorem kf8_witness_shrink :
    (msgWith FieldRepack.shrinkSpec).coherent = true ∧
    acceptedButPackFails (msgWith FieldRepack.shrinkSpec) (header ++ [0x33, 0x30, 0x30, 0x37]) = true := by
  decide +kernel

/-- skip: field 2 = `c(9,ascii.F,t(2,ascii,nil,str,1,ascii.2),sub(01,p(s,5,ascii,ascii.1,nil)))`,
wire `"01" "1A" "99" "01" "Z"`: the unknown element 99 is skipped; the re-packed body is 4 bytes ≠ 9 -/
theorem kf8_witness_skip :
    (msgWith FieldRepack.skipSpec).coherent = true ∧
    acceptedButPackFails (msgWith FieldRepack.skipSpec)
      (header ++ [0x30, 0x31, 0x31, 0x41, 0x39, 0x39, 0x30, 0x31, 0x5A]) = true := by
  decide +kernel

/-- and `AcceptedAll` excludes exactly these values: their re-packed body has a length the
composite's prefixer refuses -/
theorem kf8_grow_not_accepted :
    ¬ AcceptedAll FieldRepack.growSpec (.comp [([0x31], .str [0x41, 0x42])]) := by
  intro h
  obtain ⟨_, _, bs, hbs⟩ := field_repack_all FieldRepack.growSpec false [0x30, 0x33, 0x32, 0x41, 0x42]
    (.comp [([0x31], .str [0x41, 0x42])]) 5 (by decide) (by rfl) h
  have : FieldRepack.growSpec.pack (.comp [([0x31], .str [0x41, 0x42])]) = .err := by decide
  rw [this] at hbs; cases hbs

theorem kf8_shrink_not_accepted :
    ¬ AcceptedAll FieldRepack.shrinkSpec (.comp [([0x31], .num 7)]) := by
  intro h
  obtain ⟨_, _, bs, hbs⟩ := field_repack_all FieldRepack.shrinkSpec false [0x33, 0x30, 0x30, 0x37]
    (.comp [([0x31], .num 7)]) 4 (by decide) (by rfl) h
  have : FieldRepack.shrinkSpec.pack (.comp [([0x31], .num 7)]) = .err := by decide
  rw [this] at hbs; cases hbs

theorem kf8_skip_not_accepted :
    ¬ AcceptedAll FieldRepack.skipSpec (.comp [([0x30, 0x31], .str [0x41])]) := by
  intro h
  obtain ⟨_, _, bs, hbs⟩ := field_repack_all FieldRepack.skipSpec false
    [0x30, 0x31, 0x31, 0x41, 0x39, 0x39, 0x30, 0x31, 0x5A]
    (.comp [([0x30, 0x31], .str [0x41])]) 9 (by decide) (by rfl) h
  have : FieldRepack.skipSpec.pack (.comp [([0x30, 0x31], .str [0x41])]) = .err := by decide
  rw [this] at hbs; cases hbs

/-- the benign exclusion: the empty-body value of a variable-length positional composite is
outside `Field.inDomain` (its last element packs to no bytes), hence outside `AcceptedAll` -/
theorem empty_tail_not_accepted :
    ¬ AcceptedAll FieldRepack.emptySpec (.comp [([0x31], .str [])]) := by
  intro h
  obtain ⟨hd, _, _⟩ := field_repack_all FieldRepack.emptySpec false [0x30, 0x30]
    (.comp [([0x31], .str [])]) 2 (by decide) (by rfl) h
  have : FieldRepack.emptySpec.inDomain (.comp [([0x31], .str [])]) = false := by decide
  rw [this] at hd; cases hd

/-! ## Non-vacuity: a nested composite value satisfying `AcceptedAll` -/

def leaf : PrimSpec := { kind := .string, len := 5, enc := .ascii, pref := .var .ascii 1, pad := .nil }
def innerSpec : CompSpec := { len := 20, pref := .var .ascii 2, mode := .tagged FieldRepack.positional }
def inner : Field := .comp innerSpec [([0x31], .prim leaf)]
def outerTag : TagSpec :=
  { len := 2, enc := some .ascii, pad := .nil, sort := .strings, skipUnknown := false, prefUnknown := none }
def outerSpec : CompSpec := { len := 99, pref := .var .ascii 2, mode := .tagged outerTag }
def outer : Field := .comp outerSpec [([0x30, 0x31], inner)]
def innerVal : Value := .comp [([0x31], .str [0x41, 0x42])]
def outerVal : Value := .comp [([0x30, 0x31], innerVal)]

example : outer.coherent false = true := by decide

theorem leaf_accepted : AcceptedAll (.prim leaf) (.str [0x41, 0x42]) := by
  apply AcceptedAll.prim
  refine ⟨?_, ?_⟩
  · intro he; cases he
  · show ([0x41, 0x42] : Bytes).length ≤ maxInt
    decide

theorem inner_accepted : AcceptedAll inner innerVal := by
  apply AcceptedAll.comp
  · intro tg v f hl hf
    by_cases hk : ([0x31] : Tag) = tg
    · simp only [lookup, hk, if_true, Option.some.injEq] at hl hf
      subst hl; subst hf
      exact leaf_accepted
    · simp [lookup, hk] at hl
  · intro body hb
    have : compBody innerSpec [([0x31], .prim leaf)] [([0x31], .str [0x41, 0x42])] = .ok [0x32, 0x41, 0x42] := by
      decide
    rw [this] at hb; cases hb
    exact ⟨[0x30, 0x33], by decide⟩
  · intro _; decide

example : AcceptedAll outer outerVal := by
  apply AcceptedAll.comp
  · intro tg v f hl hf
    by_cases hk : ([0x30, 0x31] : Tag) = tg
    · simp only [lookup, hk, if_true, Option.some.injEq] at hl hf
      subst hl; subst hf
      exact inner_accepted
    · simp [lookup, hk] at hl
  · intro body hb
    have : compBody outerSpec [([0x30, 0x31], inner)] [([0x30, 0x31], innerVal)] =
        .ok [0x30, 0x31, 0x30, 0x33, 0x32, 0x41, 0x42] := by decide
    rw [this] at hb; cases hb
    exact ⟨[0x30, 0x37], by decide⟩
  · intro h; simp [isVarPositional, outerSpec, outerTag] at h

/-- the nested value is what Unpack returns for `"07" "01" "03" "2AB"` -/
example : outer.unpack [0x30, 0x37, 0x30, 0x31, 0x30, 0x33, 0x32, 0x41, 0x42, 0xFF] = .ok (outerVal, 9) := by rfl

end Iso8583.C02Fields
