/-
C15, structural facts tied by TRANSLATION: over the regenerated access summaries of every method of
`Message` and `Composite` (`Gen/LockFacts.lean`, rendered from message.go / field/composite.go on
every run), the READ-ONLY entry points — Pack, MarshalJSON, GetFields / GetSubfields, Bitmap,
Clone, Bytes, String, Unmarshal — write, transitively through the helpers they call on the same
object, nothing but the lazily created bitmap (`cachedBitmap`, and for a message the mark of the
bitmap field in `fieldsMap`): no field object is replaced, no presence entry of a data element is
touched, and there is no other per-object state a read-only operation could leave behind (a cache
added to the struct shows up here as a new written field). A necessary condition of
`readonly_ops_pure` (Props/C15.lean), read off the source.
-/
import Iso8583.Gen.LockFacts

namespace Iso8583.C15Facts
open Iso8583

abbrev Step := String × String × String × String

def stepsOf (ty method : String) : List Step :=
  match Gen.lockFacts.find? (fun r => r.1 == ty && r.2.1 == method) with
  | some r => r.2.2.2
  | none => [("missing", method, "", "")]

/-- fields of the object written by `method`, following calls to methods of the same object
(`fuel` bounds the call depth; the call graph of the two types is shallow) -/
def writesClosure (ty : String) : Nat → String → List String
  | 0, _ => ["<call depth exceeded>"]
  | fuel + 1, method =>
    (stepsOf ty method).flatMap fun st =>
      if st.1 == "write" then [st.2.1]
      else if st.1 == "call" then writesClosure ty fuel st.2.1
      else if st.1 == "missing" then ["<no summary for " ++ st.2.1 ++ ">"]
      else []

def subset (xs ys : List String) : Bool := xs.all ys.contains

def messageReadOnly : List String := ["Pack", "MarshalJSON", "GetFields", "Bitmap", "Clone", "GetMTI", "GetString", "GetBytes", "GetField", "Unmarshal", "GetSpec"]
def compositeReadOnly : List String := ["Pack", "Bytes", "String", "MarshalJSON", "GetSubfields", "Bitmap", "Unmarshal", "Spec"]

/-- **read-only operations of a message write only the lazily created bitmap** -/
theorem message_readonly_writes :
    messageReadOnly.all (fun m => subset (writesClosure "Message" 6 m) ["cachedBitmap", "fieldsMap"]) = true := by
  decide +kernel

/-- … and the only place they write `fieldsMap` from is `bitmap()` (the mark of the bitmap field) -/
theorem message_fieldsMap_only_via_bitmap :
    (["pack", "wrapErrorPack", "getFields", "packableFieldIDs"].all
      (fun m => !(stepsOf "Message" m).any (fun st => st.1 == "write"))) = true := by
  decide +kernel

/-- **read-only operations of a composite write only its lazily created bitmap** -/
theorem composite_readonly_writes :
    compositeReadOnly.all (fun m => subset (writesClosure "Composite" 6 m) ["cachedBitmap"]) = true := by
  decide +kernel

/-- non-vacuity: the summaries exist (no method is missing) and Pack does reach the bitmap -/
example : (writesClosure "Message" 6 "Pack").contains "cachedBitmap" = true := by decide +kernel
example : (writesClosure "Composite" 6 "Pack").contains "cachedBitmap" = true := by decide +kernel

end Iso8583.C15Facts
