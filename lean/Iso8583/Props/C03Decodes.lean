/-
C03, converse direction without the explicit C01 hypothesis: `C03.layout_decodes` takes the
message round trip as a hypothesis (`RoundTripStatement`) because C01's file proves it;
here the two are put together. Bytes laid out by the declarative ISO 8583 reference encoder
(Spec/Layout.lean) for ANY coherent spec and in-domain message unpack to the canonical form
of the values they were built from, consuming exactly those bytes whatever follows, and the
canonical values pack to the same bytes again.
-/
import Iso8583.Props.C03
import Iso8583.Props.C01

namespace Iso8583.C03Decodes
open Iso8583 Iso8583.Layout

/-- **C03, converse, unconditional** (only side condition: the bytes form a Go slice). -/
theorem layout_decodes_all (spec : MsgSpec) (m : Msg)
    (hc : spec.coherent = true) (hd : spec.inDomain m = true) (bs tail : Bytes)
    (h : refEncode spec m = some bs) (hlen : bs.length ≤ maxInt) :
    spec.unpack (bs ++ tail) = .ok (spec.canon m, bs.length) ∧ spec.pack (spec.canon m) = .ok bs :=
  C01.pack_unpack spec m tail bs hc hd ((C03.pack_refines_layout spec m hc hd bs).mpr h) hlen

/-- the reference layout is injective on canonical content: two in-domain messages with the
same reference bytes have the same canonical form -/
theorem layout_injective (spec : MsgSpec) (m m' : Msg)
    (hc : spec.coherent = true) (hd : spec.inDomain m = true) (hd' : spec.inDomain m' = true)
    (bs : Bytes) (h : refEncode spec m = some bs) (h' : refEncode spec m' = some bs)
    (hlen : bs.length ≤ maxInt) : spec.canon m = spec.canon m' := by
  have a := (layout_decodes_all spec m hc hd bs [] h hlen).1
  have b := (layout_decodes_all spec m' hc hd' bs [] h' hlen).1
  rw [a] at b
  simp only [UR.ok.injEq, Prod.mk.injEq, and_true] at b
  exact b

/-! Non-vacuity: the hypotheses hold for C03's demo spec / message / bytes, so the reference
bytes followed by anything decode to the canonical content -/
example (tail : Bytes) :
    C03.demoSpec.unpack (C03.demoBytes ++ tail) = .ok (C03.demoSpec.canon C03.demoMsg, C03.demoBytes.length) :=
  (layout_decodes_all C03.demoSpec C03.demoMsg (by decide +kernel) (by decide +kernel) C03.demoBytes tail
    (by decide +kernel) (by decide)).1

end Iso8583.C03Decodes
