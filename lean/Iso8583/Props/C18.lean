/-
C18 — Sensitive field contents do not leak through errors or Describe.

A. Errors. `Gen.errorSites` is regenerated from /repo on every run: one row per place where
the library constructs, wraps or passes on an error, with the taint class of every
interpolated argument. `no_site_leaks…` is a `decide` over the whole table; `render_taint_bound`
lifts it to every text an error chain built from those sites can render: no run of eight
or more consecutive value-derived units. The property speaks of "the complete contents of
any message field of eight or more characters", so a bound below 8 on every run is
sufficient (and stronger than needed).

Scope notes, stated once:
* `prefixDigits k`: the length prefix as found on the wire, quoted by `strconv` when it is not
  a number, counts with its full width `k` (after a corrupted or dropped byte the bytes at a
  prefix position can be another field's contents). `k ≤ 6` for the decimal families; the Hex
  family reads two characters per digit, `k = 12` — open finding KF-C18-2.
* integers (`len`): lengths, ids, offsets — also a length *decoded* from the wire, printed in
  decimal — are not field contents.
* `key` (JSON object keys, id paths passed to `UnsetFields`) names a field; it is supplied by
  the caller and is not a field's contents.
* the classes of standard-library / dependency errors (`errSafe`, `errChar`, `errBounded`,
  `errValue`) are hand-written expectations, listed in `Gen.handRules`.

B. Describe. `Model/Describe.lean` mirrors the filters of field_filter.go; the theorems
are non-interference statements: values that agree on the visible positions and have equal
length give identical filter output; plus totality (no input makes a filter panic). The track
filters parse the text they are given (`newTrackData(in, &track)`), so they are pure functions
of the text: accepted by the track grammar ⇒ account number masked, rejected ⇒ unchanged.
-/
import Iso8583.Lemmas.Errors
import Iso8583.Lemmas.Describe
import Iso8583.Gen.ErrorSites
import Iso8583.Gen.Filters

namespace Iso8583.C18
open Iso8583 Iso8583.Errors Iso8583.Describe

/-! ## A. Errors -/

/-- the window of the property: complete contents of a field of **eight** or more characters -/
def window : Nat := 8

/-- the table is complete in the sense of the translator: no argument was left unclassified -/
def noUnknown (s : Site) : Bool :=
  (s.segs ++ s.cause).all fun
    | .arg _ .unknown _ => false
    | .wrap _ _ .unknown _ => false
    | _ => true

theorem no_unknown_class : Gen.errorSites.all noUnknown = true := by decide +kernel

/-- Finding KF-C18-1 (repaired by c8ad75b): `Composite.unpackSubfieldsByTag` prints a tag *decoded from the
wire* that is not in the spec; a BER-TLV tag has no length limit (and a fixed-width tag is as
long as `Tag.Length` says), so a corrupted length byte can make the complete value of a
subfield appear, in hex, as "the tag". These two sites are excluded below. -/
def knownLeak1 (s : Site) : Bool :=
  s.fn == "field.(*Composite).unpackSubfieldsByTag" &&
    s.segs.any fun
      | .arg _ .value _ => true
      | _ => false

/-- Finding KF-C18-2 (repaired by 8747e88): `hexVarPrefixer.DecodeLength` returns `strconv.ParseUint`'s error,
which quotes the `2·digits` characters found at the prefix position: up to 12 bytes of wire
data for `Hex.LLLLLL` (8 for `Hex.LLLL`). After a dropped or inserted byte those are the
contents of a neighbouring field. -/
def knownLeak2 (s : Site) : Bool :=
  s.fn == "prefix.(*hexVarPrefixer).DecodeLength" &&
    s.segs.any fun
      | .arg _ (.prefixDigits _) _ => true
      | _ => false

def knownLeak (s : Site) : Bool := knownLeak1 s || knownLeak2 s

/-- full-strength statement: every site keeps its own value-derived insertions below the
window and separates them by literal text -/
def NoSiteLeaks : Prop := Gen.errorSites.all (fun s => s.ok (window - 1)) = true

/-- Full strength: holds since the two findings were repaired in /repo (KF-C18-1 by c8ad75b,
`%.6v`; KF-C18-2 by 8747e88, SafeError). If either returns, this `decide` fails. -/
theorem no_site_leaks : NoSiteLeaks := by
  unfold NoSiteLeaks
  decide +kernel

/-- weaker form kept from the time the findings were open: every site except theirs -/
theorem no_site_leaks_partial :
    Gen.errorSites.all (fun s => knownLeak s || s.ok (window - 1)) = true := by decide +kernel

/-- the site of the open finding as extracted from the defective tree (committed copy) -/
def kf1Site : Site :=
  { file := "field/composite.go", line := 677, fn := "field.(*Composite).unpackSubfieldsByTag", fnId := 55,
    kind := .errorf, hidden := false, format := "failed to unpack subfield %v: field not defined in Spec",
    segs := [.lit 26 "failed to unpack subfield ", .arg "%v" .value "wire tag", .lit 27 ": field not defined in Spec"],
    cause := [] }

def kf2Site : Site :=
  { file := "prefix/hex.go", line := 68, fn := "prefix.(*hexVarPrefixer).DecodeLength", fnId := 0,
    kind := .passthrough, hidden := false, format := "%v",
    segs := [.arg "%v" (.prefixDigits 12) "strconv.ParseUint quotes data[:2*digits]"], cause := [] }

/-- … and they do violate the per-site condition (unbounded, resp. 12 ≥ 8) -/
theorem no_site_leaks_witness :
    kf1Site.ok (window - 1) = false ∧ knownLeak kf1Site = true ∧
    kf2Site.ok (window - 1) = false ∧ knownLeak kf2Site = true := by decide

/-- the per-function bounds claimed by the translator are inductive: no site of a function
exceeds the function's bound when wrapped errors are given their callees' bounds. (So a
function with a bound below 8 can not surface the open findings; the others are the ones that
reach `unpackSubfieldsByTag` or a Hex length prefix.) -/
theorem fn_bounds_inductive :
    Gen.errorSites.all (fun s => Bound.le (s.total Gen.fnBounds) ((Gen.fnBounds[s.fnId]?).getD none)) = true := by
  decide +kernel

/-- length-prefix text quoted from the wire is at most 12 bytes (2 hex characters per digit, 6 digits) -/
theorem prefix_digits_bounded :
    Gen.errorSites.all (fun s => s.segs.all fun
      | .arg _ (.prefixDigits k) _ => decide (k ≤ 12)
      | _ => true) = true := by decide +kernel

/-- Rendering theorem. For any table in which every visible site is OK for the window
`B + 1`, every text rendered by an error chain built from sites of the table contains no run of
`B + 1` or more consecutive value-derived units. -/
theorem render_taint_bound (tbl : List Site) (B : Nat)
    (hall : tbl.all (fun s => s.ok B) = true)
    (s : Site) (hs : s ∈ tbl) (hv : s.hidden = false) (ch : Chain) (g : Gen tbl s.segs ch) :
    NoLongRun B (render ch) := by
  have hok : ∀ s ∈ tbl, s.hidden = false → SiteOK B s := fun s hs hv =>
    siteOK_of_ok hv (List.all_eq_true.mp hall s hs)
  have h := hok s hs hv
  obtain ⟨c', _, e⟩ := gen_scan tbl B hok g true 0 h.2 h.1 (fun _ => rfl) (Nat.zero_le _)
  simp [NoLongRun, e]

/-- the sites of the regenerated table outside the open finding -/
def safeSites : List Site := Gen.errorSites.filter (fun s => !knownLeak s)

theorem safeSites_ok : safeSites.all (fun s => s.ok (window - 1)) = true := by decide +kernel

/-- C18-A (partial: chains that do not pass through the sites of KF-C18-1 / KF-C18-2): no error text
built from the library's error sites contains eight consecutive value-derived units. -/
theorem error_texts_no_leak_partial (s : Site) (hs : s ∈ safeSites) (hv : s.hidden = false)
    (ch : Chain) (g : Gen safeSites s.segs ch) : NoLongRun (window - 1) (render ch) :=
  render_taint_bound safeSites (window - 1) safeSites_ok s hs hv ch g

/-- C18-A, full strength: no error text built from the library's error sites contains eight
consecutive value-derived units. -/
theorem error_texts_no_leak (s : Site) (hs : s ∈ Gen.errorSites) (hv : s.hidden = false)
    (ch : Chain) (g : Gen Gen.errorSites s.segs ch) : NoLongRun (window - 1) (render ch) :=
  render_taint_bound Gen.errorSites (window - 1) no_site_leaks s hs hv ch g

/-! ## B. Describe -/

/-- the constants of field_filter.go are the ones the property names: first/last four
characters of a PAN, first/last two of a PIN block, the mask text has no data in it -/
theorem filter_constants :
    Gen.panFistIndex = 4 ∧ Gen.panLastIndex = 4 ∧ Gen.panPattern = [42, 42, 42, 42] ∧
    Gen.pinFirstIndex = 2 ∧ Gen.pinLastIndex = 2 ∧ Gen.pinPattern = [42, 42, 42, 42] := by decide

/-- which filter `Describe` applies to which field by default -/
theorem default_filter_table :
    defaultFilterFor "2" = some "PANFilter" ∧ defaultFilterFor "35" = some "Track2Filter" ∧
    defaultFilterFor "36" = some "Track3Filter" ∧ defaultFilterFor "45" = some "Track1Filter" ∧
    defaultFilterFor "52" = some "PINFilter" := by decide

/-- the filter functions have the source text the model was written against, in the translator's
NORMAL FORM (harness/cmd/extract/normsrc.go: `if` init statements hoisted, `else` after a returning
branch flattened, parameters / locals renamed p1.. / v1.. in order of declaration, package constants
replaced by their values) — a changed body breaks this `rfl`, a renamed variable or constant or an
if/else written as an early return does not -/
theorem filter_sources_expected :
    Gen.srcPANFilter = "func(p1 string, p2 field.Field) string { if utf8.RuneCountInString(p1) < 4+4 { return p1 } return p1[0:4] + \"****\" + p1[len(p1)-4:] }" ∧
    Gen.srcPINFilter = "func(p1 string, p2 field.Field) string { if utf8.RuneCountInString(p1) < 2+2 { return p1 } return p1[0:2] + \"****\" + p1[len(p1)-2:] }" ∧
    Gen.srcTrack1Filter = "func(p1 string, p2 field.Field) string { v1 := field.Track1{} v2 := newTrackData(p1, &v1) if v2 != nil { return p1 } v1.PrimaryAccountNumber = PANFilter(v1.PrimaryAccountNumber, nil) return getTrackDataString(p1, &v1) }" ∧
    Gen.srcTrack2Filter = "func(p1 string, p2 field.Field) string { v1 := field.Track2{} v2 := newTrackData(p1, &v1) if v2 != nil { return p1 } v1.PrimaryAccountNumber = PANFilter(v1.PrimaryAccountNumber, nil) return getTrackDataString(p1, &v1) }" ∧
    Gen.srcTrack3Filter = "func(p1 string, p2 field.Field) string { v1 := field.Track3{} v2 := newTrackData(p1, &v1) if v2 != nil { return p1 } v1.PrimaryAccountNumber = PANFilter(v1.PrimaryAccountNumber, nil) return getTrackDataString(p1, &v1) }" ∧
    Gen.src_newTrackData = "func newTrackData(p1 string, p2 field.Field) error { v1 := p2.SetBytes([]byte(p1)) if v1 != nil { return ErrCreatingNewTrackData } return nil }" ∧
    Gen.src_getTrackDataString = "func getTrackDataString(p1 string, p2 field.Field) string { v1, v2 := p2.String() if v2 != nil { return p1 } return v1 }" :=
  ⟨rfl, rfl, rfl, rfl, rfl, rfl, rfl⟩

/-- the track grammars the model's parsers were written against -/
theorem track_regexes_expected :
    Gen.track1Regex = "^([A-Z]{1})([0-9]{1,19})\\^([^\\^]{2,26})\\^([0-9]{4}|\\^)([0-9]{3}|\\^)([^\\?]+)$" ∧
    Gen.track2Regex = "^([0-9]{1,19})(=|D)([0-9]{4})([0-9]{3})([^?]+)$" ∧
    Gen.track3Regex = "^([0-9]{2})([0-9]{1,19})\\=([^\\?]+)$" ∧
    Gen.track1Format = "%s%s^%s^%s%s%s" ∧ Gen.track2Format = "%s%s%s%s%s" ∧ Gen.track3Format = "%s%s=%s" ∧
    Gen.expiryDateFormat = "0601" :=
  ⟨rfl, rfl, rfl, rfl, rfl, rfl, rfl⟩

/-- two texts agree on what a `first`/`last` mask leaves visible -/
def AgreeVisible (first last : Nat) (a b : Bytes) : Prop :=
  a.length = b.length ∧ a.take first = b.take first ∧
    a.drop (a.length - last) = b.drop (b.length - last)

instance (first last : Nat) (a b : Bytes) : Decidable (AgreeVisible first last a b) := by
  unfold AgreeVisible; infer_instance

/-- Non-interference of the mask filters: two texts of at least `first + last` runes that
agree on the visible positions give the same output, whatever is in between. -/
theorem mask_noninterference (first last : Nat) (p a b : Bytes)
    (ha : first + last ≤ runeCount a) (hb : first + last ≤ runeCount b)
    (h : AgreeVisible first last a b) :
    maskFilter first last p a = maskFilter first last p b := by
  rw [maskFilter_long ha, maskFilter_long hb, h.2.1, h.2.2]

def stars : Bytes := [42, 42, 42, 42]

/-- `PANFilter` on a PAN (digits) of eight or more characters: the first four and the last four
characters, `****` in between — nothing else of the value. -/
theorem pan_masked_value (pan : Bytes) (hd : pan.all isDigit = true) (hl : 8 ≤ pan.length) :
    panFilter pan = .ok (pan.take 4 ++ stars ++ pan.drop (pan.length - 4)) := by
  have hr := runeCount_digits pan hd
  have : Gen.panFistIndex + Gen.panLastIndex ≤ runeCount pan := by
    rw [hr]; simp [Gen.panFistIndex, Gen.panLastIndex]; omega
  simpa [panFilter, Gen.panFistIndex, Gen.panLastIndex, bytesOf, Gen.panPattern, stars] using
    maskFilter_long (p := bytesOf Gen.panPattern) this

/-- `pan_masked`: two PANs of equal length ≥ 8 with the same first four and last four digits
are printed identically: the middle `length − 8` digits do not influence the output. -/
theorem pan_masked (a b : Bytes) (ha : a.all isDigit = true) (hb : b.all isDigit = true)
    (hl : 8 ≤ a.length) (h : AgreeVisible 4 4 a b) : panFilter a = panFilter b := by
  have hlb : 8 ≤ b.length := h.1 ▸ hl
  rw [pan_masked_value a ha hl, pan_masked_value b hb hlb, h.2.1, h.2.2]

/-- short values: fewer than eight runes are printed unchanged (no masking at all). For a PAN
of exactly eight digits the "mask" hides nothing (`pan_masked_value` shows all eight). -/
theorem pan_short_unmasked (s : Bytes) (h : runeCount s < 8) : panFilter s = .ok s := by
  apply maskFilter_short
  simpa [Gen.panFistIndex, Gen.panLastIndex] using h

/-- `PINFilter` on the hex text of a PIN block (what `Binary.String()` prints): first two and
last two characters, `****` in between. -/
theorem pin_masked_value (pin : Bytes) (hasc : ∀ c ∈ pin, c.toNat < 128) (hl : 4 ≤ pin.length) :
    pinFilter pin = .ok (pin.take 2 ++ stars ++ pin.drop (pin.length - 2)) := by
  have hr := runeCount_ascii pin hasc
  have : Gen.pinFirstIndex + Gen.pinLastIndex ≤ runeCount pin := by
    rw [hr]; simp [Gen.pinFirstIndex, Gen.pinLastIndex]; omega
  simpa [pinFilter, Gen.pinFirstIndex, Gen.pinLastIndex, bytesOf, Gen.pinPattern, stars] using
    maskFilter_long (p := bytesOf Gen.pinPattern) this

/-- `pin_masked`: two PIN-block texts of equal length ≥ 4 that agree on the first two and last
two characters are printed identically. -/
theorem pin_masked (a b : Bytes) (ha : ∀ c ∈ a, c.toNat < 128) (hb : ∀ c ∈ b, c.toNat < 128)
    (hl : 4 ≤ a.length) (h : AgreeVisible 2 2 a b) : pinFilter a = pinFilter b := by
  have hlb : 4 ≤ b.length := h.1 ▸ hl
  rw [pin_masked_value a ha hl, pin_masked_value b hb hlb, h.2.1, h.2.2]

/-- `filters_total`: no filter panics, on any input (any bytes, any length). -/
theorem filters_total (name : String) (inp : Bytes) : filterByName name inp ≠ some .panic := by
  have hpan : ∀ s, ∃ out, panFilter s = .ok out := fun s => maskFilter_isOk _ _ _ s
  unfold filterByName
  split
  · simp only [ne_eq, Option.some.injEq]; exact maskFilter_not_panic _ _ _ _
  · simp only [ne_eq, Option.some.injEq]; exact maskFilter_not_panic _ _ _ _
  · simp only [ne_eq, Option.some.injEq]; exact maskFilter_not_panic _ _ _ _
  · simp
  · simp only [ne_eq, Option.some.injEq, track1Filter]
    split
    · simp
    · rename_i t _; obtain ⟨o, ho⟩ := hpan t.pan; simp [ho]
  · simp only [ne_eq, Option.some.injEq, track2Filter]
    split
    · simp
    · rename_i t _; obtain ⟨o, ho⟩ := hpan t.pan; simp [ho]
  · simp only [ne_eq, Option.some.injEq, track3Filter]
    split
    · obtain ⟨o, ho⟩ := hpan emptyT3.pan; simp [ho]
    · rename_i t _; obtain ⟨o, ho⟩ := hpan t.pan; simp [ho]
  · simp

/-! ### track data -/

/-- well-formed track 2 components -/
structure WF2 (pan exp code dd : Bytes) (sep : Byte) : Prop where
  panDigits : pan.all isDigit = true
  panLen : 1 ≤ pan.length ∧ pan.length ≤ 19
  sepOK : sep = eqSign ∨ sep = 68
  expLen : exp.length = 4
  expDigits : exp.all isDigit = true
  expValid : expiryOK exp = true
  codeLen : code.length = 3
  codeDigits : code.all isDigit = true
  ddOK : ddOK dd = true

def track2Text (pan exp code dd : Bytes) (sep : Byte) : Bytes := pan ++ sep :: (exp ++ (code ++ dd))

theorem parseTrack2_wf {pan exp code dd : Bytes} {sep : Byte} (w : WF2 pan exp code dd sep) :
    parseTrack2 (track2Text pan exp code dd sep) =
      some { pan := pan, sep := [sep], exp := some exp, code := code, dd := trimSpace dd } := by
  have hsepnd : isDigit sep = false := by
    rcases w.sepOK with h | h <;> subst h <;> decide
  have hsp := spanDigits_append pan sep (exp ++ (code ++ dd)) w.panDigits hsepnd
  have h1 : ¬ (pan.length < 1 ∨ pan.length > 19) := by have := w.panLen; omega
  have hsep : (sep = eqSign ∨ sep = 68) := w.sepOK
  have e4 : (exp ++ (code ++ dd)).take 4 = exp := take_append_len _ _ 4 w.expLen
  have d4 : (exp ++ (code ++ dd)).drop 4 = code ++ dd := drop_append_len _ _ 4 w.expLen
  have e3 : (code ++ dd).take 3 = code := take_append_len _ _ 3 w.codeLen
  have d7 : (exp ++ (code ++ dd)).drop 7 = dd := by
    have : (exp ++ (code ++ dd)).drop 7 = ((exp ++ (code ++ dd)).drop 4).drop 3 := by
      rw [List.drop_drop]
    rw [this, d4, drop_append_len _ _ 3 w.codeLen]
  simp only [parseTrack2, track2Text, hsp]
  simp only [Bool.or_eq_true, decide_eq_true_eq, h1, if_false, hsep, if_true, e4, d4, e3, d7,
    w.expLen, w.expDigits, w.codeLen, w.codeDigits, w.ddOK, w.expValid, Bool.and_self, Bool.and_true]

/-- `Track2Filter` on well-formed track 2 data held by a field whose pack/unpack returns its
value: the account number goes through `PANFilter`, everything else is reprinted. -/
theorem track2_filter_value {pan exp code dd : Bytes} {sep : Byte} (w : WF2 pan exp code dd sep) :
    track2Filter panFilter (track2Text pan exp code dd sep) =
      (do let p ← panFilter pan; pure (p ++ [sep] ++ exp ++ code ++ trimSpace dd)) := by
  have hcode : code.isEmpty = false := by
    have := w.codeLen
    cases hc : code with
    | nil => simp [hc] at this
    | cons c r => rfl
  simp only [track2Filter, parseTrack2_wf w]
  obtain ⟨o, ho⟩ := maskFilter_isOk Gen.panFistIndex Gen.panLastIndex (bytesOf Gen.panPattern) pan
  simp [panFilter, ho, formatTrack2, hcode]

/-- `track_masked` (track 2, assembled texts): two well-formed track-2 texts that differ only
inside the hidden middle of the account number are printed identically. -/
theorem track2_masked {a b exp code dd : Bytes} {sep : Byte}
    (wa : WF2 a exp code dd sep) (wb : WF2 b exp code dd sep)
    (hl : 8 ≤ a.length) (h : AgreeVisible 4 4 a b) :
    track2Filter panFilter (track2Text a exp code dd sep) =
    track2Filter panFilter (track2Text b exp code dd sep) := by
  rw [track2_filter_value wa, track2_filter_value wb, pan_masked a b wa.panDigits wb.panDigits hl h]

/-- well-formed track 3 components -/
structure WF3 (fc pan dd : Bytes) : Prop where
  fcLen : fc.length = 2
  fcDigits : fc.all isDigit = true
  panDigits : pan.all isDigit = true
  panLen : 1 ≤ pan.length ∧ pan.length ≤ 19
  ddOK : ddOK dd = true

def track3Text (fc pan dd : Bytes) : Bytes := (fc ++ pan) ++ eqSign :: dd

theorem parseTrack3_wf {fc pan dd : Bytes} (w : WF3 fc pan dd) :
    parseTrack3 (track3Text fc pan dd) =
      some { fc := fc, pan := pan, dd := if trimSpace dd = [eqSign] then [] else trimSpace dd } := by
  have hd : (fc ++ pan).all isDigit = true := by simp [List.all_append, w.fcDigits, w.panDigits]
  have hsp := spanDigits_append (fc ++ pan) eqSign dd hd (by decide)
  have hlen : (fc ++ pan).length = 2 + pan.length := by simp [w.fcLen]
  have h1 : ¬ ((fc ++ pan).length < 3 ∨ (fc ++ pan).length > 21) := by have := w.panLen; omega
  simp only [parseTrack3, track3Text, hsp]
  simp only [Bool.or_eq_true, decide_eq_true_eq, h1, if_false, bne_self_eq_false, Bool.false_eq_true,
    w.ddOK, Bool.not_true, take_append_len _ _ 2 w.fcLen, drop_append_len _ _ 2 w.fcLen]

theorem track3_filter_value {fc pan dd : Bytes} (w : WF3 fc pan dd) :
    track3Filter panFilter (track3Text fc pan dd) =
      (do let p ← panFilter pan
          pure (fc ++ p ++ [eqSign] ++ (if trimSpace dd = [eqSign] then [] else trimSpace dd))) := by
  simp only [track3Filter, parseTrack3_wf w]
  obtain ⟨o, ho⟩ := maskFilter_isOk Gen.panFistIndex Gen.panLastIndex (bytesOf Gen.panPattern) pan
  simp [panFilter, ho, formatTrack3]

/-- `track_masked` (track 3, assembled texts) -/
theorem track3_masked {fc a b dd : Bytes} (wa : WF3 fc a dd) (wb : WF3 fc b dd)
    (hl : 8 ≤ a.length) (h : AgreeVisible 4 4 a b) :
    track3Filter panFilter (track3Text fc a dd) = track3Filter panFilter (track3Text fc b dd) := by
  rw [track3_filter_value wa, track3_filter_value wb, pan_masked a b wa.panDigits wb.panDigits hl h]

/-! track 1 (expiry and service code present; the `^` alternatives are covered by channel X) -/

/-- well-formed track 1 components (expiry and service code present) -/

structure WF1 (fc : Byte) (pan name exp code dd : Bytes) : Prop where
  fcUpper : isUpper fc = true
  panDigits : pan.all isDigit = true
  panLen : 1 ≤ pan.length ∧ pan.length ≤ 19
  nameChars : name.all (fun c => c != caret) = true
  nameLen : 2 ≤ runeCount name ∧ runeCount name ≤ 26
  expLen : exp.length = 4
  expDigits : exp.all isDigit = true
  expValid : expiryOK exp = true
  codeLen : code.length = 3
  codeDigits : code.all isDigit = true
  ddOK : ddOK dd = true

def track1Text (fc : Byte) (pan name exp code dd : Bytes) : Bytes :=
  fc :: (pan ++ caret :: (name ++ caret :: (exp ++ (code ++ dd))))

def skipT (v : Bytes) : Bytes := let t := trimSpace v; if t = [caret] then [] else t

theorem skipT_digits (ds : Bytes) (hd : ds.all isDigit = true) (hne : ds ≠ [caret]) : skipT ds = ds := by
  simp [skipT, trimSpace_digits ds hd, hne]

theorem parseTrack1_wf {fc : Byte} {pan name exp code dd : Bytes} (w : WF1 fc pan name exp code dd) :
    parseTrack1 (track1Text fc pan name exp code dd) =
      some { fc := [fc], pan := pan, name := skipT name, exp := some exp, code := code, dd := skipT dd } := by
  have hsp := spanDigits_append pan caret (name ++ caret :: (exp ++ (code ++ dd))) w.panDigits (by decide)
  have hsn := spanNotCaret_append name (exp ++ (code ++ dd)) w.nameChars
  have h1 : ¬ (pan.length < 1 ∨ pan.length > 19) := by have := w.panLen; omega
  have h2 : ¬ (runeCount name < 2 ∨ runeCount name > 26) := by have := w.nameLen; omega
  have he := digitsOrCaret_digits 4 exp (code ++ dd) w.expLen w.expDigits
  have hc := digitsOrCaret_digits 3 code dd w.codeLen w.codeDigits
  have hexpne : exp ≠ [caret] := by
    intro h; have := w.expLen; rw [h] at this; simp at this
  have hcodene : code ≠ [caret] := by
    intro h; have := w.codeLen; rw [h] at this; simp at this
  have hse := skipT_digits exp w.expDigits hexpne
  have hsc := skipT_digits code w.codeDigits hcodene
  have hexpnil : exp.isEmpty = false := by
    cases hx : exp with
    | nil => have := w.expLen; simp [hx] at this
    | cons a t => rfl
  simp only [parseTrack1, track1Text, w.fcUpper, Bool.not_true, Bool.false_eq_true, if_false, hsp,
    Bool.or_eq_true, decide_eq_true_eq, h1, bne_self_eq_false, hsn, h2, he, hc, w.ddOK]
  have hse' : (let t := trimSpace exp; if t = [caret] then [] else t) = exp := hse
  have hsc' : (let t := trimSpace code; if t = [caret] then [] else t) = code := hsc
  simp only [hse', hsc', hexpnil, Bool.not_false, w.expValid, Bool.not_true, Bool.and_false,
    Bool.false_eq_true, if_false, skipT]

theorem track1_filter_value {fc : Byte} {pan name exp code dd : Bytes} (w : WF1 fc pan name exp code dd) :
    track1Filter panFilter (track1Text fc pan name exp code dd) =
      (do let p ← panFilter pan
          pure ([fc] ++ p ++ [caret] ++ skipT name ++ [caret] ++ exp ++ code ++ skipT dd)) := by
  have hcode : code.isEmpty = false := by
    have := w.codeLen
    cases hc : code with
    | nil => simp [hc] at this
    | cons c r => rfl
  simp only [track1Filter, parseTrack1_wf w]
  obtain ⟨o, ho⟩ := maskFilter_isOk Gen.panFistIndex Gen.panLastIndex (bytesOf Gen.panPattern) pan
  simp [panFilter, ho, formatTrack1, hcode]

/-- `track_masked` (track 1, assembled texts) -/
theorem track1_masked {fc : Byte} {a b name exp code dd : Bytes}
    (wa : WF1 fc a name exp code dd) (wb : WF1 fc b name exp code dd)
    (hl : 8 ≤ a.length) (h : AgreeVisible 4 4 a b) :
    track1Filter panFilter (track1Text fc a name exp code dd) =
    track1Filter panFilter (track1Text fc b name exp code dd) := by
  rw [track1_filter_value wa, track1_filter_value wb, pan_masked a b wa.panDigits wb.panDigits hl h]

/-! ### every text: accepted ⇒ masked, rejected ⇒ unchanged

Since `newTrackData` parses the text itself, the filters are pure functions of the text, and
the two cases below are exhaustive for **every** input: a text the track grammar accepts is
reprinted with the account number masked; any other text is returned unchanged. -/

def maskedPan (pan : Bytes) : Bytes := pan.take 4 ++ stars ++ pan.drop (pan.length - 4)

/-- every text accepted by the track 2 grammar whose account number has eight or more digits is
printed with exactly the first four and last four digits of it, whatever the field's spec -/
theorem track2_accepted_masked {v : Bytes} {t : T2} (h : parseTrack2 v = some t) (hl : 8 ≤ t.pan.length) :
    track2Filter panFilter v = .ok (formatTrack2 { t with pan := maskedPan t.pan }) := by
  simp [track2Filter, h, pan_masked_value t.pan (parseTrack2_pan h).1 hl, maskedPan]

theorem track1_accepted_masked {v : Bytes} {t : T1} (h : parseTrack1 v = some t) (hl : 8 ≤ t.pan.length) :
    track1Filter panFilter v = .ok (formatTrack1 { t with pan := maskedPan t.pan }) := by
  simp [track1Filter, h, pan_masked_value t.pan (parseTrack1_pan h).1 hl, maskedPan]

theorem track3_accepted_masked {v : Bytes} {t : T3} (h : parseTrack3 v = some t) (hl : 8 ≤ t.pan.length) :
    track3Filter panFilter v = .ok (formatTrack3 { t with pan := maskedPan t.pan }) := by
  simp [track3Filter, h, pan_masked_value t.pan (parseTrack3_pan h).1 hl, maskedPan]

/-- `track_masked`, general form: two accepted texts whose components differ only in the account
number, the account numbers agreeing on the visible positions, are printed identically -/
theorem track2_noninterference {va vb : Bytes} {ta tb : T2}
    (ha : parseTrack2 va = some ta) (hb : parseTrack2 vb = some tb)
    (hrest : { ta with pan := [] } = { tb with pan := [] })
    (hl : 8 ≤ ta.pan.length) (hag : AgreeVisible 4 4 ta.pan tb.pan) :
    track2Filter panFilter va = track2Filter panFilter vb := by
  have hlb : 8 ≤ tb.pan.length := hag.1 ▸ hl
  rw [track2_accepted_masked ha hl, track2_accepted_masked hb hlb]
  have hm : maskedPan ta.pan = maskedPan tb.pan := by
    simp only [maskedPan, hag.2.1, hag.2.2]
  simp only [T2.mk.injEq] at hrest
  simp [formatTrack2, hm, hrest.2.1, hrest.2.2.1, hrest.2.2.2.1, hrest.2.2.2.2]

theorem track1_noninterference {va vb : Bytes} {ta tb : T1}
    (ha : parseTrack1 va = some ta) (hb : parseTrack1 vb = some tb)
    (hrest : { ta with pan := [] } = { tb with pan := [] })
    (hl : 8 ≤ ta.pan.length) (hag : AgreeVisible 4 4 ta.pan tb.pan) :
    track1Filter panFilter va = track1Filter panFilter vb := by
  have hlb : 8 ≤ tb.pan.length := hag.1 ▸ hl
  rw [track1_accepted_masked ha hl, track1_accepted_masked hb hlb]
  have hm : maskedPan ta.pan = maskedPan tb.pan := by
    simp only [maskedPan, hag.2.1, hag.2.2]
  simp only [T1.mk.injEq] at hrest
  simp [formatTrack1, hm, hrest.1, hrest.2.2.1, hrest.2.2.2.1, hrest.2.2.2.2.1, hrest.2.2.2.2.2]

theorem track3_noninterference {va vb : Bytes} {ta tb : T3}
    (ha : parseTrack3 va = some ta) (hb : parseTrack3 vb = some tb)
    (hrest : { ta with pan := [] } = { tb with pan := [] })
    (hl : 8 ≤ ta.pan.length) (hag : AgreeVisible 4 4 ta.pan tb.pan) :
    track3Filter panFilter va = track3Filter panFilter vb := by
  have hlb : 8 ≤ tb.pan.length := hag.1 ▸ hl
  rw [track3_accepted_masked ha hl, track3_accepted_masked hb hlb]
  have hm : maskedPan ta.pan = maskedPan tb.pan := by
    simp only [maskedPan, hag.2.1, hag.2.2]
  simp only [T3.mk.injEq] at hrest
  simp [formatTrack3, hm, hrest.1, hrest.2.2]

/-- every text the track 1 / track 2 grammar rejects is returned unchanged
(`ErrCreatingNewTrackData`): malformed track text is outside the property ("well-formed track
data"); e.g. track 2 without discretionary data, or with month 00 / 13..99 — see the evidence
note. For track 3 `SetBytes` swallows the error: a rejected text is printed as the empty track
`"="`, showing nothing of it. -/
theorem track_rejected_unchanged (v : Bytes) :
    (parseTrack1 v = none → track1Filter panFilter v = .ok v) ∧
    (parseTrack2 v = none → track2Filter panFilter v = .ok v) ∧
    (parseTrack3 v = none → track3Filter panFilter v = .ok [eqSign]) := by
  refine ⟨?_, ?_, ?_⟩
  · intro h; simp [track1Filter, h]
  · intro h; simp [track2Filter, h]
  · intro h
    have : panFilter [] = .ok [] := by decide
    simp [track3Filter, h, emptyT3, this, formatTrack3]

/-! ## non-vacuity -/

/-- "4000340000000506" -/
def demoPanA : Bytes := [52, 48, 48, 48, 51, 52, 48, 48, 48, 48, 48, 48, 48, 53, 48, 54]
/-- "4000999999990506" -/
def demoPanB : Bytes := [52, 48, 48, 48, 57, 57, 57, 57, 57, 57, 57, 57, 48, 53, 48, 54]

example : panFilter demoPanA = .ok [52, 48, 48, 48, 42, 42, 42, 42, 48, 53, 48, 54] := by decide
example : demoPanA ≠ demoPanB ∧ AgreeVisible 4 4 demoPanA demoPanB ∧ panFilter demoPanA = panFilter demoPanB := by
  decide
/-- "2512", "101", "123" : 4000340000000506=2512101123 is well-formed track 2 -/
example : WF2 demoPanA [50, 53, 49, 50] [49, 48, 49] [49, 50, 51] eqSign :=
  ⟨by decide, by decide, by decide, by decide, by decide, by decide, by decide, by decide, by decide⟩
example : track2Filter panFilter (track2Text demoPanA [50, 53, 49, 50] [49, 48, 49] [49, 50, 51] eqSign) =
    .ok ([52, 48, 48, 48, 42, 42, 42, 42, 48, 53, 48, 54] ++ [61] ++ [50, 53, 49, 50] ++ [49, 48, 49] ++ [49, 50, 51]) := by
  decide
/-- track 2 without discretionary data is returned unmasked (rejected by the grammar) -/
example : track2Filter panFilter (demoPanA ++ [61, 50, 53, 49, 50, 49, 48, 49]) = .ok (demoPanA ++ [61, 50, 53, 49, 50, 49, 48, 49]) := by
  decide
/-- the empty text is rejected and printed as it is -/
example : track1Filter panFilter [] = .ok [] ∧ track2Filter panFilter [] = .ok [] ∧ track3Filter panFilter [] = .ok [eqSign] := by
  decide
/-- "B" pan "^DOE/JOHN^" "2512" "101" "123" is well-formed track 1 -/
example : WF1 66 demoPanA [68, 79, 69, 47, 74, 79, 72, 78] [50, 53, 49, 50] [49, 48, 49] [49, 50, 51] :=
  ⟨by decide, by decide, by decide, by decide, by decide, by decide, by decide, by decide, by decide, by decide, by decide⟩
example : WF3 [48, 49] demoPanA [49, 50] := ⟨by decide, by decide, by decide, by decide, by decide⟩
/-- a chain of two sites that satisfies the hypotheses of `render_taint_bound`, and its rendering -/
example : ∃ s ∈ safeSites, s.hidden = false ∧ s.segs.length = 4 := by decide +kernel
example : NoLongRun 7 (render (.text 10 (.sub (.text 5 (.data 4 (.text 1 .nil))) .nil))) := by decide
example : ¬ NoLongRun 7 (render (.text 10 (.data 8 .nil))) := by decide

end Iso8583.C18
