/-
C13 — several mutexes: the synchronized API can not deadlock across a message and its
composites (complements Props/C13.lean, whose semantics has one mutex).

A `Message` method holds the message's mutex while it calls `Pack` / `Unpack` / `SetBytes` /
`Marshal` / … of its fields; a `Composite` field takes its own mutex in those methods and,
holding it, calls the same methods of *its* subfields, and so on down the spec tree. Several
mutexes are therefore held at once, by several goroutines working on the same message and
on composites of it directly.

`nested tbl fuel k recv name` is the program a call of method `recv.name` executes on an
object at nesting depth `k`, built from the REGENERATED micro-step table
(`Gen/LockFacts.lean`): helpers of the same receiver inlined (`Locks.flat`), `Lock` /
`Unlock` of the receiver = `acq k` / `rel k`, and every call into a child (`callOther` with
the interface type `Field` or with `Composite`) replaced by the program of the Composite
method of that name at depth `k+1` — to any depth `fuel` (at depth 0 of the fuel the child
is a primitive field, which has no mutex).

* `templates_balanced` (`decide +kernel` over the table): in every method body `Lock` and
  `Unlock` of the receiver alternate, starting and ending unlocked.
* `nested_disciplined` (all fuels, all depths, by induction — no bound on the nesting): every
  such program obeys the rank discipline of `Spec/LockOrder.lean` with rank = nesting depth:
  it only ever acquires a mutex deeper than all it holds and ends holding none.
* `api_threads_deadlock_free`: any number of goroutines, each running any sequence of the
  operations of the synchronized API on the message (depth 0) or directly on composites at
  any depth, in any interleaving: whenever some goroutine has not finished, some goroutine
  can take a step.

Abstraction: all objects of one depth share one mutex identifier here. The discipline is a
property of the *ranks* acquired and released (`disc` looks at `rank` only when it
acquires), every method releases the mutex of its own receiver (`defer Unlock`), and the
structs keep no pointer to a parent (`C13.structs_as_expected`), so the programs of the
real object tree — one mutex per object, rank = depth — have the same acquire / release
rank pattern. Not modelled: see Spec/LockOrder.lean and Props/C13.lean.
-/
import Iso8583.Props.C13
import Iso8583.Spec.LockOrder

namespace Iso8583.C13Locks
open Iso8583 Iso8583.Locks Iso8583.LockOrder

/-- one micro-step of a body run at depth `k`; `child m` is what a call of method `m` of a
child object executes -/
def stepProg (child : String → List LockOrder.Instr) (k : Nat) : MStep → List LockOrder.Instr
  | .lock => [.acq k]
  | .unlock => [.rel k]
  | .callOther _ ty m => if ty == "Field" || ty == "Composite" then child m else [.other]
  | _ => [.other]

def bodyProg (child : String → List LockOrder.Instr) (k : Nat) (ss : List MStep) : List LockOrder.Instr :=
  ss.flatMap (stepProg child k)

/-- the program of `recv.name` on an object at depth `k`, children expanded `fuel` levels deep -/
def nested (tbl : List Method) : Nat → Nat → String → String → List LockOrder.Instr
  | 0, _, _, _ => [.other]
  | fuel + 1, k, recv, name =>
    match lookup tbl recv name with
    | none => [.other]
    | some m => bodyProg (fun mm => nested tbl fuel (k + 1) "Composite" mm) k (flat tbl m)

/-- `Lock` / `Unlock` of the receiver alternate; `own` = the receiver's mutex is held -/
def balanced : Bool → List MStep → Bool
  | own, [] => !own
  | own, .lock :: r => !own && balanced true r
  | own, .unlock :: r => own && balanced false r
  | own, _ :: r => balanced own r

def templatesBalanced (tbl : List Method) : Bool :=
  tbl.all fun m => !m.exported || balanced false (flat tbl m)

theorem templates_balanced : templatesBalanced C13.facts = true := by decide +kernel

/-! ### the discipline, for every nesting depth -/

/-- a program that leaves the discipline of whatever follows it unchanged, when run while
holding only mutexes of depth `< k` -/
def Neutral (k : Nat) (p : List LockOrder.Instr) : Prop :=
  ∀ (held : List Lock) (rest : List LockOrder.Instr), (∀ h ∈ held, h < k) →
    disc id held (p ++ rest) = disc id held rest

theorem neutral_other (k : Nat) : Neutral k [.other] := by
  intro held rest _
  simp only [List.cons_append, List.nil_append, disc]

theorem all_lt (held : List Lock) (k : Nat) (h : ∀ x ∈ held, x < k) :
    held.all (fun x => decide (id x < id k)) = true := by
  simp only [List.all_eq_true, decide_eq_true_eq, id]
  exact h

/-- a balanced body whose child calls are neutral one level down is neutral -/
theorem body_neutral (child : String → List LockOrder.Instr) (k : Nat)
    (hchild : ∀ m, Neutral (k + 1) (child m)) :
    ∀ (ss : List MStep) (own : Bool) (held : List Lock) (rest : List LockOrder.Instr),
      (∀ h ∈ held, h < k) → balanced own ss = true →
      disc id (if own then k :: held else held) (bodyProg child k ss ++ rest) = disc id held rest
  | [], own, held, rest, _, hb => by
    cases own with
    | true => simp [balanced] at hb
    | false => simp only [bodyProg, List.flatMap_nil, List.nil_append, Bool.false_eq_true, if_false]
  | s :: r, own, held, rest, hh, hb => by
    have hcons : bodyProg child k (s :: r) ++ rest = stepProg child k s ++ (bodyProg child k r ++ rest) := by
      simp only [bodyProg, List.flatMap_cons, List.append_assoc]
    rw [hcons]
    -- the mutexes held while the step runs are all of depth ≤ k
    have hheld' : ∀ h ∈ (if own then k :: held else held), h < k + 1 := by
      intro h hm
      cases own with
      | true =>
        simp only [if_true, List.mem_cons] at hm
        rcases hm with rfl | hm
        · exact Nat.lt_succ_self _
        · exact Nat.lt_succ_of_lt (hh h hm)
      | false =>
        simp only [Bool.false_eq_true, if_false] at hm
        exact Nat.lt_succ_of_lt (hh h hm)
    have hother : ∀ own', balanced own' r = true →
        disc id (if own' then k :: held else held) ([LockOrder.Instr.other] ++ (bodyProg child k r ++ rest)) =
          disc id held rest := by
      intro own' hb'
      simp only [List.cons_append, List.nil_append, disc]
      exact body_neutral child k hchild r own' held rest hh hb'
    cases s with
    | lock =>
      cases own with
      | true => simp [balanced] at hb
      | false =>
        simp only [balanced, Bool.not_false, Bool.true_and] at hb
        simp only [stepProg, List.cons_append, List.nil_append, Bool.false_eq_true, if_false, disc,
          all_lt held k hh, Bool.true_and]
        exact body_neutral child k hchild r true held rest hh hb
    | unlock =>
      cases own with
      | false => simp [balanced] at hb
      | true =>
        simp only [balanced, Bool.true_and] at hb
        simp only [stepProg, List.cons_append, List.nil_append, if_true, disc, List.contains_cons, beq_self_eq_true,
          Bool.true_or, Bool.true_and, List.erase_cons_head]
        exact body_neutral child k hchild r false held rest hh hb
    | callOther o ty m =>
      have hb' : balanced own r = true := by simpa only [balanced] using hb
      by_cases hty : (ty == "Field" || ty == "Composite") = true
      · simp only [stepProg, hty, if_true]
        rw [hchild m _ _ hheld']
        exact body_neutral child k hchild r own held rest hh hb'
      · simp only [stepProg, hty, Bool.false_eq_true, if_false]
        exact hother own hb'
    | deferUnlock => exact hother own (by simpa only [balanced] using hb)
    | read f => exact hother own (by simpa only [balanced] using hb)
    | write f => exact hother own (by simpa only [balanced] using hb)
    | call m => exact hother own (by simpa only [balanced] using hb)
    | unknown w => exact hother own (by simpa only [balanced] using hb)

/-- **Every method program is neutral at its depth, for every nesting depth.** -/
theorem nested_neutral (tbl : List Method) (hb : templatesBalanced tbl = true)
    (hexp : ∀ recv name m, lookup tbl recv name = some m → m.exported = true ∨ balanced false (flat tbl m) = true) :
    ∀ (fuel k : Nat) (recv name : String), Neutral k (nested tbl fuel k recv name)
  | 0, k, _, _ => neutral_other k
  | fuel + 1, k, recv, name => by
    unfold nested
    cases hl : lookup tbl recv name with
    | none => exact neutral_other k
    | some m =>
      simp only
      have hbal : balanced false (flat tbl m) = true := by
        rcases hexp recv name m hl with he | hbm
        · have hm : m ∈ tbl := List.mem_of_find?_eq_some hl
          have := List.all_eq_true.mp hb m hm
          simpa only [he, Bool.not_true, Bool.false_or] using this
        · exact hbm
      intro held rest hh
      have := body_neutral (fun mm => nested tbl fuel (k + 1) "Composite" mm) k
        (fun mm => nested_neutral tbl hb hexp fuel (k + 1) "Composite" mm) (flat tbl m) false held rest hh hbal
      simpa only [Bool.false_eq_true, if_false] using this

/-- every method the table knows is exported or balanced (helpers never lock: rule 2) -/
def helpersBalanced (tbl : List Method) : Bool :=
  tbl.all fun m => m.exported || balanced false (flat tbl m)

theorem helpers_balanced : helpersBalanced C13.facts = true := by decide +kernel

theorem facts_exported_or_balanced (recv name : String) (m : Method)
    (h : lookup C13.facts recv name = some m) :
    m.exported = true ∨ balanced false (flat C13.facts m) = true := by
  have hm : m ∈ C13.facts := List.mem_of_find?_eq_some h
  have := List.all_eq_true.mp helpers_balanced m hm
  simpa only [Bool.or_eq_true] using this

/-- **`nested_disciplined`.** The program of any method of the table, on an object at any depth
`k`, with children expanded to any depth, obeys the rank discipline (rank = depth) when started
holding nothing. -/
theorem nested_disciplined (fuel k : Nat) (recv name : String) :
    disc id [] (nested C13.facts fuel k recv name) = true := by
  have h := nested_neutral C13.facts templates_balanced facts_exported_or_balanced fuel k recv name [] []
    (fun _ hm => by cases hm)
  rw [List.append_nil] at h
  rw [h]
  rfl

/-- a sequence of API calls (method, depth of the object it is called on, expansion depth) -/
def progOf (ops : List (String × String × Nat × Nat)) : List LockOrder.Instr :=
  ops.flatMap fun o => nested C13.facts o.2.2.2 o.2.2.1 o.1 o.2.1

theorem progOf_disciplined : ∀ ops, disc id [] (progOf ops) = true
  | [] => rfl
  | o :: r => by
    have hn := nested_neutral C13.facts templates_balanced facts_exported_or_balanced o.2.2.2 o.2.2.1 o.1 o.2.1 []
      (progOf r) (fun _ hm => by cases hm)
    have : progOf (o :: r) = nested C13.facts o.2.2.2 o.2.2.1 o.1 o.2.1 ++ progOf r := by
      simp only [progOf, List.flatMap_cons]
    rw [this, hn]
    exact progOf_disciplined r

/-- **No deadlock across the object tree.** Any number of goroutines, each running any
sequence of API calls on the message or on composites at any depth, in any interleaving:
in every reachable state in which some goroutine has not finished, some goroutine can step. -/
theorem api_threads_deadlock_free (threads : List (List (String × String × Nat × Nat)))
    {s : LockOrder.State} (hr : LockOrder.Reachable (threads.map progOf) s) (hu : LockOrder.Unfinished s) :
    ∃ s', LockOrder.Step s s' := by
  apply ordered_deadlock_free id (threads.map progOf) _ hr hu
  intro p hp
  obtain ⟨ops, _, rfl⟩ := List.mem_map.mp hp
  exact progOf_disciplined ops

/-! ### non-vacuity -/

-- Message.Pack with children expanded two levels deep takes three mutexes in rank order
example : (nested C13.facts 3 0 "Message" "Pack").filter (fun i => i != .other) =
    [.acq 0, .acq 1, .acq 2, .rel 2, .acq 2, .rel 2, .rel 1, .rel 0] := by decide +kernel
-- a program that takes the child's mutex first and the parent's second is refused by the discipline …
example : disc id [] [.acq 1, .acq 0, .rel 0, .rel 1] = false := by decide
-- … and two such threads do deadlock in the semantics: both hold one mutex and wait for the other
example : ∀ th ∈ ([⟨[.acq 1, .rel 1, .rel 0], [0]⟩, ⟨[.acq 0, .rel 0, .rel 1], [1]⟩] : LockOrder.State),
    enabledHead [⟨[.acq 1, .rel 1, .rel 0], [0]⟩, ⟨[.acq 0, .rel 0, .rel 1], [1]⟩] th = false := by decide

end Iso8583.C13Locks
