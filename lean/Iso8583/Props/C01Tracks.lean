/-
Track fields (field.Track1 / Track2 / Track3) — the theorems that C01 (round trip), C02
(accepted bytes re-pack; known finding KF3) and C10 (Unpack independent of prior state)
need about the track field family of Model/Track.lean. Helper lemmas live in
Lemmas/Track.lean and Lemmas/TrackRegex.lean.

All statements quantify over every track spec, value, old object state and byte string.
-/
import Iso8583.Lemmas.Track
import Iso8583.Lemmas.TrackWire
import Iso8583.Lemmas.TrackRegex
import Iso8583.Gen.TrackConsts

namespace Iso8583.C01Tracks
open Iso8583 Track TrackLemmas TrackRegex

/-! ## The regenerated literals -/

/-- The model's splitters, format functions and date model were written against exactly
these literals of field/track1.go, track2.go, track3.go (regenerated on every run). -/
theorem trackRegexes_as_expected :
    Gen.track1Regex = "^([A-Z]{1})([0-9]{1,19})\\^([^\\^]{2,26})\\^([0-9]{4}|\\^)([0-9]{3}|\\^)([^\\?]+)$" ∧
    Gen.track2Regex = "^([0-9]{1,19})(=|D)([0-9]{4})([0-9]{3})([^?]+)$" ∧
    Gen.track3Regex = "^([0-9]{2})([0-9]{1,19})\\=([^\\?]+)$" ∧
    Gen.track1Format = "%s%s^%s^%s%s%s" ∧ Gen.track2Format = "%s%s%s%s%s" ∧ Gen.track3Format = "%s%s=%s" ∧
    Gen.track1NameFormat = "%-26.26s" ∧ Gen.expiryDateFormat = "0601" ∧ Gen.defaultSeparator = "=" := by
  decide

/-- **The hand-written splitters are the three regular expressions.** The syntax trees
`track1Pattern`, … print to exactly the regenerated literals; under the regex semantics of
Lemmas/TrackRegex.lean (code points as `utf8.DecodeRune` cuts them, classes, `{m,n}`, `+`,
alternation of two alternatives, capture groups, anchors) a text matches with capture
groups `caps` iff the model's splitter returns `caps`. Matches are unique
(`track1_match_unique`, …), so `regexp`'s preference rules play no role. -/
theorem track_parsers_are_the_patterns :
    (track1Pattern.print = Gen.track1Regex ∧ track2Pattern.print = Gen.track2Regex ∧
      track3Pattern.print = Gen.track3Regex) ∧
    (∀ raw fc pan name E C dd, MatchesText track1Pattern raw [fc, pan, name, E, C, dd] ↔
      Track1.groups raw = some (fc, pan, name, E, C, dd)) ∧
    (∀ raw pan sep exp sc dd, MatchesText track2Pattern raw [pan, sep, exp, sc, dd] ↔
      Track2.groups raw = some (pan, sep, exp, sc, dd)) ∧
    (∀ raw fc pan dd, MatchesText track3Pattern raw [fc, pan, dd] ↔ Track3.groups raw = some (fc, pan, dd)) :=
  ⟨patterns_print_as_source, track1_pattern_iff, track2_pattern_iff, track3_pattern_iff⟩

/-- a text the pattern matches at all is matched with the groups the splitter returns
(no other number or choice of groups is possible) -/
theorem track_pattern_match_is_splitter (raw : Bytes) (caps : List Bytes) :
    (MatchesText track1Pattern raw caps → ∃ fc pan name E C dd, caps = [fc, pan, name, E, C, dd] ∧
      Track1.groups raw = some (fc, pan, name, E, C, dd)) ∧
    (MatchesText track2Pattern raw caps → ∃ pan sep exp sc dd, caps = [pan, sep, exp, sc, dd] ∧
      Track2.groups raw = some (pan, sep, exp, sc, dd)) ∧
    (MatchesText track3Pattern raw caps → ∃ fc pan dd, caps = [fc, pan, dd] ∧
      Track3.groups raw = some (fc, pan, dd)) :=
  ⟨track1_matches_groups raw caps, track2_matches_groups raw caps, track3_matches_groups raw caps⟩

/-! ## C01 — Pack then Unpack -/

/-- **Round trip.** For every track spec and every in-domain value on which Pack
succeeds: Unpack of the produced bytes followed by any tail, into an object of the same
kind whose FixedLength option is off (in particular a fresh one), succeeds, consumes
exactly the produced bytes, leaves the value with the Track2 separator defaulted, and
packing the unpacked object gives the identical bytes. `hwire` is the wire-layer round
trip of the text (the String-primitive instance of C01's field theorem). -/
theorem track_roundtrip (s : TrackSpec) (v old : TrackVal) (bs tail : Bytes)
    (hdom : s.inDomain v = true) (hk : old.kind = s.kind) (hfl : old.fixedLength = false)
    (hpack : s.pack v = .ok bs) (hwire : WireRoundTrip s v.packText bs)
    (htail : s.pref = .none → tail = []) :
    s.unpack old (bs ++ tail) = (v.canon, .ok bs.length) ∧ s.pack v.canon = .ok bs :=
  ⟨unpack_pack s v old bs tail hdom hk hfl hwire htail, by rw [pack_canon, hpack]⟩

/-- the same for a fresh object -/
theorem track_roundtrip_fresh (s : TrackSpec) (v : TrackVal) (bs tail : Bytes)
    (hdom : s.inDomain v = true) (hpack : s.pack v = .ok bs) (hwire : WireRoundTrip s v.packText bs)
    (htail : s.pref = .none → tail = []) :
    s.unpack s.fresh (bs ++ tail) = (v.canon, .ok bs.length) ∧ s.pack v.canon = .ok bs :=
  track_roundtrip s v s.fresh bs tail hdom (TrackSpec.fresh_kind s) (TrackSpec.fresh_fixedLength s) hpack hwire htail

/-- **Round trip, full strength**: for every coherent track spec (any encoder, exported
prefixer, padding, default or Track2 packer — `TrackSpec.coherent` is `PrimSpec.coherent`
of Spec/Coherent.lean), every in-domain value on which Pack succeeds, every object of the
same kind with the FixedLength option off, and every tail: Unpack of `packed ++ tail`
succeeds, reads exactly `|packed|`, stores the value with the Track2 separator
defaulted, and packing the result returns the identical bytes. No further hypothesis:
the wire layer comes from Lemmas/Prim.lean (`wire_of_coherent`). -/
theorem track_roundtrip_coherent (s : TrackSpec) (v old : TrackVal) (bs tail : Bytes)
    (hco : s.coherent = true) (hdom : s.inDomain v = true)
    (hk : old.kind = s.kind) (hfl : old.fixedLength = false) (hpack : s.pack v = .ok bs)
    (htail : s.pref = .none → tail = []) :
    s.unpack old (bs ++ tail) = (v.canon, .ok bs.length) ∧ s.pack v.canon = .ok bs :=
  track_roundtrip s v old bs tail hdom hk hfl hpack (wire_of_coherent s v bs hco hdom hpack) htail

/-- **Round trip without a wire-layer hypothesis** for the coherent specs with a text
encoder (ASCII, EBCDIC, EBCDIC-1047, Binary, BytesToASCIIHex), any exported prefixer
(Fixed, L…LLLLLL of every family, BER-TLV), the default packer and no padding: the wire
layer follows from C06 and C07. -/
theorem track_roundtrip_plain (s : TrackSpec) (v old : TrackVal) (bs tail : Bytes)
    (hco : s.coherent = true) (hdom : s.inDomain v = true)
    (hpk : s.packer = .default) (hpad : s.pad = .nil ∨ s.pad = .none) (he : TextEnc s.enc)
    (hk : old.kind = s.kind) (hfl : old.fixedLength = false) (hpack : s.pack v = .ok bs) :
    s.unpack old (bs ++ tail) = (v.canon, .ok bs.length) ∧ s.pack v.canon = .ok bs :=
  track_roundtrip s v old bs tail hdom hk hfl hpack (wire_plain_of_coherent s v bs hco hdom hpk hpad he hpack)
    (fun h => absurd h (coherent_pref s hco he).2.2)

/-! ## C10 — Unpack does not depend on what the object held before -/

/-- The property for a track field unpacked on its own: whenever Unpack succeeds, the
object afterwards and the bytes read are the same whatever components the object held
(`SameConfig`: same kind, same FixedLength option, which is configuration rather than a
parsed component). It was false before fix c30286b (a zero-length value kept the old
components; witness: Track2 ASCII LL holding PAN "1", unpacked from "00"). -/
def TrackUnpackForgetsStatement : Prop :=
  ∀ (s : TrackSpec) (old old' : TrackVal) (data : Bytes) (n : Nat), SameConfig old old' →
    (s.unpack old data).2 = .ok n → s.unpack old' data = s.unpack old data

/-- **The full C10 statement** for a track field unpacked on its own. -/
theorem track_unpack_forgets : TrackUnpackForgetsStatement := by
  intro s old old' data n hc hok
  simp only [TrackSpec.unpack] at hok ⊢
  cases hu : s.prim.unpackBytes data with
  | err => simp [hu] at hok
  | panic => simp [hu] at hok
  | ok rr =>
    obtain ⟨raw, read⟩ := rr
    simp only [hu] at hok ⊢
    by_cases hr : raw.isEmpty = true
    · simp only [hr, if_true]
      obtain ⟨hk, hf⟩ := hc
      cases old <;> cases old' <;> simp_all [TrackVal.cleared, TrackVal.kind, TrackVal.fixedLength]
    · simp only [hr] at hok ⊢
      cases hr2 : old.unpackRaw raw with
      | mk new okb =>
        cases okb with
        | false => simp [hr2] at hok
        | true =>
          have := TrackVal.unpackRaw_forgets old old' raw hc (by rw [hr2])
          simp [this, hr2]

/-- the former witness now behaves: the object that held PAN "1" and a fresh one agree
after unpacking the zero-length value "00" -/
example :
    let s : TrackSpec := { kind := .t2, len := 37, enc := .ascii, pref := .var .ascii 2, pad := .nil }
    s.unpack (.t2 { pan := [49] }) [48, 48] = (.t2 {}, .ok 2) := by decide

/-- every parsed component is overwritten or cleared: after a successful parse the
object equals what a blank object of the same configuration would hold -/
theorem track_parse_overwrites (old blank : TrackVal) (raw : Bytes) (hc : SameConfig old blank)
    (h : (old.unpackRaw raw).2 = true) : (old.unpackRaw raw).1 = (blank.unpackRaw raw).1 := by
  rw [TrackVal.unpackRaw_forgets old blank raw hc h]

/-- the FixedLength option of a Track1 object is never touched by Unpack -/
theorem track_unpack_keeps_fixedLength (s : TrackSpec) (old : TrackVal) (data : Bytes) :
    (s.unpack old data).1.fixedLength = old.fixedLength := by
  simp only [TrackSpec.unpack]
  cases hu : s.prim.unpackBytes data with
  | err => rfl
  | panic => rfl
  | ok rr =>
    obtain ⟨raw, read⟩ := rr
    have h1 := TrackVal.unpackRaw_fixedLength old raw
    simp only
    split
    · cases old <;> rfl
    · cases hr : old.unpackRaw raw with
      | mk new b => rw [hr] at h1; cases b <;> simpa using h1

/-! ## C02 — accepted bytes re-pack (known finding KF3) -/

/-- The text-level statement: whatever the parser accepts, re-packs to a text that the
parser accepts again with the same result. **False** (KF3): see `track_kf3_witness`. -/
def TrackRepackStatement : Prop :=
  ∀ (old v : TrackVal) (raw : Bytes), old.fixedLength = false → old.unpackRaw raw = (v, true) →
    old.unpackRaw v.packText = (v, true)

/-- **Partial**: if no captured group is changed by `strings.TrimSpace` or skipped as a
placeholder (`Untrimmed`: discretionary data and Track1 name trimmed; Track1 data ≠ "^",
Track3 data ≠ "="), the re-packed text is the accepted text itself, so it is accepted
again with the same result and re-encoding is a fixed point. -/
theorem track_repack_partial (old v : TrackVal) (raw : Bytes) (hfl : old.fixedLength = false)
    (hu : Untrimmed old.kind raw) (h : old.unpackRaw raw = (v, true)) :
    v.packText = raw ∧ old.unpackRaw v.packText = (v, true) := by
  have := TrackVal.repack_untrimmed old v raw hu hfl h
  exact ⟨this, by rw [this, h]⟩

/-- **Partial, KF3 excluded precisely** (`NoGroupLost`: after `strings.TrimSpace` the
discretionary data is not blank and not the skipped placeholder — "^" for Track1, "=" for
Track3 — and the Track1 name still has two code points): what the parser stored lies in
the value domain of DESIGN §2.3, re-packs to a text that the parser accepts again with
the same result, and re-encoding is a fixed point from then on. Trimmed-but-not-blank
groups are covered. For Track1 the clause `utf8Count (trimSpace name) ≤ 26` is part of
`NoGroupLost`: it always holds (trimming removes whole code points) but that is not
proved — the one thing missing for the statement with exactly the KF3 exclusions. -/
theorem track_repack_trimmed_partial (old v : TrackVal) (raw : Bytes) (hfl : old.fixedLength = false)
    (hn : NoGroupLost old.kind raw) (h : old.unpackRaw raw = (v, true)) :
    v.inDomainComponents = true ∧ old.unpackRaw v.packText = (v, true) ∧
    (∀ v', old.unpackRaw v.packText = (v', true) → v'.packText = v.packText) := by
  obtain ⟨hd, hr⟩ := TrackVal.repack_trimmed old v raw hn hfl h
  refine ⟨hd, hr, ?_⟩
  intro v' hv'
  rw [hr] at hv'
  simp only [Prod.mk.injEq, and_true] at hv'
  rw [hv']

/-- **KF3 witnesses** (field level, ASCII LL / LLL prefixes), each accepted by Unpack into
a fresh object, re-packed without error, and the re-packed bytes rejected:
Track2 discretionary data " "; Track1 name "  "; Track3 data " "; Track2 zero-length value. -/
theorem track_kf3_witness :
    let s2 : TrackSpec := { kind := .t2, len := 37, enc := .ascii, pref := .var .ascii 2, pad := .nil }
    let s1 : TrackSpec := { kind := .t1, len := 76, enc := .ascii, pref := .var .ascii 2, pad := .nil }
    let s3 : TrackSpec := { kind := .t3, len := 104, enc := .ascii, pref := .var .ascii 3, pad := .nil }
    -- "13" "4242=2408201 "
    (∃ v bs, s2.unpack s2.fresh [49,51, 52,50,52,50,61,50,52,48,56,50,48,49,32] = (v, .ok 15) ∧
        s2.pack v = .ok bs ∧ (s2.unpack s2.fresh bs).2 = .err) ∧
    -- "17" "B4242^  ^2408201X"
    (∃ v bs, s1.unpack s1.fresh [49,55, 66,52,50,52,50,94,32,32,94,50,52,48,56,50,48,49,88] = (v, .ok 19) ∧
        s1.pack v = .ok bs ∧ (s1.unpack s1.fresh bs).2 = .err) ∧
    -- "006" "0142= "
    (∃ v bs, s3.unpack s3.fresh [48,48,54, 48,49,52,50,61,32] = (v, .ok 9) ∧
        s3.pack v = .ok bs ∧ (s3.unpack s3.fresh bs).2 = .err) ∧
    -- "00": re-packed as "03=^^"
    (s2.unpack s2.fresh [48,48] = (s2.fresh, .ok 2) ∧ s2.pack s2.fresh = .ok [48,51,61,94,94] ∧
        (s2.unpack s2.fresh [48,51,61,94,94]).2 = .err) := by
  refine ⟨⟨.t2 { pan := [52,50,52,50], sep := [61], expiry := some ⟨2024, 8⟩, serviceCode := [50,48,49], data := [] },
      [49,50, 52,50,52,50,61,50,52,48,56,50,48,49], by decide, by decide, by decide⟩,
    ⟨.t1 { formatCode := [66], pan := [52,50,52,50], name := [], expiry := some ⟨2024, 8⟩, serviceCode := [50,48,49], data := [88] },
      [49,53, 66,52,50,52,50,94,94,50,52,48,56,50,48,49,88], by decide, by decide, by decide⟩,
    ⟨.t3 { formatCode := [48,49], pan := [52,50], data := [] }, [48,48,53, 48,49,52,50,61], by decide, by decide, by decide⟩,
    by decide, by decide, by decide⟩

theorem track_repack_witness : ¬ TrackRepackStatement := by
  intro h
  have := h (.t2 {}) (.t2 { pan := [52,50,52,50], sep := [61], expiry := some ⟨2024, 8⟩, serviceCode := [50,48,49], data := [] })
    [52,50,52,50,61,50,52,48,56,50,48,49,32] rfl (by decide)
  revert this
  decide

/-! ## No panic on arbitrary bytes -/

/-- Unpack of a track field never panics: any spec (coherent or not), any prior object
state, any bytes. (`regexp`, `strings.TrimSpace` and `time.Parse` are total; the wire
layer is covered by C06 `dec_range` and the encoders' totality.) -/
theorem track_unpack_no_panic (s : TrackSpec) (old : TrackVal) (data : Bytes) :
    (s.unpack old data).2 ≠ .panic := by
  simp only [TrackSpec.unpack]
  split
  · simp
  · rename_i h; exact absurd h (unpackBytes_ne_panic _ _)
  · split
    · simp
    · split <;> simp

/-- … and it never changes the kind of the object -/
theorem track_unpack_kind (s : TrackSpec) (old : TrackVal) (data : Bytes) :
    (s.unpack old data).1.kind = old.kind := by
  simp only [TrackSpec.unpack]
  cases hu : s.prim.unpackBytes data with
  | err => rfl
  | panic => rfl
  | ok rr =>
    obtain ⟨raw, read⟩ := rr
    have h1 := TrackVal.unpackRaw_kind old raw
    simp only
    split
    · cases old <;> rfl
    · cases hr : old.unpackRaw raw with
      | mk new b => rw [hr] at h1; cases b <;> simpa using h1

/-! ## Non-vacuity: the hypotheses are satisfiable on concrete data -/

/-- Track2, ASCII, LL (the spec of the library's tests): 4242424242424242=2408 201 123 -/
def demoSpec2 : TrackSpec := { kind := .t2, len := 37, enc := .ascii, pref := .var .ascii 2, pad := .nil }
def demoVal2 : TrackVal :=
  .t2 { pan := [52,50,52,50,52,50,52,50,52,50,52,50,52,50,52,50], sep := [], expiry := some ⟨2024, 8⟩,
        serviceCode := [50,48,49], data := [49,50,51] }

/-- Track1, EBCDIC, BER-TLV prefix: B4242^SMITH/JOHN Q^6912^X Y (no service code) -/
def demoSpec1 : TrackSpec := { kind := .t1, len := 76, enc := .ebcdic, pref := .berTLV, pad := .none }
def demoVal1 : TrackVal :=
  .t1 { formatCode := [66], pan := [52,50,52,50], name := [83,77,73,84,72,47,74,79,72,78,32,81],
        expiry := some ⟨1969, 12⟩, serviceCode := [], data := [88,32,89] }

/-- Track3, BytesToASCIIHex, Binary.L: 01 4242 = é (non-ASCII data) -/
def demoSpec3 : TrackSpec := { kind := .t3, len := 104, enc := .bytesToHex, pref := .var .binary 1, pad := .nil }
def demoVal3 : TrackVal := .t3 { formatCode := [48,49], pan := [52,50,52,50], data := [0xC3, 0xA9] }

example : demoSpec2.coherent = true ∧ demoSpec1.coherent = true ∧ demoSpec3.coherent = true := by decide
example : demoSpec2.inDomain demoVal2 = true := by decide
example : demoSpec1.inDomain demoVal1 = true := by decide
example : demoSpec3.inDomain demoVal3 = true := by decide
example : (demoSpec2.pack demoVal2).isOk = true ∧ (demoSpec1.pack demoVal1).isOk = true ∧
    (demoSpec3.pack demoVal3).isOk = true := by decide

/-- `track_roundtrip_plain` applies to the three demo instances (with any tail) -/
example (tail : Bytes) : ∃ bs, demoSpec2.pack demoVal2 = .ok bs ∧
    demoSpec2.unpack demoSpec2.fresh (bs ++ tail) = (demoVal2.canon, .ok bs.length) := by
  cases h : demoSpec2.pack demoVal2 with
  | ok bs =>
    exact ⟨bs, rfl, (track_roundtrip_plain demoSpec2 demoVal2 demoSpec2.fresh bs tail (by decide) (by decide) rfl
      (Or.inl rfl) (Or.inl rfl) rfl rfl h).1⟩
  | err => exact absurd h (by decide)
  | panic => exact absurd h (by decide)

example (tail : Bytes) : ∃ bs, demoSpec1.pack demoVal1 = .ok bs ∧
    demoSpec1.unpack demoSpec1.fresh (bs ++ tail) = (demoVal1.canon, .ok bs.length) := by
  cases h : demoSpec1.pack demoVal1 with
  | ok bs =>
    exact ⟨bs, rfl, (track_roundtrip_plain demoSpec1 demoVal1 demoSpec1.fresh bs tail (by decide) (by decide) rfl
      (Or.inr rfl) (Or.inr (Or.inl rfl)) rfl rfl h).1⟩
  | err => exact absurd h (by decide)
  | panic => exact absurd h (by decide)

/-- Track2 with the custom packer of field/packer_unpacker_test.go (ASCII, LL, left pad '0'),
odd text length: `track_roundtrip_coherent` applies -/
def demoSpecT2 : TrackSpec :=
  { kind := .t2, len := 37, enc := .ascii, pref := .var .ascii 2, pad := .left 48, packer := .track2 }
def demoValT2 : TrackVal :=
  .t2 { pan := [52,52,52,52,52,52,52,52,52,52,52,52,52,52,52,52], sep := [68], expiry := some ⟨2031, 12⟩,
        serviceCode := [50,48,49], data := [49,52,55] }

example : demoSpecT2.coherent = true ∧ demoSpecT2.inDomain demoValT2 = true := by decide

example (tail : Bytes) : ∃ bs, demoSpecT2.pack demoValT2 = .ok bs ∧ bs.length = 30 ∧
    demoSpecT2.unpack demoSpecT2.fresh (bs ++ tail) = (demoValT2.canon, .ok bs.length) := by
  cases h : demoSpecT2.pack demoValT2 with
  | ok bs =>
    have hl : bs.length = 30 := by
      have : demoSpecT2.pack demoValT2 = .ok [50,55, 48, 52,52,52,52,52,52,52,52,52,52,52,52,52,52,52,52, 68,
        51,49,49,50, 50,48,49, 49,52,55] := by decide
      rw [this] at h; simp only [Res.ok.injEq] at h; rw [← h]; rfl
    exact ⟨bs, rfl, hl, (track_roundtrip_coherent demoSpecT2 demoValT2 demoSpecT2.fresh bs tail (by decide) (by decide)
      rfl rfl h (by intro h'; cases h')).1⟩
  | err => exact absurd h (by decide)
  | panic => exact absurd h (by decide)

/-- the separator really is defaulted: the canonical form differs from the value -/
example : demoVal2.canon ≠ demoVal2 := by decide

/-- `track_unpack_forgets_partial`: a used object and a fresh one, non-empty value -/
example : (demoSpec2.unpack demoVal2 [49,51, 52,50,52,50,61,50,52,48,56,50,48,49,88]).2 = .ok 15 ∧
    demoSpec2.unpack demoSpec2.fresh [49,51, 52,50,52,50,61,50,52,48,56,50,48,49,88] =
      demoSpec2.unpack demoVal2 [49,51, 52,50,52,50,61,50,52,48,56,50,48,49,88] := by decide

/-- `track_repack_trimmed_partial`: an accepted Track1 text with blanks around name and data -/
example : NoGroupLost TrackKind.t1 [66,52,50,94,32,65,66,32,94,94,94,32,88,32] :=
  ⟨[66], [52,50], [32,65,66,32], [94], [94], [32,88,32], by rfl, by decide, by decide, by decide, by decide⟩

/-- `track_repack_partial`: an accepted text with nothing to trim -/
example : Untrimmed TrackKind.t2 [52,50,52,50,61,50,52,48,56,50,48,49,88] :=
  ⟨[52,50,52,50], [61], [50,52,48,56], [50,48,49], [88], by decide, by decide⟩

end Iso8583.C01Tracks
