/-
C10 — The result of Unpack depends only on the spec and the input bytes, not on what the
message (or composite) object went through before.

In the object model (Model/Object.lean, mirror of /repo/message.go and
/repo/field/composite.go after the `fix:` commits) `Message.Unpack` starts by re-creating
every field object, the presence map and the bitmap, and `Composite.unpack` starts by
re-creating the subfield objects and the set-subfield map: the state after Unpack is a
function of (spec, bytes) — whether Unpack succeeds or not. The theorems say so for the
whole state (hence for every observation: present ids, values recursively, re-packed
bytes, JSON — and for everything any later operation can observe), over all histories.
That the real code behaves like the model is the business of channel H (histories that
populate a message and then unpack an input with fewer fields / subfields).

Track fields: the model has no Track1/2/3 kinds (`Kind` = String, Numeric, Binary, Hex);
for them the property is checked on the implementation by the C10 oracle only.
-/
import Iso8583.Props.C14

namespace Iso8583.C10
open Iso8583

/-- Unpack never consults the object it is called on: same result and same resulting
state from any two message objects. -/
theorem unpack_forgets_state (spec : MsgSpec) (o₁ o₂ : MsgObj) (b : Bytes) :
    o₁.step spec (.unpack b) = o₂.step spec (.unpack b) := rfl

/-- **Unpack forgets the history** (full strength, success or failure): after any sequence
of operations, Unpack of `b` returns what it returns on a new message and leaves the
message in the state it leaves a new message in. -/
theorem unpack_forgets_history (spec : MsgSpec) (h : List Op) (b : Bytes) :
    (MsgObj.run spec spec.newMsg h).step spec (.unpack b) = spec.newMsg.step spec (.unpack b) := rfl

/-- … hence every observation agrees: present ids, values (recursively), re-packed bytes, JSON -/
theorem unpack_obs_independent (spec : MsgSpec) (h : List Op) (b : Bytes) :
    ((MsgObj.run spec spec.newMsg h).step spec (.unpack b)).1.obs spec =
      (spec.newMsg.step spec (.unpack b)).1.obs spec := rfl

/-- … and so does everything any later history can observe -/
theorem unpack_future_independent (spec : MsgSpec) (h later : List Op) (b : Bytes) :
    MsgObj.run spec (MsgObj.run spec spec.newMsg h) (.unpack b :: later) =
      MsgObj.run spec spec.newMsg (.unpack b :: later) := rfl

/-- What the state *is* after a successful Unpack: exactly the decoded content — the MTI,
the bitmap field, and the data elements found in `b` with their values (nested subfields:
those found in `b`, nothing else) — and no stale value anywhere in the object. -/
theorem unpack_state_is_content (spec : MsgSpec) (hs : spec.tagsOK = true) (o : MsgObj) (b : Bytes)
    (m : Msg) (n : Nat) (hu : spec.unpack b = .ok (m, n)) :
    (o.step spec (.unpack b)).1.abs spec = absOfMsg spec m ∧ (o.step spec (.unpack b)).1.Clean spec := by
  simp only [MsgObj.step, MsgSpec.unpackObj, hu]
  exact C14.unpack_refines spec hs m _

/-- A field object unpacked on its own: after a successful `Unpack(data)` the object is the
one built from the decoded value, whatever it held before (primitive, or composite with
any subfields set). -/
theorem field_unpack_forgets (f : Field) (o : FieldObj) (data : Bytes) (v : Value) (n : Nat)
    (hu : f.unpack data = .ok (v, n)) : f.unpackInto o data = f.ofValue v := by
  cases f with
  | prim s =>
    simp only [Field.unpack] at hu
    cases hs : s.unpack data with
    | ok r =>
      simp only [hs, UR.ok.injEq] at hu
      subst hu
      simp [Field.unpackInto, hs, Field.ofValue]
    | err => simp [hs] at hu
    | panic => simp [hs] at hu
  | comp s subs => simp [Field.unpackInto, hu]

theorem field_unpack_independent (f : Field) (o₁ o₂ : FieldObj) (data : Bytes) (v : Value) (n : Nat)
    (hu : f.unpack data = .ok (v, n)) : f.unpackInto o₁ data = f.unpackInto o₂ data := by
  rw [field_unpack_forgets f o₁ data v n hu, field_unpack_forgets f o₂ data v n hu]

/-- `Composite.SetBytes` (= unpack of the body): the resulting object and the error status
do not depend on the composite's earlier state — success or failure. -/
theorem composite_setBytes_independent (s : CompSpec) (subs : List (Tag × Field)) (o₁ o₂ : FieldObj)
    (b : Bytes) : (Field.comp s subs).setBytesInto o₁ b = (Field.comp s subs).setBytesInto o₂ b := rfl

/-- the same inside a message: writing a composite field by bytes leaves that field's
object independent of everything that happened to the message before -/
theorem message_setComposite_independent (spec : MsgSpec) (id : Nat) (s : CompSpec)
    (subs : List (Tag × Field)) (hf : spec.fieldOf id = some (.comp s subs)) (o₁ o₂ : MsgObj) (b : Bytes) :
    (o₁.step spec (.setField id b)).1.get id (.comp s subs) =
      (o₂.step spec (.setField id b)).1.get id (.comp s subs) ∧
    (o₁.step spec (.setField id b)).2 = (o₂.step spec (.setField id b)).2 := by
  have h1 := fieldOf_ne_one hf
  simp only [MsgObj.step, MsgObj.setField, h1, if_false, hf, MsgObj.get, lookupId_setId, if_true,
    Option.getD_some]
  exact ⟨rfl, rfl⟩

/-! ### non-vacuity: a populated message re-used for an input with fewer fields / subfields -/
section Examples
open ObjDemo

example : spec.tagsOK = true := by decide
-- the input unpacks …
example : (match spec.unpack wire with | .ok _ => true | _ => false) = true := by decide
-- … the history leaves more behind than the input has (both subfields of 55, a longer field 2) …
example : ((MsgObj.run spec spec.newMsg populate).content spec [55]).fields.length = 1 ∧
    (MsgObj.run spec spec.newMsg populate).sortedIds = [0, 1, 2, 55] := by decide
-- … and after Unpack the message reports what a new message reports
example : (MsgObj.run spec spec.newMsg (populate ++ [.unpack wire])).sortedIds = [0, 1, 2, 55] ∧
    (MsgObj.run spec spec.newMsg [.unpack wire]).sortedIds = [0, 1, 2, 55] := by decide
-- a composite on its own: the body "0a02xy" decodes
example : (match Field.unpackBody compSpec compSubs [48,97,48,50,120,121] false with
    | .ok _ => true | _ => false) = true := by decide

end Examples

end Iso8583.C10
