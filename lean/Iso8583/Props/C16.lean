/-
C16 — Network length headers frame exactly and reject unrepresentable lengths.

For each header type (2-byte binary, 4-character ASCII, 2-byte BCD, Visa 4-byte), for
ALL lengths (Go ints, modelled as `Int`) and ALL fragmentations of the input stream
(`List Bytes`, no bound on the number or size of chunks):

* `write_width_format`            a representable length is written as exactly the fixed
                                  width, in the documented format;
* `read_write`                    `ReadFrom` over every chunking of `written ++ tail` takes
                                  exactly the header from the reader and recovers the length;
* `unrepresentable_refused`       negative / too large ⇒ `SetLength` or `WriteTo` errs;
  `write_ok_only_representable`   (so whatever is written is never wider, truncated or wrapped);
* `read_never_negative_no_panic`  arbitrary bytes, arbitrary chunking: ok with a length ≥ 0
                                  (and the header width consumed) or an error; never a panic;
* `short_stream_fails`            fewer bytes than the header in the stream ⇒ error.

Property theorems and their local helper lemmas; the model is Model/Network.lean.
-/
import Iso8583.Model.Network
import Iso8583.Lemmas.Prefix
import Iso8583.Props.C07

namespace Iso8583.C16
open Iso8583 Net

/-! ### the statement's vocabulary -/

/-- largest length each header can carry -/
def maxLen : Hdr → Nat
  | .binary2 => 65535
  | .ascii4 => 9999
  | .bcd2 => 9999
  | .vmlh => 2048

/-- the lengths a header can represent -/
def Representable (h : Hdr) (n : Int) : Prop := 0 ≤ n ∧ n ≤ (maxLen h : Int)

instance (h : Hdr) (n : Int) : Decidable (Representable h n) := by
  unfold Representable; infer_instance

/-- The documented wire format, written without reference to the model: big-endian
`uint16`; four ASCII decimal digits, zero padded; four packed BCD digits (two per byte,
high nibble first); big-endian `uint16` followed by two zero bytes. -/
def format : Hdr → Nat → Bytes
  | .binary2, n => [UInt8.ofNat (n / 256), UInt8.ofNat (n % 256)]
  | .ascii4, n =>
    [asciiDigit (n / 1000 % 10), asciiDigit (n / 100 % 10), asciiDigit (n / 10 % 10), asciiDigit (n % 10)]
  | .bcd2, n =>
    [UInt8.ofNat (n / 1000 % 10 * 16 + n / 100 % 10), UInt8.ofNat (n / 10 % 10 * 16 + n % 10)]
  | .vmlh, n => [UInt8.ofNat (n / 256), UInt8.ofNat (n % 256), 0, 0]

/-- The constants regenerated from the Go source on every run are the documented ones. -/
theorem consts_as_documented :
    Gen.maxASCII4BytesLength = 9999 ∧ Gen.maxBCD2BytesLength = 9999 ∧
    Gen.vmlMaxMessageLength = 2048 ∧ Gen.vmlSessionControlIndicator = 50 := by decide

/-! ### io.ReadFull over a fragmented reader -/

/-- However the stream is cut into chunks, `io.ReadFull` obtains the first `n` bytes of
the concatenation (fewer iff the stream is shorter) and leaves exactly the rest in the
reader. -/
theorem readFull_spec (cs : List Bytes) (n : Nat) :
    (readFull cs n).1 = cs.flatten.take n ∧ (readFull cs n).2.flatten = cs.flatten.drop n := by
  induction cs generalizing n with
  | nil => simp [readFull]
  | cons c cs ih =>
    simp only [readFull]
    split
    · subst_vars; simp
    · split
      · rename_i hle
        obtain ⟨h1, h2⟩ := ih (n - c.length)
        simp only [h1, h2, List.flatten_cons, List.take_append, List.drop_append,
          List.take_of_length_le hle, List.drop_of_length_le hle, List.nil_append, and_self]
      · rename_i hgt
        have e : n - c.length = 0 := by omega
        simp [List.take_append, List.drop_append, e]

theorem readFull_got (cs : List Bytes) (n : Nat) : (readFull cs n).1 = cs.flatten.take n :=
  (readFull_spec cs n).1

/-- when the stream starts with `w`, `io.ReadFull` of `|w|` bytes obtains `w` -/
theorem readFull_prefix (cs : List Bytes) (w tail : Bytes) (h : cs.flatten = w ++ tail) :
    (readFull cs w.length).1 = w := by
  rw [readFull_got, h, List.take_left']; rfl

/-! ### helper lemmas -/

theorem mapM?_decVal_of_digits : ∀ (ds : Bytes), (∀ c ∈ ds, isDigit c) →
    mapM? decVal? ds = some (ds.map (fun c => c.toNat - 48))
  | [], _ => rfl
  | c :: rest, h => by
    have h1 := decVal_of_digit (h c (by simp))
    have h2 := mapM?_decVal_of_digits rest (fun x hx => h x (by simp [hx]))
    simp [mapM?, h1, h2]

/-- `strconv.Atoi` of a non-empty all-digit string is a natural number -/
theorem atoi_of_digits (ds : Bytes) (hne : ds ≠ []) (hd : ∀ c ∈ ds, isDigit c) :
    ∃ k : Nat, atoi? ds = some (k : Int) := by
  have hm := mapM?_decVal_of_digits ds hd
  cases ds with
  | nil => exact absurd rfl hne
  | cons c rest =>
    have hc : isDigit c := hd c (by simp)
    have h43 : c ≠ 43 := by intro h; subst h; exact absurd hc (by decide)
    have h45 : c ≠ 45 := by intro h; subst h; exact absurd hc (by decide)
    exact ⟨ofDigits 10 ((c :: rest).map (fun c => c.toNat - 48)),
      by simp only [atoi?, h43, h45, ite_false, hm, Option.map_some]⟩

theorem bcd_decode_ne_panic (d : Bytes) (n : Nat) : Enc.decode .bcd d (n : Int) ≠ .panic := by
  simp only [Enc.decode_natCast, Enc.decodeNat]
  split
  · simp
  · split <;> simp

theorem format_length (h : Hdr) (k : Nat) : (format h k).length = size h := by
  cases h <;> rfl

theorem format_ascii4 (k : Nat) : format .ascii4 k = Pref.decString 4 k := by
  simp only [format, Pref.decString, fixedDec, List.nil_append, List.cons_append, List.map_cons,
    List.map_nil, Nat.div_div_eq_div_mul]

theorem fmt04d_lt (k : Nat) (hk : k ≤ 9999) : fmt04d k = Pref.decString 4 k := by
  have : k < 10000 := by omega
  simp [fmt04d, this]

theorem encode_bcd_decString4 (k : Nat) :
    Enc.encode .bcd (Pref.decString 4 k) = .ok (format .bcd2 k) := by
  rw [← format_ascii4]
  have h0 := decVal_asciiDigit (show k / 1000 % 10 ≤ 9 by omega)
  have h1 := decVal_asciiDigit (show k / 100 % 10 ≤ 9 by omega)
  have h2 := decVal_asciiDigit (show k / 10 % 10 ≤ 9 by omega)
  have h3 := decVal_asciiDigit (show k % 10 ≤ 9 by omega)
  simp [-UInt8.ofNat_add, -UInt8.ofNat_mul, format, Enc.encode, Enc.bcdPack, Enc.nib?, h0, h1, h2, h3,
    Res.ofOption]

theorem setLength16 (h : Hdr) (hh : h = .binary2 ∨ h = .vmlh) (k : Nat) (hk : k ≤ 65535) :
    setLength h (k : Int) = .ok (k : Int) := by
  have e1 : ¬ ((k : Int) < 0) := by omega
  have e2 : ¬ ((k : Int) > 65535) := by omega
  have e3 : wrap16 (k : Int) = (k : Int) := by unfold wrap16; omega
  rcases hh with rfl | rfl <;> simp [setLength, e1, e2, e3]

/-! ### WriteTo: exact width, documented format -/

/-- A representable length is accepted by `SetLength` and `WriteTo`, and what is written
is exactly the header's fixed size, in the documented format. -/
theorem write_width_format (h : Hdr) (n : Int) (hr : Representable h n) :
    write h n = .ok (format h n.toNat) ∧ (format h n.toNat).length = size h := by
  refine ⟨?_, format_length h _⟩
  obtain ⟨h0, hmax⟩ := hr
  obtain ⟨k, rfl⟩ := Int.eq_ofNat_of_zero_le h0
  obtain ⟨c1, c2, c3, _⟩ := consts_as_documented
  simp only [Int.toNat_natCast]
  cases h with
  | binary2 =>
    simp only [maxLen] at hmax
    have hk : k ≤ 65535 := by omega
    simp only [write, setLength16 .binary2 (Or.inl rfl) k hk, writeTo, Int.toNat_natCast, be16Bytes, format]
    have : k / 256 % 256 = k / 256 := by omega
    rw [this]
  | ascii4 =>
    simp only [maxLen] at hmax
    have hk : k ≤ 9999 := by omega
    have e : ¬ ((k : Int) < 0 ∨ (k : Int) > (Gen.maxASCII4BytesLength : Int)) := by rw [c1]; omega
    simp only [write, setLength, writeTo, e, ite_false, Int.toNat_natCast, fmt04d_lt k hk, format_ascii4]
  | bcd2 =>
    simp only [maxLen] at hmax
    have hk : k ≤ 9999 := by omega
    have e : ¬ ((k : Int) < 0 ∨ (k : Int) > (Gen.maxBCD2BytesLength : Int)) := by rw [c2]; omega
    simp only [write, setLength, writeTo, e, ite_false, Int.toNat_natCast, fmt04d_lt k hk,
      encode_bcd_decString4]
  | vmlh =>
    simp only [maxLen] at hmax
    have hk : k ≤ 65535 := by omega
    have e : ¬ ((k : Int) > (Gen.vmlMaxMessageLength : Int)) := by rw [c3]; omega
    simp only [write, setLength16 .vmlh (Or.inr rfl) k hk, writeTo, e, ite_false, Int.toNat_natCast,
      be16Bytes, format, List.cons_append, List.nil_append]
    have : k / 256 % 256 = k / 256 := by omega
    rw [this]

/-! ### refusal of what can not be represented -/

/-- A negative or too large length is refused: `SetLength` or `WriteTo` returns an error
(and then nothing is written). -/
theorem unrepresentable_refused (h : Hdr) (n : Int) (hr : ¬ Representable h n) :
    write h n = .err := by
  obtain ⟨c1, c2, c3, _⟩ := consts_as_documented
  simp only [Representable] at hr
  cases h with
  | binary2 =>
    simp only [maxLen] at hr
    simp only [write, setLength]
    split <;> rename_i hs
    · split at hs
      · cases hs
      · split at hs
        · cases hs
        · omega
    · rfl
    · split at hs
      · cases hs
      · split at hs <;> cases hs
  | vmlh =>
    simp only [maxLen] at hr
    by_cases h1 : n < 0
    · simp [write, setLength, h1]
    · by_cases h2 : n > 65535
      · simp [write, setLength, h1, h2]
      · have e3 : wrap16 n = n := by unfold wrap16; omega
        have e4 : n > (Gen.vmlMaxMessageLength : Int) := by rw [c3]; omega
        simp [write, setLength, h1, h2, e3, writeTo, e4]
  | ascii4 =>
    simp only [maxLen] at hr
    have e : n < 0 ∨ n > (Gen.maxASCII4BytesLength : Int) := by rw [c1]; omega
    simp [write, setLength, writeTo, e]
  | bcd2 =>
    simp only [maxLen] at hr
    have e : n < 0 ∨ n > (Gen.maxBCD2BytesLength : Int) := by rw [c2]; omega
    simp [write, setLength, writeTo, e]

/-- Whatever `SetLength` + `WriteTo` write is the documented rendering of a representable
length at the fixed width — never a wider, truncated or wrapped header — and it never panics. -/
theorem write_ok_only_representable (h : Hdr) (n : Int) :
    (∀ w, write h n = .ok w → Representable h n ∧ w = format h n.toNat ∧ w.length = size h) ∧
    write h n ≠ .panic := by
  by_cases hr : Representable h n
  · obtain ⟨hw, hl⟩ := write_width_format h n hr
    refine ⟨fun w hok => ?_, by rw [hw]; simp⟩
    rw [hw] at hok
    simp only [Res.ok.injEq] at hok
    subst hok
    exact ⟨hr, rfl, hl⟩
  · have := unrepresentable_refused h n hr
    refine ⟨fun w hok => ?_, by rw [this]; simp⟩
    rw [this] at hok; cases hok

/-! ### ReadFrom after WriteTo, for every fragmentation -/

theorem binary2After_format (k : Nat) (hk : k ≤ 65535) :
    binary2After (format .binary2 k) = .ok ⟨(k : Int), 2, false⟩ := by
  have e1 : (UInt8.ofNat (k / 256)).toNat = k / 256 := ofNat_toNat_lt (by omega)
  have e2 : (UInt8.ofNat (k % 256)).toNat = k % 256 := ofNat_toNat_lt (by omega)
  simp only [binary2After, format, be16, e1, e2, List.length_cons, List.length_nil]
  have : k / 256 * 256 + k % 256 = k := by omega
  simp [this]

theorem ascii4After_format (k : Nat) (hk : k ≤ 9999) :
    ascii4After (format .ascii4 k) = .ok ⟨(k : Int), 4, false⟩ := by
  rw [format_ascii4]
  have ha := atoi_decString 4 k (by omega) (by omega)
  have e : ¬ ((k : Int) < 0) := by omega
  simp [ascii4After, decString_length, ha, e]

theorem bcd2After_format (k : Nat) (hk : k ≤ 9999) :
    bcd2After (format .bcd2 k) = .ok ⟨(k : Int), 2, false⟩ := by
  obtain ⟨y, hy, _, hdec⟩ := C07.bcd_decode_encode (Pref.decString 4 k) [] (decString_digits 4 k)
  rw [encode_bcd_decString4] at hy
  simp only [Res.ok.injEq] at hy
  subst hy
  rw [decString_length, List.append_nil] at hdec
  have ha := atoi_decString 4 k (by omega) (by omega)
  have hdec' : Enc.decode .bcd (format .bcd2 k) 4 = .ok (Pref.decString 4 k, (format .bcd2 k).length) := hdec
  simp only [bcd2After, hdec', ha]
  simp [format]

theorem vmlhAfter_format (k : Nat) (hk : k ≤ 2048) :
    vmlhAfter (format .vmlh k) = .ok ⟨(k : Int), 4, false⟩ := by
  obtain ⟨_, _, c3, c4⟩ := consts_as_documented
  have e1 : (UInt8.ofNat (k / 256)).toNat = k / 256 := ofNat_toNat_lt (by omega)
  have e2 : (UInt8.ofNat (k % 256)).toNat = k % 256 := ofNat_toNat_lt (by omega)
  have e3 : k / 256 * 256 + k % 256 = k := by omega
  have e4 : ¬ (k > Gen.vmlMaxMessageLength) := by rw [c3]; omega
  have hd : Enc.decode .bcd [0] 2 = .ok ([48, 48], 1) := by decide
  simp [-UInt8.ofNat_add, -UInt8.ofNat_mul, vmlhAfter, format, be16, e1, e2, e3, e4, hd, c4]

/-- For every representable length, every tail and EVERY fragmentation of
`written ++ tail` (one byte at a time, empty reads in between, chunks larger than the
header, …): `ReadFrom` succeeds, takes exactly the header's size from the reader and
recovers the length (and, for VMLH, does not report a session-control message). -/
theorem read_write (h : Hdr) (n : Int) (w tail : Bytes) (cs : List Bytes)
    (hr : Representable h n) (hw : write h n = .ok w) (hcs : cs.flatten = w ++ tail) :
    readFrom h cs = .ok ⟨n, size h, false⟩ := by
  obtain ⟨hfmt, hlen⟩ := write_width_format h n hr
  rw [hfmt] at hw
  simp only [Res.ok.injEq] at hw
  subst hw
  have hgot := readFull_prefix cs _ tail hcs
  rw [hlen] at hgot
  obtain ⟨h0, hmax⟩ := hr
  obtain ⟨k, rfl⟩ := Int.eq_ofNat_of_zero_le h0
  simp only [Int.toNat_natCast] at hgot
  cases h with
  | binary2 =>
    simp only [maxLen] at hmax
    simp only [size] at hgot
    simp only [readFrom, binary2ReadFrom, hgot, size]
    exact binary2After_format k (by omega)
  | ascii4 =>
    simp only [maxLen] at hmax
    simp only [size] at hgot
    simp only [readFrom, ascii4ReadFrom, hgot, size]
    exact ascii4After_format k (by omega)
  | bcd2 =>
    simp only [maxLen] at hmax
    simp only [size] at hgot
    simp only [readFrom, bcd2ReadFrom, hgot, size]
    exact bcd2After_format k (by omega)
  | vmlh =>
    simp only [maxLen] at hmax
    simp only [size] at hgot
    simp only [readFrom, vmlhReadFrom, hgot, size]
    exact vmlhAfter_format k (by omega)

/-- The reader is left exactly at the first byte after the header: the remaining chunks
concatenate to `tail`. -/
theorem read_leaves_tail (h : Hdr) (n : Int) (w tail : Bytes) (cs : List Bytes)
    (hr : Representable h n) (hw : write h n = .ok w) (hcs : cs.flatten = w ++ tail) :
    (readFull cs (size h)).2.flatten = tail := by
  obtain ⟨hfmt, hlen⟩ := write_width_format h n hr
  rw [hfmt] at hw
  simp only [Res.ok.injEq] at hw
  subst hw
  rw [(readFull_spec cs (size h)).2, hcs, ← hlen, List.drop_left']
  rfl

/-! ### arbitrary bytes -/

theorem mapM?_decVal_lt : ∀ (s : Bytes) (ds : List Nat), mapM? decVal? s = some ds → ∀ d ∈ ds, d < 10
  | [], ds, h => by simp [mapM?] at h; subst h; simp
  | c :: rest, ds, h => by
    simp only [mapM?] at h
    cases hc : decVal? c with
    | none => simp [hc] at h
    | some y =>
      cases hr : mapM? decVal? rest with
      | none => simp [hc, hr] at h
      | some ys =>
        simp [hc, hr] at h; subst h
        intro d hd
        simp only [List.mem_cons] at hd
        rcases hd with rfl | hd
        · obtain ⟨hdig, hy⟩ := decVal_some hc
          have := hdig.2
          omega
        · exact mapM?_decVal_lt rest ys hr d hd

theorem digits_value_lt (s : Bytes) (ds : List Nat) (h : mapM? decVal? s = some ds) :
    ofDigits 10 ds < 10 ^ s.length := by
  have := ofDigits_lt 10 ds (by omega) (mapM?_decVal_lt s ds h)
  rwa [mapM?_eq_some_length h] at this

/-- `strconv.Atoi` of an `m`-character string is below `10^m` -/
theorem atoi_lt (s : Bytes) (l : Int) (h : atoi? s = some l) : l < ((10 ^ s.length : Nat) : Int) := by
  cases s with
  | nil => simp [atoi?] at h
  | cons c rest =>
    have hpow : 10 ^ (c :: rest).length = 10 ^ rest.length * 10 := by
      simp [Nat.pow_succ]
    have hpos : 0 < 10 ^ rest.length := Nat.pow_pos (by omega)
    simp only [atoi?] at h
    split at h
    · cases rest with
      | nil => simp at h
      | cons r rs =>
        simp only at h
        cases hm : mapM? decVal? (r :: rs) with
        | none => simp [hm] at h
        | some ds =>
          simp only [hm, Option.map_some, Option.some.injEq] at h; subst h
          have := digits_value_lt _ _ hm
          rw [hpow]; omega
    · split at h
      · cases rest with
        | nil => simp at h
        | cons r rs =>
          simp only at h
          cases hm : mapM? decVal? (r :: rs) with
          | none => simp [hm] at h
          | some ds =>
            simp only [hm, Option.map_some, Option.some.injEq] at h; subst h
            rw [hpow]; omega
      · cases hm : mapM? decVal? (c :: rest) with
        | none => simp [hm] at h
        | some ds =>
          simp only [hm, Option.map_some, Option.some.injEq] at h; subst h
          have := digits_value_lt _ _ hm
          omega

theorem binary2After_safe (got : Bytes) :
    (∃ r, binary2After got = .ok r ∧ Representable .binary2 r.length ∧ r.consumed = 2) ∨
      binary2After got = .err := by
  unfold binary2After
  split
  · exact Or.inr rfl
  · rename_i hl
    match got, hl with
    | b0 :: b1 :: rest, hl =>
      refine Or.inl ⟨_, rfl, ?_, ?_⟩
      · have := byte_toNat_lt b0; have := byte_toNat_lt b1
        simp only [Representable, maxLen, be16]; omega
      · simp only [ne_eq, Decidable.not_not] at hl; exact hl
    | [_], hl => simp at hl
    | [], hl => simp at hl

theorem ascii4After_safe (got : Bytes) :
    (∃ r, ascii4After got = .ok r ∧ Representable .ascii4 r.length ∧ r.consumed = 4) ∨
      ascii4After got = .err := by
  unfold ascii4After
  split
  · exact Or.inr rfl
  · split
    · exact Or.inr rfl
    · rename_i hl
      simp only [ne_eq, Decidable.not_not] at hl
      split
      · exact Or.inr rfl
      · split
        · exact Or.inr rfl
        · rename_i l hat hneg
          refine Or.inl ⟨_, rfl, ?_, hl⟩
          have := atoi_lt got l hat
          rw [hl] at this
          simp only [Representable, maxLen]; omega

theorem bcd2After_safe (got : Bytes) :
    (∃ r, bcd2After got = .ok r ∧ Representable .bcd2 r.length ∧ r.consumed = 2) ∨
      bcd2After got = .err := by
  unfold bcd2After
  split
  · exact Or.inr rfl
  · rename_i hl
    simp only [ne_eq, Decidable.not_not] at hl
    cases hdec : Enc.decode .bcd got 4 with
    | err => exact Or.inr rfl
    | panic => exact absurd hdec (bcd_decode_ne_panic got 4)
    | ok p =>
      obtain ⟨ds, r⟩ := p
      obtain ⟨_, _, _, _, hd, _⟩ := C07.decode_ok_sound .bcd got ds 4 r (by decide) hdec
      obtain ⟨hlen, hdig⟩ := hd (Or.inl rfl)
      have hne : ds ≠ [] := by intro h; subst h; simp at hlen
      obtain ⟨k, hk⟩ := atoi_of_digits ds hne hdig
      have hlt := atoi_lt ds k hk
      rw [hlen] at hlt
      simp only [hk]
      refine Or.inl ⟨_, rfl, ?_, hl⟩
      simp only [Representable, maxLen]; omega

theorem vmlhAfter_safe (got : Bytes) :
    (∃ r, vmlhAfter got = .ok r ∧ Representable .vmlh r.length ∧ r.consumed = 4) ∨
      vmlhAfter got = .err := by
  obtain ⟨_, _, c3, _⟩ := consts_as_documented
  unfold vmlhAfter
  split
  · exact Or.inr rfl
  · rename_i hl
    simp only [ne_eq, Decidable.not_not] at hl
    split
    · rename_i b0 b1 rest
      simp only
      split
      · exact Or.inr rfl
      · rename_i hmax
        rw [c3] at hmax
        cases hdec : Enc.decode .bcd (List.drop 3 (b0 :: b1 :: rest)) 2 with
        | err => exact Or.inr rfl
        | panic => exact absurd hdec (bcd_decode_ne_panic _ 2)
        | ok p =>
          obtain ⟨ds, r⟩ := p
          obtain ⟨_, _, _, _, hd, _⟩ := C07.decode_ok_sound .bcd _ ds 2 r (by decide) hdec
          obtain ⟨hlen, _⟩ := hd (Or.inl rfl)
          match ds, hlen with
          | d0 :: _, _ =>
            refine Or.inl ⟨_, rfl, ?_, hl⟩
            simp only [Representable, maxLen]; omega
    · exact Or.inr rfl

/-- For ALL byte contents and ALL fragmentations of the stream, `ReadFrom` either
succeeds — with a length the same header could have written (in particular not
negative), having taken exactly the header's size from the reader — or returns an
error. It never panics. -/
theorem read_in_range_no_panic (h : Hdr) (cs : List Bytes) :
    (∃ r, readFrom h cs = .ok r ∧ Representable h r.length ∧ r.consumed = size h) ∨
      readFrom h cs = .err := by
  cases h with
  | binary2 => exact binary2After_safe _
  | ascii4 => exact ascii4After_safe _
  | bcd2 => exact bcd2After_safe _
  | vmlh => exact vmlhAfter_safe _

/-- For ALL byte contents and ALL fragmentations of the stream, `ReadFrom` either
succeeds with a non-negative length, having taken exactly the header's size from the
reader, or returns an error. It never panics and never reports a negative length. -/
theorem read_never_negative_no_panic (h : Hdr) (cs : List Bytes) :
    (∃ r, readFrom h cs = .ok r ∧ 0 ≤ r.length ∧ r.consumed = size h) ∨ readFrom h cs = .err := by
  rcases read_in_range_no_panic h cs with ⟨r, h1, h2, h3⟩ | he
  · exact Or.inl ⟨r, h1, h2.1, h3⟩
  · exact Or.inr he

theorem read_ne_panic (h : Hdr) (cs : List Bytes) : readFrom h cs ≠ .panic := by
  rcases read_never_negative_no_panic h cs with ⟨r, hr, _⟩ | hr <;> rw [hr] <;> simp

/-! ### a stream that ends inside the header -/

/-- If the chunks hold fewer bytes than the header's size — the stream ends early, at
any offset and under any fragmentation — `ReadFrom` returns an error. -/
theorem short_stream_fails (h : Hdr) (cs : List Bytes) (hs : cs.flatten.length < size h) :
    readFrom h cs = .err := by
  have hl : ∀ n, (readFull cs n).1.length ≤ cs.flatten.length := by
    intro n; rw [readFull_got]; simp [List.length_take]; omega
  cases h with
  | binary2 =>
    have := hl 2; simp only [size] at hs
    have e : (readFull cs 2).1.length ≠ 2 := by omega
    simp [readFrom, binary2ReadFrom, binary2After, e]
  | ascii4 =>
    have := hl 4; simp only [size] at hs
    have e : (readFull cs 4).1.length < 4 := by omega
    simp [readFrom, ascii4ReadFrom, ascii4After, e]
  | bcd2 =>
    have := hl 2; simp only [size] at hs
    have e : (readFull cs 2).1.length ≠ 2 := by omega
    simp [readFrom, bcd2ReadFrom, bcd2After, e]
  | vmlh =>
    have := hl 4; simp only [size] at hs
    have e : (readFull cs 4).1.length ≠ 4 := by omega
    simp [readFrom, vmlhReadFrom, vmlhAfter, e]

/-! Non-vacuity: the hypotheses are satisfiable and the edges behave as stated. -/
example : Representable .ascii4 9999 ∧ ¬ Representable .ascii4 10000 ∧ ¬ Representable .binary2 (-1) := by decide
example : write .ascii4 115 = .ok [48, 49, 49, 53] := by decide
example : write .bcd2 9999 = .ok [0x99, 0x99] ∧ write .bcd2 10000 = .err := by decide
example : write .binary2 65535 = .ok [0xFF, 0xFF] ∧ write .binary2 65536 = .err ∧ write .binary2 (-1) = .err := by decide
example : write .vmlh 2048 = .ok [8, 0, 0, 0] ∧ write .vmlh 2049 = .err ∧ write .vmlh (-65000) = .err := by decide
example : ([[48], [], [49, 49], [53, 0xFF]] : List Bytes).flatten = [48, 49, 49, 53] ++ [0xFF] := by decide
example : readFrom .ascii4 [[48], [], [49, 49], [53, 0xFF]] = .ok ⟨115, 4, false⟩ := by decide
example : readFrom .ascii4 [[45, 48, 48, 49]] = .err := by decide
example : readFrom .bcd2 [[0x12], [0x34, 0x56]] = .ok ⟨1234, 2, false⟩ ∧ readFrom .bcd2 [[0x1A, 0x34]] = .err := by decide
example : readFrom .vmlh [[0, 16], [0, 0x20]] = .ok ⟨16, 4, true⟩ ∧ readFrom .vmlh [[8, 1, 0, 0]] = .err := by decide
example : readFrom .binary2 [[1]] = .err ∧ readFrom .vmlh [[0], [16, 0]] = .err := by decide

end Iso8583.C16
